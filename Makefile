# dmc build. Everything under build/ (ignored). Checks rebuild from $(DISPENSO_SRC) (default /repo).
DISPENSO_SRC ?= /repo
B ?= build
CXX := clang++
MODES := asan tsan plain plain4

TUNE := -DDISPENSO_TUNE_FIXED_SPIN_ITERS=2 -DDISPENSO_TUNE_SPIN_CHECK_INTERVAL=1 -DDISPENSO_TUNE_QUEUE_CHECK_INTERVAL=1
COMMON := -std=c++14 -g -DNDEBUG -DDISPENSO_VERIF_MC=1 -fno-omit-frame-pointer -Wno-unused-command-line-argument \
  -I$(DISPENSO_SRC) -isystem $(DISPENSO_SRC)/dispenso/third-party -Iengine $(TUNE) $(EXTRA_DEFS)
SHIM := -include engine/mc_shim.h

FLAGS_asan := -O1 -fsanitize=address,undefined -fno-sanitize-recover=undefined -fno-sanitize=vptr,function -DMC_MODE='"asan"'
FLAGS_tsan := -O1 -fsanitize=thread -DMC_MODE='"tsan"'
FLAGS_plain := -O2 -DMC_MODE='"plain"'
# plain4: as plain, but a worker makes two full passes over its work sources before it parks instead of one. With
# one pass a worker that loses a single fail-fast MpmcRingBuffer::try_pop race parks at once, which the shipped
# configuration (200-400 passes) never does; C07, which forbids the backstop, is decided on this variant.
FLAGS_plain4 := $(FLAGS_plain) -UDISPENSO_TUNE_FIXED_SPIN_ITERS -DDISPENSO_TUNE_FIXED_SPIN_ITERS=4

WRAP := -Wl,--wrap=__cxa_guard_acquire -Wl,--wrap=__cxa_guard_release -Wl,--wrap=__cxa_guard_abort
LIBS := -rdynamic -lpthread -ldl

DSRC := $(filter-out $(DISPENSO_SRC)/dispenso/timing.cpp,$(wildcard $(DISPENSO_SRC)/dispenso/*.cpp $(DISPENSO_SRC)/dispenso/detail/*.cpp))
HSRC := $(wildcard harness/*.cpp)
HNAMES := $(notdir $(basename $(HSRC)))
SEQSRC := $(wildcard seq/*.cpp)
SEQNAMES := $(notdir $(basename $(SEQSRC)))

ENGINE_OBJS := $(B)/engine/mc_sched.o $(B)/engine/mc_explore.o

.PHONY: all engine clean seq
all: engine $(foreach m,$(MODES),$(foreach h,$(HNAMES),$(B)/$(m)/$(h))) seq
engine: $(ENGINE_OBJS)
seq: $(foreach s,$(SEQNAMES),$(B)/seq/$(s))

$(B)/engine/%.o: engine/%.cpp engine/mc_internal.h engine/mc_api.h
	@mkdir -p $(@D)
	@echo "  CXX $@"; g++ -std=c++17 -O2 -g -fno-omit-frame-pointer -Iengine -c $< -o $@

define MODE_RULES
$(B)/$(1)/dispenso/%.o: $(DISPENSO_SRC)/dispenso/%.cpp engine/mc_shim.h engine/mc_api.h
	@mkdir -p $$(@D)
	@echo "  CXX $$@"; $(CXX) $(COMMON) $(SHIM) $$(FLAGS_$(1)) -MMD -MP -c $$< -o $$@
$(B)/$(1)/timing_virtual.o: engine/timing_virtual.cpp engine/mc_shim.h
	@mkdir -p $$(@D)
	@echo "  CXX $$@"; $(CXX) $(COMMON) $(SHIM) $$(FLAGS_$(1)) -MMD -MP -c $$< -o $$@
$(B)/$(1)/libdispenso_mc.a: $$(patsubst $(DISPENSO_SRC)/dispenso/%.cpp,$(B)/$(1)/dispenso/%.o,$(DSRC)) $(B)/$(1)/timing_virtual.o
	@rm -f $$@
	@ar rcs $$@ $$^
$(B)/$(1)/mc_harness_rt.o: engine/mc_harness_rt.cpp engine/mc_harness.h engine/mc_shim.h engine/mc_api.h
	@mkdir -p $$(@D)
	@echo "  CXX $$@"; $(CXX) $(COMMON) $(SHIM) $$(FLAGS_$(1)) -c $$< -o $$@
$(B)/$(1)/h/%.o: harness/%.cpp engine/mc_harness.h engine/mc_shim.h engine/mc_api.h
	@mkdir -p $$(@D)
	@echo "  CXX $$@"; $(CXX) $(COMMON) $(SHIM) $$(FLAGS_$(1)) -fno-access-control -MMD -MP -c $$< -o $$@
$(B)/$(1)/%: $(B)/$(1)/h/%.o $(B)/$(1)/mc_harness_rt.o $(B)/$(1)/libdispenso_mc.a $(ENGINE_OBJS)
	@echo "  LD  $$@"; $(CXX) $$(FLAGS_$(1)) $$< $(B)/$(1)/mc_harness_rt.o $(ENGINE_OBJS) $(B)/$(1)/libdispenso_mc.a $(WRAP) $(LIBS) -o $$@
endef
$(foreach m,$(MODES),$(eval $(call MODE_RULES,$(m))))

# sequential enumerators: plain C++ programs against the unmodified headers, ASan+UBSan
SEQFLAGS := -std=c++17 -O1 -g -DNDEBUG -fsanitize=address,undefined -fno-sanitize-recover=undefined -fno-sanitize=vptr,function \
  -I$(DISPENSO_SRC) -isystem $(DISPENSO_SRC)/dispenso/third-party -Iseq -fno-access-control
SEQ_DSRC := $(wildcard $(DISPENSO_SRC)/dispenso/*.cpp $(DISPENSO_SRC)/dispenso/detail/*.cpp)
$(B)/seqlib/%.o: $(DISPENSO_SRC)/dispenso/%.cpp
	@mkdir -p $(@D)
	@echo "  CXX $@"; $(CXX) $(SEQFLAGS) -std=c++14 -MMD -MP -c $< -o $@
$(B)/seqlib/libdispenso.a: $(patsubst $(DISPENSO_SRC)/dispenso/%.cpp,$(B)/seqlib/%.o,$(SEQ_DSRC))
	@rm -f $@
	@ar rcs $@ $^
$(B)/seq/%: seq/%.cpp seq/seq_common.h $(B)/seqlib/libdispenso.a
	@mkdir -p $(@D)
	@echo "  CXX $@"; $(CXX) $(SEQFLAGS) $(SEQ_EXTRA_$*) -MMD -MP $< $(B)/seqlib/libdispenso.a -lpthread -o $@

clean:
	rm -rf $(B)

.SECONDARY:
-include $(shell find $(B) -name '*.d' 2>/dev/null)

# what MANIFEST.setup_cmd builds: the engine and the per-mode dispenso archives (checks build their own harnesses)
.PHONY: setup
setup: engine $(foreach m,$(MODES),$(B)/$(m)/libdispenso_mc.a $(B)/$(m)/mc_harness_rt.o) $(B)/seqlib/libdispenso.a $(B)/plain/selftest $(B)/asan/selftest $(B)/tsan/selftest
	python3 bin/selftest
