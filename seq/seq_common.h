// Common helpers for the sequential bounded-exhaustive enumerators (no scheduler involved).
// A driver enumerates a finite domain completely, checks every case against a reference model and
// prints one line  SEQRESULT {json}  that bin/check merges into the evidence file.
#pragma once
#include <algorithm>
#include <chrono>
#include <cstdarg>
#include <cstdint>
#include <cstdio>
#include <cstdlib>
#include <cstring>
#include <set>
#include <string>
#include <unordered_map>
#include <unordered_set>
#include <vector>
#include <sys/stat.h>

namespace seq {

struct Report {
  std::string name;
  uint64_t evaluations = 0; // cases executed
  std::set<uint64_t> distinct; // hashes of distinct non-trivial cases (bounded in size, see add_distinct)
  uint64_t distinct_overflow = 0; // distinct cases counted after the set was capped (only if provably distinct)
  std::string rule;
  std::vector<std::string> samples; // JSON fragments
  bool exhaustive = true;
  std::string domain; // human-readable description of the domain that was enumerated
  struct Viol {
    std::string msg;
    std::string replay;
  };
  std::vector<Viol> violations;
  std::chrono::steady_clock::time_point t0 = std::chrono::steady_clock::now();
  std::string replay_dir = "replays";
  size_t max_violations = 5;

  void add_distinct(uint64_t h) {
    if (distinct.size() < 2000000) distinct.insert(h);
  }
  void sample(const std::string& json_fragment) {
    if (samples.size() < 5) samples.push_back(json_fragment);
  }
  // records a violation, writes a replay artefact holding `replay_text` (the failing input / history)
  void violation(const std::string& msg, const std::string& replay_text) {
    for (auto& v : violations)
      if (v.msg == msg) return;
    if (violations.size() >= max_violations) return;
    if (const char* e = getenv("VERIF_REPLAY_DIR")) replay_dir = e; // trial runs against patched sources keep their artefacts apart
    mkdir(replay_dir.c_str(), 0755);
    std::string path = replay_dir + "/" + name + "." + std::to_string(violations.size()) + ".txt";
    FILE* f = fopen(path.c_str(), "w");
    if (f) {
      fprintf(f, "seq-replay 1\nchecker %s\nmessage %s\ninput\n%s\n", name.c_str(), msg.c_str(), replay_text.c_str());
      fclose(f);
    }
    violations.push_back({msg, path});
  }
  bool full() const { return violations.size() >= max_violations; }

  static std::string esc(const std::string& s) {
    std::string o;
    for (char c : s) {
      if (c == '"' || c == '\\') {
        o += '\\';
        o += c;
      } else if (c == '\n')
        o += "\\n";
      else if ((unsigned char)c < 0x20)
        o += ' ';
      else
        o += c;
    }
    return o;
  }
  int finish() {
    double wall = std::chrono::duration<double>(std::chrono::steady_clock::now() - t0).count();
    std::string js = "{\"checker\":\"" + esc(name) + "\",\"evaluations\":" + std::to_string(evaluations) +
        ",\"distinct_nontrivial\":" + std::to_string(distinct.size() + distinct_overflow) + ",\"rule\":\"" + esc(rule) +
        "\",\"domain\":\"" + esc(domain) + "\",\"exhaustive\":" + (exhaustive ? "true" : "false") + ",\"samples\":[";
    for (size_t i = 0; i < samples.size(); i++) js += (i ? "," : "") + samples[i];
    js += "],\"violations\":[";
    for (size_t i = 0; i < violations.size(); i++)
      js += std::string(i ? "," : "") + "{\"msg\":\"" + esc(violations[i].msg) + "\",\"replay\":\"" + esc(violations[i].replay) + "\"}";
    js += "],\"wall_s\":" + std::to_string(wall) + "}";
    printf("SEQRESULT %s\n", js.c_str());
    fflush(stdout);
    return violations.empty() ? 0 : 1;
  }
};

inline std::string fmt(const char* f, ...) {
  char buf[2048];
  va_list ap;
  va_start(ap, f);
  vsnprintf(buf, sizeof buf, f, ap);
  va_end(ap);
  return buf;
}

inline uint64_t mix(uint64_t h, uint64_t v) {
  h ^= v + 0x9e3779b97f4a7c15ULL + (h << 6) + (h >> 2);
  h *= 0xbf58476d1ce4e5b9ULL;
  h ^= h >> 29;
  return h;
}

// ---- lifetime tracking for element types ------------------------------------------------------
// Registry of live objects by address. Constructing over a live object, destroying a non-live one,
// or ending with live objects are reported through error(); the enumerator turns that into a
// violation with the current history as the replay.
struct Registry {
  std::unordered_map<const void*, long> live;
  long constructed = 0, destroyed = 0;
  std::string error; // first error
  void ctor(const void* p, long tag) {
    constructed++;
    auto it = live.find(p);
    if (it != live.end()) {
      if (error.empty()) error = fmt("constructed over a live object (new tag %ld over tag %ld)", tag, it->second);
      it->second = tag;
      return;
    }
    live.emplace(p, tag);
  }
  void dtor(const void* p) {
    destroyed++;
    auto it = live.find(p);
    if (it == live.end()) {
      if (error.empty()) error = "destructor on an object that is not live (double destroy or never constructed)";
      return;
    }
    live.erase(it);
  }
  void use(const void* p) {
    if (!live.count(p) && error.empty()) error = "use of an object that is not live";
  }
  void reset() {
    live.clear();
    constructed = destroyed = 0;
    error.clear();
  }
};
inline Registry& registry() {
  static thread_local Registry r; // per thread: enumerators may split a domain over several threads
  return r;
}

template <class T>
struct Tracked {
  T v;
  Tracked() : v() { registry().ctor(this, -1); }
  Tracked(const T& x) : v(x) { registry().ctor(this, (long)x); }
  Tracked(const Tracked& o) : v(o.v) {
    registry().use(&o);
    registry().ctor(this, (long)v);
  }
  Tracked(Tracked&& o) noexcept : v(o.v) {
    registry().use(&o);
    registry().ctor(this, (long)v);
    o.v = T(-7); // moved-from marker: value unspecified but object still live
  }
  Tracked& operator=(const Tracked& o) {
    registry().use(&o);
    registry().use(this);
    v = o.v;
    return *this;
  }
  Tracked& operator=(Tracked&& o) noexcept {
    registry().use(&o);
    registry().use(this);
    v = o.v;
    if (&o != this) o.v = T(-7);
    return *this;
  }
  ~Tracked() { registry().dtor(this); }
  bool operator==(const Tracked& o) const { return v == o.v; }
  bool operator!=(const Tracked& o) const { return v != o.v; }
  bool operator<(const Tracked& o) const { return v < o.v; }
};

} // namespace seq
