// C43 — CpuSet set algebra, Linux CPU-list parsing and cache-topology grouping.
//
// Three bounded-exhaustive enumerations against the real dispenso code (public entry points only:
// CpuSet::{add,addRange,remove,removeRange,contains,count}, detail::parseLinuxCpuList,
// detail::buildGroupsFromCacheTopology; all three are exported from cpu_set.cpp, so the prebuilt library
// is linked and nothing from cpu_set.cpp is re-included here).
//
//  (a) algebra : every sequence up to depth D over {add,remove,addRange,removeRange} x ids
//                {0,1,63,64,1023,1024,-1,-5,INT32_MAX} (180 operations), BFS over histories with histories
//                reaching the same 1024-bit contents merged (CpuSet has no state besides its bits), each
//                (state,op) replayed on a fresh object and compared with a std::set<int> model restricted to
//                [0,1024).  In addition every sequence up to depth U is run WITHOUT merging (against the same
//                reference semantics on a 1024-bit vector, which is cheap to copy per node).
//  (b) parser  : every string up to length L over {'0','1','9',',','-',' ','\n','x'} plus every list of
//                <=3 items (single id or lo-hi, bounds from the non-negative ids) with/without a trailing
//                newline.  Reference grammar:  list := "" | item ("," item)* ; item := num | num "-" num with
//                lo<=hi ; num := [0-9]+ ; one optional trailing '\n'.  Well-formed => exactly the denoted ids
//                in [0,1024).  Anything else => only "no crash/UB (ASan+UBSan) and nothing outside [0,1024)".
//  (c) grouping: every topology with <=N CPUs: every set partition into L2 groups x every assignment of the
//                L2 groups to {unknown, L3 #0, #1, #2} x maxGroupSize 1..M, under two CPU-id maps (dense and
//                sparse up to 1023); the four clauses of the statement are checked on the output.
#include <dispenso/cpu_set.h>

#include <atomic>
#include <bitset>
#include <climits>
#include <fstream>
#include <map>
#include <sstream>
#include <thread>

#include "seq_common.h"

// buildGroupsFromCacheTopology calls std::thread::hardware_concurrency() on every call (only to size a lookup
// vector); with this glibc that is get_nprocs(), which opens and reads /sys/devices/system/cpu/online each time
// (3 syscalls, ~300us per case with 8 threads contending on sysfs; measured 680k openat calls in the quick tier).
// Interpose get_nprocs in this executable with a version that asks the real one once and caches the answer: same
// value, dispenso code untouched.
#include <dlfcn.h>
extern "C" int get_nprocs(void) {
  static const int cached = [] {
    typedef int (*Fn)(void);
    Fn real = (Fn)dlsym(RTLD_NEXT, "get_nprocs");
    int v = real ? real() : 0;
    return v > 0 ? v : 1;
  }();
  return cached;
}

// ASan's default 256 MB quarantine makes this allocation-heavy, 8-thread enumeration spend most of its time in page
// faults on ever-fresh memory (measured: 134 s sys / 90 s wall vs 17 s sys / 21 s wall for the quick tier). Every case
// allocates < 2 KB and frees it before the next case, so an 8 MB quarantine still holds thousands of cases' worth of
// freed blocks: use-after-free / double-free detection for the code under test is unaffected. ASAN_OPTIONS overrides.
extern "C" __attribute__((no_sanitize("address"), used, visibility("default"))) const char* __asan_default_options() {
  return "quarantine_size_mb=8:thread_local_quarantine_size_kb=64";
}

using dispenso::CacheGroup;
using dispenso::CpuSet;
using dispenso::ThreadGroup;

static const int kCap = 1024; // documented representable range [0,1024)
typedef std::bitset<1024> Bits;

// ------------------------------------------------------------------------------------------------
// failure bookkeeping: one violation per category (first one in deterministic enumeration order)
// ------------------------------------------------------------------------------------------------
struct Fail {
  std::string cat, msg, replay;
};
struct Chunk {
  uint64_t evals = 0;
  std::vector<uint64_t> hashes; // non-trivial cases (all distinct by construction of the enumeration)
  std::vector<Fail> fails;
  std::vector<std::string> samples;
  void fail(const std::string& cat, const std::string& msg, const std::string& replay) {
    for (auto& f : fails)
      if (f.cat == cat) return;
    fails.push_back({cat, msg, replay});
  }
};

static seq::Report report;
static std::map<std::string, uint64_t> g_failChunks;

static void nontrivial(uint64_t h) {
  if (report.distinct.size() < 2000000) {
    report.distinct.insert(h);
  } else {
    report.distinct_overflow++; // every enumerated case is a different input by construction
  }
}
static void mergeChunk(const Chunk& c) {
  report.evaluations += c.evals;
  for (uint64_t h : c.hashes) nontrivial(h);
  for (auto& f : c.fails) {
    if (g_failChunks[f.cat]++ == 0) report.violation(f.cat + ": " + f.msg, f.replay);
  }
  for (auto& s : c.samples) report.sample(s);
}

template <class F>
static void runChunks(size_t n, F f) {
  std::vector<Chunk> res(n);
  std::atomic<size_t> next{0};
  auto worker = [&] {
    for (;;) {
      size_t j = next++;
      if (j >= n) break;
      size_t i = n - 1 - j; // chunks are listed simplest-first and executed biggest-first (load balance)
      f(i, res[i]);
    }
  };
  std::vector<std::thread> th;
  for (int t = 0; t < 8; t++) th.emplace_back(worker);
  for (auto& t : th) t.join();
  for (auto& c : res) mergeChunk(c); // deterministic: chunk order
}

static uint64_t hashStr(uint64_t seed, const std::string& s) {
  uint64_t h = seed;
  for (unsigned char c : s) h = seq::mix(h, c);
  return seq::mix(h, s.size());
}

static Bits bitsOf(const CpuSet& cs) {
  Bits b;
  for (int i = 0; i < kCap; i++)
    if (cs.contains(i)) b.set((size_t)i);
  return b;
}
// nothing representable outside [0,1024) and count() consistent with contains()
static std::string checkOutside(const CpuSet& cs, const Bits& b) {
  static const int32_t probes[] = {-1, -5, -8, -64, -1024, INT32_MIN, 1024, 1025, 1087, 1088, 2047, 2048, 1 << 20, INT32_MAX};
  for (int32_t p : probes)
    if (cs.contains(p)) return seq::fmt("contains(%d) is true for an id outside [0,1024)", p);
  if (cs.count() != (int32_t)b.count())
    return seq::fmt("count()=%d but %zu ids in [0,1024) are contained", cs.count(), b.count());
  return "";
}
static std::string bitsToText(const Bits& b) {
  std::string s = "{";
  int run = -1;
  for (int i = 0; i <= kCap; i++) {
    bool on = i < kCap && b.test((size_t)i);
    if (on && run < 0) run = i;
    if (!on && run >= 0) {
      if (s.size() > 1) s += ",";
      s += (run == i - 1) ? std::to_string(run) : std::to_string(run) + "-" + std::to_string(i - 1);
      run = -1;
    }
  }
  return s + "}";
}

// ================================================================================================
// (a) set algebra
// ================================================================================================
struct Op {
  int kind; // 0 add 1 remove 2 addRange 3 removeRange
  int32_t a, b;
};
static const int32_t kIds[] = {0, 1, 63, 64, 1023, 1024, -1, -5, INT32_MAX};
static const int kNumIds = 9;
static std::vector<Op> g_ops;
static void buildOps() {
  for (int kind = 0; kind < 2; kind++)
    for (int i = 0; i < kNumIds; i++) g_ops.push_back({kind, kIds[i], 0});
  for (int kind = 2; kind < 4; kind++)
    for (int i = 0; i < kNumIds; i++)
      for (int j = 0; j < kNumIds; j++) g_ops.push_back({kind, kIds[i], kIds[j]});
}
static std::string opText(const Op& o) {
  static const char* names[] = {"add", "remove", "addRange", "removeRange"};
  if (o.kind < 2) return seq::fmt("%s(%d)", names[o.kind], o.a);
  return seq::fmt("%s(%d,%d)", names[o.kind], o.a, o.b);
}
static std::string histText(const std::vector<Op>& h) {
  std::string s;
  for (size_t i = 0; i < h.size(); i++) s += (i ? ";" : "") + opText(h[i]);
  return s;
}
static void applyReal(CpuSet& cs, const Op& o) {
  switch (o.kind) {
    case 0: cs.add(o.a); break;
    case 1: cs.remove(o.a); break;
    case 2: cs.addRange(o.a, o.b); break;
    default: cs.removeRange(o.a, o.b); break;
  }
}
// reference: a mathematical set over [0,1024); ids outside are ignored
static void applyModel(std::set<int>& m, const Op& o) {
  if (o.kind < 2) {
    if (o.a >= 0 && o.a < kCap) {
      if (o.kind == 0) m.insert(o.a);
      else m.erase(o.a);
    }
    return;
  }
  int64_t lo = std::max<int64_t>(o.a, 0), hi = std::min<int64_t>(o.b, kCap);
  for (int64_t i = lo; i < hi; i++) {
    if (o.kind == 2) m.insert((int)i);
    else m.erase((int)i);
  }
}
static bool opTouchesRange(const Op& o) {
  if (o.kind < 2) return o.a >= 0 && o.a < kCap;
  return std::max<int64_t>(o.a, 0) < std::min<int64_t>(o.b, kCap);
}
static std::string checkAlgebraBits(const CpuSet& cs, const Bits& exp) {
  Bits got = bitsOf(cs);
  if (got != exp) {
    Bits d = got ^ exp;
    size_t i = d._Find_first();
    return seq::fmt("contains(%zu)=%d, model says %d", i, (int)got.test(i), (int)exp.test(i));
  }
  std::string e = checkOutside(cs, got);
  if (!e.empty()) return e;
  if (cs.count() != (int32_t)exp.count()) return seq::fmt("count()=%d, model size %zu", cs.count(), exp.count());
  return "";
}
static std::string checkAlgebraState(const CpuSet& cs, const std::set<int>& m) {
  Bits exp;
  for (int v : m) exp.set((size_t)v);
  if (exp.count() != m.size()) return "internal: model/bitset mismatch";
  return checkAlgebraBits(cs, exp);
}
// the same reference semantics on a 1024-bit vector (cheap to copy; used by the unmerged cross-check run only)
static void applyModelBits(Bits& m, const Op& o) {
  if (o.kind < 2) {
    if (o.a >= 0 && o.a < kCap) m.set((size_t)o.a, o.kind == 0);
    return;
  }
  int64_t lo = std::max<int64_t>(o.a, 0), hi = std::min<int64_t>(o.b, kCap);
  for (int64_t i = lo; i < hi; i++) m.set((size_t)i, o.kind == 2);
}
static std::string keyOf(const Bits& b) {
  std::string k(128, '\0');
  for (int i = 0; i < kCap; i++)
    if (b.test((size_t)i)) k[(size_t)i / 8] |= (char)(1 << (i % 8));
  return k;
}
// runs one history on a fresh object, comparing after every step; returns "" or the first mismatch
static std::string runHistory(const std::vector<Op>& h, bool verbose) {
  CpuSet cs;
  std::set<int> m;
  std::string e = checkAlgebraState(cs, m);
  if (!e.empty()) return "fresh object: " + e;
  for (size_t i = 0; i < h.size(); i++) {
    applyReal(cs, h[i]);
    applyModel(m, h[i]);
    e = checkAlgebraState(cs, m);
    if (verbose) printf("  step %zu %s -> %s count=%d %s\n", i, opText(h[i]).c_str(), bitsToText(bitsOf(cs)).c_str(), cs.count(), e.empty() ? "ok" : e.c_str());
    if (!e.empty()) return seq::fmt("after step %zu %s: ", i, opText(h[i]).c_str()) + e;
  }
  return "";
}

static void algebraMerged(int depth, std::string& closure) {
  Chunk c;
  std::unordered_map<std::string, int> seen;
  std::vector<std::pair<std::string, std::vector<Op>>> frontier, next;
  {
    CpuSet cs;
    std::set<int> m;
    std::string e = checkAlgebraState(cs, m);
    c.evals++;
    if (!e.empty()) c.fail("algebra", "fresh CpuSet: " + e, "algebra ");
    frontier.push_back({keyOf(bitsOf(cs)), {}});
    seen[frontier[0].first] = 0;
  }
  closure = "not closed";
  for (int d = 0; d < depth; d++) {
    next.clear();
    for (auto& st : frontier) {
      for (const Op& op : g_ops) {
        CpuSet cs;
        std::set<int> m;
        for (const Op& o : st.second) {
          applyReal(cs, o);
          applyModel(m, o);
        }
        if (keyOf(bitsOf(cs)) != st.first) // canonical form must be reproduced by the replay
          c.fail("algebra-replay", "history does not reproduce its canonical state: " + histText(st.second), "algebra " + histText(st.second));
        applyReal(cs, op);
        applyModel(m, op);
        c.evals++;
        std::vector<Op> h2 = st.second;
        h2.push_back(op);
        std::string e = checkAlgebraState(cs, m);
        if (!e.empty()) c.fail("algebra", histText(h2) + ": " + e, "algebra " + histText(h2));
        if (opTouchesRange(op)) c.hashes.push_back(seq::mix(seq::mix(seq::mix(hashStr(0xA1, st.first), (uint64_t)op.kind), (uint32_t)op.a), (uint32_t)op.b));
        if (d == 1 && c.samples.size() < 1 && op.kind == 3 && !m.empty()) c.samples.push_back("{\"ops\":\"" + histText(h2) + "\",\"result\":\"" + bitsToText(bitsOf(cs)) + "\"}");
        std::string k2 = keyOf(bitsOf(cs));
        if (!seen.count(k2)) {
          seen[k2] = d + 1;
          next.push_back({k2, h2});
        }
      }
    }
    fprintf(stderr, "[algebra] depth %d: %zu states expanded, %zu new, %zu total\n", d + 1, frontier.size(), next.size(), seen.size());
    if (next.empty()) {
      closure = seq::fmt("state space closed at depth %d with %zu states (so all longer sequences are covered too)", d + 1, seen.size());
      break;
    }
    frontier.swap(next);
  }
  if (closure == "not closed") closure = seq::fmt("%zu distinct states reached", seen.size());
  mergeChunk(c);
}

static void dfsUnmerged(const CpuSet& cs, const Bits& m, std::vector<Op>& hist, int left, Chunk& c) {
  for (const Op& op : g_ops) {
    CpuSet c2 = cs;
    Bits m2 = m;
    applyReal(c2, op);
    applyModelBits(m2, op);
    hist.push_back(op);
    c.evals++;
    std::string e = checkAlgebraBits(c2, m2);
    if (!e.empty()) c.fail("algebra-unmerged", histText(hist) + ": " + e, "algebra " + histText(hist));
    if (left > 1) dfsUnmerged(c2, m2, hist, left - 1, c);
    hist.pop_back();
  }
}
static void algebraUnmerged(int depth) {
  runChunks(g_ops.size(), [&](size_t i, Chunk& c) {
    CpuSet cs;
    Bits m;
    std::vector<Op> hist;
    const Op& op = g_ops[i];
    applyReal(cs, op);
    applyModelBits(m, op);
    hist.push_back(op);
    c.evals++;
    std::string e = checkAlgebraBits(cs, m);
    if (!e.empty()) c.fail("algebra-unmerged", histText(hist) + ": " + e, "algebra " + histText(hist));
    if (depth > 1) dfsUnmerged(cs, m, hist, depth - 1, c);
  });
}

// ================================================================================================
// (b) parser
// ================================================================================================
// Reference for the Linux cpu-list format as sysfs prints it ("0-3,8-11\n", empty set = "\n").
static bool refParse(const std::string& s, Bits& out) {
  out.reset();
  size_t n = s.size();
  if (n && s[n - 1] == '\n') n--;
  if (n == 0) return true;
  size_t i = 0;
  auto num = [&](uint64_t& v) {
    size_t st = i;
    v = 0;
    while (i < n && s[i] >= '0' && s[i] <= '9') {
      if (v < (1ull << 60)) v = v * 10 + (uint64_t)(s[i] - '0'); // saturate far above any bound used
      i++;
    }
    return i > st;
  };
  for (;;) {
    uint64_t lo, hi;
    if (!num(lo)) return false;
    hi = lo;
    if (i < n && s[i] == '-') {
      i++;
      if (!num(hi)) return false;
      if (hi < lo) return false;
    }
    for (uint64_t v = lo; v <= hi && v < (uint64_t)kCap; v++) out.set((size_t)v);
    if (i == n) return true;
    if (s[i] != ',') return false;
    i++;
  }
}
static std::string hexOf(const std::string& s) {
  std::string o;
  for (unsigned char c : s) o += seq::fmt("%02x", c);
  return o;
}
static void checkParse(const std::string& s, Chunk& c, uint64_t seed, bool verbose = false) {
  Bits exp;
  bool wf = refParse(s, exp);
  CpuSet cs = dispenso::detail::parseLinuxCpuList(s.c_str());
  c.evals++;
  Bits got = bitsOf(cs);
  std::string replay = "parse " + hexOf(s);
  if (verbose)
    printf("  input \"%s\" well-formed=%d expected=%s got=%s count=%d\n", seq::Report::esc(s).c_str(), (int)wf, wf ? bitsToText(exp).c_str() : "(unconstrained)", bitsToText(got).c_str(), cs.count());
  std::string e = checkOutside(cs, got);
  if (!e.empty()) c.fail("parse-outside", "\"" + seq::Report::esc(s) + "\": " + e, replay);
  if (wf && got != exp)
    c.fail("parse-wellformed", "\"" + seq::Report::esc(s) + "\" denotes " + bitsToText(exp) + " in [0,1024) but parseLinuxCpuList gave " + bitsToText(got), replay);
  bool hasDigit = false;
  for (char ch : s) hasDigit |= (ch >= '0' && ch <= '9');
  if (hasDigit) c.hashes.push_back(hashStr(seed, s));
}
static const char kAlpha[] = {'0', '1', '9', ',', '-', ' ', '\n', 'x'};
static bool overSmallAlphabet(const std::string& s) {
  for (char ch : s) {
    bool in = false;
    for (char a : kAlpha) in |= (a == ch);
    if (!in) return false;
  }
  return true;
}
static void parserStrings(int maxLen) {
  // chunk 0: lengths 0 and 1; then for len = 2..maxLen, 64 chunks (one per 2-char prefix): shortest failing string first
  size_t nChunks = 1 + (maxLen >= 2 ? (size_t)(maxLen - 1) * 64 : 0);
  runChunks(nChunks, [&](size_t ci, Chunk& c) {
    if (ci == 0) {
      checkParse("", c, 0xB1);
      for (char a : kAlpha) checkParse(std::string(1, a), c, 0xB1);
      return;
    }
    int len = 2 + (int)((ci - 1) / 64);
    size_t pi = (ci - 1) % 64;
    int rest = len - 2;
    uint64_t total = 1;
    for (int i = 0; i < rest; i++) total *= 8;
    std::string s(2 + (size_t)rest, '0');
    s[0] = kAlpha[pi / 8];
    s[1] = kAlpha[pi % 8];
    for (uint64_t x = 0; x < total; x++) {
      uint64_t y = x;
      for (int i = rest - 1; i >= 0; i--) {
        s[(size_t)(2 + i)] = kAlpha[y & 7];
        y >>= 3;
      }
      checkParse(s, c, 0xB1);
      if (pi == 4 && len == 5 && x == 8 && c.samples.empty()) c.samples.push_back("{\"parse\":\"" + seq::Report::esc(s) + "\"}");
    }
  });
}
static void parserLists(int maxLen) {
  static const int64_t nn[] = {0, 1, 63, 64, 1023, 1024, INT32_MAX};
  std::vector<std::string> items; // simplest first: singles, then lo<=hi ranges, then reversed ranges (malformed)
  for (int64_t v : nn) items.push_back(std::to_string(v));
  for (int64_t lo : nn)
    for (int64_t hi : nn)
      if (lo <= hi) items.push_back(std::to_string(lo) + "-" + std::to_string(hi));
  for (int64_t lo : nn)
    for (int64_t hi : nn)
      if (lo > hi) items.push_back(std::to_string(lo) + "-" + std::to_string(hi));
  // chunk 0: all 1-item lists; chunk 1+i: all 2-item then all 3-item lists starting with item i (shortest failing list first)
  runChunks(items.size() + 1, [&](size_t cj, Chunk& c) {
    auto one = [&](const std::string& body) {
      for (int nl = 0; nl < 2; nl++) {
        std::string s = nl ? body + "\n" : body;
        if ((int)s.size() <= maxLen && overSmallAlphabet(s)) continue; // already enumerated by parserStrings
        checkParse(s, c, 0xB2);
        if (cj == 11 && c.samples.empty() && s.size() > 12) c.samples.push_back("{\"parse\":\"" + seq::Report::esc(s) + "\"}");
      }
    };
    if (cj == 0) {
      for (auto& a : items) one(a);
      return;
    }
    const std::string& a = items[cj - 1];
    for (auto& b : items) one(a + "," + b);
    for (auto& b : items)
      for (auto& d : items) one(a + "," + b + "," + d);
  });
}

// ================================================================================================
// (c) grouping
// ================================================================================================
static const int32_t kIdMap[2][8] = {{0, 1, 2, 3, 4, 5, 6, 7}, {0, 1, 63, 64, 512, 1022, 1023, -1}};
struct Topo {
  int idmap = 0, n = 0, maxg = 1;
  int rgs[8] = {0}; // restricted growth string: cpu i is in L2 group rgs[i]
  int l3[8] = {0}; // per L2 group: -1 unknown, 0..2 L3 label
  int k() const {
    int m = 0;
    for (int i = 0; i < n; i++) m = std::max(m, rgs[i] + 1);
    return m;
  }
};
static std::string topoText(const Topo& t) {
  std::string s = seq::fmt("group idmap=%d n=%d max=%d rgs=", t.idmap, t.n, t.maxg);
  for (int i = 0; i < t.n; i++) s += (i ? "," : "") + std::to_string(t.rgs[i]);
  s += " l3=";
  for (int i = 0; i < t.k(); i++) s += (i ? "," : "") + std::to_string(t.l3[i]);
  return s;
}
static std::string vecText(const std::vector<int32_t>& v) {
  std::string s = "[";
  for (size_t i = 0; i < v.size(); i++) s += (i ? "," : "") + std::to_string(v[i]);
  return s + "]";
}
static void checkTopo(const Topo& t, Chunk& c, bool verbose = false) {
  int k = t.k();
  std::vector<CacheGroup> l2((size_t)k), l3;
  for (int g = 0; g < k; g++) l2[(size_t)g].cacheId = g;
  for (int i = 0; i < t.n; i++) l2[(size_t)t.rgs[i]].cpus.push_back(kIdMap[t.idmap][i]);
  for (int lab = 0; lab < 3; lab++) {
    CacheGroup g;
    g.cacheId = lab;
    for (int b = 0; b < k; b++)
      if (t.l3[b] == lab) g.cpus.insert(g.cpus.end(), l2[(size_t)b].cpus.begin(), l2[(size_t)b].cpus.end());
    std::sort(g.cpus.begin(), g.cpus.end());
    if (!g.cpus.empty()) l3.push_back(g);
  }
  std::vector<ThreadGroup> out = dispenso::detail::buildGroupsFromCacheTopology(l2, l3, t.maxg);
  c.evals++;
  if (verbose) {
    for (auto& g : l2) printf("  L2 #%d cpus %s L3 %d\n", g.cacheId, vecText(g.cpus).c_str(), t.l3[g.cacheId]);
    for (auto& g : out) printf("  out group %s mask %s\n", vecText(g.cpus).c_str(), bitsToText(bitsOf(g.affinityMask)).c_str());
  }
  auto bad = [&](const char* cat, const std::string& what) { // strings are only built on failure
    std::string replay = topoText(t);
    c.fail(cat, replay + ": " + what, replay);
  };
  auto indexOfCpu = [&](int32_t cpu) { // position 0..n-1 of a cpu id in the topology, -1 if foreign
    for (int i = 0; i < t.n; i++)
      if (kIdMap[t.idmap][i] == cpu) return i;
    return -1;
  };
  size_t largestL2 = 0;
  for (int g = 0; g < k; g++) largestL2 = std::max(largestL2, l2[(size_t)g].cpus.size());
  // clause 1: the output groups partition the CPUs of the L2 groups (non-empty blocks, every CPU exactly once, nothing else)
  int seenIn[8]; // per cpu position: output group index, -1 = not in the output
  for (int i = 0; i < 8; i++) seenIn[i] = -1;
  for (size_t gi = 0; gi < out.size(); gi++) {
    if (out[gi].cpus.empty()) bad("group-partition", "output group " + std::to_string(gi) + " is empty");
    for (int32_t cpu : out[gi].cpus) {
      int i = indexOfCpu(cpu);
      if (i < 0) {
        bad("group-partition", seq::fmt("output contains cpu %d that is in no L2 group", cpu));
        continue;
      }
      if (seenIn[i] >= 0) bad("group-partition", seq::fmt("cpu %d appears twice in the output", cpu));
      seenIn[i] = (int)gi;
    }
    // the group's second representation (affinityMask) must denote the same CPUs
    Bits mb = bitsOf(out[gi].affinityMask), eb;
    for (int32_t cpu : out[gi].cpus)
      if (cpu >= 0 && cpu < kCap) eb.set((size_t)cpu);
    if (mb != eb || !checkOutside(out[gi].affinityMask, mb).empty())
      bad("group-mask", "group " + vecText(out[gi].cpus) + " has affinityMask " + bitsToText(mb));
  }
  for (int i = 0; i < t.n; i++)
    if (seenIn[i] < 0) bad("group-partition", seq::fmt("cpu %d of L2 group %d is in no output group", kIdMap[t.idmap][i], t.rgs[i]));
  // clause 2: an L2 group is never split
  for (int g = 0; g < k; g++) {
    int where = -2;
    for (int i = 0; i < t.n; i++) {
      if (t.rgs[i] != g) continue;
      if (where == -2) where = seenIn[i];
      else if (seenIn[i] != where) bad("group-split", "L2 group " + vecText(l2[(size_t)g].cpus) + " is split across output groups");
    }
  }
  // clause 3: never two different known L3 groups in one output group
  for (auto& g : out) {
    int known = -1;
    for (int32_t cpu : g.cpus) {
      int i = indexOfCpu(cpu);
      if (i < 0) continue;
      int lab = t.l3[t.rgs[i]];
      if (lab < 0) continue;
      if (known >= 0 && lab != known) bad("group-l3mix", "output group " + vecText(g.cpus) + seq::fmt(" mixes L3 #%d and L3 #%d", known, lab));
      known = lab;
    }
  }
  // clause 4: size bound
  size_t bound = std::max<size_t>((size_t)std::max(t.maxg, 0), largestL2);
  for (auto& g : out)
    if (g.cpus.size() > bound) bad("group-size", "output group " + vecText(g.cpus) + seq::fmt(" has %zu cpus > max(maxGroupSize=%d, largest L2=%zu)", g.cpus.size(), t.maxg, largestL2));
  if (k >= 2) {
    uint64_t h = seq::mix(seq::mix(seq::mix(0xC1, (uint64_t)t.idmap), (uint64_t)t.n), (uint64_t)t.maxg);
    for (int i = 0; i < t.n; i++) h = seq::mix(h, (uint64_t)t.rgs[i]);
    for (int g = 0; g < k; g++) h = seq::mix(h, (uint64_t)(t.l3[g] + 1) + 16);
    c.hashes.push_back(h);
  }
}
static void enumPartitions(Topo& t, int i, int used, Chunk& c) {
  if (i == t.n) {
    int k = used;
    uint64_t total = 1;
    for (int j = 0; j < k; j++) total *= 4;
    for (uint64_t x = 0; x < total; x++) {
      uint64_t y = x;
      for (int j = 0; j < k; j++) {
        t.l3[j] = (int)(y & 3) - 1;
        y >>= 2;
      }
      checkTopo(t, c);
      if (t.idmap == 0 && t.n == 5 && t.maxg == 3 && x == 27 && k == 3 && c.samples.empty()) c.samples.push_back("{\"topology\":\"" + topoText(t) + "\"}");
    }
    return;
  }
  for (int b = 0; b <= used; b++) {
    t.rgs[i] = b;
    enumPartitions(t, i + 1, std::max(used, b + 1), c);
  }
}
static void grouping(int maxN, int maxM) {
  struct Job {
    int idmap, n, maxg;
  };
  std::vector<Job> jobs;
  for (int n = 0; n <= maxN; n++) // smallest topology first, so the first reported counterexample is a smallest one
    for (int idmap = 0; idmap < 2; idmap++)
      for (int m = 1; m <= maxM; m++) jobs.push_back({idmap, n, m});
  runChunks(jobs.size(), [&](size_t i, Chunk& c) {
    Topo t;
    t.idmap = jobs[i].idmap;
    t.n = jobs[i].n;
    t.maxg = jobs[i].maxg;
    enumPartitions(t, 0, 0, c);
  });
}

// ================================================================================================
// replay
// ================================================================================================
static std::vector<int> parseInts(const std::string& s) {
  std::vector<int> v;
  std::stringstream ss(s);
  std::string tok;
  while (std::getline(ss, tok, ','))
    if (!tok.empty()) v.push_back(atoi(tok.c_str()));
  return v;
}
static int replay(const char* path) {
  std::ifstream f(path);
  if (!f) {
    fprintf(stderr, "cannot open %s\n", path);
    return 2;
  }
  std::string line, input;
  bool in = false;
  while (std::getline(f, line)) {
    if (in) {
      input = line;
      break;
    }
    if (line == "input") in = true;
  }
  printf("replaying: %s\n", input.c_str());
  Chunk c;
  if (input.compare(0, 8, "algebra ") == 0 || input == "algebra") {
    std::vector<Op> h;
    std::stringstream ss(input.size() > 8 ? input.substr(8) : "");
    std::string tok;
    while (std::getline(ss, tok, ';')) {
      if (tok.empty()) continue;
      Op o{0, 0, 0};
      int a = 0, b = 0;
      if (sscanf(tok.c_str(), "addRange(%d,%d)", &a, &b) == 2) o = {2, a, b};
      else if (sscanf(tok.c_str(), "removeRange(%d,%d)", &a, &b) == 2) o = {3, a, b};
      else if (sscanf(tok.c_str(), "add(%d)", &a) == 1) o = {0, a, 0};
      else if (sscanf(tok.c_str(), "remove(%d)", &a) == 1) o = {1, a, 0};
      else {
        fprintf(stderr, "bad op %s\n", tok.c_str());
        return 2;
      }
      h.push_back(o);
    }
    std::string e = runHistory(h, true);
    if (!e.empty()) c.fail("algebra", e, input);
  } else if (input.compare(0, 6, "parse ") == 0 || input == "parse") {
    std::string hex = input.size() > 6 ? input.substr(6) : "", s;
    for (size_t i = 0; i + 1 < hex.size(); i += 2) s += (char)strtol(hex.substr(i, 2).c_str(), nullptr, 16);
    checkParse(s, c, 0, true);
  } else if (input.compare(0, 6, "group ") == 0) {
    Topo t;
    char rg[256] = "", l3[256] = "";
    int got = sscanf(input.c_str(), "group idmap=%d n=%d max=%d rgs=%255s l3=%255s", &t.idmap, &t.n, &t.maxg, rg, l3);
    if (got < 3 || t.n < 0 || t.n > 7 || t.idmap < 0 || t.idmap > 1) {
      fprintf(stderr, "bad topology line\n");
      return 2;
    }
    if (t.n == 0) rg[0] = 0; // "rgs= l3=" : sscanf stops early
    std::vector<int> r = parseInts(rg), l = parseInts(strncmp(rg, "l3=", 3) == 0 ? rg + 3 : l3);
    for (int i = 0; i < t.n && i < (int)r.size(); i++) t.rgs[i] = r[(size_t)i];
    for (int i = 0; i < 8; i++) t.l3[i] = i < (int)l.size() ? l[(size_t)i] : -1;
    checkTopo(t, c, true);
  } else {
    fprintf(stderr, "unknown replay input\n");
    return 2;
  }
  if (c.fails.empty()) {
    printf("replay: no violation\n");
    return 0;
  }
  for (auto& fl : c.fails) printf("replay: STILL FAILS [%s] %s\n", fl.cat.c_str(), fl.msg.c_str());
  return 1;
}

int main(int argc, char** argv) {
  std::string tier = "quick";
  const char* replayFile = nullptr;
  for (int i = 1; i < argc; i++) {
    if (!strcmp(argv[i], "--tier") && i + 1 < argc) tier = argv[++i];
    else if (!strcmp(argv[i], "--replay") && i + 1 < argc) replayFile = argv[++i];
  }
  static_assert(CPU_SETSIZE == 1024, "documented capacity");
  buildOps();
  if (replayFile) return replay(replayFile);

  bool thorough = tier == "thorough";
  int D = thorough ? 6 : 4, U = thorough ? 3 : 2, L = thorough ? 7 : 6, N = thorough ? 7 : 6, M = thorough ? 8 : 7;
  report.name = "c43_cpuset";
  report.rule =
      "algebra: (canonical state, op) pairs of the merged search whose op touches at least one id in [0,1024) (the unmerged cross-check run adds "
      "evaluations but no distinct cases); parser: input strings containing at least one digit; grouping: topologies with >=2 L2 groups";
  auto t0 = std::chrono::steady_clock::now();
  auto lap = [&](const char* what) {
    fprintf(stderr, "[%s] done at %.1fs, evaluations so far %llu\n", what, std::chrono::duration<double>(std::chrono::steady_clock::now() - t0).count(), (unsigned long long)report.evaluations);
  };
  std::string closure;
  algebraMerged(D, closure);
  lap("algebra merged");
  algebraUnmerged(U);
  lap("algebra unmerged");
  parserStrings(L);
  lap("parser strings");
  parserLists(L);
  lap("parser lists");
  grouping(N, M);
  lap("grouping");
  for (auto& kv : g_failChunks) fprintf(stderr, "[fail] category %s: first failure in %llu enumeration chunk(s)\n", kv.first.c_str(), (unsigned long long)kv.second);

  report.domain = seq::fmt(
      "(a) all op sequences up to depth %d over 180 ops {add,remove}x9 ids + {addRange,removeRange}x81 id pairs, ids {0,1,63,64,1023,1024,-1,-5,INT32_MAX}, "
      "histories merged by 1024-bit contents [%s], plus all sequences up to depth %d unmerged (bit-vector model); contains over [0,1024)+probes outside and count compared with "
      "std::set after every step. (b) all strings of length 0..%d over {0,1,9,comma,-,space,\\n,x} plus all lists of 1..3 items (id or lo-hi incl. reversed, "
      "bounds from {0,1,63,64,1023,1024,INT32_MAX}) with/without trailing \\n; exact set required for well-formed lists, only in-range/no-UB otherwise. "
      "(c) all topologies with 0..%d CPUs: all set partitions into L2 groups x all maps L2 group->{unknown,L3#0,#1,#2} x maxGroupSize 1..%d x 2 cpu-id maps "
      "(dense 0..n-1; sparse 0,1,63,64,512,1022,1023)",
      D, closure.c_str(), U, L, N, M);
  return report.finish();
}
