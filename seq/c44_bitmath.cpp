// C44 -- bit-math helpers are correct for all inputs in their documented domains.
//
// Functions under test (the real, unmodified dispenso code):
//   detail::log2(uint32_t), detail::log2const(uint32_t)                     all 2^32 inputs (v != 0)
//   detail::log2(uint64_t), detail::log2const(uint64_t), the non-fixed-width template overloads
//   (unsigned long long), detail::countTrailingZeros, detail::countSetBits, detail::nextPow2,
//   detail::alignToCacheLine and the public dispenso:: wrappers of util.h   all 2^32 inputs + 64-bit set
//   detail::alignedMalloc / alignedFree (+ public wrappers)                 every pow2 alignment 1..2^16
//
// Reference definitions (loop based, written from the mathematical definition, no bit tricks):
//   floor(log2 v)   = the largest r with bit r of v set           (descending scan; thorough: also ascending)
//   ctz v           = the smallest r with bit r of v set          (ascending scan)
//   popcount v      = sum over all bit positions of bit r         (64-step loop / 32-step loop)
//   nextPow2 v      = the smallest power of two >= v, 0 for v==0  (descending scan; thorough: also ascending)
//   alignToCacheLine(v) = the unique r with r % L == 0, r >= v, r - v < L      (checked as three predicates)
//
// A "case" is one (function, input) pair.  Every input of a phase is enumerated exactly once (the 64-bit
// structured set is sorted + de-duplicated before use), so all cases are distinct by construction and are
// counted with a counter (Report::distinct_overflow) instead of 3*10^10 set insertions.
#include "seq_common.h"

#include <dispenso/util.h>

#include <atomic>
#include <thread>

#include <sanitizer/common_interface_defs.h>
#include <unistd.h>

namespace dd = dispenso::detail;

// ------------------------------------------------------------------------------------------------
// reference definitions
static inline uint32_t ref_log2_desc(uint64_t v, int top) { // v != 0, all set bits at positions <= top
  int r = top;
  while (!((v >> r) & 1)) --r;
  return (uint32_t)r;
}
static inline uint32_t ref_log2_asc(uint64_t v) { // v != 0
  uint32_t r = 0;
  while (v >>= 1) ++r;
  return r;
}
static inline int32_t ref_ctz(uint64_t v, int from = 0) { // v != 0, all bits below `from` are zero
  int32_t r = from;
  while (!((v >> r) & 1)) ++r;
  return r;
}
static inline int32_t ref_pop(uint64_t v, int bits) {
  int32_t c = 0;
  for (int i = 0; i < bits; i++) c += (int32_t)((v >> i) & 1);
  return c;
}
// smallest power of two >= v, for 0 < v <= 2^top  (descending: keep halving while the half is still >= v)
static inline uint64_t ref_np2_desc(uint64_t v, int top) {
  uint64_t p = 1ull << top;
  while (p > 1 && (p >> 1) >= v) p >>= 1;
  return p;
}
static inline uint64_t ref_np2_asc(uint64_t v) { // 0 < v <= 2^63
  uint64_t p = 1;
  while (p < v) p <<= 1;
  return p;
}

constexpr uint64_t kL = dispenso::kCacheLineSize;

struct Fail {
  std::string msg, replay;
  uint64_t key; // the input value, for simplest-first ordering of the merged failures
};

// A sanitizer report kills the process (-fno-sanitize-recover).  The input being checked is remembered per thread
// and a death callback turns the death into a recorded violation + replay artefact + SEQRESULT line.
static thread_local const char* g_cur_kind = "?";
static thread_local uint64_t g_cur_a = 0, g_cur_b = 0;
static thread_local int g_cur_c = 0, g_cur_d = 0;
static seq::Report* g_rep = nullptr;
static bool g_replay_mode = false;
static std::string cur_text() {
  if (!strcmp(g_cur_kind, "alloc"))
    return seq::fmt("alloc %llu %llu %d %d", (unsigned long long)g_cur_a, (unsigned long long)g_cur_b, g_cur_c, g_cur_d);
  return seq::fmt("%s %llx", g_cur_kind, (unsigned long long)g_cur_a);
}
static void on_death() {
  std::string t = cur_text();
  if (g_replay_mode) {
    printf("replay %s: the process is being killed by a sanitizer report (see stderr)\nreplay result: still failing\n", t.c_str());
    fflush(stdout);
    _exit(1);
  }
  if (!g_rep) return;
  seq::Report* r = g_rep;
  g_rep = nullptr;
  r->violation("sanitizer report (undefined behaviour or memory error, see stderr) while checking input: " + t, t);
  r->exhaustive = false;
  r->domain = "ABORTED by a sanitizer report; counts are those merged before the abort";
  r->finish();
  _exit(1);
}

struct Local { // per-thread accumulation, merged in partition order
  uint64_t evals = 0, nontrivial = 0;
  std::vector<Fail> fails;
  void fail(const char* fn, const char* kind, uint64_t v, uint64_t got, uint64_t want) {
    if (fails.size() >= 5) return;
    fails.push_back({seq::fmt("%s(0x%llx) returned %llu (0x%llx), reference says %llu (0x%llx)", fn,
                              (unsigned long long)v, (unsigned long long)got, (unsigned long long)got,
                              (unsigned long long)want, (unsigned long long)want),
                     seq::fmt("%s %llx", kind, (unsigned long long)v), v});
  }
};

// All checks for one 32-bit input (both the 32-bit overloads and the 64-bit functions on the widened value).
// `deep` adds the second, independent (ascending) reference definitions.
static uint8_t g_pop16[65536]; // popcount of every 16-bit value, filled in main with the 16-step loop ref_pop(v,16)

// thorough: second reference definitions + cheap wrappers + log2const on every v.  st: v is a 32-bit member of
// the structured set (phase 2 hands those to phase 1 so that every (function, input) pair is run once): everything.
static inline void check32(uint32_t v, bool thorough, bool st, Local& L) {
  const bool deep = thorough || st;
  const uint64_t w = v;
  g_cur_kind = "u32";
  g_cur_a = v;
  const bool nt = (v & (v - 1)) != 0; // non-trivial: neither 0 nor a power of two
  uint64_t n = 0;
  if (v != 0) {
    uint32_t want = ref_log2_desc(v, 31);
    uint32_t g;
    if ((g = dd::log2(v)) != want) L.fail("detail::log2(uint32_t)", "u32", v, g, want);
    if ((g = dd::log2(w)) != want) L.fail("detail::log2(uint64_t)", "u32", v, g, want);
    // log2const costs ~20 ns per call under ASan+UBSan at -O1 (two local tables are copied and poisoned on
    // every call), i.e. 2^32 calls = 86 CPU-s per overload.  With both overloads on all 2^32 the quick tier
    // measured 49..71 s wall on the loaded 16-vCPU machine, so quick enumerates log2const on every v < 2^26
    // (plus, in phase 2, every b<<s for the structured 32-bit b, which includes all b < 2^16) and thorough
    // enumerates all 2^32 for both overloads.
    if (deep || v < (1u << 26)) {
      if ((g = dd::log2const(v)) != want) L.fail("detail::log2const(uint32_t)", "u32", v, g, want);
      if ((g = dd::log2const(w)) != want) L.fail("detail::log2const(uint64_t)", "u32", v, g, want);
      n += 2;
    }
    int32_t cz = ref_ctz(w);
    int32_t gz;
    if ((gz = dd::countTrailingZeros(w)) != cz) L.fail("detail::countTrailingZeros", "u32", v, (uint64_t)gz, (uint64_t)cz);
    n += 3;
    if (deep) {
      uint32_t want2 = ref_log2_asc(w);
      if (want2 != want) L.fail("reference log2 (asc vs desc) disagree", "u32", v, want2, want);
      if ((g = dispenso::log2(w)) != want2) L.fail("dispenso::log2", "u32", v, g, want2);
      if ((g = dd::log2((unsigned long long)v)) != want2) L.fail("detail::log2<unsigned long long>", "u32", v, g, want2);
      n += 2;
    }
    if (st || v < (1u << 24)) { // forwarding wrappers of log2const (20 ns each): low 2^24 values + the structured set
      if ((g = dispenso::log2const(w)) != want) L.fail("dispenso::log2const", "u32", v, g, want);
      if ((g = dd::log2const((unsigned long long)v)) != want) L.fail("detail::log2const<unsigned long long>", "u32", v, g, want);
      n += 2;
    }
  }
  {
    // popcount is additive over the two half-words; each half is looked up in the loop-built table
    int32_t want = (int32_t)g_pop16[v >> 16] + (int32_t)g_pop16[v & 0xffff];
    int32_t g = dd::countSetBits(w);
    if (g != want) L.fail("detail::countSetBits", "u32", v, (uint64_t)g, (uint64_t)want);
    n++;
    if (deep) {
      int32_t want2 = ref_pop(w, 32);
      if (want2 != want) L.fail("reference popcount (table vs 32-step loop) disagree", "u32", v, (uint64_t)want2, (uint64_t)want);
    }
  }
  {
    uint64_t want = v ? ref_np2_desc(w, 32) : 0; // documented: returns 0 for 0
    uint64_t g = dd::nextPow2(w);
    if (g != want) L.fail("detail::nextPow2", "u32", v, g, want);
    n++;
    if (deep) {
      uint64_t want2 = v ? ref_np2_asc(w) : 0;
      if (want2 != want) L.fail("reference nextPow2 (asc vs desc) disagree", "u32", v, want2, want);
      if ((g = dispenso::nextPow2(w)) != want2) L.fail("dispenso::nextPow2", "u32", v, g, want2);
      n++;
    }
  }
  {
    uint64_t g = dd::alignToCacheLine((uintptr_t)w);
    if (g % kL != 0 || g < w || g - w >= kL) L.fail("detail::alignToCacheLine", "u32", v, g, (w + kL - 1) / kL * kL);
    n++;
    if (deep) {
      uint64_t g2 = dispenso::alignToCacheLine((uintptr_t)w);
      if (g2 != g) L.fail("dispenso::alignToCacheLine", "u32", v, g2, g);
      n++;
    }
  }
  L.evals += n;
  if (nt) L.nontrivial += n;
}

// All checks for one 64-bit input.  deep=true: both reference definitions, public wrappers, template overloads
// (used for the structured set).  deep=false is the lean path for the 2^36 windowed values of the thorough tier:
// no log2const (20 ns per call under ASan; it gets its own sweep in phase 3b) and popcount from the 16-bit table.
// lowhint/tophint: by construction of x all bits below lowhint and above tophint are zero (0/63 when unknown);
// the reference scans start there instead of at 0/63.
static inline void check64(uint64_t x, bool deep, Local& L, int lowhint = 0, int tophint = 63) {
  const bool nt = (x & (x - 1)) != 0;
  g_cur_kind = "u64";
  g_cur_a = x;
  uint64_t n = 0;
  if (x != 0) {
    uint32_t want = ref_log2_desc(x, tophint);
    uint32_t g;
    if ((g = dd::log2(x)) != want) L.fail("detail::log2(uint64_t)", "u64", x, g, want);
    int32_t cz = ref_ctz(x, lowhint), gz;
    if ((gz = dd::countTrailingZeros(x)) != cz) L.fail("detail::countTrailingZeros", "u64", x, (uint64_t)gz, (uint64_t)cz);
    n += 2;
    if (deep) {
      uint32_t want2 = ref_log2_asc(x);
      if (want2 != want) L.fail("reference log2 (asc vs desc) disagree", "u64", x, want2, want);
      if ((g = dd::log2const(x)) != want) L.fail("detail::log2const(uint64_t)", "u64", x, g, want);
      if ((g = dispenso::log2(x)) != want2) L.fail("dispenso::log2", "u64", x, g, want2);
      if ((g = dispenso::log2const(x)) != want2) L.fail("dispenso::log2const", "u64", x, g, want2);
      if ((g = dd::log2((unsigned long long)x)) != want2) L.fail("detail::log2<unsigned long long>", "u64", x, g, want2);
      if ((g = dd::log2const((unsigned long long)x)) != want2)
        L.fail("detail::log2const<unsigned long long>", "u64", x, g, want2);
      n += 5;
    }
  }
  {
    int32_t want = deep ? ref_pop(x, 64)
                        : (int32_t)g_pop16[x >> 48] + (int32_t)g_pop16[(x >> 32) & 0xffff] + (int32_t)g_pop16[(x >> 16) & 0xffff] +
            (int32_t)g_pop16[x & 0xffff];
    int32_t g = dd::countSetBits(x);
    if (g != want) L.fail("detail::countSetBits", "u64", x, (uint64_t)g, (uint64_t)want);
    n++;
  }
  if (x <= (1ull << 63)) { // documented domain of nextPow2: values up to 2^63 (the result must be representable)
    uint64_t want = x ? ref_np2_desc(x, tophint < 63 ? tophint + 1 : 63) : 0;
    uint64_t g = dd::nextPow2(x);
    if (g != want) L.fail("detail::nextPow2", "u64", x, g, want);
    n++;
    if (deep) {
      uint64_t want2 = x ? ref_np2_asc(x) : 0;
      if (want2 != want) L.fail("reference nextPow2 (asc vs desc) disagree", "u64", x, want2, want);
      if ((g = dispenso::nextPow2(x)) != want2) L.fail("dispenso::nextPow2", "u64", x, g, want2);
      n++;
    }
  }
  if (x <= UINT64_MAX - (kL - 1)) { // domain: the aligned value must be representable in uintptr_t
    uint64_t g = dd::alignToCacheLine((uintptr_t)x);
    if (g % kL != 0 || g < x || g - x >= kL) L.fail("detail::alignToCacheLine", "u64", x, g, (x + kL - 1) / kL * kL);
    n++;
    if (deep) {
      uint64_t g2 = dispenso::alignToCacheLine((uintptr_t)x);
      if (g2 != g) L.fail("dispenso::alignToCacheLine", "u64", x, g2, g);
      n++;
    }
  }
  L.evals += n;
  if (nt) L.nontrivial += n;
}

// alignedMalloc(bytes, alignment) for one (alignment, size, phase).  `phase` perturbs the heap (a pad
// allocation of phase*24+1 bytes is live during the call) so that malloc's own return address varies.
// which: 0 detail two-arg, 1 public two-arg, 2 detail one-arg (cache line), 3 public one-arg
static std::string check_alloc(size_t alignment, size_t bytes, int phase, int which, uint64_t* offset_seen) {
  g_cur_kind = "alloc";
  g_cur_a = alignment;
  g_cur_b = bytes;
  g_cur_c = phase;
  g_cur_d = which;
  void* pad = phase ? ::malloc((size_t)phase * 24 + 1) : nullptr;
  void* p = nullptr;
  size_t want_align = alignment;
  switch (which) {
    case 0: p = dd::alignedMalloc(bytes, alignment); break;
    case 1: p = dispenso::alignedMalloc(bytes, alignment); break;
    case 2: p = dd::alignedMalloc(bytes); want_align = dispenso::kCacheLineSize; break;
    default: p = dispenso::alignedMalloc(bytes); want_align = dispenso::kCacheLineSize; break;
  }
  std::string err;
  uintptr_t a = reinterpret_cast<uintptr_t>(p);
  if (!p)
    err = "returned nullptr";
  else if (a % want_align != 0)
    err = seq::fmt("address %p is not a multiple of the alignment %zu", p, want_align);
  else {
    // the block must be usable for `bytes` bytes (ASan reports any out-of-bounds write) and must not
    // overlap the recovery word that alignedFree reads
    uintptr_t recovered = *reinterpret_cast<uintptr_t*>(a - sizeof(uintptr_t));
    size_t eff = std::max(want_align, sizeof(uintptr_t));
    if (!(recovered < a && a - recovered >= sizeof(uintptr_t) && a - recovered <= eff))
      err = seq::fmt("recovery word 0x%llx inconsistent with block %p (alignment %zu)", (unsigned long long)recovered, p, eff);
    else {
      if (offset_seen) *offset_seen = (uint64_t)(recovered % (2 * eff));
      memset(p, 0xA5, bytes);
      volatile unsigned char* q = static_cast<unsigned char*>(p);
      for (size_t i = 0; i < bytes; i += 61)
        if (q[i] != 0xA5) err = "allocated bytes do not hold what was written";
    }
  }
  if (p) {
    if (which & 1)
      dispenso::alignedFree(p);
    else
      dd::alignedFree(p);
  }
  ::free(pad);
  return err.empty() ? err : seq::fmt("alignedMalloc(bytes=%zu, alignment=%zu) [variant %d, heap phase %d]: %s", bytes, alignment,
                                      which, phase, err.c_str());
}

// ------------------------------------------------------------------------------------------------
template <class F>
static void run_parallel(unsigned nthreads, std::vector<Local>& locals, F&& body) {
  locals.assign(nthreads, Local{});
  std::vector<std::thread> th;
  for (unsigned t = 0; t < nthreads; t++) th.emplace_back([&, t] { body(t, locals[t]); });
  for (auto& x : th) x.join();
}

static void merge(seq::Report& rep, std::vector<Local>& locals, uint64_t& nontrivial) {
  std::vector<Fail> all;
  for (auto& l : locals) {
    rep.evaluations += l.evals;
    nontrivial += l.nontrivial;
    for (auto& f : l.fails) all.push_back(f);
  }
  // every thread reports its first failures in ascending input order; order the union by input value (deterministic)
  std::stable_sort(all.begin(), all.end(), [](const Fail& a, const Fail& b) { return a.key < b.key; });
  for (auto& f : all) rep.violation(f.msg, f.replay);
}

static int do_replay(const char* path) {
  FILE* f = fopen(path, "r");
  if (!f) {
    fprintf(stderr, "cannot open %s\n", path);
    return 2;
  }
  char line[4096];
  bool in = false;
  int rc = 0;
  while (fgets(line, sizeof line, f)) {
    if (!in) {
      if (!strncmp(line, "input", 5)) in = true;
      continue;
    }
    char kind[32];
    unsigned long long a = 0, b = 0;
    int c = 0, d = 0;
    Local L;
    if (sscanf(line, "%31s", kind) != 1) continue;
    if (!strcmp(kind, "u32") && sscanf(line, "%*s %llx", &a) == 1) {
      check32((uint32_t)a, true, true, L);
      printf("replay u32 0x%llx: %zu failing checks\n", a, L.fails.size());
    } else if (!strcmp(kind, "u64") && sscanf(line, "%*s %llx", &a) == 1) {
      check64(a, true, L);
      printf("replay u64 0x%llx: %zu failing checks\n", a, L.fails.size());
    } else if (!strcmp(kind, "alloc") && sscanf(line, "%*s %llu %llu %d %d", &a, &b, &c, &d) == 4) {
      std::string e = check_alloc((size_t)a, (size_t)b, c, d, nullptr);
      if (!e.empty()) L.fails.push_back({e, "", 0});
      printf("replay alloc alignment=%llu bytes=%llu phase=%d variant=%d: %s\n", a, b, c, d, e.empty() ? "ok" : e.c_str());
    } else
      continue;
    for (auto& x : L.fails) printf("  FAIL %s\n", x.msg.c_str());
    if (!L.fails.empty()) rc = 1;
  }
  fclose(f);
  printf("replay result: %s\n", rc ? "still failing" : "passes");
  return rc;
}

int main(int argc, char** argv) {
  bool thorough = false;
  const char* replay = nullptr;
  for (int i = 1; i < argc; i++) {
    if (!strcmp(argv[i], "--tier") && i + 1 < argc)
      thorough = !strcmp(argv[++i], "thorough");
    else if (!strcmp(argv[i], "--replay") && i + 1 < argc)
      replay = argv[++i];
  }
  for (uint32_t i = 0; i < 65536; i++) g_pop16[i] = (uint8_t)ref_pop(i, 16);
  __sanitizer_set_death_callback(on_death);
  if (replay) {
    g_replay_mode = true;
    return do_replay(replay);
  }

  seq::Report rep;
  g_rep = &rep;
  rep.name = "c44_bitmath";
  rep.rule =
      "a case is one (function, input) pair, each enumerated once; non-trivial = the input is neither 0 nor a power "
      "of two (floor and ceiling differ, more than one bit participates); for alignedMalloc non-trivial = "
      "alignment > sizeof(void*) and bytes > 0";
  const unsigned NT = 8;
  std::vector<Local> locals;
  uint64_t nontrivial = 0;

  // ---- the structured 64-bit set (built first: its 32-bit members are handed to phase 1) ------------
  std::vector<uint64_t> S;
  // every value with <= 3 set bits
  S.push_back(0);
  for (int a = 0; a < 64; a++) {
    S.push_back(1ull << a);
    for (int b = a + 1; b < 64; b++) {
      S.push_back((1ull << a) | (1ull << b));
      for (int c = b + 1; c < 64; c++) S.push_back((1ull << a) | (1ull << b) | (1ull << c));
    }
  }
  // every 2^k + d, |d| <= 3 (mod 2^64), plus 2^64 - 1 - d
  for (int k = 0; k < 64; k++)
    for (int d = -3; d <= 3; d++) S.push_back((1ull << k) + (uint64_t)(int64_t)d);
  for (int d = 0; d <= 3; d++) S.push_back(UINT64_MAX - (uint64_t)d);
  // structured 32-bit values shifted by every amount 0..63 (bits shifted out are dropped):
  //   every 32-bit value with <= 3 set bits or <= 3 clear bits, every 2^k + d |d|<=3, every value < 2^16,
  //   every 16-bit value in the upper half-word, and the complements of the values < 2^16
  {
    std::vector<uint32_t> B;
    for (int a = 0; a < 32; a++) {
      B.push_back(1u << a);
      for (int b = a + 1; b < 32; b++) {
        B.push_back((1u << a) | (1u << b));
        for (int c = b + 1; c < 32; c++) B.push_back((1u << a) | (1u << b) | (1u << c));
      }
    }
    size_t nb = B.size();
    for (size_t i = 0; i < nb; i++) B.push_back(~B[i]);
    for (int k = 0; k < 32; k++)
      for (int d = -3; d <= 3; d++) B.push_back((1u << k) + (uint32_t)d);
    for (uint32_t v = 0; v < 65536; v++) {
      B.push_back(v);
      B.push_back(v << 16);
      B.push_back(~v);
    }
    for (uint32_t b : B)
      for (int s = 0; s < 64; s++) S.push_back((uint64_t)b << s);
  }
  std::sort(S.begin(), S.end());
  S.erase(std::unique(S.begin(), S.end()), S.end());
  const size_t nS = S.size();
  const size_t nLo = (size_t)(std::lower_bound(S.begin(), S.end(), 1ull << 32) - S.begin()); // members < 2^32
  const uint64_t* const Sb = S.data();
  const uint64_t* const Se = S.data() + nS;
  // membership test for an ascending stream of queries
  struct Cursor {
    const uint64_t *p, *e;
    bool hit(uint64_t x) {
      while (p < e && *p < x) ++p;
      return p < e && *p == x;
    }
  };

  // ---- phase 1: all 2^32 32-bit inputs -------------------------------------------------------
  // partition: thread t takes the 2^20-sized blocks b with b % NT == t  (4096 blocks)
  run_parallel(NT, locals, [&](unsigned t, Local& L) {
    for (uint64_t blk = t; blk < 4096; blk += NT) {
      uint64_t lo = blk << 20, hi = lo + (1u << 20);
      Cursor cur{std::lower_bound(Sb, Sb + nLo, lo), Sb + nLo}; // structured members inside this block
      for (uint64_t v = lo; v < hi; v++) check32((uint32_t)v, thorough, cur.hit(v), L);
      if (L.fails.size() >= 5) break;
    }
  });
  merge(rep, locals, nontrivial);
  rep.sample("{\"fn\":\"log2(uint32_t)/log2(uint64_t)/ctz/popcount/nextPow2/alignToCacheLine\",\"v\":\"every v in [0,2^32)\"}");
  rep.sample(seq::fmt("{\"fn\":\"nextPow2\",\"v\":\"0x80000001\",\"got\":\"0x%llx\"}", (unsigned long long)dd::nextPow2(0x80000001ull)));

  // ---- phase 2: members >= 2^32 of the structured 64-bit set -----------------------------------
  run_parallel(NT, locals, [&](unsigned t, Local& L) {
    for (size_t i = nLo + t; i < nS; i += NT) check64(S[i], true, L);
  });
  merge(rep, locals, nontrivial);
  rep.sample(seq::fmt("{\"fn\":\"all 64-bit functions\",\"structured_set_size\":%zu,\"of_which_below_2^32\":%zu,\"example\":\"0x%llx\"}",
                      nS, nLo, (unsigned long long)S[nLo + (nS - nLo) / 2]));

  // ---- phase 3 (thorough): every 64-bit value whose set bits fit in a 32-bit window ----------------
  // {v << s : v < 2^32, 0 <= s <= 32}.  Canonical enumeration without repeats: s = 0 is phase 1; for s >= 1
  // only v >= 2^31 (otherwise the same value appears as (2v, s-1)).  Members of S were done in phase 2.
  uint64_t windowed = 0;
  if (thorough) {
    run_parallel(NT, locals, [&](unsigned t, Local& L) {
      for (uint64_t blk = t; blk < 2048; blk += NT) {
        uint64_t lo = (1ull << 31) + (blk << 20), hi = lo + (1u << 20);
        for (int s = 1; s <= 32; s++) {
          Cursor cur{std::lower_bound(Sb + nLo, Se, lo << s), Se};
          for (uint64_t v = lo; v < hi; v++) {
            uint64_t x = v << s;
            if (!cur.hit(x)) check64(x, false, L, s, 31 + s);
          }
        }
        if (L.fails.size() >= 5) break;
      }
    });
    merge(rep, locals, nontrivial);
    windowed = 32ull << 31;
    // phase 3b: log2const(uint64_t) with every 32-bit value in the upper word: x = v << 32, v in [1, 2^32)
    run_parallel(NT, locals, [&](unsigned t, Local& L) {
      for (uint64_t blk = t; blk < 4096; blk += NT) {
        uint64_t lo = blk << 20, hi = lo + (1u << 20);
        Cursor cur{std::lower_bound(Sb + nLo, Se, lo << 32), Se};
        for (uint64_t v = lo ? lo : 1; v < hi; v++) {
          uint64_t x = v << 32;
          if (cur.hit(x)) continue; // done in phase 2
          uint32_t want = ref_log2_desc(x, 63), g;
          if ((g = dd::log2const(x)) != want) L.fail("detail::log2const(uint64_t)", "u64", x, g, want);
          L.evals++;
          if (v & (v - 1)) L.nontrivial++;
          g_cur_kind = "u64";
          g_cur_a = x;
        }
        if (L.fails.size() >= 5) break;
      }
    });
    merge(rep, locals, nontrivial);
  }

  // ---- phase 4: alignedMalloc / alignedFree --------------------------------------------------
  {
    const size_t sizes[] = {0, 1, 63, 64, 65, 4097};
    std::set<uint64_t> offsets;
    uint64_t allocs = 0, nt = 0;
    const int phases = thorough ? 64 : 8;
    for (int k = 0; k <= 16; k++)
      for (size_t bytes : sizes)
        for (int ph = 0; ph < phases; ph++)
          for (int which = 0; which < 4; which++) {
            if (which >= 2 && k != 0) continue; // one-argument forms do not depend on the alignment loop
            size_t al = (size_t)1 << k;
            uint64_t off = 0;
            std::string e = check_alloc(al, bytes, ph, which, &off);
            allocs++;
            if (al > sizeof(void*) && bytes > 0) nt++;
            offsets.insert(((uint64_t)k << 40) ^ off);
            if (!e.empty()) rep.violation(e, seq::fmt("alloc %zu %zu %d %d", al, bytes, ph, which));
          }
    // a batch that is live simultaneously and freed in a different order than allocated
    {
      std::vector<std::pair<void*, size_t>> live;
      for (int k = 0; k <= 16; k++)
        for (size_t bytes : sizes) {
          size_t al = (size_t)1 << k;
          void* p = dd::alignedMalloc(bytes, al);
          allocs++;
          if (al > sizeof(void*) && bytes > 0) nt++;
          if (!p || reinterpret_cast<uintptr_t>(p) % al != 0)
            rep.violation(seq::fmt("alignedMalloc(bytes=%zu, alignment=%zu) in the live batch returned %p", bytes, al, p),
                          seq::fmt("alloc %zu %zu 0 0", al, bytes));
          if (p) memset(p, (int)(k + 1), bytes);
          live.push_back({p, bytes});
        }
      for (size_t i = 0; i < live.size(); i++) { // contents intact => blocks do not overlap each other
        unsigned char* q = static_cast<unsigned char*>(live[i].first);
        for (size_t j = 0; q && j < live[i].second; j++)
          if (q[j] != (unsigned char)(i / 6 + 1)) {
            rep.violation(seq::fmt("live batch: block %zu was overwritten by another allocation", i), "alloc 64 64 0 0");
            break;
          }
      }
      for (size_t i = 0; i < live.size(); i += 2) dd::alignedFree(live[i].first);
      for (size_t i = 1; i < live.size(); i += 2) dd::alignedFree(live[i].first);
      dd::alignedFree(nullptr);
    }
    rep.evaluations += allocs;
    nontrivial += nt;
    rep.sample(seq::fmt("{\"fn\":\"alignedMalloc\",\"alignments\":\"2^0..2^16\",\"sizes\":[0,1,63,64,65,4097],\"heap_phases\":%d,"
                        "\"distinct_raw_offsets_seen\":%zu}",
                        phases, offsets.size()));
  }

  rep.distinct_overflow = nontrivial; // all cases are distinct by construction (see header comment)
  rep.domain = seq::fmt(
      "32-bit: every v in [0,2^32) for log2(uint32_t) (v!=0) and, widened to 64 bit, log2(uint64_t), "
      "countTrailingZeros (v!=0), countSetBits, nextPow2, alignToCacheLine; log2const(uint32_t) and log2const(uint64_t) for %s; "
      "64-bit: %zu distinct structured values = {<=3 set bits} u {2^k+d, |d|<=3} u {2^64-1-d, d<=3} u {b<<s : s in [0,63], "
      "b a 32-bit value with <=3 set or <=3 clear bits, or 2^k+d, or <2^16, or (<2^16)<<16, or ~(<2^16)}, with nextPow2 "
      "restricted to x<=2^63 and alignToCacheLine to x<=2^64-%llu%s; alignedMalloc/alignedFree (detail and public, one- and "
      "two-argument forms): alignment 2^0..2^16 x bytes {0,1,63,64,65,4097} x %d heap phases plus one batch of all 102 "
      "blocks live at once; references are loop-based scans (descending%s)",
      thorough ? "every v in [1,2^32) too, plus the public dispenso:: wrappers and the unsigned-long-long template overloads of "
                 "log2/nextPow2/alignToCacheLine on all 2^32 (those of log2const on v<2^24)"
               : "every v in [1,2^26) and every 32-bit member of the structured set below (all 2^32 in the thorough tier; one call "
                 "costs 20 ns under ASan so 2^32 calls of both overloads do not fit the 60 s budget on the loaded machine)",
      nS,
      (unsigned long long)kL,
      thorough ? seq::fmt("; plus every 64-bit value whose set bits fit a 32-bit window, {v<<s: v in [2^31,2^32), s in [1,32]} "
                          "= %llu further values, those in the structured set not repeated (with phase 1 this is all of {v<<s : v<2^32, s<=32}) for log2, countTrailingZeros, "
                          "countSetBits, nextPow2, alignToCacheLine, and log2const(uint64_t) on every v<<32, v in [1,2^32)",
                          (unsigned long long)windowed)
                     .c_str()
               : "",
      thorough ? 64 : 8, thorough ? " and, independently, ascending" : "; both directions on the 64-bit set");
  rep.exhaustive = true;
  return rep.finish();
}
