// C40 -- dispenso::OpResult has optional semantics with balanced lifetimes.
//
// Bounded-exhaustive enumeration: up to 3 OpResult<Tracked<int>> objects living in raw slots, ALL applicable
// operation sequences (no merging: every history is replayed on fresh slots, that is cheap enough here) of
// length 1..D (D=4 quick, D=5 thorough) over the alphabet below, ordered simplest-first and enumerated by
// increasing length so that the first counterexample recorded is a shortest one.
//
//   CE(i)    construct empty in free slot i                OpResult()
//   CV(i)    construct from an rvalue value                OpResult(Tracked&&)
//   CL(i)    construct from an lvalue value                OpResult(const Tracked&)
//   EM(i)    emplace(fresh int) on existing i
//   DS(i)    destroy existing i (explicit destructor call; OpResult offers no reset())
//   CC(i,j)  copy-construct free slot i from existing j
//   MC(i,j)  move-construct free slot i from existing j
//   CA(i,j)  copy-assign i = j, both existing, i==j allowed
//   MA(i,j)  move-assign i = std::move(j), both existing, i==j allowed
//
// Reference model (std::optional semantics, tracked by hand so that the reference does not pollute the lifetime
// registry): per slot one of N (no object), E (disengaged), V(v) (engaged with v), U (moved-from: unspecified,
// not compared; anything derived from a U source is U as well; assigning to / emplacing into / destroying a U
// object makes it specified again).
//
// Oracle after every step: registry().error empty (nothing constructed over a live object, no destructor on a dead
// object); for every slot in state E/V: has_value(), operator bool and value() agree with the model and value()
// refers to a live object. After the last step all remaining OpResults are destroyed and then nothing may be live and
// constructed == destroyed ("every contained object it constructs is destroyed exactly once").
#include "seq_common.h"

#include <dispenso/util.h>

#include <new>

using T = seq::Tracked<int>;
using OpR = dispenso::OpResult<T>;
static constexpr int kSlots = 3;

enum Kind : uint8_t { CE, CV, CL, EM, DS, CC, MC, CA, MA, kNumKinds };
static const char* kKindName[] = {"CE", "CV", "CL", "EM", "DS", "CC", "MC", "CA", "MA"};
static bool binary(uint8_t k) {
  return k >= CC;
}

struct Op {
  uint8_t kind, i, j;
};
using History = std::vector<Op>;

static std::string opText(const Op& o) {
  if (binary(o.kind)) return seq::fmt("%s(%d,%d)", kKindName[o.kind], o.i, o.j);
  return seq::fmt("%s(%d)", kKindName[o.kind], o.i);
}
static std::string histText(const History& h) {
  std::string s;
  for (size_t k = 0; k < h.size(); k++) s += (k ? ";" : "") + opText(h[k]);
  return s;
}
static bool parseHist(const std::string& s, History& out) {
  out.clear();
  size_t p = 0;
  while (p < s.size()) {
    while (p < s.size() && (s[p] == ';' || s[p] == ' ' || s[p] == '\n' || s[p] == '\r')) p++;
    if (p >= s.size()) break;
    if (p + 2 > s.size()) return false;
    std::string nm = s.substr(p, 2);
    int kind = -1;
    for (int k = 0; k < kNumKinds; k++)
      if (nm == kKindName[k]) kind = k;
    if (kind < 0) return false;
    p += 2;
    int a = 0, b = 0, n = 0;
    if (binary((uint8_t)kind)) {
      if (sscanf(s.c_str() + p, "(%d,%d)%n", &a, &b, &n) < 2) return false;
    } else {
      if (sscanf(s.c_str() + p, "(%d)%n", &a, &n) < 1) return false;
    }
    if (n == 0 || a < 0 || a >= kSlots || b < 0 || b >= kSlots) return false;
    p += (size_t)n;
    out.push_back({(uint8_t)kind, (uint8_t)a, (uint8_t)b});
  }
  return true;
}

// ---- reference model ---------------------------------------------------------------------------------------------
struct MSlot {
  enum K : uint8_t { N, E, V, U } k = N;
  int v = 0;
};
struct Model {
  MSlot s[kSlots];
};

static bool applicable(const Model& m, const Op& o) {
  switch (o.kind) {
    case CE:
    case CV:
    case CL:
      return m.s[o.i].k == MSlot::N;
    case EM:
    case DS:
      return m.s[o.i].k != MSlot::N;
    case CC:
    case MC:
      return o.i != o.j && m.s[o.i].k == MSlot::N && m.s[o.j].k != MSlot::N;
    case CA:
    case MA:
      return m.s[o.i].k != MSlot::N && m.s[o.j].k != MSlot::N;
  }
  return false;
}
// `fresh` is the value a CV/CL/EM at this step stores (step index + 1: all values in one history are distinct)
static void applyModel(Model& m, const Op& o, int fresh) {
  MSlot& a = m.s[o.i];
  switch (o.kind) {
    case CE:
      a = {MSlot::E, 0};
      break;
    case CV:
    case CL:
    case EM:
      a = {MSlot::V, fresh};
      break;
    case DS:
      a = {MSlot::N, 0};
      break;
    case CC:
      a = m.s[o.j]; // U source -> U
      break;
    case MC:
      a = m.s[o.j];
      m.s[o.j] = {MSlot::U, 0};
      break;
    case CA:
      if (o.i != o.j) a = m.s[o.j];
      break;
    case MA:
      // self move-assignment: std::optional<Tracked<int>> keeps engagement and (Tracked's self-move keeps) the value
      if (o.i != o.j) {
        a = m.s[o.j];
        m.s[o.j] = {MSlot::U, 0};
      }
      break;
  }
}
// an operation is "non-trivial" when it reads or overwrites/destroys an engaged-or-moved-from object
static bool nontrivialOp(const Model& before, const Op& o) {
  auto heavy = [&](int i) { return before.s[i].k == MSlot::V || before.s[i].k == MSlot::U; };
  switch (o.kind) {
    case CE:
    case CV:
    case CL:
      return false;
    case EM:
    case DS:
      return heavy(o.i);
    default:
      return heavy(o.i) || heavy(o.j);
  }
}

// ---- the real objects --------------------------------------------------------------------------------------------
struct World {
  alignas(OpR) unsigned char store[kSlots][sizeof(OpR)];
  bool exists[kSlots] = {false, false, false};
  OpR& at(int i) {
    return *std::launder(reinterpret_cast<OpR*>(store[i]));
  }
  World() {
    memset(store, 0xAB, sizeof store);
  }
};

static std::string worldText(World& w, const Model& m) {
  std::string s;
  for (int i = 0; i < kSlots; i++) {
    std::string real = "-", mod;
    if (w.exists[i]) real = w.at(i).has_value() ? seq::fmt("val(%d)", w.at(i).value().v) : "empty";
    switch (m.s[i].k) {
      case MSlot::N:
        mod = "-";
        break;
      case MSlot::E:
        mod = "empty";
        break;
      case MSlot::V:
        mod = seq::fmt("val(%d)", m.s[i].v);
        break;
      case MSlot::U:
        mod = "moved-from";
        break;
    }
    s += seq::fmt("%s[%d real=%s model=%s]", i ? " " : "", i, real.c_str(), mod.c_str());
  }
  s += seq::fmt(" live=%zu ctor=%ld dtor=%ld", seq::registry().live.size(), seq::registry().constructed,
                seq::registry().destroyed);
  return s;
}

static void applyReal(World& w, const Op& o, int fresh, std::string& err) {
  switch (o.kind) {
    case CE:
      new (w.store[o.i]) OpR();
      w.exists[o.i] = true;
      break;
    case CV:
      new (w.store[o.i]) OpR(T(fresh));
      w.exists[o.i] = true;
      break;
    case CL: {
      const T val(fresh);
      new (w.store[o.i]) OpR(val);
      w.exists[o.i] = true;
      break;
    }
    case EM: {
      T& r = w.at(o.i).emplace(fresh);
      if (!w.at(o.i).has_value() || &r != &w.at(o.i).value() || r.v != fresh)
        if (err.empty()) err = "emplace() did not return a reference to the new contained value";
      break;
    }
    case DS:
      w.at(o.i).~OpR();
      w.exists[o.i] = false;
      memset(w.store[o.i], 0xAB, sizeof(OpR));
      break;
    case CC:
      new (w.store[o.i]) OpR(static_cast<const OpR&>(w.at(o.j)));
      w.exists[o.i] = true;
      break;
    case MC:
      new (w.store[o.i]) OpR(std::move(w.at(o.j)));
      w.exists[o.i] = true;
      break;
    case CA: {
      OpR& ret = (w.at(o.i) = static_cast<const OpR&>(w.at(o.j)));
      if (&ret != &w.at(o.i) && err.empty()) err = "copy assignment did not return *this";
      break;
    }
    case MA: {
      OpR& ret = (w.at(o.i) = std::move(w.at(o.j)));
      if (&ret != &w.at(o.i) && err.empty()) err = "move assignment did not return *this";
      break;
    }
  }
}

struct Outcome {
  std::string category; // empty = ok; stable text (no history specific numbers) used to de-duplicate
  std::string detail;
  int step = -1; // -1: teardown
};

static Outcome runHistory(const History& h, bool verbose) {
  Outcome out;
  auto& reg = seq::registry();
  reg.reset();
  {
    World w;
    Model m;
    auto fail = [&](const std::string& cat, const std::string& det, int step) {
      if (out.category.empty()) {
        out.category = cat;
        out.detail = det;
        out.step = step;
      }
    };
    for (size_t k = 0; k < h.size() && out.category.empty(); k++) {
      const Op& o = h[k];
      if (!applicable(m, o)) {
        fail("replay history is not applicable", opText(o), (int)k);
        break;
      }
      int fresh = (int)k + 1;
      std::string err;
      applyReal(w, o, fresh, err);
      applyModel(m, o, fresh);
      if (verbose) printf("  step %zu %-8s -> %s\n", k, opText(o).c_str(), worldText(w, m).c_str());
      if (!err.empty()) fail(err, err, (int)k);
      if (!reg.error.empty()) {
        // strip the tags so that the category is stable
        std::string cat = reg.error.substr(0, reg.error.find(" (new tag"));
        fail("lifetime: " + cat + " during " + kKindName[o.kind], reg.error, (int)k);
      }
      for (int i = 0; i < kSlots && out.category.empty(); i++) {
        if (m.s[i].k != MSlot::E && m.s[i].k != MSlot::V) continue;
        OpR& r = w.at(i);
        bool eng = (m.s[i].k == MSlot::V);
        const OpR& cr = r;
        if (r.has_value() != eng || static_cast<bool>(cr) != eng) {
          fail(seq::fmt("engagement differs from std::optional after %s (model %s)", kKindName[o.kind],
                        eng ? "engaged" : "disengaged"),
               seq::fmt("slot %d", i), (int)k);
          break;
        }
        if (eng) {
          T& val = r.value();
          if (!reg.live.count(&val)) {
            fail(seq::fmt("value() refers to an object that is not live after %s", kKindName[o.kind]), seq::fmt("slot %d", i),
                 (int)k);
            break;
          }
          if (val.v != m.s[i].v) {
            fail(seq::fmt("value differs from std::optional after %s", kKindName[o.kind]),
                 seq::fmt("slot %d holds %d, model %d", i, val.v, m.s[i].v), (int)k);
            break;
          }
        }
      }
    }
    // teardown: destroy every remaining OpResult; afterwards nothing may be live
    for (int i = 0; i < kSlots; i++)
      if (w.exists[i]) {
        w.at(i).~OpR();
        w.exists[i] = false;
      }
    if (verbose)
      printf("  teardown          -> live=%zu ctor=%ld dtor=%ld%s%s\n", reg.live.size(), reg.constructed, reg.destroyed,
             reg.error.empty() ? "" : " registry error: ", reg.error.c_str());
    if (out.category.empty()) {
      if (!reg.error.empty()) {
        std::string cat = reg.error.substr(0, reg.error.find(" (new tag"));
        out = {"lifetime: " + cat + " during teardown", reg.error, -1};
      } else if (!reg.live.empty() || reg.constructed != reg.destroyed) {
        out = {"lifetime: contained object(s) never destroyed (still live after every OpResult was destroyed)",
               seq::fmt("%zu live, constructed=%ld destroyed=%ld", reg.live.size(), reg.constructed, reg.destroyed), -1};
      }
    }
  }
  reg.reset();
  return out;
}

// ---- enumeration -------------------------------------------------------------------------------------------------
struct Enum {
  seq::Report& rep;
  int len = 0;
  History cur;
  std::vector<Op> alphabet;
  uint64_t failing = 0;
  std::set<std::string> cats;
  bool curNontrivial = false;

  explicit Enum(seq::Report& r) : rep(r) {
    // simplest-first: unary kinds before binary kinds, low slots first
    for (uint8_t k = 0; k < kNumKinds; k++) {
      if (!binary(k)) {
        for (uint8_t i = 0; i < kSlots; i++) alphabet.push_back({k, i, 0});
      } else {
        for (uint8_t i = 0; i < kSlots; i++)
          for (uint8_t j = 0; j < kSlots; j++) alphabet.push_back({k, i, j});
      }
    }
  }

  void leaf(bool nontrivial) {
    Outcome o = runHistory(cur, false);
    rep.evaluations++;
    if (nontrivial) {
      uint64_t h = 0x40;
      for (auto& op : cur) h = seq::mix(h, (uint64_t)op.kind * 16 + op.i * 4 + op.j + 1);
      if (rep.distinct.size() < 2000000)
        rep.add_distinct(h);
      else
        rep.distinct_overflow++; // every history is generated exactly once, so it is distinct from all earlier ones
      if (rep.samples.size() < 5 && (rep.evaluations % 977 == 0 || cur.size() >= 4))
        rep.sample("{\"ops\":\"" + histText(cur) + "\"}");
    }
    if (!o.category.empty()) {
      failing++;
      if (cats.insert(o.category).second) {
        std::string where = o.step < 0 ? "at teardown" : seq::fmt("at step %d", o.step);
        rep.violation(o.category + " -- shortest history: " + histText(cur) + " (" + where + "; " + o.detail + ")",
                      histText(cur));
      }
    }
  }

  void dfs(const Model& m, bool nontrivial) {
    if ((int)cur.size() == len) {
      leaf(nontrivial);
      return;
    }
    for (const Op& o : alphabet) {
      if (!applicable(m, o)) continue;
      Model n = m;
      bool nt = nontrivial || nontrivialOp(m, o);
      applyModel(n, o, (int)cur.size() + 1);
      cur.push_back(o);
      dfs(n, nt);
      cur.pop_back();
    }
  }
};

int main(int argc, char** argv) {
  std::string tier = "quick", replay;
  for (int i = 1; i < argc; i++) {
    if (!strcmp(argv[i], "--tier") && i + 1 < argc)
      tier = argv[++i];
    else if (!strcmp(argv[i], "--replay") && i + 1 < argc)
      replay = argv[++i];
  }

  if (!replay.empty()) {
    FILE* f = fopen(replay.c_str(), "r");
    if (!f) {
      fprintf(stderr, "cannot open %s\n", replay.c_str());
      return 2;
    }
    std::string all;
    char buf[4096];
    size_t n;
    while ((n = fread(buf, 1, sizeof buf, f)) > 0) all.append(buf, n);
    fclose(f);
    size_t p = all.find("\ninput\n");
    std::string text = p == std::string::npos ? all : all.substr(p + 7);
    History h;
    if (!parseHist(text, h)) {
      fprintf(stderr, "cannot parse history '%s'\n", text.c_str());
      return 2;
    }
    printf("replaying %s\n", histText(h).c_str());
    Outcome o = runHistory(h, true);
    if (o.category.empty()) {
      printf("REPLAY ok: history satisfies the oracle\n");
      return 0;
    }
    printf("REPLAY violation (%s): %s [%s]\n", o.step < 0 ? "teardown" : seq::fmt("step %d", o.step).c_str(),
           o.category.c_str(), o.detail.c_str());
    return 1;
  }

  int depth = tier == "thorough" ? 5 : 4;
  seq::Report rep;
  rep.name = "c40_opresult";
  rep.rule =
      "history contains at least one operation that reads, overwrites or destroys an engaged or moved-from OpResult "
      "(histories made only of constructions/operations on empty objects are trivial)";
  rep.domain = seq::fmt(
      "every applicable operation sequence of length 1..%d (each replayed on fresh storage, no sampling, no merging) over "
      "up to 3 OpResult<Tracked<int>> slots and the alphabet {construct empty, construct from rvalue value, construct from "
      "lvalue value, emplace, destroy, copy-construct i from j, move-construct i from j, copy-assign i=j incl. self, "
      "move-assign i=j incl. self}; compared with hand-tracked std::optional semantics (moved-from objects unspecified) and "
      "the Tracked lifetime registry; all remaining objects destroyed at the end of every history",
      depth);
  Enum e(rep);
  for (int len = 1; len <= depth; len++) {
    e.len = len;
    e.cur.clear();
    Model m;
    e.dfs(m, false);
  }
  fprintf(stderr, "c40_opresult: depth %d, %llu histories, %llu failing, %zu violation categories\n", depth,
          (unsigned long long)rep.evaluations, (unsigned long long)e.failing, e.cats.size());
  return rep.finish();
}
