// C32 -- dispenso::ConcurrentVector used single-threaded behaves like std::vector.
//
// Bounded-exhaustive enumeration: BFS over operation histories on a pair of vectors (v, w), every
// history replayed on fresh objects, histories that reach the same canonical state (contents of v
// and w + first-bucket shift + allocated-bucket mask + shouldDealloc mask + taint flag) merged.
// After every step the real vectors are compared with std::vector<Elem> models (size, contents,
// returned positions as indices, forward/reverse/const iteration, iterator arithmetic, [] / at /
// front / back, the six comparison operators against the second vector) and the lifetime registry
// of seq::Tracked is inspected (no construction over a live object, no destructor on a dead one,
// number of live element objects == number of elements, nothing live after the vectors die).
//
// Configurations: 2 (kPreferBuffersInline) x 2 (kIteratorPreferSpeed) x 3 (kReallocStrategy) x
// 2 (kDefaultCapacity 2 and 4) = 24, partitioned over up to 8 threads (each configuration is an
// independent exhaustive sub-domain; results are merged in configuration order).
//
// NOTE on SizeTraits: before /repo commit f908872 ConcurrentVector<T, Traits, SizeTraits> did not compile
// for any non-default SizeTraits (its iterator types named ConcurrentVector<T, Traits>).  The tiny
// capacities are therefore injected by specialising DefaultConcurrentVectorSizeTraits<Elem<Cap>>,
// where Elem<Cap> is a thin tag subclass of seq::Tracked<int> (one element type per capacity); that
// still works after the repair and is kept.  A compile-and-run smoke test of a real custom SizeTraits
// (and of max_size()) sits in main(); define C32_NO_SIZETRAITS_SMOKE to build against older headers.
#include <dispenso/concurrent_vector.h>

#include <atomic>
#include <list>
#include <memory>
#include <mutex>
#include <thread>
#include <unistd.h>

#include "seq_common.h"

extern "C" void __sanitizer_set_death_callback(void (*callback)(void));

// ------------------------------------------------------------------------------------------------
// element type: seq::Tracked<int> with a capacity tag (see NOTE above)
template <int Cap>
struct Elem : seq::Tracked<int> {
  using Base = seq::Tracked<int>;
  Elem() : Base() {}
  Elem(int x) : Base(x) {}
  Elem(const Elem&) = default;
  Elem(Elem&&) noexcept = default;
  Elem& operator=(const Elem&) = default;
  Elem& operator=(Elem&&) noexcept = default;
};

namespace dispenso {
template <>
struct DefaultConcurrentVectorSizeTraits<Elem<2>> {
  static constexpr size_t kDefaultCapacity = 2;
  static constexpr size_t kMaxVectorSize = size_t{1} << 12;
};
template <>
struct DefaultConcurrentVectorSizeTraits<Elem<4>> {
  static constexpr size_t kDefaultCapacity = 4;
  static constexpr size_t kMaxVectorSize = size_t{1} << 12;
};
} // namespace dispenso

struct SmokeSizeTraits {
  static constexpr size_t kDefaultCapacity = 2;
  static constexpr size_t kMaxVectorSize = size_t{1} << 10;
};

template <bool Inline, bool Fast, dispenso::ConcurrentVectorReallocStrategy S>
struct Tr {
  static constexpr bool kPreferBuffersInline = Inline;
  static constexpr dispenso::ConcurrentVectorReallocStrategy kReallocStrategy = S;
  static constexpr bool kIteratorPreferSpeed = Fast;
};

// ------------------------------------------------------------------------------------------------
// operations
enum Kind : uint8_t {
  PUSH_COPY,
  PUSH_MOVE,
  EMPLACE,
  POP,
  CLEAR,
  GROW_N,
  GROW_NVAL,
  GROW_RANGE,
  GROW_ILIST,
  GROW_GEN,
  GTAL,
  GTAL_VAL,
  RESIZE,
  RESIZE_VAL,
  RESERVE,
  SHRINK,
  ERASE,
  ERASE_RANGE,
  INSERT_COPY,
  INSERT_MOVE,
  INSERT_NVAL,
  INSERT_RANGE,
  INSERT_ILIST,
  ASSIGN_NVAL,
  ASSIGN_RANGE,
  COPY_V_W,
  COPY_W_V,
  MOVE_V_W,
  MOVE_W_V,
  SWAP,
  SWAP_FREE,
  SELF_ASSIGN,
  CT_DEFAULT,
  CT_RESERVE,
  CT_N,
  CT_NVAL,
  CT_RANGE,
  CT_SIZED_RANGE,
  CT_ILIST,
  CT_COPY,
  CT_MOVE,
  CT_COPY_W,
  CT_MOVE_W,
  INSERT_ALIAS,
  NKINDS
};
struct KindInfo {
  const char* name;
  int nargs;
};
static const KindInfo kKinds[NKINDS] = {
    {"push_back_copy", 0},   {"push_back_move", 0},  {"emplace_back", 0},    {"pop_back", 0},
    {"clear", 0},            {"grow_by", 1},         {"grow_by_val", 1},     {"grow_by_range", 1},
    {"grow_by_ilist", 1},    {"grow_by_generator", 1}, {"grow_to_at_least", 1}, {"grow_to_at_least_val", 1},
    {"resize", 1},           {"resize_val", 1},      {"reserve", 1},         {"shrink_to_fit", 0},
    {"erase", 1},            {"erase_range", 2},     {"insert_copy", 1},     {"insert_move", 1},
    {"insert_n_val", 2},     {"insert_range", 2},    {"insert_ilist", 2},    {"assign_n_val", 1},
    {"assign_range", 1},     {"v=w", 0},             {"w=v", 0},             {"v=move(w)", 0},
    {"w=move(v)", 0},        {"v.swap(w)", 0},       {"swap(v,w)", 0},       {"v=v", 0},
    {"ctor_default", 0},     {"ctor_reserve", 1},    {"ctor_n", 1},          {"ctor_n_val", 1},
    {"ctor_range", 1},       {"ctor_sized_range", 1}, {"ctor_ilist", 1},     {"ctor_copy", 0},
    {"ctor_move", 0},        {"ctor_copy_w", 0},     {"ctor_move_w", 0},     {"insert_alias_back", 1},
};

struct Op {
  uint8_t k = 0;
  int16_t a = 0, b = 0;
};
using Hist = std::vector<Op>;

static std::string op_text(const Op& o) {
  const KindInfo& ki = kKinds[o.k];
  if (ki.nargs == 0) return std::string(ki.name) + "()";
  if (ki.nargs == 1) return seq::fmt("%s(%d)", ki.name, (int)o.a);
  return seq::fmt("%s(%d,%d)", ki.name, (int)o.a, (int)o.b);
}
static std::string hist_text(const Hist& h, const Op* extra = nullptr) {
  std::string s;
  for (auto& o : h) {
    if (!s.empty()) s += ";";
    s += op_text(o);
  }
  if (extra) {
    if (!s.empty()) s += ";";
    s += op_text(*extra);
  }
  return s;
}
static bool parse_hist(const std::string& s, Hist& out) {
  size_t i = 0;
  while (i < s.size()) {
    size_t j = s.find(';', i);
    if (j == std::string::npos) j = s.size();
    std::string t = s.substr(i, j - i);
    i = j + 1;
    while (!t.empty() && (t.back() == ' ' || t.back() == '\n' || t.back() == '\r')) t.pop_back();
    if (t.empty()) continue;
    size_t p = t.rfind('(');
    if (p == std::string::npos || t.back() != ')') return false;
    std::string name = t.substr(0, p), args = t.substr(p + 1, t.size() - p - 2);
    Op o;
    bool found = false;
    for (int k = 0; k < NKINDS; k++)
      if (name == kKinds[k].name) {
        o.k = (uint8_t)k;
        found = true;
      }
    if (!found) return false;
    int a = 0, b = 0;
    if (kKinds[o.k].nargs == 1 && sscanf(args.c_str(), "%d", &a) != 1) return false;
    if (kKinds[o.k].nargs == 2 && sscanf(args.c_str(), "%d,%d", &a, &b) != 2) return false;
    o.a = (int16_t)a;
    o.b = (int16_t)b;
    out.push_back(o);
  }
  return true;
}


// ------------------------------------------------------------------------------------------------
// what the current thread is executing (for the hang watchdog and the sanitizer death callback)
struct Slot {
  std::atomic<uint64_t> tick{0};
  std::atomic<const Hist*> hist{nullptr};
  Op op;
  std::atomic<int> has_op{0};
  std::atomic<int> cfg{-1};
  std::atomic<int> active{0};
};
static Slot g_slots[9];
static thread_local Slot* t_slot = &g_slots[8];
static const char* kName = "c32_concurrent_vector";
static std::string cfg_text(int cfg);

static void write_emergency(const char* what, Slot* s) {
  seq::Report r;
  r.name = kName;
  r.exhaustive = false;
  r.domain = "aborted";
  r.rule = "aborted";
  const Hist* h = s->hist.load();
  std::string ops = h ? hist_text(*h, s->has_op.load() ? &s->op : nullptr) : std::string("?");
  std::string replay = "config " + cfg_text(s->cfg.load()) + "\nops " + ops;
  r.violation(std::string(what) + " while executing the last operation of the history", replay);
  fprintf(stderr, "C32 %s: %s\n", what, replay.c_str());
  r.finish();
}
static void death_callback() {
  static std::atomic<int> once{0};
  if (once.exchange(1)) // another thread died first: let it finish its report (it ends the process)
    for (;;) pause();
  write_emergency("sanitizer abort (memory error or undefined behaviour)", t_slot);
}

// ------------------------------------------------------------------------------------------------
struct Err {
  std::string cls; // short, number-free: used as the (deduplicated) violation message
  std::string detail;
  int sev = 0; // 1: only the returned position is wrong (state itself still comparable), 2: contents/behaviour wrong
  bool bad() const { return !cls.empty(); }
  bool fatal() const { return sev == 2; }
};
static Err mk(const char* cls, const std::string& detail = "", int sev = 2) {
  return Err{cls, detail, sev};
}

// heap blocks allocated minus freed by this thread (ASan allocator hooks); diagnostic for buffer leaks
static thread_local long t_heap_live = 0;
static bool g_trace_heap = false;
extern "C" void __sanitizer_malloc_hook(const volatile void* p, size_t n) { t_heap_live++; if (g_trace_heap) fprintf(stderr, "  malloc %p %zu\n", (void*)p, n); }
extern "C" void __sanitizer_free_hook(const volatile void* p) { t_heap_live--; if (g_trace_heap) fprintf(stderr, "  free %p\n", (void*)p); }
// The default 256 MB quarantine makes every allocation touch fresh pages (5x slower here); 2 MB still
// spans hundreds of evaluations.  ASAN_OPTIONS in the environment overrides these defaults.
extern "C" const char* __asan_default_options() { return "quarantine_size_mb=2:malloc_context_size=2"; }
static thread_local std::string t_keybuf;

struct Tier {
  int depth;
  std::vector<int> args2, args4; // argument sets for capacity 2 / 4
  std::vector<int> small2, small4; // counts used by the two-argument insert forms
  std::vector<int> ilens; // initializer_list lengths
};

struct ConfigResult {
  uint64_t evaluations = 0;
  uint64_t nontrivial = 0;
  std::vector<uint64_t> distinct;
  std::vector<std::string> samples;
  struct V {
    std::string msg, replay;
    size_t len;
    std::string base; // message without the "(history already contains ...)" prefix
  };
  std::vector<V> violations;
  uint64_t diag_use_nonlive = 0;
  std::string diag_use_nonlive_first;
  uint64_t diag_heap = 0; // evaluations after which this thread holds more/fewer heap blocks than before (buffer leak)
  std::string diag_heap_first;
  uint64_t states = 0, tainted_states = 0;
  std::vector<uint64_t> level_states;
  std::string level_text;
  bool aborted = false;
};

template <int Cap, bool Inline, bool Fast, dispenso::ConcurrentVectorReallocStrategy S>
struct Runner {
  using E = Elem<Cap>;
  using CV = dispenso::ConcurrentVector<E, Tr<Inline, Fast, S>>;
  using MV = std::vector<E>;
  static_assert(CV::kMaxBuffers <= 16, "masks are 16 bit");

  // The vector objects live in slots inside Env (placement new) rather than on the heap: two 1 KB
  // ASan allocations per evaluation were a third of the run time.  Their buffers stay on the heap.
  struct Env;
  struct SlotDel {
    Env* env;
    void operator()(CV* p) const {
      p->~CV();
      env->release(p);
    }
  };
  using Ptr = std::unique_ptr<CV, SlotDel>;
  struct Env {
    alignas(alignof(CV)) unsigned char store[4][sizeof(CV)];
    bool used[4] = {false, false, false, false};
    Ptr v, w;
    MV mv, mw;
    void release(CV* p) {
      for (int i = 0; i < 4; i++)
        if ((void*)store[i] == (void*)p) used[i] = false;
    }
    template <class... A>
    Ptr make(A&&... a) {
      for (int i = 0; i < 4; i++)
        if (!used[i]) {
          used[i] = true;
          return Ptr(new ((void*)store[i]) CV(std::forward<A>(a)...), SlotDel{this});
        }
      abort();
    }
    Env() : v(nullptr, SlotDel{this}), w(nullptr, SlotDel{this}) {
      v = make();
      w = make();
    }
    Env(const Env&) = delete;
  };

  int cfg_id = 0;
  std::unordered_set<uint32_t> throw_sizes_;
  ConfigResult res;
  bool replay_verbose = false;

  static int fresh(const Env& e) {
    int m = 0;
    for (auto& x : e.mv) m = std::max(m, x.v);
    for (auto& x : e.mw) m = std::max(m, x.v);
    return m + 1;
  }

  // ---- canonical state ---------------------------------------------------------------------
  static void key_of(const CV& v, std::string& k) {
    k.push_back((char)v.firstBucketShift_);
    unsigned alloc = 0, dea = 0;
    for (size_t b = 0; b < CV::kMaxBuffers; b++) {
      if (v.buffers_[b].load(std::memory_order_relaxed)) alloc |= 1u << b;
      if (v.buffers_.shouldDealloc(b)) dea |= 1u << b;
    }
    k.push_back((char)(alloc & 0xff));
    k.push_back((char)(alloc >> 8));
    k.push_back((char)(dea & 0xff));
    k.push_back((char)(dea >> 8));
#if DISPENSO_HAS_CACHED_PTRS
    unsigned stale = 0; // read paths use cachedPtrs_: a stale entry is observable behaviour
    for (size_t b = 0; b < CV::kMaxBuffers; b++)
      if (v.cachedPtrs_[b] != v.buffers_[b].load(std::memory_order_relaxed)) stale |= 1u << b;
    k.push_back((char)(stale & 0xff));
    k.push_back((char)(stale >> 8));
#endif
    size_t n = v.size();
    k.push_back((char)(n & 0xff));
    k.push_back((char)(n >> 8));
    for (size_t i = 0; i < n; i++) {
      int x = v[i].v;
      k.push_back((char)(x & 0xff));
      k.push_back((char)((x >> 8) & 0xff));
    }
  }
  // written into a per-thread buffer with reserved capacity (no heap traffic inside an evaluation)
  static const std::string& key_of(const Env& e, bool tainted) {
    std::string& k = t_keybuf;
    k.clear();
    k.push_back(tainted ? 'T' : 'c');
    key_of(*e.v, k);
    key_of(*e.w, k);
    return k;
  }

  // ---- returned position -----------------------------------------------------------------------
  template <class It>
  static Err chk_ret(CV& v, const MV& m, It it, size_t expect, const char* what) {
    ssize_t idx = it - v.begin();
    if (idx != (ssize_t)expect)
      return mk("returned iterator has the wrong index", seq::fmt("%s returned index %zd, std::vector gives %zu", what, idx, expect), 1);
    if (!(it == v.begin() + expect))
      return mk("returned iterator != begin()+index", seq::fmt("%s expected index %zu", what, expect), 1);
    if (expect < m.size() && expect < v.size()) {
      if ((*it).v != m[expect].v)
        return mk("returned iterator refers to the wrong element", seq::fmt("%s: *it=%d model %d at %zu", what, (*it).v, m[expect].v, expect), 1);
    }
    return {};
  }

  template <class F>
  static auto with_ilist(int k, int f, F&& fn) {
    switch (k) {
      case 0: {
        std::initializer_list<E> il = {};
        return fn(il);
      }
      case 1: {
        std::initializer_list<E> il = {E(f)};
        return fn(il);
      }
      case 2: {
        std::initializer_list<E> il = {E(f), E(f + 1)};
        return fn(il);
      }
      case 3: {
        std::initializer_list<E> il = {E(f), E(f + 1), E(f + 2)};
        return fn(il);
      }
      default: {
        std::initializer_list<E> il = {E(f), E(f + 1), E(f + 2), E(f + 3), E(f + 4)};
        return fn(il);
      }
    }
  }
  static int ilist_len(int k) { return k <= 3 ? k : 5; }

  // a moved-from vector: unspecified but valid -> every element in [0,size) must be a live object
  static Err valid_unspecified(CV& x, MV& model_sync) {
    size_t n = x.size();
    if (n > 4096) return mk("moved-from vector reports an absurd size");
    model_sync.clear();
    for (size_t i = 0; i < n; i++) {
      if (!seq::registry().live.count(&x[i])) return mk("moved-from vector has size()>0 but holds dead elements");
      model_sync.push_back(E(x[i].v));
    }
    return {};
  }

  // ---- one operation on the real vectors and on the models ---------------------------------
  Err apply(Env& e, const Op& op) {
    CV& v = *e.v;
    CV& w = *e.w;
    MV& mv = e.mv;
    MV& mw = e.mw;
    const int f = fresh(e);
    const size_t n = (size_t)op.a;
    const size_t old = mv.size();
    auto seqvals = [&](size_t cnt) {
      MV s;
      s.reserve(cnt);
      for (size_t i = 0; i < cnt; i++) s.push_back(E(f + (int)i));
      return s;
    };
    switch (op.k) {
      case PUSH_COPY: {
        E x(f);
        auto it = v.push_back(x);
        mv.push_back(x);
        return chk_ret(v, mv, it, old, "push_back(const T&)");
      }
      case PUSH_MOVE: {
        E x(f);
        auto it = v.push_back(std::move(x));
        mv.push_back(E(f));
        return chk_ret(v, mv, it, old, "push_back(T&&)");
      }
      case EMPLACE: {
        auto it = v.emplace_back(f);
        mv.emplace_back(f);
        return chk_ret(v, mv, it, old, "emplace_back");
      }
      case POP: {
        v.pop_back();
        mv.pop_back();
        return {};
      }
      case CLEAR: {
        v.clear();
        mv.clear();
        return {};
      }
      case GROW_N: {
        auto it = v.grow_by(n);
        mv.resize(old + n);
        return chk_ret(v, mv, it, old, "grow_by(n)");
      }
      case GROW_NVAL: {
        E x(f);
        auto it = v.grow_by(n, x);
        mv.resize(old + n, x);
        return chk_ret(v, mv, it, old, "grow_by(n,value)");
      }
      case GROW_RANGE: {
        MV src = seqvals(n);
        auto it = v.grow_by(src.begin(), src.end());
        mv.insert(mv.end(), src.begin(), src.end());
        return chk_ret(v, mv, it, old, "grow_by(first,last)");
      }
      case GROW_ILIST: {
        return with_ilist((int)n, f, [&](std::initializer_list<E> il) {
          auto it = v.grow_by(il);
          mv.insert(mv.end(), il);
          return chk_ret(v, mv, it, old, "grow_by(initializer_list)");
        });
      }
      case GROW_GEN: {
        int c = f;
        auto it = v.grow_by_generator(n, [&c]() { return E(c++); });
        for (size_t i = 0; i < n; i++) mv.push_back(E(f + (int)i));
        return chk_ret(v, mv, it, old, "grow_by_generator");
      }
      case GTAL:
      case GTAL_VAL: {
        E x(f);
        auto it = op.k == GTAL ? v.grow_to_at_least(n) : v.grow_to_at_least(n, x);
        if (old < n) {
          if (op.k == GTAL)
            mv.resize(n);
          else
            mv.resize(n, x);
          return chk_ret(v, mv, it, old, "grow_to_at_least (growing)");
        }
        // n == 0: there is no element n-1; the repaired header returns begin().  (The original code built an
        // iterator for index size_t(-1), reading buffers_[64 - firstBucketShift_] out of bounds: with that header
        // this call ends in the sanitizer death callback or in a wrong returned index.)
        if (n == 0) return chk_ret(v, mv, it, 0, "grow_to_at_least(0)");
        return chk_ret(v, mv, it, n - 1, "grow_to_at_least (not growing)");
      }
      case RESIZE: {
        v.resize((ssize_t)n);
        mv.resize(n);
        return {};
      }
      case RESIZE_VAL: {
        E x(f);
        v.resize((ssize_t)n, x);
        mv.resize(n, x);
        return {};
      }
      case RESERVE: {
        v.reserve((ssize_t)n);
        mv.reserve(n);
        return {};
      }
      case SHRINK: {
        v.shrink_to_fit();
        return {};
      }
      case ERASE: {
        auto it = v.erase(v.cbegin() + n);
        mv.erase(mv.begin() + n);
        return chk_ret(v, mv, it, n, "erase(pos)");
      }
      case ERASE_RANGE: {
        size_t q = (size_t)op.b;
        auto it = v.erase(v.cbegin() + n, v.cbegin() + q);
        mv.erase(mv.begin() + n, mv.begin() + q);
        return chk_ret(v, mv, it, n, "erase(first,last)");
      }
      case INSERT_COPY: {
        E x(f);
        auto it = v.insert(v.cbegin() + n, x);
        mv.insert(mv.begin() + n, x);
        return chk_ret(v, mv, it, n, "insert(pos,const T&)");
      }
      case INSERT_MOVE: {
        E x(f);
        auto it = v.insert(v.cbegin() + n, std::move(x));
        mv.insert(mv.begin() + n, E(f));
        return chk_ret(v, mv, it, n, "insert(pos,T&&)");
      }
      case INSERT_NVAL: {
        E x(f);
        size_t cnt = (size_t)op.b;
        auto it = v.insert(v.cbegin() + n, cnt, x);
        mv.insert(mv.begin() + n, cnt, x);
        return chk_ret(v, mv, it, n, "insert(pos,count,value)");
      }
      case INSERT_RANGE: {
        MV src = seqvals((size_t)op.b);
        auto it = v.insert(v.cbegin() + n, src.begin(), src.end());
        mv.insert(mv.begin() + n, src.begin(), src.end());
        return chk_ret(v, mv, it, n, "insert(pos,first,last)");
      }
      case INSERT_ILIST: {
        return with_ilist((int)op.b, f, [&](std::initializer_list<E> il) {
          auto it = v.insert(v.cbegin() + n, il);
          mv.insert(mv.begin() + n, il);
          return chk_ret(v, mv, it, n, "insert(pos,initializer_list)");
        });
      }
      case INSERT_ALIAS: {
        // the value is a reference to an element of the vector itself (std::vector must cope)
        int val = mv.back().v;
        auto it = v.insert(v.cbegin() + n, v[v.size() - 1]);
        mv.insert(mv.begin() + n, E(val));
        return chk_ret(v, mv, it, n, "insert(pos, v.back())");
      }
      case ASSIGN_NVAL: {
        E x(f);
        v.assign(n, x);
        mv.assign(n, x);
        return {};
      }
      case ASSIGN_RANGE: {
        MV src = seqvals(n);
        v.assign(src.begin(), src.end());
        mv.assign(src.begin(), src.end());
        return {};
      }
      case COPY_V_W: {
        CV& r = (v = w);
        mv = mw;
        if (&r != &v) return mk("copy assignment does not return *this");
        return {};
      }
      case COPY_W_V: {
        w = v;
        mw = mv;
        return {};
      }
      case MOVE_V_W: {
        v = std::move(w);
        mv = mw;
        return valid_unspecified(w, mw);
      }
      case MOVE_W_V: {
        w = std::move(v);
        mw = mv;
        return valid_unspecified(v, mv);
      }
      case SWAP: {
        v.swap(w);
        mv.swap(mw);
        return {};
      }
      case SWAP_FREE: {
        using std::swap;
        swap(v, w);
        mv.swap(mw);
        return {};
      }
      case SELF_ASSIGN: {
        CV& alias = v;
        v = alias;
        return {};
      }
      case CT_DEFAULT: {
        e.v = e.make();
        mv.clear();
        return {};
      }
      case CT_RESERVE: {
        e.v = e.make(n, dispenso::ReserveTag);
        mv.clear();
        return {};
      }
      case CT_N: {
        e.v = e.make(n);
        MV(n).swap(mv);
        return {};
      }
      case CT_NVAL: {
        E x(f);
        e.v = e.make(n, x);
        MV(n, x).swap(mv);
        return {};
      }
      case CT_RANGE: {
        MV src = seqvals(n);
        e.v = e.make(src.begin(), src.end());
        mv = src;
        return {};
      }
      case CT_SIZED_RANGE: {
        MV src = seqvals(n);
        std::list<E> l(src.begin(), src.end());
        e.v = e.make(n, l.begin(), l.end());
        mv = src;
        return {};
      }
      case CT_ILIST: {
        return with_ilist((int)n, f, [&](std::initializer_list<E> il) {
          e.v = e.make(il);
          MV(il).swap(mv);
          return Err{};
        });
      }
      case CT_COPY: {
        Ptr t = e.make(v);
        Err r = contents(*t, mv, "copy-constructed vector");
        if (r.bad()) return r;
        r = contents(v, mv, "source of copy construction");
        if (r.bad()) return r;
        e.v = std::move(t);
        return {};
      }
      case CT_MOVE: {
        Ptr t = e.make(std::move(v));
        Err r = contents(*t, mv, "move-constructed vector");
        if (r.bad()) return r;
        MV scratch;
        r = valid_unspecified(v, scratch);
        if (r.bad()) return r;
        e.v = std::move(t); // destroys the moved-from vector
        return {};
      }
      case CT_COPY_W: {
        e.v = e.make(w);
        mv = mw;
        return {};
      }
      case CT_MOVE_W: {
        e.v = e.make(std::move(w));
        mv = mw;
        return valid_unspecified(w, mw);
      }
    }
    return mk("unknown op");
  }

  // ---- observers ---------------------------------------------------------------------------
  static Err contents(CV& v, const MV& m, const char* which) {
    if (v.size() != m.size()) return mk("size() differs from std::vector", seq::fmt("%s: size %zu, model %zu", which, v.size(), m.size()));
    for (size_t i = 0; i < m.size(); i++)
      if (v[i].v != m[i].v)
        return mk("contents differ from std::vector", seq::fmt("%s: [%zu]=%d, model %d", which, i, v[i].v, m[i].v));
    return {};
  }

  template <class It, class VecRef>
  static Err iter_checks(VecRef& v, const MV& m, const char* which) {
    const size_t n = m.size();
    It b = v.begin(), en = v.end();
    if (en - b != (ssize_t)n) return mk("end()-begin() != size", which);
    if ((b == en) != (n == 0)) return mk("begin()==end() disagrees with emptiness", which);
    size_t i = 0;
    for (It it = b; it != en; ++it, ++i) {
      if (i >= n) return mk("forward iteration runs past size()", which);
      if ((*it).v != m[i].v) return mk("forward iteration yields a wrong element", seq::fmt("%s at %zu", which, i));
      if (it->v != m[i].v) return mk("operator-> yields a wrong element", which);
    }
    if (i != n) return mk("forward iteration stops early", which);
    for (i = 0; i <= n; i++) {
      It it = b + (ssize_t)i;
      if (it - b != (ssize_t)i) return mk("(begin()+i)-begin() != i", seq::fmt("%s i=%zu got %zd", which, i, (ssize_t)(it - b)));
      if (en - it != (ssize_t)(n - i)) return mk("end()-(begin()+i) != size-i", seq::fmt("%s i=%zu", which, i));
      It it2 = b;
      it2 += (ssize_t)i;
      if (!(it2 == it) || it2 != it) return mk("begin()+=i differs from begin()+i", seq::fmt("%s i=%zu", which, i));
      It it3 = en;
      it3 -= (ssize_t)(n - i);
      if (!(it3 == it)) return mk("end()-=(size-i) differs from begin()+i", seq::fmt("%s i=%zu", which, i));
      It it4 = en - (ssize_t)(n - i);
      if (!(it4 == it) || it4 - b != (ssize_t)i) return mk("end()-(size-i) differs from begin()+i", seq::fmt("%s i=%zu", which, i));
      if ((b < it) != (0 < i) || (it < en) != (i < n) || !(b <= it) || !(it <= en) || !(it >= b) || (it > b) != (i > 0) ||
          (en > it) != (i < n))
        return mk("iterator ordering comparisons wrong", seq::fmt("%s i=%zu", which, i));
      if (i < n) {
        if ((*it).v != m[i].v) return mk("*(begin()+i) wrong", seq::fmt("%s i=%zu", which, i));
        if (b[(ssize_t)i].v != m[i].v) return mk("begin()[i] wrong", seq::fmt("%s i=%zu", which, i));
        if (it[(ssize_t)(n - 1 - i)].v != m[n - 1].v) return mk("it[k] (forward) wrong", seq::fmt("%s i=%zu", which, i));
        if (it[-(ssize_t)i].v != m[0].v) return mk("it[-k] wrong", seq::fmt("%s i=%zu", which, i));
        It t = it;
        It o = t++;
        if (!(o == it) || t - b != (ssize_t)(i + 1)) return mk("post-increment wrong", seq::fmt("%s i=%zu", which, i));
      }
      if (i > 0) {
        It t = it;
        It o = t--;
        if (!(o == it) || t - b != (ssize_t)(i - 1) || (*t).v != m[i - 1].v) return mk("post-decrement wrong", seq::fmt("%s i=%zu", which, i));
        It u = it;
        --u;
        if (!(u == t)) return mk("pre-decrement wrong", seq::fmt("%s i=%zu", which, i));
      }
    }
    return {};
  }

  static Err deep(CV& v, const MV& m, const char* which, bool with_throws) {
    Err r = contents(v, m, which);
    if (r.bad()) return r;
    const CV& c = v;
    const size_t n = m.size();
    if (v.empty() != m.empty()) return mk("empty() differs", which);
    if (v.capacity() < n) return mk("capacity() < size()", which);
    r = iter_checks<typename CV::iterator>(v, m, which);
    if (r.bad()) return r;
    r = iter_checks<typename CV::const_iterator>(c, m, which);
    if (r.bad()) return r;
    {
      size_t i = 0;
      for (auto it = c.cbegin(); it != c.cend(); ++it, ++i)
        if (i >= n || (*it).v != m[i].v) return mk("cbegin/cend iteration wrong", which);
      if (i != n) return mk("cbegin/cend iteration stops early", which);
      i = n;
      for (auto it = v.rbegin(); it != v.rend(); ++it) {
        if (i == 0) return mk("reverse iteration runs past the front", which);
        --i;
        if ((*it).v != m[i].v) return mk("reverse iteration yields a wrong element", seq::fmt("%s at %zu", which, i));
      }
      if (i != 0) return mk("reverse iteration stops early", which);
      i = n;
      for (auto it = c.rbegin(); it != c.rend(); ++it) {
        if (i == 0) return mk("const reverse iteration runs past the front", which);
        --i;
        if ((*it).v != m[i].v) return mk("const reverse iteration yields a wrong element", which);
      }
      if (i != 0) return mk("const reverse iteration stops early", which);
    }
    for (size_t i = 0; i < n; i++) {
      if (c[i].v != m[i].v || v.at(i).v != m[i].v || c.at(i).v != m[i].v) return mk("operator[] const / at() wrong", seq::fmt("%s i=%zu", which, i));
      if (&v[i] != &v.at(i) || &v[i] != &*(v.begin() + (ssize_t)i)) return mk("[] / at / iterator disagree on the address", which);
    }
    if (n) {
      if (v.front().v != m.front().v || c.front().v != m.front().v) return mk("front() wrong", which);
      if (v.back().v != m.back().v || c.back().v != m.back().v) return mk("back() wrong", which);
      if (&v.front() != &v[0] || &v.back() != &v[n - 1]) return mk("front()/back() address wrong", which);
    }
    if (!with_throws) return {}; // (each throw costs a sigaltstack syscall under ASan; w only ever holds states v had)
    bool threw = false;
    try {
      (void)v.at(n);
    } catch (const std::out_of_range&) {
      threw = true;
    }
    if (!threw) return mk("at(size()) does not throw", which);
    threw = false;
    try {
      (void)c.at(n);
    } catch (const std::out_of_range&) {
      threw = true;
    }
    if (!threw) return mk("const at(size()) does not throw", which);
    return {};
  }

  static Err compare_ops(const CV& v, const CV& w, const MV& mv, const MV& mw) {
    if ((v == w) != (mv == mw)) return mk("operator== differs from std::vector");
    if ((v != w) != (mv != mw)) return mk("operator!= differs from std::vector");
    if ((v < w) != (mv < mw)) return mk("operator< differs from std::vector");
    if ((v > w) != (mv > mw)) return mk("operator> differs from std::vector");
    if ((v <= w) != (mv <= mw)) return mk("operator<= differs from std::vector");
    if ((v >= w) != (mv >= mw)) return mk("operator>= differs from std::vector");
    if ((w < v) != (mw < mv)) return mk("operator< (swapped) differs from std::vector");
    if (!(v == v) || (v != v) || (v < v) || !(v <= v)) return mk("comparison with itself wrong");
    return {};
  }

  // lifetime facts after a step: the element objects of both vectors and both models are live,
  // nothing else is
  Err lifetime_step(const Env& e, const Hist& h, const Op* op, bool per_element = true) {
    auto& reg = seq::registry();
    if (!reg.error.empty()) {
      if (reg.error == "use of an object that is not live") {
        // copy/assign from or into an object that was never constructed: diagnostic only
        res.diag_use_nonlive++;
        if (res.diag_use_nonlive_first.empty()) res.diag_use_nonlive_first = hist_text(h, op);
        reg.error.clear();
      } else {
        return mk(reg.error.rfind("constructed over", 0) == 0 ? "an element was constructed over a live object (no destructor call in between)"
                                                                : "destructor ran on an object that is not live",
                  reg.error);
      }
    }
    size_t want = 2 * (e.mv.size() + e.mw.size());
    size_t have = reg.live.size();
    if (have > want)
      return mk("element objects outside [0,size) are still live after the operation (never destroyed)",
                seq::fmt("%zu live objects, %zu expected", have, want));
    if (have < want) return mk("fewer live element objects than elements", seq::fmt("%zu live objects, %zu expected", have, want));
    if (!per_element) return {};
    for (size_t i = 0; i < e.v->size(); i++)
      if (!reg.live.count(&(*e.v)[i])) return mk("an element inside [0,size) is not a live object");
    for (size_t i = 0; i < e.w->size(); i++)
      if (!reg.live.count(&(*e.w)[i])) return mk("an element inside [0,size) is not a live object");
    return {};
  }

  // ---- one evaluation: replay history, apply op with full checks ---------------------------
  struct Outcome {
    Err pos; // the operation returned a wrong position (state still comparable)
    Err content; // contents / iteration / divergence: the history is not extended
    Err life; // lifetime
    std::string key;
    size_t sv = 0, sw = 0, fv = 0, fw = 0;
    bool heap_unbalanced = false;
  };

  // always: size + contents through operator[] and through forward iteration
  static Err light(CV& v, const MV& m, const char* which) {
    Err r = contents(v, m, which);
    if (r.bad()) return r;
    size_t i = 0, n = m.size();
    auto en = v.end();
    for (auto it = v.begin(); it != en; ++it, ++i) {
      if (i >= n) return mk("forward iteration runs past size()", which);
      if ((*it).v != m[i].v) return mk("forward iteration yields a wrong element", seq::fmt("%s at %zu", which, i));
    }
    if (i != n) return mk("forward iteration stops early", which);
    return {};
  }
  static Err all_observers(Env& e, bool throws = true) {
    Err r = deep(*e.v, e.mv, "v", throws);
    if (!r.bad()) r = deep(*e.w, e.mw, "w", false);
    if (!r.bad()) r = compare_ops(*e.v, *e.w, e.mv, e.mw);
    return r;
  }

  // `seen`: canonical states whose observers were already checked (the complete observer set runs
  // once per canonical state, the light one after every evaluation); nullptr = always run all.
  Outcome evaluate(const Hist& h, const std::string* expect_key, bool tainted, const Op* op, bool check_every_step,
                   const std::unordered_set<std::string>* seen = nullptr, bool last_level = false) {
    Outcome out;
    auto& reg = seq::registry();
    reg.reset();
    t_slot->hist.store(&h);
    t_slot->has_op.store(0);
    if (op) {
      t_slot->op = *op;
      t_slot->has_op.store(1);
    }
    t_slot->tick.fetch_add(1, std::memory_order_relaxed);
    const long heap0 = t_heap_live;
    {
      Env e;
      for (size_t i = 0; i < h.size() && !out.content.bad(); i++) {
        Err r = apply(e, h[i]);
        if (replay_verbose)
          printf("  step %zu %-28s -> v.size=%zu w.size=%zu %s %s\n", i, op_text(h[i]).c_str(), e.v->size(), e.w->size(), r.cls.c_str(),
                 r.detail.c_str());
        if (check_every_step) {
          if (r.bad() && !r.fatal()) {
            if (!out.pos.bad()) {
              out.pos = r;
              out.pos.detail += " [at step " + std::to_string(i) + " " + op_text(h[i]) + "]";
            }
            r = Err{};
          }
          if (!r.bad()) r = all_observers(e);
          if (r.bad()) {
            out.content = r;
            out.content.detail += " [at step " + std::to_string(i) + " " + op_text(h[i]) + "]";
            break;
          }
          if (!out.life.bad()) {
            Hist pre(h.begin(), h.begin() + i + 1);
            out.life = lifetime_step(e, pre, nullptr);
            if (out.life.bad()) out.life.detail += " [at step " + std::to_string(i) + " " + op_text(h[i]) + "]";
          }
        } else if (r.fatal() && !tainted) {
          out.content = mk("replay of a recorded history diverged", r.cls + " " + r.detail);
        }
      }
      if (!out.content.bad() && expect_key) {
        if (!tainted) {
          Err l = lifetime_step(e, h, nullptr, false);
          if (l.bad()) out.content = mk("replay of a recorded history diverged", "lifetime: " + l.cls);
        }
        if (!out.content.bad() && key_of(e, tainted) != *expect_key)
          out.content = mk("replay of a recorded history diverged", "canonical state differs on replay");
      }
      bool have_key = false;
      if (!out.content.bad() && op) {
        Err r = apply(e, *op);
        if (r.bad() && !r.fatal()) {
          out.pos = r;
          r = Err{};
        }
        if (!r.bad()) r = light(*e.v, e.mv, "v");
        if (!r.bad()) r = light(*e.w, e.mw, "w");
        if (!r.bad() && !tainted) out.life = lifetime_step(e, h, op);
        if (!r.bad()) {
          key_of(e, tainted || out.life.bad());
          have_key = true;
          if (!seen || !seen->count(t_keybuf)) {
            // at(size()) must throw: every new state, except on the last level once per (size, first-bucket shift)
            // (a throw costs a sigaltstack syscall under ASan and at() only reads size_)
            bool thr = !last_level || throw_sizes_.insert((uint32_t)((e.v->size() << 8) | e.v->firstBucketShift_)).second;
            r = all_observers(e, thr);
          }
        }
        out.content = r;
      }
      if (!out.content.bad()) {
        if (!have_key) key_of(e, tainted || out.life.bad());
        out.sv = e.mv.size();
        out.sw = e.mw.size();
        out.fv = e.v->firstBucketLen_;
        out.fw = e.w->firstBucketLen_;
      }
    } // vectors and models destroyed here
    const long heap1 = t_heap_live;
    if (!out.content.bad()) out.key = t_keybuf;
    if (!tainted && !out.life.bad() && !out.content.bad()) {
      if (!reg.error.empty() && reg.error != "use of an object that is not live")
        out.life = mk("lifetime error while destroying the vectors", reg.error);
      else if (!reg.live.empty())
        out.life = mk("element objects still live after the vectors were destroyed", seq::fmt("%zu objects", reg.live.size()));
      if (out.life.bad() && !out.key.empty()) out.key[0] = 'T';
    }
    // heap blocks: only meaningful when no message strings were built inside the block
    if (!tainted && !out.content.bad() && !out.pos.bad() && !out.life.bad() && !check_every_step && !replay_verbose && heap1 != heap0)
      out.heap_unbalanced = true;
    t_slot->hist.store(nullptr);
    return out;
  }

  // ---- alphabet for a state ----------------------------------------------------------------
  static void positions(const std::vector<int>& N, size_t sz, std::vector<int>& out) {
    out.clear();
    for (int p : N)
      if ((size_t)p <= sz) out.push_back(p);
    if (sz > 0) out.push_back((int)sz - 1);
    out.push_back((int)sz);
    std::sort(out.begin(), out.end());
    out.erase(std::unique(out.begin(), out.end()), out.end());
  }
  static void alphabet(const Tier& t, size_t sv, size_t sw, std::vector<Op>& out) {
    (void)sw;
    const std::vector<int>& N = Cap == 2 ? t.args2 : t.args4;
    const std::vector<int>& NS = Cap == 2 ? t.small2 : t.small4;
    out.clear();
    auto add = [&](int k, int a = 0, int b = 0) {
      Op o;
      o.k = (uint8_t)k;
      o.a = (int16_t)a;
      o.b = (int16_t)b;
      out.push_back(o);
    };
    std::vector<int> P;
    positions(N, sv, P);
    add(PUSH_COPY);
    add(PUSH_MOVE);
    add(EMPLACE);
    if (sv) add(POP);
    add(CLEAR);
    for (int k : {GROW_N, GROW_NVAL, GROW_RANGE, GROW_GEN})
      for (int n : N) add(k, n);
    for (int n : t.ilens) add(GROW_ILIST, n);
    for (int k : {GTAL, GTAL_VAL, RESIZE, RESIZE_VAL, RESERVE})
      for (int n : N) add(k, n);
    add(SHRINK);
    for (int p : P)
      if ((size_t)p < sv) add(ERASE, p);
    for (int p : P)
      for (int q : P)
        if (p <= q) add(ERASE_RANGE, p, q);
    for (int p : P) add(INSERT_COPY, p);
    for (int p : P) add(INSERT_MOVE, p);
    for (int p : P)
      for (int n : NS) add(INSERT_NVAL, p, n);
    for (int p : P)
      for (int n : NS) add(INSERT_RANGE, p, n);
    for (int p : P)
      for (int n : t.ilens) add(INSERT_ILIST, p, n);
    for (int k : {ASSIGN_NVAL, ASSIGN_RANGE})
      for (int n : N) add(k, n);
    for (int k : {COPY_V_W, COPY_W_V, MOVE_V_W, MOVE_W_V, SWAP, SWAP_FREE, SELF_ASSIGN, CT_DEFAULT}) add(k);
    for (int k : {CT_RESERVE, CT_N, CT_NVAL, CT_RANGE, CT_SIZED_RANGE})
      for (int n : N) add(k, n);
    for (int n : t.ilens) add(CT_ILIST, n);
    for (int k : {CT_COPY, CT_MOVE, CT_COPY_W, CT_MOVE_W}) add(k);
    if (sv)
      for (int p : P) add(INSERT_ALIAS, p);
  }

  void add_violation(const std::string& msg, const Err& e, const Hist& h, const Op* op, const std::string& base = "") {
    size_t len = h.size() + (op ? 1 : 0);
    for (auto& v : res.violations)
      if (v.msg == msg) return;
    std::string replay = "config " + cfg_text(cfg_id) + "\nops " + hist_text(h, op) + "\ndetail " + e.detail;
    res.violations.push_back({msg, replay, len, base.empty() ? msg : base});
  }

  struct StateRec {
    Hist hist;
    std::string key;
    bool tainted = false;
    bool crossed = false; // some vector held elements beyond its first bucket along the history
    size_t sv = 0, sw = 0;
  };

  void run(const Tier& t) {
    std::unordered_set<std::string> seen;
    std::vector<StateRec> cur, next;
    {
      Hist h0;
      Outcome o = evaluate(h0, nullptr, false, nullptr, false);
      StateRec s;
      s.key = o.key;
      seen.insert(o.key);
      cur.push_back(s);
      res.level_states.clear();
      res.level_states.push_back(1);
    }
    std::vector<Op> alpha;
    for (int d = 0; d < t.depth; d++) {
      next.clear();
      for (const StateRec& s : cur) {
        alphabet(t, s.sv, s.sw, alpha);
        for (const Op& op : alpha) {
          Outcome o = evaluate(s.hist, &s.key, s.tainted, &op, false, &seen, d + 1 == t.depth);
          if (o.heap_unbalanced) {
            // one-time allocations (stdio, unordered_map rehash...) disappear on a second run
            Outcome o2 = evaluate(s.hist, &s.key, s.tainted, &op, false, &seen, d + 1 == t.depth);
            if (o2.heap_unbalanced) {
              if (!res.diag_heap && getenv("C32_TRACE_HEAP")) { // debugging aid: print the allocator calls of the first such case
                g_trace_heap = true;
                evaluate(s.hist, &s.key, s.tainted, &op, false, &seen, d + 1 == t.depth);
                g_trace_heap = false;
              }
              res.diag_heap++;
              if (res.diag_heap_first.empty()) res.diag_heap_first = hist_text(s.hist, &op);
            }
          }
          res.evaluations++;
          bool crossed = s.crossed || (!o.content.bad() && (o.sv > o.fv || o.sw > o.fw));
          if (crossed) {
            res.nontrivial++;
            uint64_t hh = seq::mix(0x32c32, (uint64_t)cfg_id);
            for (auto& x : s.hist) hh = seq::mix(hh, ((uint64_t)x.k << 32) ^ ((uint64_t)(uint16_t)x.a << 16) ^ (uint16_t)x.b);
            hh = seq::mix(hh, ((uint64_t)op.k << 32) ^ ((uint64_t)(uint16_t)op.a << 16) ^ (uint16_t)op.b);
            if (res.distinct.size() < 4096) res.distinct.push_back(hh);
            if (res.samples.size() < 2 && d == t.depth - 1 && (res.evaluations % 977) == 0)
              res.samples.push_back("{\"config\":\"" + cfg_text(cfg_id) + "\",\"ops\":\"" + hist_text(s.hist, &op) + "\"}");
          }
          const char* pre = s.tainted ? "(history already contains a lifetime violation) " : "";
          if (o.pos.bad())
            add_violation(std::string(pre) + kKinds[op.k].name + ": " + o.pos.cls, o.pos, s.hist, &op, std::string(kKinds[op.k].name) + ": " + o.pos.cls);
          if (o.content.bad()) {
            add_violation(std::string(pre) + kKinds[op.k].name + ": " + o.content.cls, o.content, s.hist, &op,
                          std::string(kKinds[op.k].name) + ": " + o.content.cls);
            continue; // dead end
          }
          if (o.life.bad()) add_violation(std::string(kKinds[op.k].name) + ": " + o.life.cls, o.life, s.hist, &op);
          // last level: remember the state too, so that the complete observer set runs once per state
          if (seen.insert(o.key).second && d + 1 < t.depth) {
            StateRec ns;
            ns.hist = s.hist;
            ns.hist.push_back(op);
            ns.key = std::move(o.key);
            ns.tainted = s.tainted || o.life.bad();
            ns.crossed = crossed;
            ns.sv = o.sv;
            ns.sw = o.sw;
            next.push_back(std::move(ns));
          }
        }
      }
      if (d + 1 < t.depth) {
        res.level_states.push_back(next.size());
        for (auto& s : next) res.tainted_states += s.tainted;
      }
      cur.swap(next);
    }
    res.states += seen.size();
    if (!res.level_text.empty()) res.level_text += " + ";
    for (size_t l = 0; l < res.level_states.size(); l++) res.level_text += (l ? "/" : "") + std::to_string(res.level_states[l]);
    throw_sizes_.clear();
  }

  // replay a stored history with every check after every step; returns 1 if anything is wrong
  int replay(const Hist& h) {
    replay_verbose = true;
    Outcome o = evaluate(h, nullptr, false, nullptr, true);
    if (!o.content.bad() && !o.life.bad()) {
      // evaluate() only looks at destruction-time lifetimes when no step failed; redo without verbosity
      replay_verbose = false;
    }
    int rc = 0;
    if (o.pos.bad()) {
      printf("REPLAY violation (returned position): %s -- %s\n", o.pos.cls.c_str(), o.pos.detail.c_str());
      rc = 1;
    }
    if (o.content.bad()) {
      printf("REPLAY violation (contents/behaviour): %s -- %s\n", o.content.cls.c_str(), o.content.detail.c_str());
      rc = 1;
    }
    if (o.life.bad()) {
      printf("REPLAY violation (lifetime): %s -- %s\n", o.life.cls.c_str(), o.life.detail.c_str());
      rc = 1;
    }
    if (!rc) printf("REPLAY: history passes all checks\n");
    return rc;
  }
};

// ------------------------------------------------------------------------------------------------
using RS = dispenso::ConcurrentVectorReallocStrategy;
struct ConfigDesc {
  int cap;
  bool inl, fast;
  int strat;
};
static std::vector<ConfigDesc> g_cfgs;
static const char* kStratNames[] = {"kFullBufferAhead", "kHalfBufferAhead", "kAsNeeded"};
static std::string cfg_text(int cfg) {
  if (cfg < 0 || cfg >= (int)g_cfgs.size()) return "?";
  auto& c = g_cfgs[cfg];
  return seq::fmt("cap=%d inline=%d fastiter=%d strategy=%s", c.cap, (int)c.inl, (int)c.fast, kStratNames[c.strat]);
}

template <int Cap, bool Inline, bool Fast, RS S>
static void run_cfg(int id, const std::vector<Tier>& passes, const Hist* replay_hist, ConfigResult* out, int* rc) {
  Runner<Cap, Inline, Fast, S> r;
  r.cfg_id = id;
  if (replay_hist) {
    *rc = r.replay(*replay_hist);
    return;
  }
  for (const Tier& t : passes) r.run(t);
  *out = std::move(r.res);
}
using RunFn = void (*)(int, const std::vector<Tier>&, const Hist*, ConfigResult*, int*);
static std::vector<RunFn> g_fns;

template <int Cap, bool Inline, bool Fast>
static void reg3() {
  g_cfgs.push_back({Cap, Inline, Fast, 0});
  g_fns.push_back(&run_cfg<Cap, Inline, Fast, RS::kFullBufferAhead>);
  g_cfgs.push_back({Cap, Inline, Fast, 1});
  g_fns.push_back(&run_cfg<Cap, Inline, Fast, RS::kHalfBufferAhead>);
  g_cfgs.push_back({Cap, Inline, Fast, 2});
  g_fns.push_back(&run_cfg<Cap, Inline, Fast, RS::kAsNeeded>);
}
template <int Cap>
static void reg_cap() {
  reg3<Cap, true, true>();
  reg3<Cap, true, false>();
  reg3<Cap, false, true>();
  reg3<Cap, false, false>();
}

static std::string ints(const std::vector<int>& v) {
  std::string s = "{";
  for (size_t i = 0; i < v.size(); i++) s += (i ? "," : "") + std::to_string(v[i]);
  return s + "}";
}

int main(int argc, char** argv) {
  std::string tier = "quick", replay_file;
  int only_cfg = -1, depth_override = 0;
  std::vector<int> args_override, small_override;
  for (int i = 1; i < argc; i++) {
    std::string a = argv[i];
    if (a == "--tier" && i + 1 < argc)
      tier = argv[++i];
    else if (a == "--replay" && i + 1 < argc)
      replay_file = argv[++i];
    else if (a == "--config" && i + 1 < argc)
      only_cfg = atoi(argv[++i]);
    else if (a == "--depth" && i + 1 < argc)
      depth_override = atoi(argv[++i]);
    else if ((a == "--args" || a == "--small") && i + 1 < argc) { // experiments: one pass with these argument sets
      std::vector<int>& dst = a == "--args" ? args_override : small_override;
      for (char* tok = strtok(argv[++i], ","); tok; tok = strtok(nullptr, ",")) dst.push_back(atoi(tok));
    }
  }
  reg_cap<2>();
  reg_cap<4>();
#ifndef C32_NO_SIZETRAITS_SMOKE
  {
    dispenso::ConcurrentVector<int, dispenso::DefaultConcurrentVectorTraits, SmokeSizeTraits> sv;
    for (int i = 0; i < 9; i++) sv.push_back(i);
    int sum = 0;
    for (int x : sv) sum += x;
    if (sum != 36 || sv.size() != 9 || sv.max_size() != SmokeSizeTraits::kMaxVectorSize || sv.default_capacity() != 2) {
      fprintf(stderr, "custom SizeTraits smoke test failed\n");
      return 2;
    }
  }
#endif
  __sanitizer_set_death_callback(death_callback);

  // Argument sets.  A default-constructed vector has first bucket length F = kDefaultCapacity/2 and buckets
  // [0,F) [F,2F) [2F,4F) [4F,8F)...: capacity 2 -> boundaries 1,2,4,8; capacity 4 -> boundaries 2,4,8.
  //   quick   : depth 3, sizes {0,1,2,3} + {3,4,5} (boundary 4 -1/0/+1), insert counts and ilist lengths {0,1,2,3}.
  //   thorough: pass 1 depth 3, sizes {0,1,2,3} + {3,4,5} + {7,8,9} (boundaries 4 and 8), insert counts {0,1,2,3};
  //             pass 2 depth 4, sizes and ilist lengths {0,1,3}, insert counts {0,1} (sums reach 12: four buckets at cap 2).
  // (depth 4 over the quick alphabet would be ~10^9 evaluations: the last level is (#states ~1e5) x (~270 ops) x 24.)
  std::vector<Tier> passes;
  auto add_pass = [&](int depth, std::vector<int> a2, std::vector<int> a4, std::vector<int> s2, std::vector<int> s4,
                      std::vector<int> il = {0, 1, 2, 3, 5}) {
    Tier t;
    t.ilens = il;
    t.depth = depth;
    t.args2 = a2;
    t.args4 = a4;
    t.small2 = s2;
    t.small4 = s4;
    passes.push_back(t);
  };
  const std::vector<int> A6 = {0, 1, 2, 3, 4, 5}, A9 = {0, 1, 2, 3, 4, 5, 7, 8, 9};
  if (!args_override.empty()) {
    add_pass(depth_override ? depth_override : 3, args_override, args_override, small_override.empty() ? args_override : small_override,
             small_override.empty() ? args_override : small_override);
  } else if (tier == "thorough") {
    add_pass(3, A9, A9, {0, 1, 2, 3}, {0, 1, 2, 3});
    add_pass(4, {0, 1, 3}, {0, 1, 3}, {0, 1}, {0, 1}, {0, 1, 3});
  } else {
    add_pass(depth_override ? depth_override : 3, A6, A6, {0, 1, 2, 3}, {0, 1, 2, 3}, {0, 1, 2, 3});
  }

  if (!replay_file.empty()) {
    FILE* f = fopen(replay_file.c_str(), "r");
    if (!f) {
      fprintf(stderr, "cannot open %s\n", replay_file.c_str());
      return 2;
    }
    char line[8192];
    int cap = 0, inl = 0, fast = 0;
    char strat[64] = "";
    Hist h;
    bool have_cfg = false, have_ops = false;
    while (fgets(line, sizeof line, f)) {
      if (sscanf(line, "config cap=%d inline=%d fastiter=%d strategy=%63s", &cap, &inl, &fast, strat) == 4) have_cfg = true;
      if (!strncmp(line, "ops ", 4) || !strncmp(line, "ops\n", 4)) {
        have_ops = parse_hist(line + 3 + (line[3] == ' '), h);
      }
    }
    fclose(f);
    if (!have_cfg || !have_ops) {
      fprintf(stderr, "replay file has no config/ops lines\n");
      return 2;
    }
    int id = -1;
    for (size_t i = 0; i < g_cfgs.size(); i++)
      if (g_cfgs[i].cap == cap && g_cfgs[i].inl == (bool)inl && g_cfgs[i].fast == (bool)fast && !strcmp(kStratNames[g_cfgs[i].strat], strat)) id = (int)i;
    if (id < 0) {
      fprintf(stderr, "unknown config in replay file\n");
      return 2;
    }
    printf("REPLAY config %s\nREPLAY ops %s\n", cfg_text(id).c_str(), hist_text(h).c_str());
    t_slot->cfg.store(id);
    int rc = 0;
    g_fns[id](id, passes, &h, nullptr, &rc);
    return rc;
  }

  seq::Report report;
  report.name = kName;
  report.max_violations = 64;

  // is seq::registry() per thread?  (otherwise the enumeration must stay on one thread)
  const void* main_reg = &seq::registry();
  const void* other_reg = nullptr;
  std::thread([&] { other_reg = &seq::registry(); }).join();
  size_t nthreads = main_reg != other_reg ? 8 : 1;

  std::vector<int> todo; // configuration order (merge order)
  for (int i = 0; i < (int)g_cfgs.size(); i++)
    if (only_cfg < 0 || only_cfg == i) todo.push_back(i);
  std::vector<int> jobs = todo; // execution order: the larger (capacity 4) sub-domains first
  std::stable_sort(jobs.begin(), jobs.end(), [](int a, int b) { return g_cfgs[a].cap > g_cfgs[b].cap; });
  std::vector<ConfigResult> results(g_cfgs.size());
  std::atomic<size_t> nextjob{0};
  std::atomic<int> done{0};
  nthreads = std::min(nthreads, todo.size());
  for (size_t i = 0; i < 9; i++) g_slots[i].active.store(0);

  std::vector<std::thread> threads;
  for (size_t ti = 0; ti < nthreads; ti++) {
    threads.emplace_back([&, ti] {
      t_slot = &g_slots[ti];
      t_slot->active.store(1);
      t_keybuf.reserve(1 << 14);
      seq::registry().live.reserve(1 << 12);
      for (;;) {
        size_t j = nextjob.fetch_add(1);
        if (j >= jobs.size()) break;
        int id = jobs[j];
        t_slot->cfg.store(id);
        int rc = 0;
        g_fns[id](id, passes, nullptr, &results[id], &rc);
      }
      t_slot->active.store(0);
      done.fetch_add(1);
    });
  }
  // hang watchdog: ConcurrentVector spins forever on a bucket pointer that nobody allocates
  std::thread watchdog([&] {
    uint64_t last[8] = {0};
    int stuck[8] = {0};
    while (done.load() < (int)nthreads) {
      std::this_thread::sleep_for(std::chrono::milliseconds(50));
      for (size_t ti = 0; ti < nthreads; ti++) {
        Slot& s = g_slots[ti];
        if (!s.active.load() || !s.hist.load()) {
          stuck[ti] = 0;
          continue;
        }
        uint64_t tk = s.tick.load();
        if (tk == last[ti]) {
          if (++stuck[ti] >= 200) { // 10 s inside one evaluation
            write_emergency("hang (no progress for 10 s; a spin-wait on an unallocated bucket?)", &s);
            _exit(1);
          }
        } else {
          stuck[ti] = 0;
          last[ti] = tk;
        }
      }
    }
  });
  for (auto& th : threads) th.join();
  watchdog.join();

  // deterministic merge, configuration order
  uint64_t diag = 0, states = 0, tainted = 0, diag_heap = 0;
  std::string diag_first, diag_heap_first;
  struct MV {
    std::string msg, replay;
    size_t len;
    int cfg;
    std::string base;
  };
  std::vector<MV> viols;
  std::string levels;
  for (int id : todo) {
    ConfigResult& r = results[id];
    report.evaluations += r.evaluations;
    // every (merged state, op) pair is a distinct history by construction: hash a few, count the rest
    for (uint64_t h : r.distinct) report.distinct.insert(h);
    report.distinct_overflow += r.nontrivial - r.distinct.size();
    for (auto& s : r.samples) report.sample(s);
    diag += r.diag_use_nonlive;
    if (diag_first.empty() && !r.diag_use_nonlive_first.empty()) diag_first = cfg_text(id) + ": " + r.diag_use_nonlive_first;
    diag_heap += r.diag_heap;
    if (diag_heap_first.empty() && !r.diag_heap_first.empty()) diag_heap_first = cfg_text(id) + ": " + r.diag_heap_first;
    states += r.states;
    tainted += r.tainted_states;
    for (auto& v : r.violations) {
      bool found = false;
      for (auto& m : viols)
        if (m.msg == v.msg) {
          found = true;
          if (v.len < m.len) {
            m.replay = v.replay;
            m.len = v.len;
            m.cfg = id;
          }
        }
      if (!found) viols.push_back({v.msg, v.replay, v.len, id, v.base});
    }
    if (id == todo.front()) levels = r.level_text;
  }
  std::stable_sort(viols.begin(), viols.end(), [](const MV& a, const MV& b) { return a.len < b.len; });
  for (auto& v : viols) {
    // a finding repeated behind an earlier lifetime violation adds nothing when it also occurs on a clean history
    bool redundant = false;
    if (v.base != v.msg)
      for (auto& o : viols)
        if (o.msg == v.base) redundant = true;
    if (!redundant) report.violation(v.msg, v.replay);
  }

  std::string pass_text;
  for (size_t i = 0; i < passes.size(); i++)
    pass_text += std::string(i ? " + " : "") + "[depth " + std::to_string(passes[i].depth) + ", size arguments cap2 " + ints(passes[i].args2) +
        " cap4 " + ints(passes[i].args4) + ", counts of the two-argument insert forms cap2 " + ints(passes[i].small2) + " cap4 " +
        ints(passes[i].small4) + ", initializer_list lengths " + ints(passes[i].ilens) + "]";
  report.rule =
      "non-trivial = history during which v or w held elements beyond its first bucket (size > firstBucketLen_), i.e. the "
      "sequence crossed a bucket boundary; every (merged state, operation) pair executed is a distinct history";
  report.domain =
      "all operation histories of length <= depth (per pass, see below)"
      " from two default-constructed vectors (v,w) over the alphabet {push_back copy/move, emplace_back, pop_back, clear, "
      "grow_by(n | n,val | range | ilist), grow_by_generator, grow_to_at_least(n | n,val), resize(n | n,val), reserve, "
      "shrink_to_fit, erase(pos), erase(first,last), insert(pos, const& | && | n,val | range | ilist | alias of v.back()), "
      "assign(n,val | range), v=w, w=v, v=move(w), w=move(v), member and free swap, v=v, re-construction of v by ctor(default | "
      "n,ReserveTag | n | n,val | range | size,range(list iterators) | ilist | copy v | move v | copy w | move w)}; passes: " + pass_text +
      "; positions = those arguments <= size plus size-1 and size; histories reaching the same "
      "canonical state (contents of v and w, firstBucketShift_, allocated-bucket mask, shouldDealloc mask, taint) merged; "
      "histories whose last step broke contents/positions are not extended, histories with a lifetime violation are extended "
      "with lifetime checks off; " + std::to_string(todo.size()) +
      " configurations = kDefaultCapacity{2,4} x kPreferBuffersInline{1,0} x kIteratorPreferSpeed{1,0} x "
      "kReallocStrategy{Full,Half,AsNeeded}; element seq::Tracked<int> (tag subclass per capacity); merged states " +
      std::to_string(states) + " (per level in the first configuration " + levels + "), of them tainted " + std::to_string(tainted) +
      "; diagnostic 'copy/assign touching a non-live object' count " + std::to_string(diag) +
      (diag_first.empty() ? std::string() : " (first: " + diag_first + ")") +
      "; diagnostic 'heap blocks not balanced over an evaluation (buffer leak)' count " + std::to_string(diag_heap) +
      (diag_heap_first.empty() ? std::string() : " (first: " + diag_heap_first + ")") + "; threads " + std::to_string(nthreads);
  report.exhaustive = only_cfg < 0;
  return report.finish();
}
