// C39 -- dispenso::OnceFunction invokes and destroys its callable exactly once, at an aligned address, and moves
// transfer these obligations.
//
// Finite domain, enumerated completely (no sampling):
//   callable sizes {1,8,48,55,56,57,64,100,128,200,256,257,1000} x alignments {1,8,16,32,64,128,256}; a combination
//   whose size is not a multiple of the alignment is realised by rounding the size up (sizeof must be a multiple of
//   alignof), duplicates after rounding are executed once;
//   x histories {call; cleanupNotRun; move,call; move,move,cleanupNotRun; move-assign into a default-constructed one,
//     call; move-assign into a default-constructed one, cleanupNotRun; construct from an lvalue (copy), call};
//   x schedules {sequential: one OnceFunction alive at a time, 300 repetitions; overlapped: a window of 300 (100 for the
//     1-byte callable whose instance id is a single byte) OnceFunctions of the cell alive at once, finished in
//     FIFO / LIFO / evens-then-odds order} so that the small-buffer size classes hand out, recycle to the central store
//     and re-grab many different blocks;  thorough tier: 10 rounds of all of that in the same process.
//
// The callable type Callable<S,A> has sizeof S, alignof A, carries an instance id in its first bytes and an id-derived
// byte pattern in the rest. Every constructor / destructor / operator() reports to a tracker keyed by instance id (ids,
// not addresses, because OnceFunction relocates inline callables with memcpy).
//
// Oracle (exactly the statement): after construction (our temporary / lvalue is gone or accounted for) exactly one live
// callable belongs to the OnceFunction and it has not been invoked; each move keeps that (one live, not invoked, and the
// moved-from OnceFunction's bytes are scribbled afterwards so that nothing may still depend on it); operator() invokes
// it exactly once, inside that call, on a live instance whose `this` is a multiple of A and whose bytes are intact, and
// afterwards nothing is live; cleanupNotRun() invokes nothing and afterwards nothing is live; no instance is ever
// destroyed twice or constructed/destroyed/invoked at a misaligned address; at the end of a run every instance that was
// constructed was destroyed exactly once.
#include "seq_common.h"

#include <memory>
#include <utility>

// The library code instantiated in this TU (placement new into the spill block, the call through F*) would make
// UBSan's alignment check abort the process before the oracle can report a misaligned callable as a violation with a
// replay artefact; switch that one check off for the code below (everything else of ASan/UBSan stays on).
#pragma clang attribute push(__attribute__((no_sanitize("alignment"))), apply_to = function)

#include <dispenso/once_function.h>

// ---- tracker -----------------------------------------------------------------------------------------------------
struct Tracker {
  struct Inst {
    uint32_t rep;
    uint8_t ctor, dtor, invoked;
  };
  struct Rep {
    int live = 0, invoked = 0, ctor = 0, dtor = 0;
  };
  std::vector<Inst> inst;
  std::vector<Rep> reps;
  std::string error; // first error
  bool in_call = false;
  uint32_t call_rep = 0;

  void reset(size_t nreps) {
    inst.clear();
    reps.assign(nreps, Rep());
    error.clear();
    in_call = false;
  }
  void err(const std::string& e) {
    if (error.empty()) error = e;
  }
  bool aligned(const void* p, size_t a, const char* what) {
    if (reinterpret_cast<uintptr_t>(p) % a != 0) {
      err(seq::fmt("callable %s at an address that is not a multiple of its alignment", what));
      return false;
    }
    return true;
  }
  uint32_t create(uint32_t rep, const void* p, size_t a) {
    aligned(p, a, "constructed");
    if (rep >= reps.size()) {
      err("callable constructed from garbage (unknown repetition)");
      rep = 0;
    }
    inst.push_back({rep, 1, 0, 0});
    reps[rep].live++;
    reps[rep].ctor++;
    return (uint32_t)inst.size() - 1;
  }
  // returns the repetition the instance belongs to, or UINT32_MAX
  uint32_t sourceRep(uint32_t id) {
    if (id >= inst.size()) {
      err("callable copied/moved from garbage storage");
      return UINT32_MAX;
    }
    if (inst[id].dtor) err("callable copied/moved from a destroyed instance");
    return inst[id].rep;
  }
  void destroy(uint32_t id, const void* p, size_t a, bool intact) {
    if (id >= inst.size()) {
      err("destructor run on garbage storage (no callable was ever constructed there)");
      return;
    }
    aligned(p, a, "destroyed");
    Inst& i = inst[id];
    if (i.dtor) {
      err("callable destroyed twice");
      return;
    }
    if (!intact) err("callable bytes corrupted when destroyed");
    i.dtor = 1;
    reps[i.rep].live--;
    reps[i.rep].dtor++;
  }
  void invoke(uint32_t id, const void* p, size_t a, bool intact) {
    if (id >= inst.size()) {
      err("operator() run on garbage storage (no callable was ever constructed there)");
      return;
    }
    aligned(p, a, "invoked");
    Inst& i = inst[id];
    if (i.dtor) err("callable invoked after it was destroyed");
    if (!intact) err("callable bytes corrupted when invoked");
    if (!in_call || call_rep != i.rep) err("callable invoked although operator() of its OnceFunction was not called");
    if (i.invoked) err("callable invoked more than once");
    i.invoked++;
    reps[i.rep].invoked++;
  }
};
static Tracker g_t;

template <size_t S, size_t A>
struct alignas(A) Callable {
  static constexpr size_t kIdBytes = S >= 4 ? 4 : S;
  unsigned char bytes[S];

  uint32_t id() const {
    uint32_t v = 0;
    memcpy(&v, bytes, kIdBytes);
    return v;
  }
  void stamp(uint32_t idv) {
    memcpy(bytes, &idv, kIdBytes);
    for (size_t k = kIdBytes; k < S; k++) bytes[k] = (unsigned char)(idv * 131u + k * 29u + 7u);
  }
  bool intact() const {
    uint32_t idv = id();
    for (size_t k = kIdBytes; k < S; k++)
      if (bytes[k] != (unsigned char)(idv * 131u + k * 29u + 7u)) return false;
    return true;
  }
  explicit Callable(uint32_t rep) {
    stamp(g_t.create(rep, this, A));
  }
  Callable(const Callable& o) {
    uint32_t r = g_t.sourceRep(o.id());
    stamp(g_t.create(r == UINT32_MAX ? 0 : r, this, A));
  }
  Callable(Callable&& o) noexcept {
    uint32_t r = g_t.sourceRep(o.id());
    stamp(g_t.create(r == UINT32_MAX ? 0 : r, this, A));
  }
  Callable& operator=(const Callable&) = delete;
  ~Callable() {
    g_t.destroy(id(), this, A, intact());
  }
  void operator()() {
    g_t.invoke(id(), this, A, intact());
  }
};

#pragma clang attribute pop

// ---- histories ---------------------------------------------------------------------------------------------------
enum Hist { H_CALL, H_CLEAN, H_MOVE_CALL, H_MOVE_MOVE_CLEAN, H_ASSIGN_CALL, H_ASSIGN_CLEAN, H_LVALUE_CALL, kNumHist };
static const char* kHistName[] = {"call",
                                  "cleanupNotRun",
                                  "move;call",
                                  "move;move;cleanupNotRun",
                                  "default;move-assign;call",
                                  "default;move-assign;cleanupNotRun",
                                  "construct-from-lvalue;call"};
static bool histMoves(int h) {
  return h == H_MOVE_CALL || h == H_MOVE_MOVE_CLEAN || h == H_ASSIGN_CALL || h == H_ASSIGN_CLEAN;
}
static bool histCalls(int h) {
  return h == H_CALL || h == H_MOVE_CALL || h == H_ASSIGN_CALL || h == H_LVALUE_CALL;
}
enum Mode { M_SEQ, M_FIFO, M_LIFO, M_EVENODD, kNumModes };
static const char* kModeName[] = {"sequential", "overlapped-fifo", "overlapped-lifo", "overlapped-evens-then-odds"};

static constexpr size_t kReps = 300;

struct Failure {
  std::string what; // stable category
  std::string where;
};

using OF = dispenso::OnceFunction;

static void scribble(OF& f) {
  // a moved-from OnceFunction holds no obligations any more; nothing may depend on its bytes
  memset(static_cast<void*>(&f), 0xEE, sizeof(OF));
}

template <class C>
struct Runner {
  std::vector<OF> a, b, c;
  std::vector<OF*> owner; // per window position: the OnceFunction that currently owes a call/cleanupNotRun (or null)
  int hist;
  Failure fail;
  bool failed = false;

  Runner(size_t window, int h) : a(window), b(window), c(window), owner(window, nullptr), hist(h) {}

  bool expect(uint32_t r, int live, int invoked, const char* after) {
    if (failed) return false;
    const Tracker::Rep& rp = g_t.reps[r];
    std::string what;
    if (!g_t.error.empty())
      what = g_t.error;
    else if (rp.live > live)
      what = live == 0 ? "callable not destroyed (still live)" : "more than one live callable instance is kept";
    else if (rp.live < live)
      what = "callable destroyed too early (OnceFunction still owes a call or cleanupNotRun)";
    else if (rp.invoked < invoked)
      what = "callable was not invoked by operator()";
    else if (rp.invoked > invoked)
      what = "callable invoked although operator() was not called";
    if (what.empty()) return true;
    failed = true;
    fail.what = what + " after " + after;
    fail.where = seq::fmt("rep=%u live=%d(expected %d) invoked=%d(expected %d) ctor=%d dtor=%d", r, rp.live, live, rp.invoked,
                          invoked, rp.ctor, rp.dtor);
    return false;
  }

  OF& finalHandle(size_t w) {
    switch (hist) {
      case H_CALL:
      case H_CLEAN:
      case H_LVALUE_CALL:
        return a[w];
      case H_MOVE_MOVE_CLEAN:
        return c[w];
      default:
        return b[w];
    }
  }

  // everything of the history except its last operation; w = window position, r = repetition id
  void setup(size_t w, uint32_t r) {
    switch (hist) {
      case H_CALL:
      case H_CLEAN:
        new (&a[w]) OF(C(r));
        owner[w] = &a[w];
        expect(r, 1, 0, "construction");
        break;
      case H_LVALUE_CALL: {
        {
          C lv(r);
          new (&a[w]) OF(lv);
          owner[w] = &a[w];
          expect(r, 2, 0, "construction from an lvalue (the lvalue itself is still alive)");
        }
        expect(r, 1, 0, "construction from an lvalue");
        break;
      }
      case H_MOVE_CALL:
        new (&a[w]) OF(C(r));
        owner[w] = &a[w];
        if (!expect(r, 1, 0, "construction")) break;
        new (&b[w]) OF(std::move(a[w]));
        owner[w] = &b[w];
        scribble(a[w]);
        expect(r, 1, 0, "move construction");
        break;
      case H_MOVE_MOVE_CLEAN:
        new (&a[w]) OF(C(r));
        owner[w] = &a[w];
        if (!expect(r, 1, 0, "construction")) break;
        new (&b[w]) OF(std::move(a[w]));
        owner[w] = &b[w];
        scribble(a[w]);
        if (!expect(r, 1, 0, "move construction")) break;
        new (&c[w]) OF(std::move(b[w]));
        owner[w] = &c[w];
        scribble(b[w]);
        expect(r, 1, 0, "second move construction");
        break;
      case H_ASSIGN_CALL:
      case H_ASSIGN_CLEAN:
        new (&b[w]) OF();
        new (&a[w]) OF(C(r));
        owner[w] = &a[w];
        if (!expect(r, 1, 0, "construction")) break;
        b[w] = std::move(a[w]);
        owner[w] = &b[w];
        scribble(a[w]);
        expect(r, 1, 0, "move assignment into a default-constructed OnceFunction");
        break;
    }
  }
  // after a failure: best-effort release of the OnceFunctions of the window that were set up but not finished, so that
  // the only leak LeakSanitizer may still report is the one belonging to the reported violation
  void drain() {
    for (size_t w = 0; w < owner.size(); w++)
      if (owner[w]) {
        OF* f = owner[w];
        owner[w] = nullptr;
        f->cleanupNotRun();
      }
  }
  void finish(size_t w, uint32_t r) {
    if (failed) return;
    OF& f = finalHandle(w);
    owner[w] = nullptr;
    if (histCalls(hist)) {
      g_t.in_call = true;
      g_t.call_rep = r;
      f();
      g_t.in_call = false;
      expect(r, 0, 1, "operator()");
    } else {
      f.cleanupNotRun();
      expect(r, 0, 0, "cleanupNotRun()");
    }
    scribble(f);
  }
  void endOfRun() {
    if (failed) return;
    std::string what;
    if (!g_t.error.empty()) what = g_t.error;
    for (size_t k = 0; k < g_t.inst.size() && what.empty(); k++)
      if (g_t.inst[k].ctor != 1 || g_t.inst[k].dtor != 1) what = "callable instance not destroyed exactly once";
    if (!what.empty()) {
      failed = true;
      fail.what = what + " at end of run";
      fail.where = "";
    }
  }
};

// runs kReps repetitions of (cell, hist) in the given mode; returns number of repetitions executed
template <size_t S, size_t A>
static size_t runCell(int hist, int mode, Failure& fail, bool& failed) {
  using C = Callable<S, A>;
  static_assert(sizeof(C) == S && alignof(C) == A, "grid cell must have exactly the requested size and alignment");
  size_t executed = 0;
  failed = false;
  if (mode == M_SEQ) {
    Runner<C> run(1, hist);
    for (size_t r = 0; r < kReps && !run.failed; r++) {
      g_t.reset(1);
      run.setup(0, 0);
      run.finish(0, 0);
      run.endOfRun();
      executed++;
      if (run.failed) run.fail.where += seq::fmt(" repetition=%zu", r);
    }
    failed = run.failed;
    fail = run.fail;
    if (failed) run.drain();
    return executed;
  }
  const size_t window = C::kIdBytes >= 4 ? kReps : 100; // ids of a 1-byte callable are a single byte (<=255 instances)
  for (size_t base = 0; base < kReps && !failed; base += window) {
    Runner<C> run(window, hist);
    g_t.reset(window);
    for (size_t w = 0; w < window && !run.failed; w++) run.setup(w, (uint32_t)w);
    auto fin = [&](size_t w) {
      run.finish(w, (uint32_t)w);
      executed++;
    };
    if (mode == M_FIFO) {
      for (size_t w = 0; w < window && !run.failed; w++) fin(w);
    } else if (mode == M_LIFO) {
      for (size_t w = window; w-- > 0 && !run.failed;) fin(w);
    } else {
      for (size_t w = 0; w < window && !run.failed; w += 2) fin(w);
      for (size_t w = 1; w < window && !run.failed; w += 2) fin(w);
    }
    run.endOfRun();
    failed = run.failed;
    fail = run.fail;
    if (failed) run.drain();
  }
  return executed;
}

// ---- the template grid -------------------------------------------------------------------------------------------
static constexpr size_t kSizes[] = {1, 8, 48, 55, 56, 57, 64, 100, 128, 200, 256, 257, 1000};
static constexpr size_t kAligns[] = {1, 8, 16, 32, 64, 128, 256};
static constexpr size_t kNS = sizeof(kSizes) / sizeof(kSizes[0]);
static constexpr size_t kNA = sizeof(kAligns) / sizeof(kAligns[0]);
static constexpr size_t roundUp(size_t s, size_t a) {
  return (s + a - 1) / a * a;
}

struct Cell {
  size_t S, A;
  std::string requested; // the (size,align) requests that map to this cell
  size_t (*run)(int hist, int mode, Failure&, bool&);
  bool spills() const {
    return S > dispenso::detail::kOnceFunctionInlineSize || A > 64;
  }
};
static std::vector<Cell> g_cells;

template <size_t I>
static void addCell() {
  constexpr size_t A = kAligns[I % kNA];
  constexpr size_t S0 = kSizes[I / kNA];
  constexpr size_t S = roundUp(S0, A);
  for (auto& c : g_cells)
    if (c.S == S && c.A == A) {
      c.requested += seq::fmt(",%zux%zu", S0, A);
      return;
    }
  g_cells.push_back({S, A, seq::fmt("%zux%zu", S0, A), &runCell<S, A>});
}
template <size_t... I>
static void buildCells(std::index_sequence<I...>) {
  (addCell<I>(), ...);
}

static std::string caseText(const Cell& c, int hist, int mode) {
  return seq::fmt("S=%zu A=%zu hist=%d mode=%d", c.S, c.A, hist, mode);
}

int main(int argc, char** argv) {
  std::string tier = "quick", replay;
  for (int i = 1; i < argc; i++) {
    if (!strcmp(argv[i], "--tier") && i + 1 < argc)
      tier = argv[++i];
    else if (!strcmp(argv[i], "--replay") && i + 1 < argc)
      replay = argv[++i];
  }
  buildCells(std::make_index_sequence<kNS * kNA>());
  const int rounds = tier == "thorough" ? 10 : 1;

  if (!replay.empty()) {
    FILE* f = fopen(replay.c_str(), "r");
    if (!f) {
      fprintf(stderr, "cannot open %s\n", replay.c_str());
      return 2;
    }
    std::string all;
    char buf[4096];
    size_t n;
    while ((n = fread(buf, 1, sizeof buf, f)) > 0) all.append(buf, n);
    fclose(f);
    size_t p = all.find("\ninput\n");
    std::string text = p == std::string::npos ? all : all.substr(p + 7);
    size_t S = 0, A = 0;
    int hist = 0, mode = 0;
    if (sscanf(text.c_str(), " S=%zu A=%zu hist=%d mode=%d", &S, &A, &hist, &mode) != 4 || hist < 0 || hist >= kNumHist ||
        mode < 0 || mode >= kNumModes) {
      fprintf(stderr, "cannot parse replay input '%s'\n", text.c_str());
      return 2;
    }
    for (auto& c : g_cells)
      if (c.S == S && c.A == A) {
        printf("replaying callable size %zu align %zu (%s), history '%s', schedule %s, %zu repetitions x %d round(s)\n", S, A,
               c.spills() ? "spilled" : "inline", kHistName[hist], kModeName[mode], kReps, rounds);
        for (int round = 0; round < rounds; round++) {
          Failure fl;
          bool failed = false;
          size_t ex = c.run(hist, mode, fl, failed);
          if (failed) {
            printf("REPLAY violation after %zu repetitions of round %d: %s [%s]\n", ex, round, fl.what.c_str(),
                   fl.where.c_str());
            return 1;
          }
        }
        printf("REPLAY ok: every repetition satisfied the oracle\n");
        return 0;
      }
    fprintf(stderr, "no grid cell S=%zu A=%zu\n", S, A);
    return 2;
  }

  seq::Report rep;
  rep.name = "c39_oncefunction";
  rep.rule =
      "distinct (callable size, alignment, history, schedule) where the callable spills out of the 56-byte inline buffer "
      "(size>56 or alignment>64: small-buffer classes 64/128/256 or the aligned-malloc path) or the history relocates an "
      "inline callable by a move; repetitions of the same combination are not counted as distinct";
  rep.domain = seq::fmt(
      "callable sizes {1,8,48,55,56,57,64,100,128,200,256,257,1000} x alignments {1,8,16,32,64,128,256} (size rounded up "
      "to a multiple of the alignment, %zu distinct (size,align) types after rounding) x 7 histories {call; cleanupNotRun; "
      "move,call; move,move,cleanupNotRun; default+move-assign,call; default+move-assign,cleanupNotRun; "
      "construct-from-lvalue,call} x 4 schedules {sequential; 300 alive at once finished FIFO / LIFO / evens-then-odds} x "
      "300 repetitions x %d round(s); per-instance constructed/destroyed/invoked counters, alignment of `this` and byte "
      "pattern checked at every event",
      g_cells.size(), rounds);

  std::set<std::string> cats;
  size_t spilled = 0;
  for (auto& c : g_cells) spilled += c.spills();
  for (int round = 0; round < rounds; round++) {
    for (auto& c : g_cells) {
      for (int hist = 0; hist < kNumHist; hist++) {
        for (int mode = 0; mode < kNumModes; mode++) {
          Failure fl;
          bool failed = false;
          rep.evaluations += c.run(hist, mode, fl, failed);
          if (c.spills() || histMoves(hist))
            rep.add_distinct(seq::mix(seq::mix(seq::mix(seq::mix(0x39, c.S), c.A), (uint64_t)hist), (uint64_t)mode));
          if (round == 0 &&
              ((c.S == 56 && c.A == 8 && hist == H_MOVE_CALL && mode == M_SEQ) ||
               (c.S == 57 && c.A == 1 && hist == H_CALL && mode == M_FIFO) ||
               (c.S == 128 && c.A == 128 && hist == H_MOVE_MOVE_CLEAN && mode == M_LIFO) ||
               (c.S == 256 && c.A == 256 && hist == H_ASSIGN_CALL && mode == M_EVENODD) ||
               (c.S == 1024 && c.A == 256 && hist == H_CLEAN && mode == M_FIFO)))
            rep.sample(seq::fmt("{\"size\":%zu,\"align\":%zu,\"history\":\"%s\",\"schedule\":\"%s\",\"reps\":%zu}", c.S, c.A,
                                kHistName[hist], kModeName[mode], kReps));
          if (failed && cats.insert(fl.what).second)
            rep.violation(seq::fmt("%s -- first at callable size %zu align %zu (%s; requested as %s), history '%s', schedule %s [%s]",
                                   fl.what.c_str(), c.S, c.A, c.spills() ? "spilled" : "inline", c.requested.c_str(),
                                   kHistName[hist], kModeName[mode], fl.where.c_str()),
                          caseText(c, hist, mode));
        }
      }
    }
  }
  fprintf(stderr, "c39_oncefunction: %zu distinct callable types (%zu spill), %llu repetitions executed, %zu violation categories\n",
          g_cells.size(), spilled, (unsigned long long)rep.evaluations, cats.size());
  // informational: shows that the overlapped schedules really pulled many blocks (several backing mallocs per class)
  fprintf(stderr, "c39_oncefunction: small-buffer pool bytes: class64=%zu class128=%zu class256=%zu\n",
          dispenso::approxBytesAllocatedSmallBuffer<64>(), dispenso::approxBytesAllocatedSmallBuffer<128>(),
          dispenso::approxBytesAllocatedSmallBuffer<256>());
  return rep.finish();
}
