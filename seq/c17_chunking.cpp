// C17 -- static chunking arithmetic partitions ranges exactly.
//
// Everything below runs the real, unmodified dispenso code:
//   scs   detail::staticChunkSize / dispenso::staticChunkSize(items, chunks)                (platform.h, util.h)
//   gran  detail::staticChunkSizeGranular(items, chunks, granularity)                      (platform.h)
//   pfs   detail::parallel_for_staticImpl + StaticChunkMapper<IntegerT>                    (detail/par_for_static.h)
//   pf    the public dispenso::parallel_for(taskSet, states, gen, ChunkedRange(Static), f, options)
//         (computeGranularity / adjustChunkSizing / staticImpl / tail)                      (parallel_for.h)
//   fe    dispenso::for_each_n(taskSet, it, n, f, options), random-access and list iterators (for_each.h)
// The parallel entry points are templates over the task-set type; they are instantiated with InlineTaskSet, a
// ten-line stand-in that runs every scheduled closure immediately on the calling thread, so no scheduler is
// involved and the run is sequential and deterministic.  The closures, the generator lambdas, the boundary
// arithmetic and the caller-chunk remapping are the library's own.
//
// Oracle (the reference partition): K chunks, chunk i = [start + sum_{j<i} size_j, ...), where with
// units = items / g, q = units / K, r = units % K:  size_i = (q + (i < r ? 1 : 0)) * g.
// It is checked both as the four predicates of the statement (every chunk executed exactly once; contiguous and
// covering [start,end) exactly; sizes multiples of g differing by at most g; non-increasing) and against the
// explicit reference sizes.
//
// A case is one input tuple of the nested enumeration loops; tuples are distinct by construction, so they are
// counted with a counter (Report::distinct_overflow) rather than inserted into a set (there are > 2*10^6).
#include "seq_common.h"

#include <dispenso/for_each.h>
#include <dispenso/parallel_for.h>
#include <dispenso/util.h>

#include <limits>
#include <list>
#include <thread>

#include <sanitizer/common_interface_defs.h>
#include <fcntl.h>
#include <sys/mman.h>
#include <sys/wait.h>
#include <unistd.h>

namespace dd = dispenso::detail;
typedef __int128 i128;

// ------------------------------------------------------------------------------------------------
// stand-in task set: runs closures inline
struct InlinePool {
  char dummy;
};
struct InlineTaskSet {
  ssize_t nPool = 0;
  InlinePool poolObj;
  size_t tag = 0; // index of the scheduled closure that is currently running; == count afterwards
  int bulks = 0, waits = 0;
  ssize_t numPoolThreads() const { return nPool; }
  InlinePool& pool() { return poolObj; }
  template <class Gen>
  void scheduleBulk(size_t count, Gen&& gen) {
    bulks++;
    for (size_t i = 0; i < count; i++) {
      tag = i;
      auto task = gen(i);
      task();
    }
    tag = count;
  }
  void wait() { waits++; }
};

struct Call {
  int state;
  i128 s, e;
};

struct Fail {
  std::string msg, replay;
  int64_t key[6]; // the input tuple, for simplest-first ordering of the merged failures
};
struct Local {
  uint64_t evals = 0, nontrivial = 0;
  std::vector<Fail> fails;
  // scratch
  std::vector<Call> calls;
  std::vector<int> states;
  std::vector<int> seen;
  std::vector<int> marks, tags;
  std::vector<int> vec; // element containers for for_each_n, rebuilt only when n changes (f never modifies them)
  std::list<int> lst;
  void fail(const std::string& msg, const std::string& replay, const int64_t (&key)[6]) {
    if (fails.size() >= 5) return;
    Fail f{msg, replay, {0, 0, 0, 0, 0, 0}};
    for (int i = 0; i < 6; i++) f.key[i] = key[i];
    fails.push_back(f);
  }
};

static std::string i128s(i128 v) {
  bool neg = v < 0;
  unsigned __int128 u = neg ? (unsigned __int128)(-(v + 1)) + 1 : (unsigned __int128)v;
  std::string s;
  do {
    s += char('0' + (int)(u % 10));
    u /= 10;
  } while (u);
  if (neg) s += '-';
  std::reverse(s.begin(), s.end());
  return s;
}

// ------------------------------------------------------------------------------------------------
// scs / gran: the StaticChunking record means: chunk i has size (i < transitionTaskIndex ? ceilChunkSize :
// ceilChunkSize - unit), i in [0, chunks).
static std::string check_chunking(const dd::StaticChunking& c, i128 items, i128 chunks, i128 g) {
  i128 tr = c.transitionTaskIndex, ceil = c.ceilChunkSize;
  if (tr < 0 || tr > chunks) return "transitionTaskIndex " + i128s(tr) + " outside [0, chunks]";
  i128 small = ceil - g;
  if (ceil < 0 || (tr < chunks && small < 0)) return "negative chunk size (ceil " + i128s(ceil) + ")";
  if (ceil % g != 0) return "ceilChunkSize " + i128s(ceil) + " is not a multiple of the granularity";
  // reference partition
  i128 units = items / g, q = units / chunks, r = units % chunks;
  i128 pos = 0;
  i128 prev = -1;
  for (i128 i = 0; i < chunks; i++) {
    i128 sz = i < tr ? ceil : small;
    i128 ref = (q + (i < r ? 1 : 0)) * g;
    if (prev >= 0 && sz > prev) return "chunk " + i128s(i) + " is larger than its predecessor";
    if (sz != ref)
      return "chunk " + i128s(i) + " has size " + i128s(sz) + ", reference partition says " + i128s(ref) + " (ceil " + i128s(ceil) +
          ", transition " + i128s(tr) + ")";
    prev = sz;
    pos += sz;
  }
  if (pos != items) return "chunk sizes sum to " + i128s(pos) + " instead of " + i128s(items);
  // sizes differ by at most one unit: only two sizes exist (ceil, ceil-g) -- and sum/ordering were checked above
  return "";
}

static std::string run_scs(ssize_t items, ssize_t chunks) {
  std::string e = check_chunking(dd::staticChunkSize(items, chunks), items, chunks, 1);
  if (!e.empty()) return "detail::staticChunkSize: " + e;
  e = check_chunking(dispenso::staticChunkSize(items, chunks), items, chunks, 1);
  if (!e.empty()) return "dispenso::staticChunkSize: " + e;
  return "";
}
static std::string run_gran(uint32_t g, ssize_t items, ssize_t chunks) {
  std::string e = check_chunking(dd::staticChunkSizeGranular(items, chunks, g), items, chunks, g);
  return e.empty() ? e : "detail::staticChunkSizeGranular: " + e;
}

// ------------------------------------------------------------------------------------------------
// Checks a list of parallel chunk calls (state index = chunk index) against the statement.
// K_expect < 0: do not check the chunk count.
static std::string check_partition(Local& L, size_t ncalls, i128 start, i128 end, i128 g, i128 K_expect) {
  i128 K = (i128)ncalls;
  if (K_expect >= 0 && K != K_expect) return "number of chunks executed is " + i128s(K) + ", requested " + i128s(K_expect);
  if (K == 0) return start == end ? "" : "no chunk executed for a non-empty range";
  L.seen.assign(ncalls, -1);
  for (size_t c = 0; c < ncalls; c++) {
    int st = L.calls[c].state;
    if (st < 0 || (size_t)st >= ncalls) return seq::fmt("chunk with state index %d but only %zu chunks", st, ncalls);
    if (L.seen[st] >= 0) return seq::fmt("chunk %d executed twice", st);
    L.seen[st] = (int)c;
  }
  i128 items = end - start, units = items / g, q = units / K, r = units % K;
  i128 pos = start, prev = -1;
  for (size_t i = 0; i < ncalls; i++) {
    const Call& c = L.calls[L.seen[i]];
    if (c.s != pos) return seq::fmt("chunk %zu starts at %s, previous chunk ended at %s (gap or overlap)", i, i128s(c.s).c_str(), i128s(pos).c_str());
    if (c.e < c.s) return seq::fmt("chunk %zu has end %s < start %s", i, i128s(c.e).c_str(), i128s(c.s).c_str());
    i128 sz = c.e - c.s;
    if (sz % g != 0) return seq::fmt("chunk %zu has size %s, not a multiple of the granularity %s", i, i128s(sz).c_str(), i128s(g).c_str());
    if (prev >= 0 && sz > prev) return seq::fmt("chunk %zu (size %s) is larger than its predecessor (size %s)", i, i128s(sz).c_str(), i128s(prev).c_str());
    i128 ref = (q + ((i128)i < r ? 1 : 0)) * g;
    if (sz != ref) return seq::fmt("chunk %zu has size %s, reference partition says %s", i, i128s(sz).c_str(), i128s(ref).c_str());
    prev = sz;
    pos = c.e;
  }
  if (pos != end) return "last chunk ends at " + i128s(pos) + ", range ends at " + i128s(end);
  return "";
}

struct StateGen {
  int* counter;
  int operator()() const { return (*counter)++; }
};

template <class I>
static i128 wide(I v) {
  return (i128)v;
}

// pfs: direct call of detail::parallel_for_staticImpl.  T = pool threads + 1; ring = ring index the calling thread
// pretends to have in the pool (-1: none); size must be a multiple of g.
template <class I>
static std::string run_pfs(Local& L, I start, I end, int64_t T, bool wait, int ring, uint32_t g) {
  using R = dispenso::ChunkedRange<I>;
  InlineTaskSet ts;
  ts.nPool = (ssize_t)(T - 1);
  R range(start, end, typename R::Static());
  L.calls.clear();
  int counter = 0;
  StateGen gen{&counter};
  std::vector<Call>* calls = &L.calls;
  auto f = [calls](int& st, I s, I e) { calls->push_back(Call{st, wide(s), wide(e)}); };
  if (ring >= 0) dd::PerPoolPerThreadInfo::registerPool(&ts.poolObj, nullptr, ring);
  dd::parallel_for_staticImpl(ts, L.states, gen, range, f, std::numeric_limits<ssize_t>::max(), wait, /*reuse*/ false, g);
  if (ring >= 0) dd::PerPoolPerThreadInfo::registerPool(nullptr, nullptr, -1);
  i128 size = wide(end) - wide(start);
  i128 K = std::min<i128>(T, size);
  if (g > 1 && size / g < K) K = std::max<i128>(1, size / g);
  if ((i128)L.states.size() != K) return seq::fmt("states container has %zu entries, expected %s", L.states.size(), i128s(K).c_str());
  if (wait && ts.waits != 1) return "wait=true but the task set was not waited on exactly once";
  return check_partition(L, L.calls.size(), wide(start), wide(end), g, K);
}

// pf: public parallel_for on a Static ChunkedRange with options {maxThreads, wait, granularity}.
template <class I>
static std::string run_pf(Local& L, I start, I end, int64_t N, uint32_t maxThreads, bool wait, uint32_t g) {
  using R = dispenso::ChunkedRange<I>;
  InlineTaskSet ts;
  ts.nPool = (ssize_t)N;
  R range(start, end, typename R::Static());
  L.calls.clear();
  L.states.clear();
  int counter = 0;
  StateGen gen{&counter};
  std::vector<Call>* calls = &L.calls;
  auto f = [calls](int& st, I s, I e) { calls->push_back(Call{st, wide(s), wide(e)}); };
  dispenso::ParForOptions opt;
  opt.maxThreads = maxThreads;
  opt.wait = wait;
  opt.granularity = g;
  dispenso::parallel_for(ts, L.states, gen, range, f, opt);
  i128 s0 = wide(start), e0 = wide(end);
  if (e0 <= s0) return L.calls.empty() ? "" : "functor called for an empty range";
  i128 size = e0 - s0, G = std::max<uint32_t>(1, g), tail = size % G, par = size - tail;
  // which calls are parallel chunks, which is the tail?  documented: the tail is the only call whose size may not be
  // a multiple of the granularity, it covers [trimmedEnd, end) and runs on the first state
  size_t n = L.calls.size();
  if (n == 0) return "no call for a non-empty range";
  // expected number of parallel chunks (the "requested number of chunks")
  i128 mt = std::min<i128>(std::max<i128>((int32_t)maxThreads, 1), (i128)N + 1);
  bool inline_all = par == 0 || N == 0 || mt < 2;
  if (inline_all) {
    if (n != 1 || L.calls[0].s != s0 || L.calls[0].e != e0)
      return seq::fmt("serial path: expected the single call [%s,%s), got %zu calls, first [%s,%s)", i128s(s0).c_str(), i128s(e0).c_str(), n,
                      i128s(L.calls[0].s).c_str(), i128s(L.calls[0].e).c_str());
    return "";
  }
  i128 K = std::min<i128>(mt, par);
  if (G > 1 && par / G < K) K = std::max<i128>(1, par / G);
  size_t npar = n;
  if (tail > 0 && !wait) {
    // wait=false: nobody may run the tail beside the asynchronous chunks, so the chunk that ends at the trimmed end
    // absorbs it (the one invocation whose size is not a multiple of the granularity, and it ends at the range end).
    // Cut the tail off that call again and check the rest as the static partition of the trimmed range.
    bool found = false;
    for (size_t q = 0; q < n; q++)
      if (L.calls[q].e == e0 && L.calls[q].s < s0 + par) {
        L.calls[q].e = s0 + par;
        found = true;
        break;
      }
    if (!found) return "wait=false with a granularity tail: no call ends at the range end after covering part of the trimmed range";
    return check_partition(L, n, s0, s0 + par, G, K);
  }
  if (tail > 0) {
    const Call& t = L.calls[n - 1];
    if (t.s != s0 + par || t.e != e0 || t.state != 0)
      return seq::fmt("granularity tail: expected last call [%s,%s) on state 0, got [%s,%s) on state %d", i128s(s0 + par).c_str(),
                      i128s(e0).c_str(), i128s(t.s).c_str(), i128s(t.e).c_str(), t.state);
    npar = n - 1;
  }
  return check_partition(L, npar, s0, s0 + par, G, K);
}

// fe: for_each_n over n elements whose values are their indices.
static std::vector<int>& container(Local& L, std::vector<int>*) { return L.vec; }
static std::list<int>& container(Local& L, std::list<int>*) { return L.lst; }

template <class Container>
static std::string run_fe(Local& L, int64_t n, int64_t N, uint32_t maxThreads, bool wait) {
  Container& c = container(L, (Container*)nullptr);
  if ((int64_t)c.size() != n) {
    c.clear();
    for (int64_t i = 0; i < n; i++) c.push_back((int)i);
  }
  InlineTaskSet ts;
  ts.nPool = (ssize_t)N;
  L.marks.assign((size_t)n, 0);
  L.tags.assign((size_t)n, -1);
  std::vector<int>* marks = &L.marks;
  std::vector<int>* tags = &L.tags;
  InlineTaskSet* tsp = &ts;
  auto f = [marks, tags, tsp](int& x) {
    if (x >= 0 && (size_t)x < marks->size()) {
      (*marks)[x]++;
      (*tags)[x] = (int)tsp->tag;
    }
  };
  dispenso::ForEachOptions opt;
  opt.maxThreads = maxThreads;
  opt.wait = wait;
  dispenso::for_each_n(ts, c.begin(), (size_t)n, f, opt);
  {
    int64_t i = 0;
    for (int v : c) // the functor only reads the elements
      if (v != (int)i++) return "container contents changed";
  }
  for (int64_t i = 0; i < n; i++)
    if (L.marks[i] != 1) return seq::fmt("element %lld visited %d times", (long long)i, L.marks[i]);
  if (wait && ts.waits != 1) return "wait=true but the task set was not waited on exactly once";
  if (n == 0) return "";
  // chunk = maximal run of equal tags; tags must be 0,1,2,... in element order (contiguous chunks in index order)
  std::vector<int64_t> sizes;
  int cur = -1;
  for (int64_t i = 0; i < n; i++) {
    int t = L.tags[i];
    if (t == cur)
      sizes.back()++;
    else if (t == cur + 1) {
      sizes.push_back(1);
      cur = t;
    } else
      return seq::fmt("element %lld ran in chunk %d after chunk %d (chunks not contiguous/in order)", (long long)i, t, cur);
  }
  int64_t K = (int64_t)sizes.size();
  int64_t Kexp;
  if (maxThreads == 0)
    Kexp = 1; // documented: serial
  else
    Kexp = std::min<int64_t>(std::min<int64_t>(N + (wait ? 1 : 0), std::max<int32_t>((int32_t)maxThreads, 1)), n);
  if (K != Kexp) return seq::fmt("%lld chunks executed, requested %lld", (long long)K, (long long)Kexp);
  int64_t q = n / K, r = n % K;
  for (int64_t i = 0; i < K; i++) {
    if (i > 0 && sizes[i] > sizes[i - 1]) return seq::fmt("chunk %lld is larger than its predecessor", (long long)i);
    int64_t ref = q + (i < r ? 1 : 0);
    if (sizes[i] != ref) return seq::fmt("chunk %lld has size %lld, reference partition says %lld", (long long)i, (long long)sizes[i], (long long)ref);
  }
  return "";
}

// ------------------------------------------------------------------------------------------------
// uniform case representation (for replay)
enum TypeId { U8, I8, U16, I16, U32, I32, U64, I64 };
static const char* kTypeName[] = {"u8", "i8", "u16", "i16", "u32", "i32", "u64", "i64"};

struct Case {
  std::string kind; // scs gran pfs pf fevec felist
  int type = 0;
  int64_t a = 0, b = 0, c = 0, d = 0, e = 0, f = 0;
  std::string text() const {
    return seq::fmt("%s %s %lld %lld %lld %lld %lld %lld", kind.c_str(), kTypeName[type], (long long)a, (long long)b, (long long)c, (long long)d,
                    (long long)e, (long long)f);
  }
};

template <class I>
static std::string run_typed(Local& L, const Case& k) {
  // start/end are carried as int64 bit patterns
  I s = (I)(uint64_t)k.a, e = (I)(uint64_t)k.b;
  if (k.kind == "pfs") return run_pfs<I>(L, s, e, k.c, k.d != 0, (int)k.e, (uint32_t)k.f);
  return run_pf<I>(L, s, e, k.c, (uint32_t)k.e, k.d != 0, (uint32_t)k.f);
}

static std::string run_case(Local& L, const Case& k) {
  if (k.kind == "scs") return run_scs((ssize_t)k.a, (ssize_t)k.b);
  if (k.kind == "gran") return run_gran((uint32_t)k.c, (ssize_t)k.a, (ssize_t)k.b);
  if (k.kind == "fevec") return run_fe<std::vector<int>>(L, k.a, k.b, (uint32_t)k.c, k.d != 0);
  if (k.kind == "felist") return run_fe<std::list<int>>(L, k.a, k.b, (uint32_t)k.c, k.d != 0);
  switch (k.type) {
    case U8: return run_typed<uint8_t>(L, k);
    case I8: return run_typed<int8_t>(L, k);
    case U16: return run_typed<uint16_t>(L, k);
    case I16: return run_typed<int16_t>(L, k);
    case U32: return run_typed<uint32_t>(L, k);
    case I32: return run_typed<int32_t>(L, k);
    case U64: return run_typed<uint64_t>(L, k);
    default: return run_typed<int64_t>(L, k);
  }
}

// A sanitizer report (the build uses -fno-sanitize-recover) kills the process.  So that such a death is still a
// proper verdict, the case being executed is remembered per thread and a death callback turns it into a recorded
// violation + replay artefact + SEQRESULT line (exhaustive=false, the enumeration stops there).  The overflow
// frontier (phase C), where this is expected to matter, additionally runs in forked children so that the
// enumeration continues past a dying case.
static thread_local const Case* g_cur = nullptr;
static seq::Report* g_rep = nullptr; // null: no SEQRESULT from the death callback (replay mode, forked children)
static bool g_replay_mode = false;
static void on_death() {
  const Case* k = g_cur;
  if (g_replay_mode) {
    printf("replay %s: the process is being killed by a sanitizer report (see stderr)\nreplay result: still failing\n",
           k ? k->text().c_str() : "?");
    fflush(stdout);
    _exit(1);
  }
  if (!g_rep) return;
  seq::Report* r = g_rep;
  g_rep = nullptr;
  std::string t = k ? k->text() : std::string("?");
  r->violation("sanitizer report (undefined behaviour or memory error, see stderr) while executing: " + t, t);
  r->exhaustive = false;
  r->domain = "ABORTED by a sanitizer report; counts are those merged before the abort";
  r->finish();
  _exit(1);
}

static inline void exec(Local& L, const Case& k, bool nontrivial) {
  g_cur = &k;
  std::string e = run_case(L, k);
  L.evals++;
  if (nontrivial) L.nontrivial++;
  if (!e.empty()) {
    // simplest-first key: magnitude of the size-like parameters first
    int64_t key[6] = {k.kind == "pfs" || k.kind == "pf" ? k.b - k.a : k.a, k.kind == "pfs" || k.kind == "pf" ? k.c : k.b, k.c, k.d, k.e, k.f};
    L.fail(k.text() + ": " + e, k.text(), key);
  }
}

static Case mk(const char* kind, int type, int64_t a, int64_t b, int64_t c = 0, int64_t d = 0, int64_t e = 0, int64_t f = 0) {
  Case k;
  k.kind = kind;
  k.type = type;
  k.a = a;
  k.b = b;
  k.c = c;
  k.d = d;
  k.e = e;
  k.f = f;
  return k;
}

template <class F>
static void run_parallel(unsigned nthreads, std::vector<Local>& locals, F&& body) {
  locals.clear();
  locals.resize(nthreads);
  std::vector<std::thread> th;
  for (unsigned t = 0; t < nthreads; t++) th.emplace_back([&, t] { body(t, locals[t]); });
  for (auto& x : th) x.join();
}

static void merge(seq::Report& rep, std::vector<Local>& locals, uint64_t& nontrivial) {
  static int phase = 0;
  if (getenv("SEQ_TIMING"))
    fprintf(stderr, "[c17] after parallel phase %d: %.2f s\n", ++phase,
            std::chrono::duration<double>(std::chrono::steady_clock::now() - rep.t0).count());
  std::vector<Fail> all;
  for (auto& l : locals) {
    rep.evaluations += l.evals;
    nontrivial += l.nontrivial;
    for (auto& f : l.fails) all.push_back(f);
  }
  // each thread reports its first failures in enumeration order; order the union simplest-first (deterministic)
  std::stable_sort(all.begin(), all.end(), [](const Fail& x, const Fail& y) {
    return std::lexicographical_compare(x.key, x.key + 6, y.key, y.key + 6);
  });
  for (auto& f : all) rep.violation(f.msg, f.replay);
}

static int do_replay(const char* path) {
  FILE* fp = fopen(path, "r");
  if (!fp) {
    fprintf(stderr, "cannot open %s\n", path);
    return 2;
  }
  char line[4096];
  bool in = false;
  int rc = 0;
  Local L;
  while (fgets(line, sizeof line, fp)) {
    if (!in) {
      if (!strncmp(line, "input", 5)) in = true;
      continue;
    }
    char kind[32], type[32];
    long long a, b, c, d, e, f;
    if (sscanf(line, "%31s %31s %lld %lld %lld %lld %lld %lld", kind, type, &a, &b, &c, &d, &e, &f) != 8) continue;
    int ty = 0;
    for (int i = 0; i < 8; i++)
      if (!strcmp(type, kTypeName[i])) ty = i;
    Case k = mk(kind, ty, a, b, c, d, e, f);
    g_cur = &k;
    fflush(stdout);
    std::string err = run_case(L, k);
    printf("replay %s: %s\n", k.text().c_str(), err.empty() ? "ok" : err.c_str());
    if (k.kind == "pfs" || k.kind == "pf") {
      for (auto& cl : L.calls) printf("  f(state %d, %s, %s)\n", cl.state, i128s(cl.s).c_str(), i128s(cl.e).c_str());
    } else if (k.kind == "scs") {
      auto ch = dd::staticChunkSize((ssize_t)a, (ssize_t)b);
      printf("  ceilChunkSize %lld transitionTaskIndex %lld\n", (long long)ch.ceilChunkSize, (long long)ch.transitionTaskIndex);
    } else if (k.kind == "gran") {
      auto ch = dd::staticChunkSizeGranular((ssize_t)a, (ssize_t)b, (uint32_t)c);
      printf("  ceilChunkSize %lld transitionTaskIndex %lld\n", (long long)ch.ceilChunkSize, (long long)ch.transitionTaskIndex);
    }
    if (!err.empty()) rc = 1;
  }
  fclose(fp);
  printf("replay result: %s\n", rc ? "still failing" : "passes");
  return rc;
}

// the 8-bit exhaustive sweeps for one type
template <class I>
static void sweep8(int type, unsigned t, unsigned NT, bool thorough, Local& L) {
  const int lo = std::numeric_limits<I>::min(), hi = std::numeric_limits<I>::max();
  for (int s = lo + (int)t; s <= hi; s += (int)NT) {
    for (int e = s; e <= hi; e++) {
      int size = e - s;
      int64_t sb = (int64_t)(I)s, eb = (int64_t)(I)e;
      // ---- pfs: every thread count 1..size+1 (T > size is clipped to size by the code), wait in {0,1}, g = 1,
      //      and every g in [2,17] that divides the size
      if (size >= 1) {
        for (uint32_t g = 1; g <= 17; g++) {
          if (size % (int)g) continue;
          int Tmax = g == 1 ? size + 1 : size / (int)g + 1;
          for (int T = 1; T <= Tmax; T++)
            for (int w = 0; w < 2; w++) exec(L, mk("pfs", type, sb, eb, T, w, -1, g), T >= 2 && size >= 2);
        }
        // caller-chunk remapping: the caller pretends to be pool thread `ring`; done for the ranges that start at
        // the type minimum (the remapping does not depend on the range start)
        if (s == lo)
          for (int T = 1; T <= std::min(size + 1, 41); T++)
            for (int ring = 0; ring <= T; ring++) exec(L, mk("pfs", type, sb, eb, T, 1, ring, 1), T >= 2 && size >= 2);
      }
      // ---- pf: public entry point, pool threads N in [0, min(size,Ncap)], wait in {0,1}, granularity incl. non-divisors
      {
        int Ncap = thorough ? 255 : 24;
        static const uint32_t gq[] = {1, 2, 3, 8};
        for (int N = 0; N <= std::min(std::max(size, 1), Ncap); N++)
          for (int w = 0; w < 2; w++) {
            if (thorough) {
              for (uint32_t g = 0; g <= 17; g++) exec(L, mk("pf", type, sb, eb, N, w, 0x7fffffff, g), N >= 1 && size >= 2);
            } else {
              for (uint32_t g : gq) exec(L, mk("pf", type, sb, eb, N, w, 0x7fffffff, g), N >= 1 && size >= 2);
            }
          }
        // maxThreads as the limiting factor (pool larger than needed)
        for (int mt = 0; mt <= std::min(size + 1, thorough ? 64 : 6); mt++)
          for (int w = 0; w < 2; w++) exec(L, mk("pf", type, sb, eb, 300, w, mt, (mt & 1) ? 1 : 4), mt >= 2 && size >= 2);
      }
    }
  }
}

// ranges near the extremes of a wider type: [lo, lo+n) for several anchors, plus (16-bit only) ranges wider than the
// signed maximum
template <class I>
static void frontier(int type, unsigned t, unsigned NT, int nmax, int Tmax, Local& L) {
  const i128 mn = std::numeric_limits<I>::min(), mx = std::numeric_limits<I>::max();
  for (int n = 1 + (int)t; n <= nmax; n += (int)NT) {
    std::vector<i128> starts = {mn, mn + 1, mx - n, mx - n - 1};
    if (mn < 0) {
      starts.push_back(0);
      starts.push_back(-(i128)(n / 2));
      starts.push_back(-(i128)n);
    }
    std::sort(starts.begin(), starts.end());
    starts.erase(std::unique(starts.begin(), starts.end()), starts.end()); // keep the tuples distinct
    for (i128 st : starts) {
      int64_t sb = (int64_t)(I)st, eb = (int64_t)(I)(st + n);
      for (int T = 1; T <= std::min(Tmax, n + 1); T++)
        for (int w = 0; w < 2; w++) {
          exec(L, mk("pfs", type, sb, eb, T, w, -1, 1), T >= 2 && n >= 2);
          if (n % 4 == 0 && T <= n / 4 + 1) exec(L, mk("pfs", type, sb, eb, T, w, -1, 4), T >= 2 && n >= 8);
          exec(L, mk("pf", type, sb, eb, T - 1, w, 0x7fffffff, (n & 1) ? 1 : 3), T >= 2 && n >= 2);
        }
    }
  }
  if (sizeof(I) == 2) {
    // wide ranges: [min + i, max - j], sizes up to 65535 (chunk sizes exceed the signed maximum of the type)
    for (int i = (int)t; i <= 12; i += (int)NT)
      for (int j = 0; j <= 12; j++)
        for (int T = 1; T <= Tmax; T++)
          for (int w = 0; w < 2; w++) {
            int64_t sb = (int64_t)(I)(mn + i), eb = (int64_t)(I)(mx - j);
            exec(L, mk("pfs", type, sb, eb, T, w, -1, 1), T >= 2);
            exec(L, mk("pf", type, sb, eb, T - 1, w, 0x7fffffff, 1 + (uint32_t)(j % 5)), T >= 2);
          }
  }
}

int main(int argc, char** argv) {
  bool thorough = false;
  const char* replay = nullptr;
  for (int i = 1; i < argc; i++) {
    if (!strcmp(argv[i], "--tier") && i + 1 < argc)
      thorough = !strcmp(argv[++i], "thorough");
    else if (!strcmp(argv[i], "--replay") && i + 1 < argc)
      replay = argv[++i];
  }
  __sanitizer_set_death_callback(on_death);
  if (replay) {
    g_replay_mode = true;
    return do_replay(replay);
  }

  seq::Report rep;
  g_rep = &rep;
  rep.name = "c17_chunking";
  rep.max_violations = 12; // up to 5 families of process deaths on the frontier + room for oracle violations
  rep.rule =
      "a case is one input tuple, each enumerated once; non-trivial = at least 2 items and at least 2 chunks/threads "
      "requested (a real split happens)";
  const unsigned NT = 8;
  const int X = thorough ? 4 : 1;
  std::vector<Local> locals;
  uint64_t nontrivial = 0;
  const ssize_t SMAX = std::numeric_limits<ssize_t>::max();

  // ---- C: overflow frontier: items = SSIZE_MAX - k with items + chunks - 1 still representable ----
  // part 1: chunks 1..C_chunks, k = chunks-1 .. chunks-1+C_k   (k = chunks-1 is the last representable sum)
  // part 2: granular, g 2..C_g, items = (SSIZE_MAX/g - j)*g, j 0..C_j, chunks 1..C_gc
  // Runs in forked children (see on_death above); must come before any thread is started.
  const int C_chunks = 130 * X, C_k = 512 * X, C_g = 17 * X, C_j = 64 * X, C_gc = 70 * X;
  {
    // part 3: 32-bit ranges wider than INT32_MAX (the chunk offsets no longer fit the index type; for the 8-bit types
    //         of phase D integer promotion hides this): [min + i*2^29, max - j*2^29], i,j in 0..2, int32_t and uint32_t,
    //         threads 1..8, wait 0/1, direct (pfs) and public (pf) entry
    const int64_t n1 = (int64_t)C_chunks * (C_k + 1), n2 = (int64_t)(C_g - 1) * (C_j + 1) * C_gc, n3 = 2 * 9 * 8 * 2 * 2,
                  total = n1 + n2 + n3;
    auto caseC = [&](int64_t i, bool& nt) {
      if (i >= n1 + n2) {
        i -= n1 + n2;
        int kind = (int)(i % 2), w = (int)((i / 2) % 2), T = (int)((i / 4) % 8) + 1, r = (int)((i / 32) % 9), ty = (int)(i / 288);
        int64_t step = 1ll << 29;
        int64_t mn = ty ? 0 : (int64_t)INT32_MIN, mx = ty ? (int64_t)UINT32_MAX : (int64_t)INT32_MAX;
        int64_t sb = mn + (r / 3) * step, eb = mx - (r % 3) * step;
        if (ty) { // carried as the bit pattern of the 32-bit value, sign-extended like every other case
          sb = (int64_t)(uint32_t)sb;
          eb = (int64_t)(uint32_t)eb;
        }
        nt = T >= 2;
        return kind ? mk("pf", ty ? U32 : I32, sb, eb, T - 1, w, 0x7fffffff, 1) : mk("pfs", ty ? U32 : I32, sb, eb, T, w, -1, 1);
      }
      if (i < n1) {
        int chunks = (int)(i / (C_k + 1)) + 1, k = chunks - 1 + (int)(i % (C_k + 1));
        nt = chunks >= 2;
        return mk("scs", I64, SMAX - k, chunks);
      }
      i -= n1;
      int chunks = (int)(i % C_gc) + 1;
      int j = (int)((i / C_gc) % (C_j + 1));
      int g = (int)(i / ((int64_t)C_gc * (C_j + 1))) + 2;
      nt = chunks >= 2;
      return mk("gran", I64, (SMAX / g - j) * g, chunks, g);
    };
    struct Shared {
      volatile int64_t cur;
      volatile uint64_t evals, nontrivial;
      volatile int nfail;
      char msg[5][700];
      char replay[5][160];
    };
    Shared* sh = (Shared*)mmap(nullptr, sizeof(Shared), PROT_READ | PROT_WRITE, MAP_SHARED | MAP_ANONYMOUS, -1, 0);
    if (sh == MAP_FAILED) {
      perror("mmap");
      return 2;
    }
    memset((void*)sh, 0, sizeof(Shared));
    int64_t from = 0;
    int deaths = 0, deaths_scs_edge = 0, deaths_scs_other = 0, deaths_gran = 0, deaths_wide_i32 = 0, deaths_wide_u32 = 0;
    while (from < total) {
      fflush(stdout);
      fflush(stderr);
      pid_t pid = fork();
      if (pid < 0) {
        perror("fork");
        return 2;
      }
      if (pid == 0) {
        g_rep = nullptr;
        if (deaths >= 5) { // enough sanitizer reports on stderr already
          int fd = open("/dev/null", O_WRONLY);
          if (fd >= 0) dup2(fd, 2);
        }
        Local L;
        for (int64_t i = from; i < total; i++) {
          sh->cur = i;
          bool nt = false;
          Case k = caseC(i, nt);
          g_cur = &k;
          std::string e = run_case(L, k);
          sh->evals = sh->evals + 1;
          if (nt) sh->nontrivial = sh->nontrivial + 1;
          if (!e.empty() && sh->nfail < 5) {
            int n = sh->nfail;
            snprintf(sh->msg[n], sizeof sh->msg[n], "%s: %s", k.text().c_str(), e.c_str());
            snprintf(sh->replay[n], sizeof sh->replay[n], "%s", k.text().c_str());
            sh->nfail = n + 1;
          }
        }
        sh->cur = total;
        _exit(0);
      }
      int status = 0;
      waitpid(pid, &status, 0);
      if (WIFEXITED(status) && WEXITSTATUS(status) == 0 && sh->cur == total) break;
      // the child died while executing case sh->cur
      bool nt = false;
      Case k = caseC(sh->cur, nt);
      deaths++;
      rep.evaluations++; // the dying case was executed too
      if (nt) nontrivial++;
      int& fam = k.kind == "scs" ? ((i128)k.a + k.b - 1 == (i128)SMAX ? deaths_scs_edge : deaths_scs_other)
          : k.kind == "gran"     ? deaths_gran
          : k.type == I32        ? deaths_wide_i32
                                 : deaths_wide_u32;
      if (++fam <= 1) // one recorded per family so that every family shows up among the (capped) violations
        rep.violation("process killed by a sanitizer report or signal (undefined behaviour, see stderr) while executing: " + k.text(), k.text());
      from = sh->cur + 1;
      if (deaths >= 40) { // a change that breaks the arithmetic wholesale kills a child per case: the verdict is settled
        rep.exhaustive = false;
        break;
      }
    }
    rep.evaluations += sh->evals;
    nontrivial += sh->nontrivial;
    for (int i = 0; i < sh->nfail; i++) rep.violation(sh->msg[i], sh->replay[i]);
    if (getenv("SEQ_TIMING"))
      fprintf(stderr, "[c17] frontier (forked) done: %.2f s, %d deaths\n",
              std::chrono::duration<double>(std::chrono::steady_clock::now() - rep.t0).count(), deaths);
    if (deaths)
      rep.sample(seq::fmt("{\"kind\":\"frontier\",\"cases_that_killed_the_process\":%d,\"staticChunkSize_with_items+chunks-1==SSIZE_MAX\":%d,"
                          "\"staticChunkSize_other\":%d,\"granular\":%d,\"wide_int32_ranges\":%d,\"wide_uint32_ranges\":%d}",
                          deaths, deaths_scs_edge, deaths_scs_other, deaths_gran, deaths_wide_i32, deaths_wide_u32));
    munmap((void*)sh, sizeof(Shared));
  }
  rep.sample(seq::fmt("{\"kind\":\"scs\",\"items\":%lld,\"chunks\":64}", (long long)(SMAX - 63)));

  // ---- A: staticChunkSize(items, chunks) -------------------------------------------------------
  const int A_items = 4096 * X, A_chunks = 130 * X;
  run_parallel(NT, locals, [&](unsigned t, Local& L) {
    for (int items = (int)t; items <= A_items; items += (int)NT)
      for (int chunks = 1; chunks <= A_chunks; chunks++) exec(L, mk("scs", I64, items, chunks), items >= 2 && chunks >= 2);
  });
  merge(rep, locals, nontrivial);
  rep.sample("{\"kind\":\"scs\",\"items\":100,\"chunks\":8,\"ceil\":" + std::to_string(dd::staticChunkSize(100, 8).ceilChunkSize) +
             ",\"transition\":" + std::to_string(dd::staticChunkSize(100, 8).transitionTaskIndex) + "}");

  // ---- B: staticChunkSizeGranular(g*u, chunks, g) ----------------------------------------------
  const int B_g = 17 * X, B_u = 600 * X, B_chunks = 70 * X;
  run_parallel(NT, locals, [&](unsigned t, Local& L) {
    for (int u = (int)t; u <= B_u; u += (int)NT)
      for (int g = 1; g <= B_g; g++)
        for (int chunks = 1; chunks <= B_chunks; chunks++) exec(L, mk("gran", I64, (int64_t)g * u, chunks, g), u >= 2 && chunks >= 2);
  });
  merge(rep, locals, nontrivial);
  rep.sample("{\"kind\":\"gran\",\"g\":8,\"items\":104,\"chunks\":5,\"ceil\":" + std::to_string(dd::staticChunkSizeGranular(104, 5, 8).ceilChunkSize) +
             ",\"transition\":" + std::to_string(dd::staticChunkSizeGranular(104, 5, 8).transitionTaskIndex) + "}");

  // ---- D: the boundary code of parallel_for (static path) for every 8-bit range ---------------------
  run_parallel(NT, locals, [&](unsigned t, Local& L) {
    sweep8<uint8_t>(U8, t, NT, thorough, L);
    sweep8<int8_t>(I8, t, NT, thorough, L);
  });
  merge(rep, locals, nontrivial);
  rep.sample("{\"kind\":\"pfs\",\"type\":\"i8\",\"range\":\"[-128,127)\",\"T\":2,\"note\":\"chunk size 128 does not fit int8_t\"}");
  // ---- D2: wider integer types at their extremes ------------------------------------------------------
  {
    int nmax = 255 * X + (X > 1 ? 0 : 0), Tmax = 40 * X;
    run_parallel(NT, locals, [&](unsigned t, Local& L) {
      frontier<uint16_t>(U16, t, NT, nmax, Tmax, L);
      frontier<int16_t>(I16, t, NT, nmax, Tmax, L);
      frontier<uint32_t>(U32, t, NT, nmax, Tmax, L);
      frontier<int32_t>(I32, t, NT, nmax, Tmax, L);
      frontier<uint64_t>(U64, t, NT, nmax, Tmax, L);
      frontier<int64_t>(I64, t, NT, nmax, Tmax, L);
    });
    merge(rep, locals, nontrivial);
  }

  // ---- E: for_each_n boundaries ------------------------------------------------------------------
  const int E_n = 300 * X, E_t = 40 * X;
  run_parallel(NT, locals, [&](unsigned t, Local& L) {
    for (int n = (int)t; n <= E_n; n += (int)NT) {
      for (int w = 0; w < 2; w++) {
        // t = pool threads + wait in [1, E_t]
        for (int tt = 1; tt <= E_t; tt++) {
          int N = tt - w;
          exec(L, mk("fevec", I64, n, N, 0x7fffffff, w), n >= 2 && tt >= 2);
          exec(L, mk("felist", I64, n, N, 0x7fffffff, w), n >= 2 && tt >= 2);
        }
        // maxThreads limiting a larger pool; 0 and 1 mean serial
        for (int mt = 0; mt <= E_t; mt++) {
          exec(L, mk("fevec", I64, n, E_t + 24, mt, w), n >= 2 && mt >= 2);
          exec(L, mk("felist", I64, n, E_t + 24, mt, w), n >= 2 && mt >= 2);
        }
      }
    }
  });
  merge(rep, locals, nontrivial);
  rep.sample("{\"kind\":\"felist\",\"n\":300,\"pool_threads\":39,\"wait\":true}");

  rep.distinct_overflow = nontrivial;
  rep.domain =
      std::string("A staticChunkSize (detail + public): items 0..") + std::to_string(A_items) + " x chunks 1.." + std::to_string(A_chunks) +
      "; B staticChunkSizeGranular: g 1.." + std::to_string(B_g) + ", items=g*u, u 0.." + std::to_string(B_u) + ", chunks 1.." +
      std::to_string(B_chunks) + "; C overflow frontier: items=SSIZE_MAX-k for chunks 1.." + std::to_string(C_chunks) +
      ", k from chunks-1 (items+chunks-1==SSIZE_MAX) to chunks-1+" + std::to_string(C_k) + ", and granular items=(SSIZE_MAX/g-j)*g, g 2.." +
      std::to_string(C_g) + ", j 0.." + std::to_string(C_j) + ", chunks 1.." + std::to_string(C_gc) +
      ", and int32/uint32 ranges wider than INT32_MAX [min+i*2^29,max-j*2^29], i,j 0..2, threads 1..8, wait 0/1, direct and public entry "
      "(C runs in forked children so that a sanitizer abort is recorded and the enumeration continues)"
      "; D parallel_for_staticImpl/StaticChunkMapper<uint8_t|int8_t>: every range start<end, every thread count 1..size+1, wait 0/1, "
      "g=1 and every g in 2..17 dividing the size (thread counts 1..size/g+1), plus caller ring index 0..T for ranges starting at the type "
      "minimum (T<=41); public parallel_for on every 8-bit Static range (incl. empty): pool threads 0..min(size," +
      std::string(thorough ? "255" : "24") + "), wait 0/1, granularity " + std::string(thorough ? "0..17" : "{1,2,3,8}") +
      " (non-divisors exercise the tail), and maxThreads 0.." + std::string(thorough ? "64" : "6") +
      " with a 300-thread pool; D2 uint16/int16/uint32/int32/uint64/int64: ranges [a,a+n), n 1.." + std::to_string(255 * X) +
      ", a in {min,min+1,max-n-1,max-n,0,-n/2,-n}, threads 1.." + std::to_string(40 * X) +
      ", g in {1,4} direct and {1,3} public, plus 16-bit ranges [min+i,max-j], i,j 0..12; E for_each_n on vector and list iterators: n 0.." +
      std::to_string(E_n) + ", t=pool+wait 1.." + std::to_string(E_t) + ", wait 0/1, and maxThreads 0.." + std::to_string(E_t) + " on a larger pool";
  rep.exhaustive = true;
  return rep.finish();
}
