// C38 -- dispenso::SmallVector behaves like std::vector with aligned storage.
//
// Bounded-exhaustive enumeration (no sampling):
//   phase A  all operation histories up to depth 4 (quick) / 5 (thorough) over the public operations of
//            SmallVector on two vectors a and b, x inline capacity N in {1,2,4} x element type in
//            {int, seq::Tracked<int>, alignas(64) BigAligned}.  Histories are merged by canonical state
//            (contents of a and b, inline/heap flag, capacity); every (state, operation) pair is executed
//            by replaying the representative history on fresh objects.
//   phase B  heap-address probe: every reserve size n in N+1..64, with 0..7 other heap vectors alive,
//            followed by push_back growth; looks at the actual heap addresses handed to SmallVector.
// Oracle: contents and size equal std::vector<int> driven by the same history; every element address is
// a multiple of alignof(T); the lifetime registry is balanced (constructed once, destroyed once, never
// constructed over a live object, live objects == elements of a and b at every observation, nothing live
// at the end).
//
// Technical notes
//  * The build uses -fno-sanitize-recover=undefined.  A misaligned placement-new inside SmallVector would
//    abort the process before the oracle could report it, so UBSan's *alignment* check (only that one) is
//    switched off for the functions of this TU, including the SmallVector members; the oracle checks
//    alignment of every element address itself.
//  * global operator new/delete are replaced by malloc/free (ASan still guards the blocks).  While a case
//    runs, freed blocks are scribbled with 0xDD and their release is deferred to the end of the case, so a
//    read through a dangling reference shows up as an oracle violation (wrong value / use of a non-live
//    object) instead of an ASan abort that would lose the SEQRESULT line.
#include "seq_common.h"

#include <malloc.h>
#include <array>
#include <fstream>
#include <new>
#include <sstream>
#include <type_traits>

// ---------------------------------------------------------------------------------------------------
// replaced global allocation functions (malloc based, deferred + scribbled release inside a case)
namespace {
struct DeferState {
  void* p[512];
  int n;
  bool on;
  bool double_free;
  uint64_t allocs; // number of operator new calls while on
};
thread_local DeferState g_def;

inline void* c38_alloc(size_t n) {
  void* p = malloc(n ? n : 1);
  if (!p) abort();
  if (g_def.on) g_def.allocs++;
  return p;
}
inline void c38_free(void* p) {
  if (!p) return;
  if (g_def.on && g_def.n < 512) {
    for (int i = 0; i < g_def.n; i++)
      if (g_def.p[i] == p) {
        g_def.double_free = true;
        return;
      }
    memset(p, 0xDD, malloc_usable_size(p));
    g_def.p[g_def.n++] = p;
    return;
  }
  free(p);
}
inline void defer_begin() {
  g_def.n = 0;
  g_def.double_free = false;
  g_def.allocs = 0;
  g_def.on = true;
}
inline void defer_end() {
  g_def.on = false;
  for (int i = 0; i < g_def.n; i++) free(g_def.p[i]);
  g_def.n = 0;
}
} // namespace

void* operator new(size_t n) { return c38_alloc(n); }
void* operator new[](size_t n) { return c38_alloc(n); }
void* operator new(size_t n, const std::nothrow_t&) noexcept { return c38_alloc(n); }
void* operator new[](size_t n, const std::nothrow_t&) noexcept { return c38_alloc(n); }
void operator delete(void* p) noexcept { c38_free(p); }
void operator delete[](void* p) noexcept { c38_free(p); }
void operator delete(void* p, size_t) noexcept { c38_free(p); }
void operator delete[](void* p, size_t) noexcept { c38_free(p); }
void operator delete(void* p, const std::nothrow_t&) noexcept { c38_free(p); }
void operator delete[](void* p, const std::nothrow_t&) noexcept { c38_free(p); }

// ---------------------------------------------------------------------------------------------------
// everything below (SmallVector members included) is compiled without UBSan's alignment check; see top.
#pragma clang attribute push(__attribute__((no_sanitize("alignment"))), apply_to = function)

#include <dispenso/small_vector.h>

// over-aligned element type with the same registry hooks as seq::Tracked<int>
struct alignas(64) BigAligned {
  int v;
  BigAligned() : v() { seq::registry().ctor(this, -1); }
  BigAligned(const int& x) : v(x) { seq::registry().ctor(this, (long)x); }
  BigAligned(const BigAligned& o) : v(o.v) {
    seq::registry().use(&o);
    seq::registry().ctor(this, (long)v);
  }
  BigAligned(BigAligned&& o) noexcept : v(o.v) {
    seq::registry().use(&o);
    seq::registry().ctor(this, (long)v);
    o.v = -7;
  }
  BigAligned& operator=(const BigAligned& o) {
    seq::registry().use(&o);
    seq::registry().use(this);
    v = o.v;
    return *this;
  }
  BigAligned& operator=(BigAligned&& o) noexcept {
    seq::registry().use(&o);
    seq::registry().use(this);
    v = o.v;
    if (&o != this) o.v = -7;
    return *this;
  }
  ~BigAligned() { seq::registry().dtor(this); }
};
static_assert(alignof(BigAligned) == 64 && sizeof(BigAligned) == 64, "BigAligned layout");

namespace {

inline int getv(const int& x) { return x; }
inline int getv(const seq::Tracked<int>& x) { return x.v; }
inline int getv(const BigAligned& x) { return x.v; }
template <class T>
struct TName;
template <>
struct TName<int> {
  static const char* s() { return "int"; }
};
template <>
struct TName<seq::Tracked<int>> {
  static const char* s() { return "Tracked<int>"; }
};
template <>
struct TName<BigAligned> {
  static const char* s() { return "BigAligned"; }
};

// ---- operations -----------------------------------------------------------------------------------
enum Kind : uint8_t {
  PUSH_C, // x.push_back(const T& = 1)
  PUSH_M, // x.push_back(T&& = 2)
  EMPLACE, // x.emplace_back(3)
  POP, // x.pop_back()            (size>0)
  CLEAR, // x.clear()
  RESIZE, // x.resize(n)
  RESIZE_V, // x.resize(n, 4)
  RESERVE, // x.reserve(n)
  ERASE, // x.erase(begin()+pos)    pos in {0,1,last}
  COPY_ASSIGN, // x = y
  MOVE_ASSIGN, // x = std::move(y)
  SELF_ASSIGN, // x = x
  CTOR_DEFAULT, // destroy x; new(x) SV()
  CTOR_N, // destroy x; new(x) SV(n)
  CTOR_NV, // destroy x; new(x) SV(n, 5)
  CTOR_IL, // destroy x; new(x) SV({1,..,n})
  CTOR_COPY, // destroy x; new(x) SV(y)
  CTOR_MOVE, // destroy x; new(x) SV(std::move(y))
  ALIAS_PUSH, // x.push_back(x.front())          (size>0)
  ALIAS_RESIZE, // x.resize(n, x.front())          (size>0)
};
constexpr int kLast = -1;

struct Op {
  Kind kind;
  uint8_t target; // 0 = a, 1 = b
  int n; // size / position argument
  std::string name;
};

static std::vector<int> dedupe(std::vector<int> v) {
  std::vector<int> o;
  for (int x : v)
    if (std::find(o.begin(), o.end(), x) == o.end()) o.push_back(x);
  return o;
}

static std::vector<Op> make_alphabet(int N, bool with_alias) {
  std::vector<Op> al;
  const char* nm[2] = {"a", "b"};
  auto sizes = dedupe({0, 1, N, N + 1, 2 * N + 1});
  auto rsv = dedupe({0, N, N + 1, 2 * N + 1});
  auto ctor_sizes = dedupe({0, 1, N, N + 1});
  auto big = dedupe({N + 1, 2 * N + 1});
  // simplest first, both targets interleaved per kind
  auto both = [&](Kind k, int n, const std::string& fmt_a, const std::string& fmt_b) {
    al.push_back({k, 0, n, fmt_a});
    al.push_back({k, 1, n, fmt_b});
  };
  auto simple = [&](Kind k, int n, const std::string& tail) { both(k, n, std::string("a") + tail, std::string("b") + tail); };
  simple(PUSH_C, 0, ".push_back(const&1)");
  simple(PUSH_M, 0, ".push_back(&&2)");
  simple(EMPLACE, 0, ".emplace_back(3)");
  simple(POP, 0, ".pop_back()");
  simple(CLEAR, 0, ".clear()");
  for (int n : sizes) simple(RESIZE, n, seq::fmt(".resize(%d)", n));
  for (int n : sizes) simple(RESIZE_V, n, seq::fmt(".resize(%d,4)", n));
  for (int n : rsv) simple(RESERVE, n, seq::fmt(".reserve(%d)", n));
  simple(ERASE, 0, ".erase(0)");
  simple(ERASE, 1, ".erase(1)");
  simple(ERASE, kLast, ".erase(last)");
  both(COPY_ASSIGN, 0, "a=b", "b=a");
  both(MOVE_ASSIGN, 0, "a=move(b)", "b=move(a)");
  both(SELF_ASSIGN, 0, "a=a", "b=b");
  simple(CTOR_DEFAULT, 0, ":=SV()");
  for (int n : ctor_sizes) simple(CTOR_N, n, seq::fmt(":=SV(%d)", n));
  for (int n : ctor_sizes) simple(CTOR_NV, n, seq::fmt(":=SV(%d,5)", n));
  for (int n : ctor_sizes) simple(CTOR_IL, n, seq::fmt(":=SV{il%d}", n));
  both(CTOR_COPY, 0, "a:=SV(b)", "b:=SV(a)");
  both(CTOR_MOVE, 0, "a:=SV(move(b))", "b:=SV(move(a))");
  if (with_alias) {
    both(ALIAS_PUSH, 0, "a.push_back(a.front())", "b.push_back(b.front())");
    for (int n : big) both(ALIAS_RESIZE, n, seq::fmt("a.resize(%d,a.front())", n), seq::fmt("b.resize(%d,b.front())", n));
  }
  (void)nm;
  return al;
}

// ---- one run --------------------------------------------------------------------------------------
constexpr int kMaxDepth = 6;
struct Hist {
  uint8_t op[kMaxDepth];
  uint8_t len;
};

enum Status { OK, DISABLED, HARD, SOFT };
struct RunResult {
  Status st = OK;
  std::string err; // first hard error
  std::string soft; // first alignment error (does not stop exploration: the contents are still defined)
  std::string key; // canonical state after the last op
  std::string prefix_key; // canonical state before the last op
  bool nontrivial = false;
};

template <class T, size_t N>
struct Runner {
  using SV = dispenso::SmallVector<T, N>;
  static constexpr bool kTracked = !std::is_same<T, int>::value;
  std::vector<Op> alphabet;

  static void key_of(const SV& x, const std::vector<int>& m, std::string& k) {
    k.push_back((char)m.size());
    for (int v : m) k.push_back((char)v);
    k.push_back(x.isInline() ? 'i' : 'h');
    size_t c = x.capacity();
    k.push_back((char)(c & 0xff));
    k.push_back((char)((c >> 8) & 0xff));
  }

  // full observation of one vector against its model; returns false on a hard error
  static bool observe(const char* who, SV& x, const std::vector<int>& m, RunResult& r) {
    const SV& cx = x;
    auto hard = [&](const std::string& s) {
      if (r.err.empty()) r.err = std::string(who) + ": " + s;
      return false;
    };
    if (x.size() != m.size()) return hard(seq::fmt("size() %zu, std::vector has %zu", x.size(), m.size()));
    if (x.empty() != m.empty()) return hard("empty() disagrees with std::vector");
    if (x.size() > 4096) return hard("absurd size");
    size_t n = m.size();
    if (x.end() - x.begin() != (std::ptrdiff_t)n || cx.end() - cx.begin() != (std::ptrdiff_t)n || x.cend() - x.cbegin() != (std::ptrdiff_t)n)
      return hard("end()-begin() != size()");
    if (x.begin() != x.data() || cx.begin() != cx.data() || cx.cbegin() != cx.data()) return hard("begin() != data()");
    size_t i = 0;
    for (auto it = x.begin(); it != x.end(); ++it, ++i) {
      if (getv(*it) != m[i]) return hard(seq::fmt("iteration: element %zu is %d, std::vector has %d", i, getv(*it), m[i]));
    }
    i = 0;
    for (const auto& e : cx) {
      if (getv(e) != m[i]) return hard(seq::fmt("const iteration: element %zu is %d, std::vector has %d", i, getv(e), m[i]));
      ++i;
    }
    for (i = 0; i < n; i++) {
      if (&x[i] != x.data() + i || &cx[i] != cx.data() + i) return hard("operator[] address != data()+i");
      if (getv(x[i]) != m[i] || getv(cx[i]) != m[i]) return hard(seq::fmt("operator[]: element %zu is %d, std::vector has %d", i, getv(x[i]), m[i]));
      uintptr_t ad = (uintptr_t)&x[i];
      if (ad % alignof(T) != 0 && r.soft.empty())
        r.soft = seq::fmt("%s: element address in %s storage is not a multiple of alignof(T)=%zu", who, x.isInline() ? "inline" : "heap", alignof(T));
      if (kTracked) {
        auto it = seq::registry().live.find((const void*)&x[i]);
        if (it == seq::registry().live.end()) return hard(seq::fmt("element %zu is not a live object in the lifetime registry", i));
      }
    }
    if (n) {
      if (&x.front() != &x[0] || &cx.front() != &cx[0] || getv(x.front()) != m.front()) return hard("front() disagrees");
      if (&x.back() != &x[n - 1] || &cx.back() != &cx[n - 1] || getv(x.back()) != m.back()) return hard("back() disagrees");
    }
    return true;
  }

  static void adopt(SV& y, std::vector<int>& my) { // moved-from source: valid but unspecified, take what it says
    my.clear();
    size_t n = y.size();
    if (n > 4096) n = 0;
    for (size_t i = 0; i < n; i++) my.push_back(getv(y[i]));
  }

  static void construct_il(void* p, int n) {
    switch (n) {
      case 0: {
        std::initializer_list<T> il = {};
        new (p) SV(il);
        break;
      }
      case 1: {
        std::initializer_list<T> il = {T(1)};
        new (p) SV(il);
        break;
      }
      case 2: {
        std::initializer_list<T> il = {T(1), T(2)};
        new (p) SV(il);
        break;
      }
      case 3: {
        std::initializer_list<T> il = {T(1), T(2), T(3)};
        new (p) SV(il);
        break;
      }
      case 4: {
        std::initializer_list<T> il = {T(1), T(2), T(3), T(4)};
        new (p) SV(il);
        break;
      }
      case 5: {
        std::initializer_list<T> il = {T(1), T(2), T(3), T(4), T(5)};
        new (p) SV(il);
        break;
      }
      default:
        abort();
    }
  }

  // applies one op; returns false if the op is not applicable in this state
  static bool apply(const Op& op, SV* v[2], std::vector<int> m[2], RunResult& r) {
    SV& x = *v[op.target];
    SV& y = *v[1 - op.target];
    std::vector<int>& mx = m[op.target];
    std::vector<int>& my = m[1 - op.target];
    auto hard = [&](const std::string& s) {
      if (r.err.empty()) r.err = op.name + ": " + s;
    };
    switch (op.kind) {
      case PUSH_C: {
        const T t(1);
        x.push_back(t);
        mx.push_back(1);
        break;
      }
      case PUSH_M: {
        T t(2);
        x.push_back(std::move(t));
        mx.push_back(2);
        break;
      }
      case EMPLACE: {
        T& ref = x.emplace_back(3);
        mx.emplace_back(3);
        if (&ref != &x[x.size() - 1]) hard("emplace_back did not return a reference to the last element");
        break;
      }
      case POP:
        if (mx.empty()) return false;
        x.pop_back();
        mx.pop_back();
        break;
      case CLEAR:
        x.clear();
        mx.clear();
        break;
      case RESIZE:
        x.resize((size_t)op.n);
        mx.resize((size_t)op.n);
        break;
      case RESIZE_V: {
        const T t(4);
        x.resize((size_t)op.n, t);
        mx.resize((size_t)op.n, 4);
        break;
      }
      case RESERVE:
        x.reserve((size_t)op.n);
        mx.reserve((size_t)op.n);
        break;
      case ERASE: {
        size_t pos;
        if (op.n == kLast) {
          if (mx.size() < 3) return false; // positions 0 and 1 are separate letters
          pos = mx.size() - 1;
        } else {
          if ((size_t)op.n >= mx.size()) return false;
          pos = (size_t)op.n;
        }
        typename SV::const_iterator cit = x.cbegin() + pos;
        auto it = x.erase(cit);
        mx.erase(mx.begin() + pos);
        if (it != x.begin() + pos) hard("erase did not return the iterator at the erased position");
        break;
      }
      case COPY_ASSIGN:
        x = y;
        mx = my;
        break;
      case MOVE_ASSIGN:
        x = std::move(y);
        mx = my;
        adopt(y, my);
        break;
      case SELF_ASSIGN: {
        SV& alias = x;
        x = alias;
        break;
      }
      case CTOR_DEFAULT:
        x.~SV();
        new (&x) SV();
        mx = std::vector<int>();
        break;
      case CTOR_N:
        x.~SV();
        new (&x) SV((size_t)op.n);
        mx = std::vector<int>((size_t)op.n);
        break;
      case CTOR_NV: {
        x.~SV();
        const T t(5);
        new (&x) SV((size_t)op.n, t);
        mx = std::vector<int>((size_t)op.n, 5);
        break;
      }
      case CTOR_IL: {
        x.~SV();
        construct_il(&x, op.n);
        mx.clear();
        for (int i = 1; i <= op.n; i++) mx.push_back(i);
        break;
      }
      case CTOR_COPY:
        x.~SV();
        new (&x) SV(static_cast<const SV&>(y));
        mx = my;
        break;
      case CTOR_MOVE:
        x.~SV();
        new (&x) SV(std::move(y));
        mx = my;
        adopt(y, my);
        break;
      case ALIAS_PUSH: {
        if (mx.empty()) return false;
        x.push_back(x.front());
        int f = mx.front();
        mx.push_back(f);
        break;
      }
      case ALIAS_RESIZE: {
        if (mx.empty()) return false;
        x.resize((size_t)op.n, x.front());
        int f = mx.front();
        mx.resize((size_t)op.n, f);
        break;
      }
    }
    return true;
  }

  static std::string describe(SV& x, const std::vector<int>& m) {
    std::string s = "[";
    size_t n = x.size() > 64 ? 64 : x.size();
    for (size_t i = 0; i < n; i++) s += (i ? "," : "") + std::to_string(getv(x[i]));
    s += "] model[";
    for (size_t i = 0; i < m.size(); i++) s += (i ? "," : "") + std::to_string(m[i]);
    s += seq::fmt("] %s cap=%zu data=%p (data%%alignof(T)=%zu)", x.isInline() ? "inline" : "heap", x.capacity(), (void*)x.data(),
                  (size_t)((uintptr_t)x.data() % alignof(T)));
    return s;
  }

  // replays h on fresh objects, checks after the last op
  void run(const Hist& h, RunResult& r, bool verbose) const {
    seq::registry().reset();
    defer_begin();
    bool any_heap = false, cross = false;
    {
      alignas(SV) unsigned char buf[2][sizeof(SV)];
      SV* v[2] = {new (buf[0]) SV(), new (buf[1]) SV()};
      std::vector<int> m[2];
      bool alive = true;
      for (int i = 0; i < h.len && alive; i++) {
        const Op& op = alphabet[h.op[i]];
        if (i == h.len - 1) {
          key_of(*v[0], m[0], r.prefix_key);
          key_of(*v[1], m[1], r.prefix_key);
          any_heap = !v[0]->isInline() || !v[1]->isInline();
        }
        bool applicable = apply(op, v, m, r);
        if (!applicable) {
          // only the last letter may be inapplicable (prefixes are representatives of reached states)
          r.st = DISABLED;
          alive = false;
          break;
        }
        if (verbose) {
          printf("  %-26s a=%s\n  %-26s b=%s\n", op.name.c_str(), describe(*v[0], m[0]).c_str(), "", describe(*v[1], m[1]).c_str());
          if (!seq::registry().error.empty()) printf("  registry: %s\n", seq::registry().error.c_str());
        }
        if (kTracked && !seq::registry().error.empty()) {
          if (r.err.empty()) r.err = op.name + ": lifetime registry: " + seq::registry().error;
          alive = false;
        }
        if (!r.err.empty()) alive = false;
        if (i == h.len - 1) {
          any_heap = any_heap || !v[0]->isInline() || !v[1]->isInline();
          cross = op.kind == COPY_ASSIGN || op.kind == MOVE_ASSIGN || op.kind == CTOR_COPY || op.kind == CTOR_MOVE;
        }
      }
      if (alive) {
        bool ok = observe("a", *v[0], m[0], r) && observe("b", *v[1], m[1], r);
        if (ok && kTracked) {
          size_t want = m[0].size() + m[1].size();
          if (seq::registry().live.size() != want)
            r.err = seq::fmt("lifetime registry has %zu live objects but a and b hold %zu elements", seq::registry().live.size(), want);
          else if (!seq::registry().error.empty())
            r.err = "lifetime registry: " + seq::registry().error;
        }
        key_of(*v[0], m[0], r.key);
        key_of(*v[1], m[1], r.key);
      }
      // destruction is part of every case
      v[0]->~SV();
      v[1]->~SV();
    }
    if (r.st != DISABLED) {
      if (kTracked && r.err.empty()) {
        auto& reg = seq::registry();
        if (!reg.error.empty())
          r.err = "at destruction: lifetime registry: " + reg.error;
        else if (!reg.live.empty())
          r.err = seq::fmt("%zu element(s) still live after both vectors were destroyed", reg.live.size());
        else if (reg.constructed != reg.destroyed)
          r.err = seq::fmt("constructed %ld != destroyed %ld", reg.constructed, reg.destroyed);
      }
      if (r.err.empty() && g_def.double_free) r.err = "heap block passed to operator delete twice";
      r.nontrivial = any_heap || cross;
      if (!r.err.empty())
        r.st = HARD;
      else if (!r.soft.empty())
        r.st = SOFT;
    }
    defer_end();
    seq::registry().reset();
  }
};

// ---- driver ---------------------------------------------------------------------------------------
struct Totals {
  uint64_t states = 0;
};

static std::string hist_text(const std::vector<Op>& al, const Hist& h) {
  std::string s;
  for (int i = 0; i < h.len; i++) s += (i ? ";" : "") + al[h.op[i]].name;
  return s;
}
static std::string replay_text(const char* tname, int N, const std::string& ops) { return seq::fmt("type %s\nN %d\nops %s", tname, N, ops.c_str()); }

template <class T, size_t N>
static void explore(seq::Report& rep, int depth, bool with_alias, std::set<std::string>& reported, Totals& tot) {
  Runner<T, N> R;
  R.alphabet = make_alphabet((int)N, with_alias);
  if (R.alphabet.size() > 255) abort();
  const char* tn = TName<T>::s();
  std::unordered_set<std::string> visited;
  std::vector<std::pair<Hist, const std::string*>> frontier, next;
  {
    Hist h0{};
    RunResult r0;
    R.run(h0, r0, false);
    rep.evaluations++;
    auto ins = visited.insert(r0.key);
    frontier.push_back({h0, &*ins.first});
    if (r0.st == HARD) rep.violation(seq::fmt("T=%s N=%zu: %s", tn, N, r0.err.c_str()), replay_text(tn, (int)N, ""));
  }
  uint64_t cfg_hash = seq::mix(seq::mix(0x38, std::hash<std::string>()(tn)), N);
  for (int d = 1; d <= depth; d++) {
    next.clear();
    for (auto& fe : frontier) {
      for (size_t oi = 0; oi < R.alphabet.size(); oi++) {
        Hist h = fe.first;
        h.op[h.len++] = (uint8_t)oi;
        RunResult r;
        R.run(h, r, false);
        if (r.st == DISABLED) continue;
        rep.evaluations++;
        if (r.prefix_key != *fe.second) {
          rep.violation(seq::fmt("T=%s N=%zu: replay of a history reached a different canonical state (non-deterministic)", tn, N),
                        replay_text(tn, (int)N, hist_text(R.alphabet, h)));
          continue;
        }
        if (r.nontrivial) {
          uint64_t hh = cfg_hash;
          for (int i = 0; i < h.len; i++) hh = seq::mix(hh, h.op[i] + 1);
          if (rep.distinct.size() < 2000000)
            rep.add_distinct(hh);
          else
            rep.distinct_overflow++; // histories are pairwise distinct by construction of the BFS
          if (rep.samples.size() < 5 && h.len >= 3 && (rep.evaluations % 9973) == 0)
            rep.sample(seq::fmt("{\"T\":\"%s\",\"N\":%zu,\"ops\":\"%s\"}", tn, N, hist_text(R.alphabet, h).c_str()));
        }
        if (r.st == HARD || r.st == SOFT) {
          const std::string& why = r.st == HARD ? r.err : r.soft;
          // one artefact per (element type, kind of failure): the first one found is the shortest for the smallest N
          std::string kind = why.substr(why.find(": ") == std::string::npos ? 0 : why.find(": ") + 2);
          std::string tag = std::string(tn) + "|" + std::string(R.alphabet[oi].kind >= ALIAS_PUSH ? "alias|" : "") + kind.substr(0, 40);
          if (reported.insert(tag).second)
            rep.violation(seq::fmt("T=%s N=%zu: after [%s]: %s", tn, N, hist_text(R.alphabet, h).c_str(), why.c_str()),
                          replay_text(tn, (int)N, hist_text(R.alphabet, h)));
          if (r.st == HARD) continue; // state is broken, do not build on it
        }
        auto ins = visited.insert(r.key);
        if (ins.second && d < depth) next.push_back({h, &*ins.first});
      }
    }
    frontier.swap(next);
  }
  tot.states += visited.size();
  fprintf(stderr, "[c38] T=%s N=%zu depth=%d alphabet=%zu states=%zu evaluations so far=%llu\n", tn, N, depth, R.alphabet.size(), visited.size(),
          (unsigned long long)rep.evaluations);
}

// ---- phase B: heap address probe -------------------------------------------------------------------
struct ProbeStats {
  uint64_t heap_buffers = 0, misaligned = 0;
  size_t min_align = 1 << 20;
};
template <class T, size_t N>
static void probe(seq::Report& rep, std::set<std::string>& reported, ProbeStats& ps) {
  using SV = dispenso::SmallVector<T, N>;
  const char* tn = TName<T>::s();
  for (int ballast = 0; ballast <= 7; ballast++) {
    for (int n = (int)N + 1; n <= 64; n++) {
      seq::registry().reset();
      defer_begin();
      std::string err, mis;
      {
        SV keep[7];
        for (int k = 0; k < ballast; k++) keep[k].reserve(N + 1 + (size_t)k * 3);
        SV v;
        std::vector<int> m;
        v.reserve((size_t)n);
        const T* last_data = nullptr;
        for (int i = 0; i < 2 * n + 1 && err.empty(); i++) {
          v.push_back(T(i & 63));
          m.push_back(i & 63);
          if (v.data() != last_data) { // a new heap buffer
            last_data = v.data();
            ps.heap_buffers++;
            uintptr_t ad = (uintptr_t)v.data();
            size_t al = (size_t)(ad & (~ad + 1));
            if (al < ps.min_align) ps.min_align = al;
            if (ad % alignof(T)) { // keep going: count every misaligned buffer of the cell
              ps.misaligned++;
              if (mis.empty()) mis = seq::fmt("heap element address %% alignof(T)=%zu is %zu", alignof(T), (size_t)(ad % alignof(T)));
            }
          }
          if (v.size() != m.size() || getv(v.back()) != m.back() || getv(v[0]) != m[0]) err = "contents differ from std::vector";
        }
        for (size_t i = 0; i < m.size() && err.empty(); i++)
          if (getv(v[i]) != m[i]) err = "contents differ from std::vector";
      }
      auto& reg = seq::registry();
      if (err.empty() && !std::is_same<T, int>::value && (!reg.error.empty() || !reg.live.empty() || reg.constructed != reg.destroyed))
        err = "lifetime registry unbalanced: " + reg.error;
      defer_end();
      seq::registry().reset();
      if (err.empty()) err = mis;
      rep.evaluations++;
      rep.add_distinct(seq::mix(seq::mix(seq::mix(0xB38, std::hash<std::string>()(tn)), N * 1000 + (size_t)n), (uint64_t)ballast));
      if (!err.empty()) {
        std::string tag = std::string(tn) + "|probe|" + err.substr(0, 30);
        if (reported.insert(tag).second)
          rep.violation(seq::fmt("T=%s N=%zu: heap probe reserve(%d) with %d other heap vectors alive then push_back x%d: %s", tn, N, n, ballast, 2 * n + 1,
                                 err.c_str()),
                        seq::fmt("type %s\nN %zu\nprobe %d %d", tn, N, n, ballast));
      }
    }
  }
}

// ---- replay ---------------------------------------------------------------------------------------
template <class T, size_t N>
static int replay_ops(const std::string& ops, bool with_alias) {
  Runner<T, N> R;
  R.alphabet = make_alphabet((int)N, with_alias);
  Hist h{};
  std::stringstream ss(ops);
  std::string tok;
  while (std::getline(ss, tok, ';')) {
    if (tok.empty()) continue;
    size_t k = 0;
    for (; k < R.alphabet.size(); k++)
      if (R.alphabet[k].name == tok) break;
    if (k == R.alphabet.size() || h.len >= kMaxDepth) {
      printf("replay: unknown operation '%s'\n", tok.c_str());
      return 2;
    }
    h.op[h.len++] = (uint8_t)k;
  }
  printf("replay: T=%s N=%zu ops=%s\n", TName<T>::s(), N, ops.c_str());
  RunResult r;
  R.run(h, r, true);
  if (r.st == HARD) printf("replay: VIOLATION %s\n", r.err.c_str());
  if (!r.soft.empty()) printf("replay: VIOLATION %s\n", r.soft.c_str());
  if (r.st == OK) printf("replay: property held\n");
  if (r.st == DISABLED) printf("replay: last operation not applicable\n");
  return (r.st == HARD || r.st == SOFT) ? 1 : 0;
}
template <class T, size_t N>
static int replay_probe(int n, int ballast) {
  seq::Report rep;
  rep.name = "c38_smallvector";
  rep.replay_dir = "/tmp";
  std::set<std::string> reported;
  ProbeStats ps;
  probe<T, N>(rep, reported, ps); // the probe domain is tiny: rerun all of it, report the requested cell
  printf("replay: probe T=%s N=%zu (requested reserve(%d), ballast %d): %llu heap buffers, %llu misaligned, min alignment %zu\n", TName<T>::s(), N, n, ballast,
         (unsigned long long)ps.heap_buffers, (unsigned long long)ps.misaligned, ps.min_align);
  for (auto& v : rep.violations) printf("replay: VIOLATION %s\n", v.msg.c_str());
  return rep.violations.empty() ? 0 : 1;
}

#define FOR_CFG(T_, N_, CALL)                                                        \
  do {                                                                               \
    if (type == "int" && N_ == 1) return CALL(int, 1);                               \
    if (type == "int" && N_ == 2) return CALL(int, 2);                               \
    if (type == "int" && N_ == 4) return CALL(int, 4);                               \
    if (type == "Tracked<int>" && N_ == 1) return CALL(seq::Tracked<int>, 1);        \
    if (type == "Tracked<int>" && N_ == 2) return CALL(seq::Tracked<int>, 2);        \
    if (type == "Tracked<int>" && N_ == 4) return CALL(seq::Tracked<int>, 4);        \
    if (type == "BigAligned" && N_ == 1) return CALL(BigAligned, 1);                 \
    if (type == "BigAligned" && N_ == 2) return CALL(BigAligned, 2);                 \
    if (type == "BigAligned" && N_ == 4) return CALL(BigAligned, 4);                 \
  } while (0)

static int do_replay(const char* path, bool with_alias) {
  std::ifstream f(path);
  if (!f) {
    printf("replay: cannot open %s\n", path);
    return 2;
  }
  std::string line, type, ops;
  int N = 0, pn = -1, pb = -1;
  bool in = false, have_ops = false;
  while (std::getline(f, line)) {
    if (line == "input") {
      in = true;
      continue;
    }
    if (!in) continue;
    if (line.rfind("type ", 0) == 0) type = line.substr(5);
    else if (line.rfind("N ", 0) == 0) N = atoi(line.c_str() + 2);
    else if (line.rfind("ops", 0) == 0) {
      ops = line.size() > 4 ? line.substr(4) : "";
      have_ops = true;
    } else if (line.rfind("probe ", 0) == 0)
      sscanf(line.c_str() + 6, "%d %d", &pn, &pb);
  }
  if (have_ops) {
#define CALL_OPS(T_, N_) replay_ops<T_, N_>(ops, with_alias)
    FOR_CFG(type, N, CALL_OPS);
  } else if (pn >= 0) {
#define CALL_PROBE(T_, N_) replay_probe<T_, N_>(pn, pb)
    FOR_CFG(type, N, CALL_PROBE);
  }
  printf("replay: could not parse %s\n", path);
  return 2;
}

} // namespace

int main(int argc, char** argv) {
  std::string tier = "quick";
  const char* replay = nullptr;
  bool with_alias = true;
  int depth_override = 0;
  for (int i = 1; i < argc; i++) {
    std::string a = argv[i];
    if (a == "--tier" && i + 1 < argc) tier = argv[++i];
    else if (a == "--replay" && i + 1 < argc) replay = argv[++i];
    else if (a == "--no-alias") with_alias = false;
    else if (a == "--depth" && i + 1 < argc) depth_override = atoi(argv[++i]);
  }
  if (replay) return do_replay(replay, with_alias);

  int depth = tier == "thorough" ? 5 : 4;
  if (depth_override) depth = depth_override;
  if (depth > kMaxDepth) depth = kMaxDepth;

  seq::Report rep;
  rep.name = "c38_smallvector";
  rep.max_violations = 12;
  rep.rule =
      "phase A: a (canonical-state representative history + one more operation) case counts as non-trivial if a or b is on heap storage before or after "
      "the last operation, or the last operation copies/moves between a and b; phase B: every probe cell (N, reserve size, ballast count)";
  rep.domain = seq::fmt(
      "phase A: all histories of <= %d operations on two SmallVector<T,N> a,b, merged by canonical state (contents, inline/heap, capacity of a and b), over "
      "{push_back(const&), push_back(&&), emplace_back, pop_back, clear, resize(n), resize(n,v), reserve(n), erase(0|1|last), a=b, a=move(b), a=a, "
      "re-construct with SV(), SV(n), SV(n,v), SV(initializer_list of n), SV(other), SV(move(other))%s} on either vector, n in {0,1,N,N+1,2N+1} "
      "(reserve {0,N,N+1,2N+1}, constructors {0,1,N,N+1}), N in {1,2,4}, T in {int, Tracked<int>, alignas(64) BigAligned}; all accessors "
      "(size, empty, [], front, back, data, begin/end, cbegin/cend, const overloads) compared after every case; phase B: N in {1,2,4} x T x reserve(n) for "
      "n in N+1..64 x 0..7 other heap vectors alive, then 2n+1 push_backs, checking the address of every heap buffer",
      depth, with_alias ? ", push_back(x.front()), resize(n,x.front()) (argument aliases an element, as std::vector allows)" : "");

  std::set<std::string> reported;
  Totals tot;
  // smallest inline capacity first, simplest element type first
  explore<int, 1>(rep, depth, with_alias, reported, tot);
  explore<seq::Tracked<int>, 1>(rep, depth, with_alias, reported, tot);
  explore<BigAligned, 1>(rep, depth, with_alias, reported, tot);
  explore<int, 2>(rep, depth, with_alias, reported, tot);
  explore<seq::Tracked<int>, 2>(rep, depth, with_alias, reported, tot);
  explore<BigAligned, 2>(rep, depth, with_alias, reported, tot);
  explore<int, 4>(rep, depth, with_alias, reported, tot);
  explore<seq::Tracked<int>, 4>(rep, depth, with_alias, reported, tot);
  explore<BigAligned, 4>(rep, depth, with_alias, reported, tot);

  ProbeStats ps_int, ps_tr, ps_big;
  probe<int, 1>(rep, reported, ps_int);
  probe<int, 2>(rep, reported, ps_int);
  probe<int, 4>(rep, reported, ps_int);
  probe<seq::Tracked<int>, 1>(rep, reported, ps_tr);
  probe<seq::Tracked<int>, 2>(rep, reported, ps_tr);
  probe<seq::Tracked<int>, 4>(rep, reported, ps_tr);
  probe<BigAligned, 1>(rep, reported, ps_big);
  probe<BigAligned, 2>(rep, reported, ps_big);
  probe<BigAligned, 4>(rep, reported, ps_big);
  rep.sample(seq::fmt("{\"probe\":\"BigAligned\",\"heap_buffers\":%llu,\"not_64_aligned\":%llu,\"min_alignment_seen\":%zu}", (unsigned long long)ps_big.heap_buffers,
                      (unsigned long long)ps_big.misaligned, ps_big.min_align));
  fprintf(stderr, "[c38] canonical states (sum over 9 configurations) = %llu; BigAligned heap buffers probed %llu, misaligned %llu, min alignment %zu\n",
          (unsigned long long)tot.states, (unsigned long long)ps_big.heap_buffers, (unsigned long long)ps_big.misaligned, ps_big.min_align);
  return rep.finish();
}

#pragma clang attribute pop
