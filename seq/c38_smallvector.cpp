// C38 -- dispenso::SmallVector behaves like std::vector with aligned storage.
//
// Bounded-exhaustive enumeration (no sampling):
//   phase A  all operation histories up to depth 4 (quick) / 5 (thorough) over the public operations of
//            SmallVector on two vectors a and b, x inline capacity N in {1,2,4} x element type in
//            {int, seq::Tracked<int>, alignas(64) BigAligned}.  Histories are merged by canonical state
//            (contents of a and b, inline/heap flag, capacity); every (state, operation) pair is executed
//            by replaying the representative history on fresh objects.
//   phase B  heap-address probe: every reserve size n in N+1..64, with 0..7 other heap vectors alive,
//            followed by push_back growth; looks at the actual heap addresses handed to SmallVector, once
//            with the process allocator as it is and once with the guarantee-only allocator (below).
// Oracle: contents and size equal std::vector<int> driven by the same history; every element address is
// a multiple of alignof(T); the lifetime registry is balanced (constructed once, destroyed once, never
// constructed over a live object, live objects == elements of a and b at every observation, nothing live
// at the end); every heap block SmallVector obtained is released exactly once.
//
// Technical notes
//  * The build uses -fno-sanitize-recover=undefined.  A misaligned placement-new inside SmallVector would
//    abort the process before the oracle could report it, so UBSan's *alignment* check (only that one) is
//    switched off for the functions of this TU, including the SmallVector members; the oracle checks
//    alignment of every element address itself.
//  * global operator new/delete are replaced (malloc/posix_memalign based, ASan still guards the blocks).
//    Blocks requested while a SmallVector operation runs are remembered per case; when released they are
//    scribbled with 0xDD and their release is deferred to the end of the case, so a read through a
//    dangling reference shows up as an oracle violation (wrong value / use of a non-live object) instead
//    of an ASan abort that would lose the SEQRESULT line.
//  * allocator modes: `system` hands out what malloc returns; `minalign` (default for phase A) hands out
//    blocks aligned to exactly __STDCPP_DEFAULT_NEW_ALIGNMENT__ (16) and not more, which is all that
//    ::operator new(size_t) promises.  ASan's malloc happens to return 64-aligned blocks for every request
//    >= 128 bytes, which would hide a missing over-alignment; glibc's malloc does not (see notes file).
//  * threads: the three int and the three BigAligned configurations run on their own threads (BigAligned
//    uses a thread-local seq::Registry with the same hooks); the three Tracked<int> configurations share
//    seq::registry() and run one after the other on the main thread.  Results are merged in fixed order.
#include "seq_common.h"

#include <malloc.h>
#include <array>
#include <fstream>
#include <new>
#include <sstream>
#include <thread>
#include <type_traits>

#if defined(__has_feature)
#if __has_feature(address_sanitizer)
#define C38_ASAN 1
#include <sanitizer/asan_interface.h>
#endif
#endif

extern "C" __attribute__((used, visibility("default"))) const char* __asan_default_options() {
  // use-after-free inside a case is caught by the deferred+scribbled release below; a large quarantine only costs time
  return "quarantine_size_mb=0:thread_local_quarantine_size_kb=0:allocator_release_to_os_interval_ms=-1";
}

// ---------------------------------------------------------------------------------------------------
// replaced global allocation functions
namespace {
int g_alloc_mode = 1; // 0 = system, 1 = minalign; written only while no other thread runs

struct Block {
  void* user;
  void* base;
  size_t size;
};
struct AllocState {
  Block live[1024]; // blocks requested inside a SmallVector operation and not yet released
  int nlive;
  Block dead[512]; // released during the case, scribbled, really freed at the end of the case
  int ndead;
  bool in_op;
  bool double_free;
  bool overflow;
};
thread_local AllocState g_as;

inline void* c38_alloc(size_t n) {
  if (!n) n = 1;
  if (!g_as.in_op) {
    void* p = malloc(n);
    if (!p) abort();
    return p;
  }
  Block b;
  b.size = n;
  if (g_alloc_mode == 1) {
    void* base = nullptr;
    if (posix_memalign(&base, 32, n + 16) != 0 || !base) abort();
    b.base = base;
    b.user = (char*)base + 16; // == 16 mod 32: aligned for __STDCPP_DEFAULT_NEW_ALIGNMENT__, and for nothing stricter
#ifdef C38_ASAN
    ASAN_POISON_MEMORY_REGION(base, 16);
#endif
  } else {
    b.base = b.user = malloc(n);
    if (!b.base) abort();
  }
  if (g_as.nlive < 1024)
    g_as.live[g_as.nlive++] = b;
  else
    g_as.overflow = true;
  return b.user;
}
inline void c38_really_free(const Block& b) {
#ifdef C38_ASAN
  if (b.base != b.user) ASAN_UNPOISON_MEMORY_REGION(b.base, 16);
#endif
  free(b.base);
}
inline void c38_free(void* p) {
  if (!p) return;
  for (int i = g_as.nlive - 1; i >= 0; i--)
    if (g_as.live[i].user == p) {
      Block b = g_as.live[i];
      g_as.live[i] = g_as.live[--g_as.nlive];
      memset(b.user, 0xDD, b.size);
      if (g_as.ndead < 512)
        g_as.dead[g_as.ndead++] = b;
      else
        c38_really_free(b);
      return;
    }
  for (int i = 0; i < g_as.ndead; i++)
    if (g_as.dead[i].user == p) {
      g_as.double_free = true;
      return;
    }
  free(p);
}
inline void case_begin() {
  g_as.nlive = g_as.ndead = 0;
  g_as.double_free = g_as.overflow = false;
  g_as.in_op = false;
}
inline int case_leaked() { return g_as.nlive; }
inline void case_end() {
  g_as.in_op = false;
  for (int i = 0; i < g_as.ndead; i++) c38_really_free(g_as.dead[i]);
  for (int i = 0; i < g_as.nlive; i++) c38_really_free(g_as.live[i]);
  g_as.nlive = g_as.ndead = 0;
}
struct OpScope { // SmallVector code runs inside
  bool prev;
  OpScope() : prev(g_as.in_op) { g_as.in_op = true; }
  ~OpScope() { g_as.in_op = prev; }
};
struct HostScope { // enumerator bookkeeping that may outlive the case
  bool prev;
  HostScope() : prev(g_as.in_op) { g_as.in_op = false; }
  ~HostScope() { g_as.in_op = prev; }
};
} // namespace

void* operator new(size_t n) { return c38_alloc(n); }
void* operator new[](size_t n) { return c38_alloc(n); }
void* operator new(size_t n, const std::nothrow_t&) noexcept { return c38_alloc(n); }
void* operator new[](size_t n, const std::nothrow_t&) noexcept { return c38_alloc(n); }
void operator delete(void* p) noexcept { c38_free(p); }
void operator delete[](void* p) noexcept { c38_free(p); }
void operator delete(void* p, size_t) noexcept { c38_free(p); }
void operator delete[](void* p, size_t) noexcept { c38_free(p); }
void operator delete(void* p, const std::nothrow_t&) noexcept { c38_free(p); }
void operator delete[](void* p, const std::nothrow_t&) noexcept { c38_free(p); }

// ---------------------------------------------------------------------------------------------------
// everything below (SmallVector members included) is compiled without UBSan's alignment check; see top.
#pragma clang attribute push(__attribute__((no_sanitize("alignment"))), apply_to = function)

#include <dispenso/small_vector.h>

namespace {
inline seq::Registry& big_registry() {
  thread_local seq::Registry r;
  return r;
}
} // namespace

// over-aligned element type with the same registry hooks as seq::Tracked<int> (thread-local registry)
struct alignas(64) BigAligned {
  int v;
  BigAligned() : v() { big_registry().ctor(this, -1); }
  BigAligned(const int& x) : v(x) { big_registry().ctor(this, (long)x); }
  BigAligned(const BigAligned& o) : v(o.v) {
    big_registry().use(&o);
    big_registry().ctor(this, (long)v);
  }
  BigAligned(BigAligned&& o) noexcept : v(o.v) {
    big_registry().use(&o);
    big_registry().ctor(this, (long)v);
    o.v = -7;
  }
  BigAligned& operator=(const BigAligned& o) {
    big_registry().use(&o);
    big_registry().use(this);
    v = o.v;
    return *this;
  }
  BigAligned& operator=(BigAligned&& o) noexcept {
    big_registry().use(&o);
    big_registry().use(this);
    v = o.v;
    if (&o != this) o.v = -7;
    return *this;
  }
  ~BigAligned() { big_registry().dtor(this); }
};
static_assert(alignof(BigAligned) == 64 && sizeof(BigAligned) == 64, "BigAligned layout");

namespace {

inline uintptr_t opaque_addr(const void* p) {
  uintptr_t a = (uintptr_t)p;
  asm volatile("" : "+r"(a));
  return a;
}
// values outside the tiny value set are address fragments or scribble: keep violation messages reproducible
inline std::string shown(int v) { return (v >= -16 && v <= 16) ? std::to_string(v) : std::string("garbage"); }
inline int getv(const int& x) { return x; }
inline int getv(const seq::Tracked<int>& x) { return x.v; }
inline int getv(const BigAligned& x) { return x.v; }
template <class T>
struct Traits;
template <>
struct Traits<int> {
  static const char* name() { return "int"; }
  static constexpr bool tracked = false;
  static seq::Registry& reg() { return seq::registry(); } // unused
};
template <>
struct Traits<seq::Tracked<int>> {
  static const char* name() { return "Tracked<int>"; }
  static constexpr bool tracked = true;
  static seq::Registry& reg() { return seq::registry(); }
};
template <>
struct Traits<BigAligned> {
  static const char* name() { return "BigAligned"; }
  static constexpr bool tracked = true;
  static seq::Registry& reg() { return big_registry(); }
};

// Registry internals must not look like SmallVector allocations: the bucket array is reserved once outside any
// operation, and a reset also gives back the error string's buffer (string::clear would keep it).
inline void registry_prepare(seq::Registry& r, size_t max_live) {
  HostScope hs;
  r.live.reserve(max_live); // small on purpose: unordered_map::clear() touches every bucket
}
inline void deep_reset(seq::Registry& r) {
  r.live.clear(); // keeps the bucket array
  std::string().swap(r.error);
  r.constructed = r.destroyed = 0;
}

// ---- operations -----------------------------------------------------------------------------------
enum Kind : uint8_t {
  PUSH_C, // x.push_back(const T& = 1)
  PUSH_M, // x.push_back(T&& = 2)
  EMPLACE, // x.emplace_back(3)
  POP, // x.pop_back()            (size>0)
  CLEAR, // x.clear()
  RESIZE, // x.resize(n)
  RESIZE_V, // x.resize(n, 4)
  RESERVE, // x.reserve(n)
  ERASE, // x.erase(begin()+pos)    pos in {0,1,last}
  COPY_ASSIGN, // x = y
  MOVE_ASSIGN, // x = std::move(y)
  SELF_ASSIGN, // x = x
  CTOR_DEFAULT, // destroy x; new(x) SV()
  CTOR_N, // destroy x; new(x) SV(n)
  CTOR_NV, // destroy x; new(x) SV(n, 5)
  CTOR_IL, // destroy x; new(x) SV({1,..,n})
  CTOR_COPY, // destroy x; new(x) SV(y)
  CTOR_MOVE, // destroy x; new(x) SV(std::move(y))
  ALIAS_PUSH, // x.push_back(x.front())          (size>0)
  ALIAS_RESIZE, // x.resize(n, x.front())          (size>0)
};
constexpr int kLast = -1;

struct Op {
  Kind kind;
  uint8_t target; // 0 = a, 1 = b
  int n; // size / position argument
  std::string name;
};

static std::vector<int> dedupe(std::vector<int> v) {
  std::vector<int> o;
  for (int x : v)
    if (std::find(o.begin(), o.end(), x) == o.end()) o.push_back(x);
  return o;
}

static std::vector<Op> make_alphabet(int N, bool with_alias) {
  std::vector<Op> al;
  auto sizes = dedupe({0, 1, N, N + 1, 2 * N + 1});
  auto rsv = dedupe({0, N, N + 1, 2 * N + 1});
  auto ctor_sizes = dedupe({0, 1, N, N + 1});
  auto big = dedupe({N + 1, 2 * N + 1});
  // simplest first, both targets interleaved per kind
  auto both = [&](Kind k, int n, const std::string& fmt_a, const std::string& fmt_b) {
    al.push_back({k, 0, n, fmt_a});
    al.push_back({k, 1, n, fmt_b});
  };
  auto simple = [&](Kind k, int n, const std::string& tail) { both(k, n, std::string("a") + tail, std::string("b") + tail); };
  simple(PUSH_C, 0, ".push_back(const&1)");
  simple(PUSH_M, 0, ".push_back(&&2)");
  simple(EMPLACE, 0, ".emplace_back(3)");
  simple(POP, 0, ".pop_back()");
  simple(CLEAR, 0, ".clear()");
  for (int n : sizes) simple(RESIZE, n, seq::fmt(".resize(%d)", n));
  for (int n : sizes) simple(RESIZE_V, n, seq::fmt(".resize(%d,4)", n));
  for (int n : rsv) simple(RESERVE, n, seq::fmt(".reserve(%d)", n));
  simple(ERASE, 0, ".erase(0)");
  simple(ERASE, 1, ".erase(1)");
  simple(ERASE, kLast, ".erase(last)");
  both(COPY_ASSIGN, 0, "a=b", "b=a");
  both(MOVE_ASSIGN, 0, "a=move(b)", "b=move(a)");
  both(SELF_ASSIGN, 0, "a=a", "b=b");
  simple(CTOR_DEFAULT, 0, ":=SV()");
  for (int n : ctor_sizes) simple(CTOR_N, n, seq::fmt(":=SV(%d)", n));
  for (int n : ctor_sizes) simple(CTOR_NV, n, seq::fmt(":=SV(%d,5)", n));
  for (int n : ctor_sizes) simple(CTOR_IL, n, seq::fmt(":=SV{il%d}", n));
  both(CTOR_COPY, 0, "a:=SV(b)", "b:=SV(a)");
  both(CTOR_MOVE, 0, "a:=SV(move(b))", "b:=SV(move(a))");
  if (with_alias) {
    both(ALIAS_PUSH, 0, "a.push_back(a.front())", "b.push_back(b.front())");
    for (int n : big) both(ALIAS_RESIZE, n, seq::fmt("a.resize(%d,a.front())", n), seq::fmt("b.resize(%d,b.front())", n));
  }
  return al;
}

// ---- canonical state key ----------------------------------------------------------------------------
struct Key {
  uint8_t len = 0;
  uint8_t d[47];
  void put(unsigned v) {
    if (len >= sizeof d) abort();
    d[len++] = (uint8_t)v;
  }
  bool operator==(const Key& o) const { return len == o.len && memcmp(d, o.d, len) == 0; }
};
struct KeyHash {
  size_t operator()(const Key& k) const {
    uint64_t h = 1469598103934665603ULL;
    for (unsigned i = 0; i < k.len; i++) h = (h ^ k.d[i]) * 1099511628211ULL;
    return (size_t)(h ^ (h >> 31));
  }
};

// ---- one run --------------------------------------------------------------------------------------
constexpr int kMaxDepth = 6;
struct Hist {
  uint8_t op[kMaxDepth];
  uint8_t len;
};

enum Status { OK, DISABLED, HARD, SOFT };
struct RunResult {
  Status st = OK;
  std::string cls; // short class of the first hard error (used to keep one artefact per class)
  std::string err; // first hard error
  std::string soft; // first alignment error (does not stop exploration: the contents are still defined)
  Key key; // canonical state after the last op
  Key prefix_key; // canonical state before the last op
  bool nontrivial = false;
  void hard(const char* c, const std::string& msg) {
    HostScope hs;
    if (err.empty()) {
      cls = c;
      err = msg;
    }
  }
};

template <class T, size_t N>
struct Runner {
  using SV = dispenso::SmallVector<T, N>;
  static constexpr bool kTracked = Traits<T>::tracked;
  std::vector<Op> alphabet;

  static void key_of1(const SV& x, const std::vector<int>& m, Key& k) {
    k.put((unsigned)m.size());
    for (int v : m) k.put((unsigned)v);
    k.put(x.isInline() ? 'i' : 'h');
    size_t c = x.capacity();
    k.put(c & 0xff);
    k.put((c >> 8) & 0xff);
  }
  // canonical state of the ordered pair (a, b); no a<->b symmetry reduction is applied
  static void key_of(SV* v[2], const std::vector<int> m[2], Key& k) {
    key_of1(*v[0], m[0], k);
    key_of1(*v[1], m[1], k);
  }

  // full observation of one vector against its model; returns false on a hard error
  static bool observe(const char* who, SV& x, const std::vector<int>& m, RunResult& r) {
    const SV& cx = x;
    auto hard = [&](const char* cls, const std::string& s) {
      r.hard(cls, std::string(who) + ": " + s);
      return false;
    };
    if (x.size() != m.size()) return hard("size", seq::fmt("size() %zu, std::vector has %zu", x.size(), m.size()));
    if (x.empty() != m.empty()) return hard("size", "empty() disagrees with std::vector");
    size_t n = m.size();
    if (x.end() - x.begin() != (std::ptrdiff_t)n || cx.end() - cx.begin() != (std::ptrdiff_t)n || x.cend() - x.cbegin() != (std::ptrdiff_t)n)
      return hard("iter", "end()-begin() != size()");
    if (x.begin() != x.data() || cx.begin() != cx.data() || cx.cbegin() != cx.data()) return hard("iter", "begin() != data()");
    size_t i = 0;
    for (auto it = x.begin(); it != x.end(); ++it, ++i) {
      if (getv(*it) != m[i]) return hard("contents", seq::fmt("iteration: element %zu is %s, std::vector has %d", i, shown(getv(*it)).c_str(), m[i]));
    }
    i = 0;
    for (const auto& e : cx) {
      if (getv(e) != m[i]) return hard("contents", seq::fmt("const iteration: element %zu is %s, std::vector has %d", i, shown(getv(e)).c_str(), m[i]));
      ++i;
    }
    for (i = 0; i < n; i++) {
      if (&x[i] != x.data() + i || &cx[i] != cx.data() + i) return hard("iter", "operator[] address != data()+i");
      if (getv(x[i]) != m[i] || getv(cx[i]) != m[i])
        return hard("contents", seq::fmt("operator[]: element %zu is %s, std::vector has %d", i, shown(getv(x[i])).c_str(), m[i]));
      // &x[i] == data()+i was just checked; the address is taken from the raw pointer and hidden from the optimiser,
      // which would otherwise fold "T& is aligned" into this test
      uintptr_t ad = opaque_addr(x.data()) + i * sizeof(T);
      if (ad % alignof(T) != 0 && r.soft.empty())
        r.soft = seq::fmt("%s: element address in %s storage is not a multiple of alignof(T)=%zu (address %% %zu = %zu)", who, x.isInline() ? "inline" : "heap",
                          alignof(T), alignof(T), (size_t)(ad % alignof(T)));
      if (kTracked) {
        auto& live = Traits<T>::reg().live;
        if (live.find((const void*)&x[i]) == live.end()) return hard("notlive", seq::fmt("element %zu is not a live object in the lifetime registry", i));
      }
    }
    if (n) {
      if (&x.front() != &x[0] || &cx.front() != &cx[0] || getv(x.front()) != m.front()) return hard("contents", "front() disagrees");
      if (&x.back() != &x[n - 1] || &cx.back() != &cx[n - 1] || getv(x.back()) != m.back()) return hard("contents", "back() disagrees");
    }
    return true;
  }

  static void adopt(SV& y, std::vector<int>& my) { // moved-from source: valid but unspecified, take what it says
    my.clear();
    size_t n = y.size();
    if (n > 4096) n = 0;
    for (size_t i = 0; i < n; i++) my.push_back(getv(y[i]));
  }

  static void construct_il(void* p, int n) {
    switch (n) {
      case 0: {
        std::initializer_list<T> il = {};
        new (p) SV(il);
        break;
      }
      case 1: {
        std::initializer_list<T> il = {T(1)};
        new (p) SV(il);
        break;
      }
      case 2: {
        std::initializer_list<T> il = {T(1), T(2)};
        new (p) SV(il);
        break;
      }
      case 3: {
        std::initializer_list<T> il = {T(1), T(2), T(3)};
        new (p) SV(il);
        break;
      }
      case 4: {
        std::initializer_list<T> il = {T(1), T(2), T(3), T(4)};
        new (p) SV(il);
        break;
      }
      case 5: {
        std::initializer_list<T> il = {T(1), T(2), T(3), T(4), T(5)};
        new (p) SV(il);
        break;
      }
      default:
        abort();
    }
  }

  // applies one op; returns false if the op is not applicable in this state
  static bool apply(const Op& op, SV* v[2], std::vector<int> m[2], RunResult& r) {
    OpScope in_op;
    SV& x = *v[op.target];
    SV& y = *v[1 - op.target];
    std::vector<int>& mx = m[op.target];
    std::vector<int>& my = m[1 - op.target];
    switch (op.kind) {
      case PUSH_C: {
        const T t(1);
        x.push_back(t);
        mx.push_back(1);
        break;
      }
      case PUSH_M: {
        T t(2);
        x.push_back(std::move(t));
        mx.push_back(2);
        break;
      }
      case EMPLACE: {
        T& ref = x.emplace_back(3);
        mx.emplace_back(3);
        if (&ref != &x[x.size() - 1]) r.hard("retval", op.name + ": emplace_back did not return a reference to the last element");
        break;
      }
      case POP:
        if (mx.empty()) return false;
        x.pop_back();
        mx.pop_back();
        break;
      case CLEAR:
        x.clear();
        mx.clear();
        break;
      case RESIZE:
        x.resize((size_t)op.n);
        mx.resize((size_t)op.n);
        break;
      case RESIZE_V: {
        const T t(4);
        x.resize((size_t)op.n, t);
        mx.resize((size_t)op.n, 4);
        break;
      }
      case RESERVE:
        x.reserve((size_t)op.n);
        mx.reserve((size_t)op.n);
        break;
      case ERASE: {
        size_t pos;
        if (op.n == kLast) {
          if (mx.size() < 3) return false; // positions 0 and 1 are separate letters
          pos = mx.size() - 1;
        } else {
          if ((size_t)op.n >= mx.size()) return false;
          pos = (size_t)op.n;
        }
        typename SV::const_iterator cit = x.cbegin() + pos;
        auto it = x.erase(cit);
        mx.erase(mx.begin() + pos);
        if (it != x.begin() + pos) r.hard("retval", op.name + ": erase did not return the iterator at the erased position");
        break;
      }
      case COPY_ASSIGN:
        x = y;
        mx = my;
        break;
      case MOVE_ASSIGN:
        x = std::move(y);
        mx = my;
        adopt(y, my);
        break;
      case SELF_ASSIGN: {
        SV& alias = x;
        x = alias;
        break;
      }
      case CTOR_DEFAULT:
        x.~SV();
        new (&x) SV();
        mx = std::vector<int>();
        break;
      case CTOR_N:
        x.~SV();
        new (&x) SV((size_t)op.n);
        mx = std::vector<int>((size_t)op.n);
        break;
      case CTOR_NV: {
        x.~SV();
        const T t(5);
        new (&x) SV((size_t)op.n, t);
        mx = std::vector<int>((size_t)op.n, 5);
        break;
      }
      case CTOR_IL: {
        x.~SV();
        construct_il(&x, op.n);
        mx.clear();
        for (int i = 1; i <= op.n; i++) mx.push_back(i);
        break;
      }
      case CTOR_COPY:
        x.~SV();
        new (&x) SV(static_cast<const SV&>(y));
        mx = my;
        break;
      case CTOR_MOVE:
        x.~SV();
        new (&x) SV(std::move(y));
        mx = my;
        adopt(y, my);
        break;
      case ALIAS_PUSH: {
        if (mx.empty()) return false;
        x.push_back(x.front());
        int f = mx.front();
        mx.push_back(f);
        break;
      }
      case ALIAS_RESIZE: {
        if (mx.empty()) return false;
        x.resize((size_t)op.n, x.front());
        int f = mx.front();
        mx.resize((size_t)op.n, f);
        break;
      }
    }
    return true;
  }

  static std::string describe(SV& x, const std::vector<int>& m) {
    std::string s = "[";
    size_t n = x.size() > 64 ? 64 : x.size();
    for (size_t i = 0; i < n; i++) s += (i ? "," : "") + std::to_string(getv(x[i]));
    s += "] model[";
    for (size_t i = 0; i < m.size(); i++) s += (i ? "," : "") + std::to_string(m[i]);
    s += seq::fmt("] %s cap=%zu data=%p (data%%alignof(T)=%zu)", x.isInline() ? "inline" : "heap", x.capacity(), (void*)x.data(),
                  (size_t)(opaque_addr(x.data()) % alignof(T)));
    return s;
  }

  // replays h on fresh objects, checks after the last op
  void run(const Hist& h, RunResult& r, bool verbose) const {
    seq::Registry& reg = Traits<T>::reg();
    if (kTracked) deep_reset(reg);
    case_begin();
    bool any_heap = false, cross = false;
    {
      alignas(SV) unsigned char buf[2][sizeof(SV)];
      SV* v[2] = {new (buf[0]) SV(), new (buf[1]) SV()};
      std::vector<int> m[2];
      m[0].reserve(32);
      m[1].reserve(32);
      bool alive = true;
      for (int i = 0; i < h.len && alive; i++) {
        const Op& op = alphabet[h.op[i]];
        if (i == h.len - 1) {
          key_of(v, m, r.prefix_key);
          any_heap = !v[0]->isInline() || !v[1]->isInline();
        }
        bool applicable = apply(op, v, m, r);
        if (!applicable) {
          // only the last letter may be inapplicable (prefixes are representatives of reached states)
          r.st = DISABLED;
          alive = false;
          break;
        }
        if (verbose) {
          printf("  %-26s a=%s\n  %-26s b=%s\n", op.name.c_str(), describe(*v[0], m[0]).c_str(), "", describe(*v[1], m[1]).c_str());
          if (kTracked && !reg.error.empty()) printf("  registry: %s\n", reg.error.c_str());
        }
        if (kTracked && !reg.error.empty()) {
          r.hard(reg.error.substr(0, 18).c_str(), op.name + ": lifetime registry: " + reg.error);
          alive = false;
        }
        if (!r.err.empty()) alive = false;
        if (i == h.len - 1) {
          any_heap = any_heap || !v[0]->isInline() || !v[1]->isInline();
          cross = op.kind == COPY_ASSIGN || op.kind == MOVE_ASSIGN || op.kind == CTOR_COPY || op.kind == CTOR_MOVE;
        }
      }
      if (alive) {
        bool ok = observe("a", *v[0], m[0], r) && observe("b", *v[1], m[1], r);
        if (ok && kTracked) {
          size_t want = m[0].size() + m[1].size();
          if (reg.live.size() != want)
            r.hard("livecount", seq::fmt("lifetime registry has %zu live objects but a and b hold %zu elements", reg.live.size(), want));
          else if (!reg.error.empty())
            r.hard(reg.error.substr(0, 18).c_str(), "lifetime registry: " + reg.error);
        }
        key_of(v, m, r.key);
      }
      // destruction is part of every case
      {
        OpScope in_op;
        v[0]->~SV();
        v[1]->~SV();
      }
    }
    if (r.st != DISABLED) {
      if (kTracked && r.err.empty()) {
        if (!reg.error.empty())
          r.hard(reg.error.substr(0, 18).c_str(), "at destruction: lifetime registry: " + reg.error);
        else if (!reg.live.empty())
          r.hard("leak-elem", seq::fmt("%zu element(s) still live after both vectors were destroyed", reg.live.size()));
        else if (reg.constructed != reg.destroyed)
          r.hard("balance", seq::fmt("constructed %ld != destroyed %ld", reg.constructed, reg.destroyed));
      }
      if (kTracked) deep_reset(reg); // registry nodes go back before the heap-block balance is looked at
      if (r.err.empty() && g_as.double_free) r.hard("double-free", "heap block passed to operator delete twice");
      if (r.err.empty() && case_leaked()) r.hard("leak-heap", seq::fmt("%d heap block(s) obtained by SmallVector were never released", case_leaked()));
      if (g_as.overflow) abort();
      r.nontrivial = any_heap || cross;
      if (!r.err.empty())
        r.st = HARD;
      else if (!r.soft.empty())
        r.st = SOFT;
    }
    case_end();
  }
};

// ---- per-configuration result (merged deterministically) --------------------------------------------
struct Viol {
  std::string tag, msg, replay;
};
struct CfgResult {
  uint64_t evaluations = 0, nontrivial = 0, states = 0;
  std::vector<uint64_t> hashes; // first kHashCap non-trivial case hashes; the rest are only counted (pairwise distinct by construction)
  std::vector<std::string> samples;
  std::vector<Viol> viols;
  std::string log;
  void violation(const std::string& tag, const std::string& msg, const std::string& replay) {
    for (auto& v : viols)
      if (v.tag == tag) return;
    viols.push_back({tag, msg, replay});
  }
};
constexpr size_t kHashCap = 20000;

static std::string hist_text(const std::vector<Op>& al, const Hist& h) {
  std::string s;
  for (int i = 0; i < h.len; i++) s += (i ? ";" : "") + al[h.op[i]].name;
  return s;
}
static std::string replay_text(const char* tname, int N, const std::string& ops) {
  return seq::fmt("type %s\nN %d\nalloc %s\nops %s", tname, N, g_alloc_mode ? "minalign" : "system", ops.c_str());
}

template <class T, size_t N>
static void explore(CfgResult& res, int depth, bool with_alias) {
  auto t_start = std::chrono::steady_clock::now();
  Runner<T, N> R;
  R.alphabet = make_alphabet((int)N, with_alias);
  if (R.alphabet.size() > 255) abort();
  const char* tn = Traits<T>::name();
  if (Traits<T>::tracked) registry_prepare(Traits<T>::reg(), 256);
  std::unordered_set<Key, KeyHash> visited;
  std::vector<std::pair<Hist, const Key*>> frontier, next;
  {
    Hist h0{};
    RunResult r0;
    R.run(h0, r0, false);
    res.evaluations++;
    auto ins = visited.insert(r0.key);
    frontier.push_back({h0, &*ins.first});
    if (r0.st == HARD) res.violation(std::string(tn) + "|" + r0.cls, seq::fmt("T=%s N=%zu: empty history: %s", tn, N, r0.err.c_str()), replay_text(tn, (int)N, ""));
  }
  uint64_t cfg_hash = seq::mix(seq::mix(0x38, std::hash<std::string>()(tn)), N);
  for (int d = 1; d <= depth; d++) {
    next.clear();
    for (auto& fe : frontier) {
      for (size_t oi = 0; oi < R.alphabet.size(); oi++) {
        Hist h = fe.first;
        h.op[h.len++] = (uint8_t)oi;
        RunResult r;
        R.run(h, r, false);
        if (r.st == DISABLED) continue;
        res.evaluations++;
        if (!(r.prefix_key == *fe.second)) {
          res.violation(std::string(tn) + "|nondet", seq::fmt("T=%s N=%zu: replay of a history reached a different canonical state (non-deterministic)", tn, N),
                        replay_text(tn, (int)N, hist_text(R.alphabet, h)));
          continue;
        }
        if (r.nontrivial) {
          res.nontrivial++;
          if (res.hashes.size() < kHashCap) {
            uint64_t hh = cfg_hash;
            for (int i = 0; i < h.len; i++) hh = seq::mix(hh, h.op[i] + 1);
            res.hashes.push_back(hh);
          }
          if (res.samples.empty() && h.len >= 3 && res.nontrivial >= 5000)
            res.samples.push_back(seq::fmt("{\"T\":\"%s\",\"N\":%zu,\"ops\":\"%s\"}", tn, N, hist_text(R.alphabet, h).c_str()));
        }
        if (r.st == HARD || r.st == SOFT) {
          // one artefact per (element type, aliasing argument or not, class of failure); the first one is the shortest
          std::string tag = std::string(tn) + "|" + (r.st == HARD ? (R.alphabet[oi].kind >= ALIAS_PUSH ? "alias|" : "") + r.cls : std::string("align"));
          const std::string& why = r.st == HARD ? r.err : r.soft;
          res.violation(tag, seq::fmt("T=%s N=%zu: after [%s]: %s", tn, N, hist_text(R.alphabet, h).c_str(), why.c_str()),
                        replay_text(tn, (int)N, hist_text(R.alphabet, h)));
          if (r.st == HARD) continue; // state is broken, do not build on it
        }
        if (d < depth) { // states of the last level are not expanded, no need to remember them
          auto ins = visited.insert(r.key);
          if (ins.second) next.push_back({h, &*ins.first});
        }
      }
    }
    frontier.swap(next);
  }
  res.states = visited.size();
  res.log = seq::fmt("[c38] T=%s N=%zu depth=%d alphabet=%zu expanded canonical states=%zu evaluations=%llu non-trivial=%llu (%.1f s)", tn, N, depth,
                     R.alphabet.size(), visited.size(), (unsigned long long)res.evaluations, (unsigned long long)res.nontrivial,
                     std::chrono::duration<double>(std::chrono::steady_clock::now() - t_start).count());
}

// ---- phase B: heap address probe -------------------------------------------------------------------
struct ProbeStats {
  uint64_t heap_buffers = 0, misaligned = 0;
  size_t min_align = 1 << 20;
};
template <class T, size_t N>
static void probe(CfgResult& res, ProbeStats& ps) {
  using SV = dispenso::SmallVector<T, N>;
  const char* tn = Traits<T>::name();
  seq::Registry& reg = Traits<T>::reg();
  if (Traits<T>::tracked) registry_prepare(reg, 1024);
  for (int ballast = 0; ballast <= 7; ballast++) {
    for (int n = (int)N + 1; n <= 64; n++) {
      deep_reset(reg);
      case_begin();
      const char* err = nullptr;
      size_t mis = 0;
      {
        std::vector<int> m;
        m.reserve(2 * (size_t)n + 1);
        OpScope in_op;
        SV keep[7];
        for (int k = 0; k < ballast; k++) keep[k].reserve(N + 1 + (size_t)k * 3);
        SV v;
        v.reserve((size_t)n);
        const T* last_data = nullptr;
        for (int i = 0; i < 2 * n + 1 && !err; i++) {
          v.push_back(T(i & 63));
          m.push_back(i & 63);
          if (v.data() != last_data) { // a new heap buffer
            last_data = v.data();
            ps.heap_buffers++;
            uintptr_t ad = opaque_addr(v.data());
            size_t al = (size_t)(ad & (~ad + 1));
            if (al < ps.min_align) ps.min_align = al;
            if (ad % alignof(T)) { // keep going: count every misaligned buffer of the cell
              ps.misaligned++;
              if (!mis) mis = (size_t)(ad % alignof(T));
            }
          }
          if (v.size() != m.size() || getv(v.back()) != m.back() || getv(v[0]) != m[0]) err = "contents differ from std::vector";
        }
        for (size_t i = 0; i < m.size() && !err; i++)
          if (getv(v[i]) != m[i]) err = "contents differ from std::vector";
      }
      if (!err && Traits<T>::tracked && (!reg.error.empty() || !reg.live.empty() || reg.constructed != reg.destroyed)) err = "lifetime registry unbalanced";
      deep_reset(reg);
      if (!err && (case_leaked() || g_as.double_free)) err = "heap blocks not released exactly once";
      case_end();
      res.evaluations++;
      res.nontrivial++;
      res.hashes.push_back(seq::mix(seq::mix(seq::mix(0xB38 + (uint64_t)g_alloc_mode, std::hash<std::string>()(tn)), N * 1000 + (size_t)n), (uint64_t)ballast));
      std::string e = err ? err : (mis ? seq::fmt("heap element address %% alignof(T)=%zu is %zu", alignof(T), mis) : "");
      if (!e.empty())
        res.violation(std::string(tn) + "|probe|" + (err ? "hard" : "align") + (g_alloc_mode ? "|minalign" : "|system"),
                      seq::fmt("T=%s N=%zu allocator=%s: heap probe reserve(%d) with %d other heap vectors alive then push_back x%d: %s", tn, N,
                               g_alloc_mode ? "minalign" : "system", n, ballast, 2 * n + 1, e.c_str()),
                      seq::fmt("type %s\nN %zu\nalloc %s\nprobe %d %d", tn, N, g_alloc_mode ? "minalign" : "system", n, ballast));
    }
  }
}

// ---- replay ---------------------------------------------------------------------------------------
template <class T, size_t N>
static int replay_ops(const std::string& ops, bool with_alias) {
  Runner<T, N> R;
  R.alphabet = make_alphabet((int)N, true);
  (void)with_alias;
  if (Traits<T>::tracked) registry_prepare(Traits<T>::reg(), 256);
  Hist h{};
  std::stringstream ss(ops);
  std::string tok;
  while (std::getline(ss, tok, ';')) {
    if (tok.empty()) continue;
    size_t k = 0;
    for (; k < R.alphabet.size(); k++)
      if (R.alphabet[k].name == tok) break;
    if (k == R.alphabet.size() || h.len >= kMaxDepth) {
      printf("replay: unknown operation '%s'\n", tok.c_str());
      return 2;
    }
    h.op[h.len++] = (uint8_t)k;
  }
  printf("replay: T=%s (alignof %zu, sizeof %zu) N=%zu allocator=%s ops=%s\n", Traits<T>::name(), alignof(T), sizeof(T), N, g_alloc_mode ? "minalign" : "system",
         ops.c_str());
  RunResult r;
  R.run(h, r, true);
  if (r.st == HARD) printf("replay: VIOLATION %s\n", r.err.c_str());
  if (!r.soft.empty()) printf("replay: VIOLATION %s\n", r.soft.c_str());
  if (r.st == OK) printf("replay: property held\n");
  if (r.st == DISABLED) printf("replay: last operation not applicable\n");
  return (r.st == HARD || r.st == SOFT) ? 1 : 0;
}
template <class T, size_t N>
static int replay_probe(int n, int ballast) {
  CfgResult res;
  ProbeStats ps;
  probe<T, N>(res, ps); // the probe domain is tiny: rerun all of it for this (T, N, allocator)
  printf("replay: probe T=%s N=%zu allocator=%s (artefact cell: reserve(%d), ballast %d): %llu heap buffers, %llu misaligned, min alignment seen %zu\n",
         Traits<T>::name(), N, g_alloc_mode ? "minalign" : "system", n, ballast, (unsigned long long)ps.heap_buffers, (unsigned long long)ps.misaligned,
         ps.min_align);
  for (auto& v : res.viols) printf("replay: VIOLATION %s\n", v.msg.c_str());
  return res.viols.empty() ? 0 : 1;
}

#define FOR_CFG(CALL)                                                         \
  do {                                                                        \
    if (type == "int" && N == 1) return CALL(int, 1);                         \
    if (type == "int" && N == 2) return CALL(int, 2);                         \
    if (type == "int" && N == 4) return CALL(int, 4);                         \
    if (type == "Tracked<int>" && N == 1) return CALL(seq::Tracked<int>, 1);  \
    if (type == "Tracked<int>" && N == 2) return CALL(seq::Tracked<int>, 2);  \
    if (type == "Tracked<int>" && N == 4) return CALL(seq::Tracked<int>, 4);  \
    if (type == "BigAligned" && N == 1) return CALL(BigAligned, 1);           \
    if (type == "BigAligned" && N == 2) return CALL(BigAligned, 2);           \
    if (type == "BigAligned" && N == 4) return CALL(BigAligned, 4);           \
  } while (0)

static int do_replay(const char* path, bool with_alias) {
  std::ifstream f(path);
  if (!f) {
    printf("replay: cannot open %s\n", path);
    return 2;
  }
  std::string line, type, ops;
  int N = 0, pn = -1, pb = -1;
  bool in = false, have_ops = false;
  while (std::getline(f, line)) {
    if (line == "input") {
      in = true;
      continue;
    }
    if (!in) continue;
    if (line.rfind("type ", 0) == 0)
      type = line.substr(5);
    else if (line.rfind("N ", 0) == 0)
      N = atoi(line.c_str() + 2);
    else if (line.rfind("alloc ", 0) == 0)
      g_alloc_mode = line.substr(6) == "system" ? 0 : 1;
    else if (line.rfind("ops", 0) == 0) {
      ops = line.size() > 4 ? line.substr(4) : "";
      have_ops = true;
    } else if (line.rfind("probe ", 0) == 0)
      sscanf(line.c_str() + 6, "%d %d", &pn, &pb);
  }
  if (have_ops) {
#define CALL_OPS(T_, N_) replay_ops<T_, N_>(ops, with_alias)
    FOR_CFG(CALL_OPS);
  } else if (pn >= 0) {
#define CALL_PROBE(T_, N_) replay_probe<T_, N_>(pn, pb)
    FOR_CFG(CALL_PROBE);
  }
  printf("replay: could not parse %s\n", path);
  return 2;
}

} // namespace

int main(int argc, char** argv) {
  std::string tier = "quick";
  const char* replay = nullptr;
  bool with_alias = true;
  int depth_override = 0;
  bool system_only = false;
  for (int i = 1; i < argc; i++) {
    std::string a = argv[i];
    if (a == "--tier" && i + 1 < argc)
      tier = argv[++i];
    else if (a == "--replay" && i + 1 < argc)
      replay = argv[++i];
    else if (a == "--no-alias")
      with_alias = false;
    else if (a == "--alloc" && i + 1 < argc) {
      g_alloc_mode = std::string(argv[++i]) == "system" ? 0 : 1;
      system_only = g_alloc_mode == 0; // diagnostic run: nothing is executed under the guarantee-only allocator
    }
    else if (a == "--depth" && i + 1 < argc)
      depth_override = atoi(argv[++i]);
  }
  if (replay) return do_replay(replay, with_alias);

  int depth = tier == "thorough" ? 5 : 4;
  if (depth_override) depth = depth_override;
  if (depth > kMaxDepth) depth = kMaxDepth;

  seq::Report rep;
  rep.name = "c38_smallvector";
  rep.max_violations = 16;
  rep.rule =
      "phase A: a case (representative history of a canonical state + one more operation) is non-trivial if a or b is on heap storage before or after "
      "the last operation, or the last operation copies/moves between a and b; phase B: every probe cell (T, N, reserve size, ballast count, allocator)";
  rep.domain = seq::fmt(
      "phase A: all histories of <= %d operations on two SmallVector<T,N> a,b, merged by canonical state (contents, inline/heap, capacity of a and of b), over "
      "{push_back(const&), push_back(&&), emplace_back, pop_back, clear, resize(n), resize(n,v), reserve(n), erase(0|1|last), a=b, a=move(b), a=a, "
      "re-construct with SV(), SV(n), SV(n,v), SV(initializer_list of n), SV(other), SV(move(other))%s} on either vector, n in {0,1,N,N+1,2N+1} "
      "(reserve {0,N,N+1,2N+1}, constructors {0,1,N,N+1}), N in {1,2,4}, T in {int, Tracked<int>, alignas(64) BigAligned}; all accessors "
      "(size, empty, [], front, back, data, begin/end, cbegin/cend, const overloads) compared after every case; ::operator new(size_t) = %s; "
      "phase B: N in {1,2,4} x T x reserve(n) for n in N+1..64 x 0..7 other heap vectors alive, then 2n+1 push_backs, address of every heap buffer "
      "checked, under %s",
      depth, with_alias ? ", push_back(x.front()), resize(n,x.front()) (argument aliases an element, as std::vector allows)" : "",
      g_alloc_mode ? "blocks aligned to exactly __STDCPP_DEFAULT_NEW_ALIGNMENT__=16 (all that plain operator new guarantees)" : "process malloc (ASan)",
      system_only ? "the process allocator only" : "both the process allocator and the 16-aligned guarantee-only allocator");

  // phase A: 9 configurations; Tracked<int> ones share seq::registry() and stay on this thread
  CfgResult ra[9];
  {
    std::vector<std::thread> th;
    th.emplace_back([&] { explore<int, 1>(ra[0], depth, with_alias); });
    th.emplace_back([&] { explore<BigAligned, 1>(ra[2], depth, with_alias); });
    th.emplace_back([&] { explore<int, 2>(ra[3], depth, with_alias); });
    th.emplace_back([&] { explore<BigAligned, 2>(ra[5], depth, with_alias); });
    th.emplace_back([&] { explore<int, 4>(ra[6], depth, with_alias); });
    th.emplace_back([&] { explore<BigAligned, 4>(ra[8], depth, with_alias); });
    explore<seq::Tracked<int>, 1>(ra[1], depth, with_alias);
    explore<seq::Tracked<int>, 2>(ra[4], depth, with_alias);
    explore<seq::Tracked<int>, 4>(ra[7], depth, with_alias);
    for (auto& t : th) t.join();
  }
  fprintf(stderr, "[c38] phase A done at %.1f s\n", std::chrono::duration<double>(std::chrono::steady_clock::now() - rep.t0).count());
  // phase B (single thread; allocator mode is switched between the two passes)
  CfgResult rb[2];
  ProbeStats ps[2][3];
  int saved_mode = g_alloc_mode;
  for (int mode = 0; mode < (system_only ? 1 : 2); mode++) {
    g_alloc_mode = mode;
    probe<int, 1>(rb[mode], ps[mode][0]);
    probe<int, 2>(rb[mode], ps[mode][0]);
    probe<int, 4>(rb[mode], ps[mode][0]);
    probe<seq::Tracked<int>, 1>(rb[mode], ps[mode][1]);
    probe<seq::Tracked<int>, 2>(rb[mode], ps[mode][1]);
    probe<seq::Tracked<int>, 4>(rb[mode], ps[mode][1]);
    probe<BigAligned, 1>(rb[mode], ps[mode][2]);
    probe<BigAligned, 2>(rb[mode], ps[mode][2]);
    probe<BigAligned, 4>(rb[mode], ps[mode][2]);
  }
  g_alloc_mode = saved_mode;
  fprintf(stderr, "[c38] phase B done at %.1f s\n", std::chrono::duration<double>(std::chrono::steady_clock::now() - rep.t0).count());

  // deterministic merge
  std::vector<CfgResult*> all;
  for (auto& r : ra) all.push_back(&r);
  for (auto& r : rb) all.push_back(&r);
  uint64_t states = 0;
  std::set<std::string> reported;
  for (CfgResult* r : all) {
    rep.evaluations += r->evaluations;
    states += r->states;
    for (uint64_t h : r->hashes) {
      size_t before = rep.distinct.size();
      rep.add_distinct(h);
      if (rep.distinct.size() == before) rep.distinct_overflow++; // cap reached (hash collisions are negligible): still pairwise distinct cases
    }
    rep.distinct_overflow += r->nontrivial - r->hashes.size();
    if (!r->log.empty()) fprintf(stderr, "%s\n", r->log.c_str());
  }
  for (int i : {8, 4, 0, 5, 7}) // a few samples from different configurations
    for (auto& s : ra[i].samples) rep.sample(s);
  rep.samples.resize(std::min<size_t>(rep.samples.size(), 4));
  rep.sample(seq::fmt("{\"probe\":\"BigAligned heap buffers\",\"system_alloc\":{\"buffers\":%llu,\"not_64_aligned\":%llu,\"min_alignment\":%zu},"
                      "\"minalign_alloc\":{\"buffers\":%llu,\"not_64_aligned\":%llu,\"min_alignment\":%zu}}",
                      (unsigned long long)ps[0][2].heap_buffers, (unsigned long long)ps[0][2].misaligned, ps[0][2].min_align,
                      (unsigned long long)ps[1][2].heap_buffers, (unsigned long long)ps[1][2].misaligned, ps[1][2].min_align));
  // violations: configuration order (N ascending, simplest type first), one per tag
  for (CfgResult* r : all)
    for (auto& v : r->viols)
      if (reported.insert(v.tag).second) {
        // Report::violation writes the artefact; its text is the replay input
        rep.violation(v.msg, v.replay);
      }
  fprintf(stderr, "[c38] expanded canonical states (sum over 9 configurations) = %llu\n", (unsigned long long)states);
  for (int mode = 0; mode < 2; mode++)
    fprintf(stderr, "[c38] probe allocator=%s BigAligned: heap buffers %llu, not 64-aligned %llu, min alignment seen %zu\n", mode ? "minalign" : "system",
            (unsigned long long)ps[mode][2].heap_buffers, (unsigned long long)ps[mode][2].misaligned, ps[mode][2].min_align);
  return rep.finish();
}

#pragma clang attribute pop
