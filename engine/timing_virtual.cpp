// Replacement for dispenso/timing.cpp in dmc builds: getTime() reads the scheduler's virtual clock
// (dispenso's own is rdtsc-based and cannot be interposed). Every read advances the clock by epsilon,
// like clock_gettime(), so loops that wait for *time* terminate.
#include <dispenso/timing.h>
#include <time.h>
namespace dispenso {
double getTime() {
  struct timespec ts;
  clock_gettime(CLOCK_MONOTONIC, &ts);
  return static_cast<double>(ts.tv_sec) + 1e-9 * static_cast<double>(ts.tv_nsec);
}
} // namespace dispenso
