// Harness API. Included by harness translation units (which are compiled with -include mc_shim.h,
// so std::thread / std::atomic here are the modelled ones).
#pragma once
#include <cstdarg>
#include <cstdio>
#include <map>
#include <string>
#include <vector>
#include "mc_api.h"

namespace mc {

class Params {
  std::map<std::string, std::string> m_;

 public:
  void set(const std::string& k, const std::string& v) { m_[k] = v; }
  bool has(const char* k) const { return m_.count(k) != 0; }
  long operator()(const char* k, long def = 0) const {
    auto it = m_.find(k);
    return it == m_.end() ? def : atol(it->second.c_str());
  }
  std::string s(const char* k, const char* def = "") const {
    auto it = m_.find(k);
    return it == m_.end() ? std::string(def) : it->second;
  }
};

typedef void (*BodyFn)(const Params&);
struct Registrar {
  Registrar(const char* name, BodyFn f);
};

// relaxed, unscheduled shared cell for harness bookkeeping: invisible to the explorer and adds no
// happens-before edges under TSan.
template <class T>
class Shared {
  real_atomic<T> v_;

 public:
  constexpr Shared(T v = T()) : v_(v) {}
  T get() const { return v_.load(std::memory_order_relaxed); }
  void set(T v) { v_.store(v, std::memory_order_relaxed); }
  T add(T d) { return v_.fetch_add(d, std::memory_order_relaxed); }
  T exchange(T d) { return v_.exchange(d, std::memory_order_relaxed); }
  bool cas(T& e, T d) { return v_.compare_exchange_strong(e, d, std::memory_order_relaxed); }
  void max_with(T x) {
    T cur = get();
    while (cur < x && !v_.compare_exchange_weak(cur, x, std::memory_order_relaxed)) {
    }
  }
  operator T() const { return get(); }
};

inline void fail(const char* fmt, ...) __attribute__((format(printf, 1, 2)));
inline void fail(const char* fmt, ...) {
  char buf[900];
  va_list ap;
  va_start(ap, fmt);
  vsnprintf(buf, sizeof buf, fmt, ap);
  va_end(ap);
  mc_fail(buf);
}
#define MC_CHECK(cond, ...)            \
  do {                                 \
    if (!(cond)) ::mc::fail(__VA_ARGS__); \
  } while (0)

inline int choose(int n) { return mc_choose(n); }
inline void point() { mc_user_point(nullptr); }
inline uint64_t now_ns() { return mc_now_ns(); }
inline void opt(int o, long v) { mc_set_opt(o, v); }
inline void cover(const char* name) { mc_cover(name); }
inline uint64_t hash_str(const char* s) {
  uint64_t h = 1469598103934665603ULL;
  for (; *s; ++s) h = (h ^ (unsigned char)*s) * 1099511628211ULL;
  return h;
}
// order-insensitive observation: contributes (key,value) to the execution's outcome digest
inline void observe(const char* key, long v) { mc_observe(hash_str(key) * 31 + (uint64_t)v * 0x9e3779b97f4a7c15ULL); }

// Predicates of block_until are evaluated by whichever thread happens to run the scheduler, so under
// TSan their reads are excluded from race detection (they are harness mechanics, not program accesses).
#if defined(__has_feature)
#if __has_feature(thread_sanitizer)
#define MC_HARNESS_TSAN 1
extern "C" void AnnotateIgnoreReadsBegin(const char* f, int l);
extern "C" void AnnotateIgnoreReadsEnd(const char* f, int l);
extern "C" void AnnotateIgnoreWritesBegin(const char* f, int l);
extern "C" void AnnotateIgnoreWritesEnd(const char* f, int l);
#endif
#endif
struct TsanIgnore {
#ifdef MC_HARNESS_TSAN
  TsanIgnore() {
    AnnotateIgnoreReadsBegin(__FILE__, __LINE__);
    AnnotateIgnoreWritesBegin(__FILE__, __LINE__);
  }
  ~TsanIgnore() {
    AnnotateIgnoreWritesEnd(__FILE__, __LINE__);
    AnnotateIgnoreReadsEnd(__FILE__, __LINE__);
  }
#endif
};

template <class P>
inline void block_until(P pred) {
  struct Ctx {
    P* p;
    static int call(void* c) {
      TsanIgnore ig;
      return (*static_cast<Ctx*>(c)->p)() ? 1 : 0;
    }
  } ctx{&pred};
  mc_block_until(&Ctx::call, &ctx);
}

// optional per-binary hooks: prewarm runs once in the parent, reset before every execution
extern void (*g_user_prewarm)();
extern void (*g_user_reset)();
struct HookSetter {
  HookSetter(void (*pre)(), void (*res)()) {
    g_user_prewarm = pre;
    g_user_reset = res;
  }
};

void add_thread(std::thread&& t);
void join_all();

template <class F>
inline void spawn(F&& f) {
  add_thread(std::thread(std::forward<F>(f)));
}

// element type with a live-object registry
template <class T>
struct Tracked {
  T v;
  Tracked() noexcept : v() { mc_track_ctor(this, 0); }
  Tracked(const T& x) noexcept : v(x) { mc_track_ctor(this, (long)x); }
  // copying / moving an element is plain code that containers run next to their release stores: a
  // scheduling point before the source is read lets another thread get in between (opt.track_points)
  Tracked(const Tracked& o) noexcept : v((mc_track_point(), o.v)) {
    mc_track_use(&o);
    mc_track_ctor(this, (long)v);
  }
  Tracked(Tracked&& o) noexcept : v((mc_track_point(), o.v)) {
    mc_track_use(&o);
    mc_track_ctor(this, (long)v);
  }
  Tracked& operator=(const Tracked& o) noexcept {
    mc_track_use(&o);
    mc_track_use(this);
    v = o.v;
    return *this;
  }
  Tracked& operator=(Tracked&& o) noexcept {
    mc_track_use(&o);
    mc_track_use(this);
    v = o.v;
    return *this;
  }
  ~Tracked() { mc_track_dtor(this); }
  bool operator==(const Tracked& o) const { return v == o.v; }
  bool operator<(const Tracked& o) const { return v < o.v; }
};

} // namespace mc

#define MC_HARNESS(name)                                  \
  static void name##_body(const ::mc::Params& P);         \
  static ::mc::Registrar name##_reg(#name, name##_body);  \
  static void name##_body(const ::mc::Params& P)
