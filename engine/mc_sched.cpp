// dmc in-child scheduler. Compiled WITHOUT sanitizers: its hand-offs must stay invisible to TSan
// and it reads program atomics with its own byte loops.
//
// One modelled thread holds the run token; hand-off is a raw futex on a per-thread word.
#include <errno.h>
#include <linux/futex.h>
#include <pthread.h>
#include <semaphore.h>
#include <signal.h>
#include <stdarg.h>
#include <stdio.h>
#include <stdlib.h>
#include <string.h>
#include <sys/syscall.h>
#include <sys/time.h>
#include <time.h>
#include <unistd.h>
#include <malloc.h>
#include <dlfcn.h>

#include "mc_internal.h"

// ---------------------------------------------------------------------------------------------
// raw syscalls (we interpose syscall() itself)
static inline long raw_syscall6(long n, long a, long b, long c, long d, long e, long f) {
  long ret;
  register long r10 __asm__("r10") = d;
  register long r8 __asm__("r8") = e;
  register long r9 __asm__("r9") = f;
  __asm__ volatile("syscall"
                   : "=a"(ret)
                   : "a"(n), "D"(a), "S"(b), "d"(c), "r"(r10), "r"(r8), "r"(r9)
                   : "rcx", "r11", "memory");
  return ret;
}
static inline long raw_futex(volatile int* addr, int op, int val, const struct timespec* ts) {
  return raw_syscall6(SYS_futex, (long)addr, op, val, (long)ts, 0, 0);
}
static inline void raw_sleep_us(long us) {
  struct timespec ts;
  ts.tv_sec = us / 1000000;
  ts.tv_nsec = (us % 1000000) * 1000;
  raw_syscall6(SYS_nanosleep, (long)&ts, 0, 0, 0, 0, 0);
}

// ---------------------------------------------------------------------------------------------
#define MAXT 80
#define SPINSET 12

struct SpinEnt {
  const void* pc;
  const void* addr;
  uint64_t val;
};

struct Thr {
  int id;
  int state; // see TS_*
  volatile int go;
  volatile int started;
  int ktid;
  int reaped;
  int detached;
  // pending / blocking
  int pend_kind;
  const volatile void* pend_addr;
  int (*pred)(void*);
  void* pred_arg;
  int join_target;
  uint64_t block_seq;
  uint64_t deadline; // ns, 0 = none
  int timed_out;
  int wake_reason; // 0 woken, 1 timeout, 2 spurious
  // spinning
  int spinner;
  int free_resumes;
  uint64_t last_resume;
  SpinEnt spin[SPINSET];
  int nspin;
  uint64_t spin_wver;
  uint64_t own_writes;
  uint64_t last_run; // step at which this thread last received the token
  int burst; // running through a bounded spin after a spinner deviation
  uint64_t burst_iters;
  volatile int release; // set by the main thread at the end of the execution: the real thread may exit now
  uintptr_t stack_addr;
  char hb_token;
  int fresh;
  // history
  uint64_t hist;
  uint32_t nops;
  uint64_t oldv[2];
  const void* pc;
  int order;
};

enum { TS_NONE = 0, TS_STARTING, TS_RUNNABLE, TS_BLOCKED, TS_FINISHED };

struct Loc {
  const volatile void* addr;
  uint64_t name;
  uint64_t last_store;
};
#define LOCBITS 15
#define NLOC (1 << LOCBITS)

struct Mtx {
  const void* addr;
  int owner; // -1 free
};
#define NMTX 256
struct Sem {
  const void* addr;
  long count;
  int used;
};
#define NSEM 64
struct Guard {
  const void* addr;
  int owner;
};
#define NGUARD 64

static struct G {
  int active; // an execution is in progress in this process
  Thr thr[MAXT];
  int nthr;
  int running;
  Loc loc[NLOC];
  uint64_t loc_xor;
  Mtx mtx[NMTX];
  Sem sem[NSEM];
  Guard guard[NGUARD];
  // mc_watch: a harness callback run by thread watch_tid right before its watch_nth-th access to watch_addr
  const volatile void* watch_addr;
  void (*watch_fn)(void*);
  void* watch_arg;
  int watch_tid, watch_nth;
  uint64_t wver;
  uint64_t steps;
  uint64_t now_ns;
  uint64_t block_seq;
  uint64_t spin_resumes_since_write;
  long opts[MC_OPT_COUNT];
  long spur_left, casfail_left;
  McChildCfg cfg;
  McSlot* slot;
  uint32_t nrecs;
  volatile int done; // main thread waits on this
  int verbose;
  int pid;
  uint64_t obs;
  int ended_unreaped;
  uint64_t sched_salt;
} g;

static __thread Thr* self_thr;

static inline uint64_t mix64(uint64_t x) {
  x ^= x >> 30;
  x *= 0xbf58476d1ce4e5b9ULL;
  x ^= x >> 27;
  x *= 0x94d049bb133111ebULL;
  x ^= x >> 31;
  return x;
}
static inline uint64_t mix2(uint64_t a, uint64_t b) { return mix64(a * 0x9e3779b97f4a7c15ULL + b + 0x632be59bd9b4e019ULL); }
static inline uint64_t mix3(uint64_t a, uint64_t b, uint64_t c) { return mix2(mix2(a, b), c); }
static inline uint64_t mix4(uint64_t a, uint64_t b, uint64_t c, uint64_t d) { return mix2(mix3(a, b, c), d); }

static void vlog(const char* fmt, ...) __attribute__((format(printf, 1, 2)));
static void vlog(const char* fmt, ...) {
  if (!g.verbose) return;
  char buf[512];
  va_list ap;
  va_start(ap, fmt);
  int n = vsnprintf(buf, sizeof buf, fmt, ap);
  va_end(ap);
  if (n > (int)sizeof buf - 1) n = sizeof buf - 1;
  raw_syscall6(SYS_write, 2, (long)buf, n, 0, 0, 0);
}

extern "C" void mc_log(const char* fmt, ...) {
  if (!g.verbose) return;
  char buf[512];
  va_list ap;
  va_start(ap, fmt);
  int n = vsnprintf(buf, sizeof buf, fmt, ap);
  va_end(ap);
  if (n > (int)sizeof buf - 1) n = sizeof buf - 1;
  raw_syscall6(SYS_write, 2, (long)buf, n, 0, 0, 0);
}

static void finish_process(int status, const char* fmt, ...) __attribute__((noreturn, format(printf, 2, 3)));
static void finish_process(int status, const char* fmt, ...) {
  McSlot* s = g.slot;
  if (s) {
    va_list ap;
    va_start(ap, fmt);
    vsnprintf(s->msg, sizeof s->msg, fmt, ap);
    va_end(ap);
    s->steps = g.steps;
    s->nrecs = g.nrecs;
    s->obs_digest = g.obs;
    s->vclock_ns = g.now_ns;
    s->nthreads = g.nthr;
    __atomic_store_n(&s->status, status, __ATOMIC_SEQ_CST);
    if (g.verbose) vlog("== %s: %s\n", mc_status_name(status), s->msg);
  }
  raw_syscall6(SYS_exit_group, status == MC_ST_OK ? 0 : 40 + status, 0, 0, 0, 0, 0);
  __builtin_unreachable();
}

// ---------------------------------------------------------------------------------------------
// tables
static inline uint64_t read_bytes(const volatile void* addr, unsigned size, uint64_t* hi) {
  uint64_t v[2] = {0, 0};
  const volatile unsigned char* p = (const volatile unsigned char*)addr;
  unsigned char* q = (unsigned char*)v;
  if (size > 16) size = 16;
  for (unsigned i = 0; i < size; i++) q[i] = p[i];
  if (hi) *hi = v[1];
  return v[0];
}
static inline uint64_t canon_val(uint64_t v, unsigned size) {
  if (size < 8) return v;
  if (v < (1ULL << 32) || v > 0xffffffff00000000ULL) return v;
  return 0x7777; // pointer-like: address nondeterminism must not enter hashes
}

static Loc* loc_get(const volatile void* addr, Thr* me) {
  uint64_t h = mix64((uint64_t)addr) & (NLOC - 1);
  for (unsigned probe = 0; probe < NLOC; probe++) {
    Loc* L = &g.loc[(h + probe) & (NLOC - 1)];
    if (L->addr == addr) return L;
    if (!L->addr) {
      L->addr = addr;
      L->name = mix3(0x10c, me ? me->id : 99, me ? me->nops : 0);
      L->last_store = 0;
      return L;
    }
  }
  finish_process(MC_ST_ENGINE, "location table full");
}

static Mtx* mtx_get(const void* addr, int create) {
  Mtx* freeslot = 0;
  for (int i = 0; i < NMTX; i++) {
    if (g.mtx[i].addr == addr) return &g.mtx[i];
    if (!g.mtx[i].addr && !freeslot) freeslot = &g.mtx[i];
  }
  if (!create) return 0;
  if (!freeslot) finish_process(MC_ST_ENGINE, "mutex table full");
  freeslot->addr = addr;
  freeslot->owner = -1;
  return freeslot;
}
static Sem* sem_get(const void* addr, int create) {
  Sem* freeslot = 0;
  for (int i = 0; i < NSEM; i++) {
    if (g.sem[i].used && g.sem[i].addr == addr) return &g.sem[i];
    if (!g.sem[i].used && !freeslot) freeslot = &g.sem[i];
  }
  if (!create) return 0;
  if (!freeslot) finish_process(MC_ST_ENGINE, "semaphore table full");
  freeslot->addr = addr;
  freeslot->used = 1;
  freeslot->count = 0;
  return freeslot;
}
static Guard* guard_get(const void* addr, int create) {
  Guard* freeslot = 0;
  for (int i = 0; i < NGUARD; i++) {
    if (g.guard[i].addr == addr) return &g.guard[i];
    if (!g.guard[i].addr && !freeslot) freeslot = &g.guard[i];
  }
  if (!create) return 0;
  if (!freeslot) finish_process(MC_ST_ENGINE, "guard table full");
  freeslot->addr = addr;
  freeslot->owner = -1;
  return freeslot;
}

// ---------------------------------------------------------------------------------------------
// token hand-off and thread lifecycle
static void reap_ended() {
  if (!g.ended_unreaped) return;
  for (int i = 0; i < g.nthr; i++) {
    Thr* t = &g.thr[i];
    if (t->state == TS_FINISHED && t->release && !t->reaped) {
      int spins = 0;
      while (raw_syscall6(SYS_tgkill, g.pid, t->ktid, 0, 0, 0, 0) != -ESRCH) {
        if (++spins > 200000) finish_process(MC_ST_ENGINE, "thread %d did not leave the kernel", t->id);
        if (spins < 50)
          raw_syscall6(SYS_sched_yield, 0, 0, 0, 0, 0, 0);
        else
          raw_sleep_us(20);
      }
      t->reaped = 1;
      g.ended_unreaped--;
    }
  }
}

static void wait_token(Thr* me) {
  while (__atomic_load_n(&me->go, __ATOMIC_ACQUIRE) == 0) raw_futex(&me->go, FUTEX_WAIT, 0, 0);
  __atomic_store_n(&me->go, 0, __ATOMIC_RELAXED);
  g.running = me->id;
  me->last_run = g.steps;
}
static void give_token(Thr* to) {
  __atomic_store_n(&to->go, 1, __ATOMIC_RELEASE);
  raw_futex(&to->go, FUTEX_WAKE, 1, 0);
}

// ---------------------------------------------------------------------------------------------
static uint64_t wm_hash_fwd();
static uint64_t state_hash() {
  uint64_t h = mix4(g.loc_xor, g.now_ns, (uint64_t)g.running, (uint64_t)(g.spur_left * 64 + g.casfail_left));
  for (int i = 0; i < MC_OPT_COUNT; i++) h = mix2(h, (uint64_t)g.opts[i]);
  for (int i = 0; i < g.nthr; i++) {
    Thr* t = &g.thr[i];
    uint64_t th = mix4((uint64_t)t->id, t->hist, (uint64_t)(t->burst * 64 + t->state * 8 + t->spinner * 4 + t->timed_out * 2 + t->fresh),
                       (uint64_t)t->pend_kind);
    if (t->state == TS_BLOCKED) {
      // FIFO rank among waiters on the same address matters for the default wake pick
      int rank = 0;
      for (int j = 0; j < g.nthr; j++) {
        Thr* u = &g.thr[j];
        if (u != t && u->state == TS_BLOCKED && u->pend_addr == t->pend_addr && u->block_seq < t->block_seq) rank++;
      }
      uint64_t nm = t->pend_addr ? loc_get(t->pend_addr, t)->name : 0;
      th = mix3(th, nm, (uint64_t)rank);
    }
    if (t->deadline) th = mix2(th, t->deadline - (t->deadline > g.now_ns ? g.now_ns : t->deadline) + 1);
    if (t->spinner) th = mix2(th, (uint64_t)(t->free_resumes >= 64));
    h += mix64(th);
  }
  for (int i = 0; i < NSEM; i++)
    if (g.sem[i].used) h += mix3(0x5e3, loc_get(g.sem[i].addr, 0)->name, (uint64_t)g.sem[i].count);
  if (g.opts[MC_OPT_WM]) h += wm_hash_fwd();
  return mix64(h);
}

static int choose_alt(int kind, int nalts, uint64_t costmask) {
  if (nalts <= 1) return 0;
  if (nalts > 64) nalts = 64;
  uint64_t h = state_hash();
  // An environment choice (waiter pick, weak-CAS failure, stale read, data choice) directly follows the
  // scheduling choice of the same operation with no state change in between; the two choice points must
  // not share a hash or the explorer's visited-state pruning would cut the second one (and everything
  // after it) off.
  if (kind != MC_K_NONE)
    h = mix3(h, 0xc401ce, (uint64_t)kind);
  else
    h = mix2(h, g.sched_salt); // which continuation is the free default depends on scheduling history
  uint32_t idx = g.nrecs;
  int c = 0;
  const McPrefix* p = &g.cfg.prefix;
  if (idx < p->n) {
    const McRec* r = &p->recs[idx];
    if (r->nalts != nalts || r->kind != kind || (p->check_hash && r->hash != h))
      finish_process(MC_ST_DIVERGED, "replay diverged at choice %u: recorded nalts=%d kind=%d hash=%llx, now nalts=%d kind=%d hash=%llx",
                     idx, r->nalts, r->kind, (unsigned long long)r->hash, nalts, kind, (unsigned long long)h);
    c = r->chosen;
    if (c >= nalts) finish_process(MC_ST_DIVERGED, "replay choice %u out of range (%d of %d)", idx, c, nalts);
  }
  if (idx >= MC_MAX_RECS) finish_process(MC_ST_TRUNCATED, "more than %d choice points", MC_MAX_RECS);
  McRec* out = &g.slot->recs[idx];
  out->hash = h;
  out->costmask = costmask;
  out->nalts = (uint8_t)nalts;
  out->chosen = (uint8_t)c;
  out->kind = (uint8_t)kind;
  out->run = (uint8_t)g.running;
  out->step = (uint32_t)g.steps;
  g.nrecs = idx + 1;
  g.slot->nrecs = g.nrecs;
  if (g.verbose && c) vlog("   [choice %u kind=%d pick %d/%d]\n", idx, kind, c, nalts);
  return c;
}

static int op_enabled(Thr* t) {
  if (t->state != TS_RUNNABLE) return 0;
  switch (t->pend_kind) {
    case MC_K_LOCK: {
      Mtx* m = mtx_get((const void*)t->pend_addr, 0);
      return !m || m->owner < 0;
    }
    case MC_K_JOIN:
      return g.thr[t->join_target].state == TS_FINISHED;
    case MC_K_GUARD: {
      Guard* gd = guard_get((const void*)t->pend_addr, 0);
      return !gd || gd->owner < 0;
    }
    case MC_K_BLOCK:
      return t->pred(t->pred_arg) != 0;
    case MC_K_SEM_WAIT: {
      Sem* s = sem_get((const void*)t->pend_addr, 0);
      return t->timed_out || (s && s->count > 0);
    }
    default:
      return 1;
  }
}
static int is_timed_waiter(Thr* t) {
  if (!t->deadline) return 0;
  if (t->state == TS_BLOCKED) return 1;
  if (t->state == TS_RUNNABLE && t->pend_kind == MC_K_SEM_WAIT && !t->timed_out && !op_enabled(t)) return 1;
  return 0;
}
static void fire_timeout(Thr* t) {
  if (g.now_ns < t->deadline) g.now_ns = t->deadline;
  t->deadline = 0;
  g.slot->timeouts_fired++;
  if (t->state == TS_BLOCKED) {
    t->state = TS_RUNNABLE;
    t->wake_reason = 1;
    t->pend_kind = MC_K_NONE;
    t->pend_addr = 0;
  } else {
    t->timed_out = 1;
  }
  vlog("   [timeout fires for T%d, clock=%llu ns]\n", t->id, (unsigned long long)g.now_ns);
}

static void wake_spinners() {
  for (int i = 0; i < g.nthr; i++) {
    g.thr[i].spinner = 0;
    g.thr[i].free_resumes = 0;
  }
  g.spin_resumes_since_write = 0;
}

struct Alt {
  int type; // 0 thread, 1 spinner, 2 timeout, 3 spurious wake
  int tid;
};

static void end_execution() {
  __atomic_store_n(&g.done, 1, __ATOMIC_SEQ_CST);
  raw_futex(&g.done, FUTEX_WAKE, 1, 0);
}

// The running thread `me` has published its pending operation (or blocked / finished / yielded).
// Decide who runs next; returns when `me` holds the token again (never for a finished thread).
static void reschedule(Thr* me) {
  for (;;) {
    if (++g.steps > g.cfg.max_steps) finish_process(MC_ST_TRUNCATED, "step horizon %llu reached", (unsigned long long)g.cfg.max_steps);
    Alt alts[64];
    int n = 0;
    uint64_t costmask = 0;
    int me_enabled = (me->state == TS_RUNNABLE && !me->spinner && op_enabled(me));
    if (me_enabled) alts[n++] = Alt{0, me->id};
    long free_cost = g.opts[MC_OPT_FREE_SWITCH_COST];
    // Other enabled threads, least recently run first: when the running thread blocks or yields, the
    // default continuation is the thread that has waited longest, so the default schedule is fair (two
    // threads that keep each other spinning cannot starve a third one that was preempted).
    {
      int first = n;
      for (int i = 0; i < g.nthr && n < 64; i++) {
        Thr* t = &g.thr[i];
        if (t == me || t->spinner || !op_enabled(t)) continue;
        int k = n++;
        while (k > first && g.thr[alts[k - 1].tid].last_run > t->last_run) {
          alts[k] = alts[k - 1];
          k--;
        }
        alts[k] = Alt{0, t->id};
      }
      for (int k = (first == 0 ? 1 : first); k < n; k++)
        if (me_enabled || free_cost) costmask |= (1ULL << k);
    }
    int nenabled = n;
    if (nenabled > 0) {
      if (g.opts[MC_OPT_SPIN_DEV])
        for (int i = 0; i < g.nthr && n < 64; i++) {
          Thr* t = &g.thr[i];
          if (t->state == TS_RUNNABLE && t->spinner && op_enabled(t)) {
            costmask |= (1ULL << n);
            alts[n++] = Alt{1, t->id};
          }
        }
      if (g.opts[MC_OPT_TIMEOUTS] && g.opts[MC_OPT_TIMEOUT_RACE])
        for (int i = 0; i < g.nthr && n < 64; i++)
          if (is_timed_waiter(&g.thr[i])) {
            costmask |= (1ULL << n);
            alts[n++] = Alt{2, i};
          }
      if (g.spur_left > 0)
        for (int i = 0; i < g.nthr && n < 64; i++) {
          Thr* t = &g.thr[i];
          if (t->state == TS_BLOCKED && t->pend_kind == MC_K_FUTEX_WAIT) {
            costmask |= (1ULL << n);
            alts[n++] = Alt{3, i};
          }
        }
      // With free switches costing nothing the set of executions below this point does not depend on
      // the order of the alternatives, so the order (a function of scheduling history) stays out of the
      // hash; it matters only when non-default switches at blocking points are charged.
      g.sched_salt = free_cost ? (uint64_t)(alts[0].type * 131 + alts[0].tid + 1) : 0;
      int c = choose_alt(MC_K_NONE, n, costmask);
      Alt a = alts[c];
      Thr* t = &g.thr[a.tid];
      if (a.type == 1) {
        // "the spin budget ran out before the peer moved": one deviation lets the spinner run on through
        // its bounded spin (it is not yielded again until it changes memory, blocks, or is switched away)
        t->spinner = 0;
        t->burst = 1;
        t->burst_iters = 0;
      } else if (a.type == 2) {
        fire_timeout(t);
      } else if (a.type == 3) {
        g.spur_left--;
        t->state = TS_RUNNABLE;
        t->wake_reason = 2;
        t->deadline = 0;
        t->pend_kind = MC_K_NONE;
        t->pend_addr = 0;
        vlog("   [spurious futex return for T%d]\n", t->id);
      }
      if (t == me) return;
      me->burst = 0;
      give_token(t);
      if (me->state == TS_FINISHED) return;
      wait_token(me);
      return;
    }
    // nobody (non-spinning) is enabled
    Thr* sp = 0;
    int all_exhausted = 1;
    for (int i = 0; i < g.nthr; i++) {
      Thr* t = &g.thr[i];
      if (t->state == TS_RUNNABLE && t->spinner && op_enabled(t)) {
        if (t->free_resumes < 64) all_exhausted = 0;
        if (!sp || t->last_resume < sp->last_resume) sp = t;
      }
    }
    Thr* tw = 0;
    if (g.opts[MC_OPT_TIMEOUTS] || 1) {
      for (int i = 0; i < g.nthr; i++) {
        Thr* t = &g.thr[i];
        if (!is_timed_waiter(t)) continue;
        // sleeps always expire; waits with a wake source only if timeouts are allowed
        if (!g.opts[MC_OPT_TIMEOUTS] && t->pend_kind != MC_K_SLEEP) continue;
        if (!tw || t->deadline < tw->deadline) tw = t;
      }
    }
    if (sp && (!all_exhausted || !tw)) {
      if (++g.spin_resumes_since_write > 200000)
        finish_process(MC_ST_LIVELOCK, "livelock: only spinning threads are runnable and 200000 resumptions changed nothing (T%d spins)", sp->id);
      sp->free_resumes++;
      sp->last_resume = g.steps;
      sp->spinner = 0;
      if (sp == me) return;
      give_token(sp);
      if (me->state == TS_FINISHED) return;
      wait_token(me);
      return;
    }
    if (tw) {
      fire_timeout(tw);
      for (int i = 0; i < g.nthr; i++) g.thr[i].free_resumes = 0;
      continue; // now somebody is enabled
    }
    // nothing can run
    int unfinished = 0;
    for (int i = 0; i < g.nthr; i++)
      if (g.thr[i].state != TS_FINISHED && g.thr[i].state != TS_NONE) unfinished++;
    if (unfinished == 0) {
      end_execution();
      return;
    }
    char buf[600];
    int off = 0;
    for (int i = 0; i < g.nthr && off < 500; i++) {
      Thr* t = &g.thr[i];
      if (t->state == TS_FINISHED) continue;
      off += snprintf(buf + off, sizeof buf - off, " T%d:%s/k%d", t->id, t->state == TS_BLOCKED ? "blocked" : "disabled", t->pend_kind);
    }
    finish_process(MC_ST_DEADLOCK, "deadlock: no thread can run:%s", buf);
  }
}

// ---------------------------------------------------------------------------------------------
// Weak-memory layer (opt.wm=1): a view machine in the style of promise-free release/acquire models.
// Every atomic location keeps its stores in modification order; each thread has a vector clock. A
// non-RMW, non-seq_cst load may read any store that is not older than (a) the newest store of that
// location the thread has already observed (coherence) and (b) the newest store that happens-before
// the load. Reading the latest store is the default; an older one is a deviation. Acquire loads and
// fences join the clock released with the store they read, release stores and fences publish the
// writer's clock, RMWs read the latest store and continue release sequences, seq_cst operations are
// modelled stronger than the standard requires (they exchange a global clock and read only the latest
// store). Every behaviour produced is allowed by C++11; load buffering is not produced.
#define WM_T 8
#define NWMSTORE 65536
struct WmStore {
  uint64_t v[2];
  uint64_t id;
  uint32_t rel[WM_T];
  uint32_t wclk;
  int32_t prev;
  uint32_t idx;
  int8_t writer;
};
struct WmLoc {
  int32_t last;
  uint32_t count;
  uint32_t seen[WM_T];
};
struct WmThr {
  uint32_t vc[WM_T], acqp[WM_T], relf[WM_T];
};
static WmStore wm_store[NWMSTORE];
static int wm_nstore;
static WmLoc wm_loc[NLOC];
static WmThr wm_thr[WM_T];
static uint32_t wm_sc[WM_T];
static int wm_touched[2048];
static int wm_ntouched;

static inline int wm_on() { return g.opts[MC_OPT_WM] != 0; }
static inline void vc_join(uint32_t* a, const uint32_t* b) {
  for (int i = 0; i < WM_T; i++)
    if (b[i] > a[i]) a[i] = b[i];
}
static void wm_reset() {
  wm_nstore = 0;
  memset(wm_loc, 0, sizeof wm_loc);
  memset(wm_thr, 0, sizeof wm_thr);
  memset(wm_sc, 0, sizeof wm_sc);
  wm_ntouched = 0;
}
static WmLoc* wm_of(Loc* L) { return &wm_loc[L - g.loc]; }
static int wm_new_store(WmLoc* W, uint64_t v0, uint64_t v1, uint64_t id, int writer, uint32_t wclk) {
  if (wm_nstore >= NWMSTORE) finish_process(MC_ST_ENGINE, "wm: store history full");
  WmStore* s = &wm_store[wm_nstore];
  memset(s, 0, sizeof *s);
  s->v[0] = v0;
  s->v[1] = v1;
  s->id = id;
  s->writer = (int8_t)writer;
  s->wclk = wclk;
  s->prev = W->count ? W->last : -1;
  s->idx = W->count;
  W->last = wm_nstore;
  W->count++;
  return wm_nstore++;
}
// make sure the history of L ends with a store holding the bytes that are in memory right now
static void wm_sync(Loc* L, WmLoc* W, uint64_t v0, uint64_t v1) {
  if (W->count && wm_store[W->last].v[0] == v0 && wm_store[W->last].v[1] == v1) return;
  // first touch, or the object was (re)initialised by non-atomic code: start a new history
  if (W->count == 0 && wm_ntouched < 2048) wm_touched[wm_ntouched++] = (int)(L - g.loc);
  W->count = 0;
  memset(W->seen, 0, sizeof W->seen);
  wm_new_store(W, v0, v1, L->last_store, -1, 0);
}
static inline int ord_acq(int o) { return o == 1 || o == 2 || o == 4 || o == 5; }
static inline int ord_rel(int o) { return o == 3 || o == 4 || o == 5; }
static void wm_sc_exchange(WmThr* T) {
  vc_join(wm_sc, T->vc);
  vc_join(T->vc, wm_sc);
}
static void wm_check_thread(Thr* me) {
  if (me->id >= WM_T) finish_process(MC_ST_ENGINE, "wm: more than %d threads", WM_T);
}
// read side of an operation that reads store s
static void wm_read_from(Thr* me, WmLoc* W, WmStore* s, int order) {
  WmThr* T = &wm_thr[me->id];
  if (s->idx > W->seen[me->id]) W->seen[me->id] = s->idx;
  if (ord_acq(order))
    vc_join(T->vc, s->rel);
  else
    vc_join(T->acqp, s->rel);
  if (order == 5) wm_sc_exchange(T);
}
// write side: appends a store by `me`
static void wm_write(Thr* me, Loc* L, WmLoc* W, uint64_t v0, uint64_t v1, uint64_t id, int order, int is_rmw) {
  WmThr* T = &wm_thr[me->id];
  uint32_t prevrel[WM_T];
  memset(prevrel, 0, sizeof prevrel);
  if (is_rmw && W->count) memcpy(prevrel, wm_store[W->last].rel, sizeof prevrel);
  if (order == 5) wm_sc_exchange(T);
  T->vc[me->id]++;
  int si = wm_new_store(W, v0, v1, id, me->id, T->vc[me->id]);
  WmStore* s = &wm_store[si];
  if (ord_rel(order))
    memcpy(s->rel, T->vc, sizeof s->rel);
  else
    memcpy(s->rel, T->relf, sizeof s->rel);
  vc_join(s->rel, prevrel);
  W->seen[me->id] = s->idx;
  (void)L;
}
static void wm_fence(Thr* me, int order) {
  WmThr* T = &wm_thr[me->id];
  if (ord_acq(order)) vc_join(T->vc, T->acqp);
  if (order == 5) wm_sc_exchange(T);
  if (ord_rel(order)) memcpy(T->relf, T->vc, sizeof T->relf);
}
// generic synchronisation objects (mutex, semaphore, guard, thread start/join) as release/acquire pairs
static void wm_release_on(Thr* me, Loc* L) {
  if (!wm_on()) return;
  wm_check_thread(me);
  WmLoc* W = wm_of(L);
  if (W->count == 0 && wm_ntouched < 2048) wm_touched[wm_ntouched++] = (int)(L - g.loc);
  wm_write(me, L, W, 0, 0, L->last_store, 3, 1);
}
static void wm_acquire_on(Thr* me, Loc* L) {
  if (!wm_on()) return;
  wm_check_thread(me);
  WmLoc* W = wm_of(L);
  if (W->count) wm_read_from(me, W, &wm_store[W->last], 2);
}
static uint64_t wm_hash_fwd() {
  uint64_t h = 0;
  for (int t = 0; t < g.nthr && t < WM_T; t++)
    for (int i = 0; i < WM_T; i++) h = mix2(h, ((uint64_t)wm_thr[t].vc[i] << 40) ^ ((uint64_t)wm_thr[t].acqp[i] << 20) ^ wm_thr[t].relf[i]);
  for (int i = 0; i < WM_T; i++) h = mix2(h, wm_sc[i]);
  uint64_t x = 0;
  for (int k = 0; k < wm_ntouched; k++) {
    WmLoc* W = &wm_loc[wm_touched[k]];
    uint64_t lh = mix2(g.loc[wm_touched[k]].name, W->count);
    for (int i = 0; i < WM_T; i++) lh = mix2(lh, W->seen[i]);
    x += mix64(lh);
  }
  return mix2(h, x);
}

// ---------------------------------------------------------------------------------------------
// API used by the shim
extern "C" int mc_on(void) { return self_thr != 0; }
extern "C" int mc_self_id(void) { return self_thr ? self_thr->id : -1; }

static inline void sched_point(Thr* me, int kind, const volatile void* addr) {
  me->pend_kind = kind;
  me->pend_addr = addr;
  if (me->fresh) {
    me->fresh = 0;
    if (op_enabled(me)) return;
  }
  reschedule(me);
}

// Directed placement of another thread's action inside a window that contains no user code: the harness names an
// address, a thread and an ordinal; right before that thread's n-th access to the address the callback runs on it
// (typically: release a second thread and block until that thread's action is complete). The accesses counted are
// those of the code under test; the callback itself may use every harness service.
extern "C" void mc_watch(const volatile void* addr, int tid, int nth, void (*fn)(void*), void* arg) {
  g.watch_addr = addr;
  g.watch_tid = tid;
  g.watch_nth = nth;
  g.watch_fn = fn;
  g.watch_arg = arg;
}

extern "C" void mc_pre(int kind, const volatile void* addr, unsigned size, int order) {
  Thr* me = self_thr;
  if (!me) return;
  if (g.watch_fn && addr == g.watch_addr && me->id == g.watch_tid && --g.watch_nth <= 0) {
    void (*fn)(void*) = g.watch_fn;
    g.watch_fn = 0;
    fn(g.watch_arg);
  }
  me->order = order;
  me->pc = __builtin_return_address(0);
  sched_point(me, kind, addr);
  if (addr) me->oldv[0] = read_bytes(addr, size, &me->oldv[1]);
}

static void spin_yield(Thr* me) {
  me->spinner = 1;
  me->pend_kind = MC_K_YIELD;
  me->pend_addr = 0;
  reschedule(me);
  me->fresh = 1;
}

static void post_impl(Thr* me, int kind, const volatile void* addr, unsigned size, void* result, const void* pc) {
  me->pend_kind = MC_K_NONE;
  if (kind == MC_K_FENCE) {
    me->hist = mix3(me->hist, kind, me->nops);
    me->nops++;
    if (wm_on()) {
      wm_check_thread(me);
      wm_fence(me, me->order);
    }
    return;
  }
  uint64_t hi;
  uint64_t nv = read_bytes(addr, size, &hi);
  int changed = (nv != me->oldv[0]) || (hi != me->oldv[1]);
  int mutating = (kind == MC_K_STORE) || changed;
  Loc* L = loc_get(addr, me);
  uint64_t read_id = L->last_store;
  if (wm_on()) {
    wm_check_thread(me);
    WmLoc* W = wm_of(L);
    wm_sync(L, W, me->oldv[0], me->oldv[1]); // history must end with what was in memory before the operation
    WmStore* last = &wm_store[W->last];
    if (kind == MC_K_LOAD && me->order != 5 && result && size <= 16) {
      // oldest store this load may still read
      WmThr* T = &wm_thr[me->id];
      uint32_t lo = W->seen[me->id];
      for (int si = W->last; si >= 0; si = wm_store[si].prev) {
        WmStore* s = &wm_store[si];
        if (s->idx <= lo) break;
        if (s->writer >= 0 && s->wclk <= T->vc[(int)s->writer]) {
          lo = s->idx; // this store happens-before the load: nothing older is readable
          break;
        }
      }
      int n = (int)(last->idx - lo) + 1;
      if (n > 8) n = 8;
      int c = n > 1 ? choose_alt(MC_K_STALE, n, 0xfe) : 0;
      WmStore* s = last;
      for (int k = 0; k < c; k++) s = &wm_store[s->prev];
      if (c) {
        unsigned char* out = (unsigned char*)result;
        const unsigned char* in = (const unsigned char*)s->v;
        for (unsigned i = 0; i < size; i++) out[i] = in[i];
        nv = s->v[0];
        hi = s->v[1];
        read_id = s->id;
        if (g.verbose) vlog("   [T%d reads an older store of loc%04x: %llx]\n", me->id, (unsigned)(L->name & 0xffff), (unsigned long long)nv);
      }
      wm_read_from(me, W, s, me->order);
    } else if (kind != MC_K_STORE) {
      wm_read_from(me, W, last, me->order); // RMW / CAS / seq_cst load: reads the latest store
    }
  }
  if (g.verbose)
    vlog("[%llu] T%d %s loc%04x %llx -> %llx%s\n", (unsigned long long)g.steps, me->id,
         kind == MC_K_LOAD ? "load " : kind == MC_K_STORE ? "store" : kind == MC_K_RMW ? "rmw  " : "cas  ",
         (unsigned)(L->name & 0xffff), (unsigned long long)me->oldv[0], (unsigned long long)nv, mutating ? "" : " (no change)");
  if (kind != MC_K_STORE) me->hist = mix4(me->hist, kind, L->name, mix2(read_id, canon_val(kind == MC_K_LOAD ? nv : me->oldv[0], size)));
  if (mutating) {
    uint64_t id = mix3(0x570e, me->id, me->nops);
    g.loc_xor ^= mix2(L->name, L->last_store) ^ mix2(L->name, id);
    L->last_store = id;
    if (wm_on()) {
      uint64_t h2;
      uint64_t cur = read_bytes(addr, size, &h2);
      wm_write(me, L, wm_of(L), cur, h2, id, me->order, kind != MC_K_STORE);
    }
    me->hist = mix3(me->hist, 0x57, L->name);
    me->nops++;
    g.wver++;
    me->own_writes++;
    me->burst = 0;
    wake_spinners();
    return;
  }
  me->nops++;
  // non-mutating: spin rule. By default any write (also the thread's own) resets the set of observations.
  // With opt.spin_own=1 only writes of OTHER threads do: a thread that keeps changing memory itself (e.g.
  // a cursor fetch_add in a retry loop) while re-reading the same value of a word nobody else has touched
  // is then recognised as waiting. That recognises more loops but also makes ordinary worker loops yield
  // far more often (20x more executions on a pool program), so it is opt-in.
  uint64_t seen_wver = g.opts[MC_OPT_SPIN_OWN] ? g.wver - me->own_writes : g.wver;
  if (me->spin_wver != seen_wver) {
    me->spin_wver = seen_wver;
    me->nspin = 0;
  }
  for (int i = 0; i < me->nspin; i++)
    if (me->spin[i].pc == pc && me->spin[i].addr == (const void*)addr && me->spin[i].val == nv) {
      if (me->burst && me->burst_iters++ < 100000) return; // spinning on through a deviation, see reschedule
      me->burst = 0;
      spin_yield(me);
      return;
    }
  if (me->nspin < SPINSET)
    me->spin[me->nspin++] = SpinEnt{pc, (const void*)addr, nv};
  else
    me->spin[g.steps % SPINSET] = SpinEnt{pc, (const void*)addr, nv};
}

extern "C" void mc_post(int kind, const volatile void* addr, unsigned size) {
  Thr* me = self_thr;
  if (!me) return;
  post_impl(me, kind, addr, size, 0, __builtin_return_address(0));
}
extern "C" void mc_post_load(const volatile void* addr, unsigned size, void* result) {
  Thr* me = self_thr;
  if (!me) return;
  post_impl(me, MC_K_LOAD, addr, size, result, __builtin_return_address(0));
}

extern "C" int mc_cas_weak_should_fail(const volatile void* addr) {
  Thr* me = self_thr;
  if (!me || g.casfail_left <= 0) return 0;
  (void)addr;
  int c = choose_alt(MC_K_CASFAIL, 2, 2);
  if (c) g.casfail_left--;
  return c;
}

// ----- mutex
extern "C" void mc_mutex_lock(void* m) {
  Thr* me = self_thr;
  if (!me) return;
  me->pc = __builtin_return_address(0);
  sched_point(me, MC_K_LOCK, m);
  Mtx* mx = mtx_get(m, 1);
  if (mx->owner >= 0) finish_process(MC_ST_ENGINE, "scheduled a lock on a held mutex");
  mx->owner = me->id;
  Loc* L = loc_get(m, me);
  me->hist = mix4(me->hist, MC_K_LOCK, L->name, L->last_store);
  uint64_t id = mix3(0x10cc, me->id, me->nops);
  g.loc_xor ^= mix2(L->name, L->last_store) ^ mix2(L->name, id);
  L->last_store = id;
  wm_acquire_on(me, L);
  me->nops++;
  me->pend_kind = MC_K_NONE;
  g.wver++;
  wake_spinners();
  vlog("[%llu] T%d lock  loc%04x\n", (unsigned long long)g.steps, me->id, (unsigned)(L->name & 0xffff));
}
extern "C" int mc_mutex_trylock(void* m) {
  Thr* me = self_thr;
  if (!me) return 1;
  sched_point(me, MC_K_TRYLOCK, m);
  Mtx* mx = mtx_get(m, 1);
  Loc* L = loc_get(m, me);
  me->hist = mix4(me->hist, MC_K_TRYLOCK, L->name, L->last_store);
  me->pend_kind = MC_K_NONE;
  me->nops++;
  if (mx->owner >= 0) {
    vlog("[%llu] T%d trylock loc%04x fails\n", (unsigned long long)g.steps, me->id, (unsigned)(L->name & 0xffff));
    return 0;
  }
  mx->owner = me->id;
  uint64_t id = mix3(0x10cc, me->id, me->nops);
  g.loc_xor ^= mix2(L->name, L->last_store) ^ mix2(L->name, id);
  L->last_store = id;
  wm_acquire_on(me, L);
  g.wver++;
  wake_spinners();
  vlog("[%llu] T%d trylock loc%04x ok\n", (unsigned long long)g.steps, me->id, (unsigned)(L->name & 0xffff));
  return 1;
}
extern "C" void mc_mutex_pre_unlock(void* m) {
  Thr* me = self_thr;
  if (!me) return;
  sched_point(me, MC_K_UNLOCK, m);
}
extern "C" void mc_mutex_unlocked(void* m) {
  Thr* me = self_thr;
  if (!me) return;
  Mtx* mx = mtx_get(m, 0);
  if (mx) {
    mx->owner = -1;
    mx->addr = 0;
  }
  Loc* L = loc_get(m, me);
  uint64_t id = mix3(0x0c10, me->id, me->nops);
  g.loc_xor ^= mix2(L->name, L->last_store) ^ mix2(L->name, id);
  L->last_store = id;
  wm_release_on(me, L);
  me->hist = mix3(me->hist, MC_K_UNLOCK, L->name);
  me->nops++;
  me->pend_kind = MC_K_NONE;
  g.wver++;
  wake_spinners();
  vlog("[%llu] T%d unlock loc%04x\n", (unsigned long long)g.steps, me->id, (unsigned)(L->name & 0xffff));
}

// ----- threads
extern "C" void AnnotateHappensBefore(const char* f, int l, const volatile void* a) __attribute__((weak));
extern "C" void AnnotateHappensAfter(const char* f, int l, const volatile void* a) __attribute__((weak));
struct Sentinel {
  Thr* t;
  Sentinel() : t(0) {}
  ~Sentinel();
};
static thread_local Sentinel tl_sentinel;

static void thread_finished(Thr* me) {
  vlog("[%llu] T%d finished\n", (unsigned long long)g.steps, me->id);
  me->state = TS_FINISHED;
  me->pend_kind = MC_K_END;
  me->hist = mix2(me->hist, 0xf1);
  g.ended_unreaped++;
  g.wver++;
  wake_spinners();
  self_thr = 0;
  if (AnnotateHappensBefore) AnnotateHappensBefore(__FILE__, __LINE__, &me->hb_token);
  reschedule(me);
  // The real thread does not exit yet: it parks until the main thread releases all threads of this
  // execution in a canonical order (descending stack address). glibc hands cached thread stacks out
  // LIFO, so the order of real exits decides which stack (hence which thread_local addresses, hence e.g.
  // which bucket of moodycamel's thread-id hash) the threads of the NEXT execution get; letting threads
  // exit whenever the schedule finished them made executions depend on their predecessors.
  while (__atomic_load_n(&me->release, __ATOMIC_ACQUIRE) == 0) raw_futex(&me->release, FUTEX_WAIT, 0, 0);
}
Sentinel::~Sentinel() {
  if (t && self_thr == t) thread_finished(t);
}

extern "C" int mc_thread_prepare(void) {
  Thr* me = self_thr;
  if (!me) return -1;
  sched_point(me, MC_K_SPAWN, 0);
  if (g.nthr >= MAXT) finish_process(MC_ST_ENGINE, "too many threads");
  Thr* t = &g.thr[g.nthr];
  memset(t, 0, sizeof *t);
  t->id = g.nthr++;
  t->state = TS_STARTING;
  t->hist = mix3(0x7, me->hist, me->nops);
  if (wm_on()) {
    wm_check_thread(me);
    wm_check_thread(t);
    wm_thr[me->id].vc[me->id]++;
    memset(&wm_thr[t->id], 0, sizeof wm_thr[0]);
    memcpy(wm_thr[t->id].vc, wm_thr[me->id].vc, sizeof wm_thr[0].vc);
  }
  me->hist = mix3(me->hist, MC_K_SPAWN, t->id);
  me->nops++;
  me->pend_kind = MC_K_NONE;
  g.wver++;
  wake_spinners();
  vlog("[%llu] T%d spawns T%d\n", (unsigned long long)g.steps, me->id, t->id);
  return t->id;
}
extern "C" void mc_thread_created(int id) {
  if (id < 0) return;
  Thr* t = &g.thr[id];
  // real-time wait until the child is parked, so its libc prelude cannot race with us
  while (__atomic_load_n(&t->started, __ATOMIC_ACQUIRE) == 0) raw_futex(&t->started, FUTEX_WAIT, 0, 0);
  t->state = TS_RUNNABLE;
  t->pend_kind = MC_K_START;
  t->fresh = 1;
}
extern "C" void mc_thread_begin(int id) {
  if (id < 0) return;
  Thr* t = &g.thr[id];
  self_thr = t;
  tl_sentinel.t = t;
  t->ktid = (int)raw_syscall6(SYS_gettid, 0, 0, 0, 0, 0, 0);
  t->stack_addr = (uintptr_t)&t;
  void* p = malloc(64); // pin this thread's allocator state before anyone else runs
  free(p);
  __atomic_store_n(&t->started, 1, __ATOMIC_RELEASE);
  raw_futex(&t->started, FUTEX_WAKE, 1, 0);
  wait_token(t);
  vlog("[%llu] T%d starts\n", (unsigned long long)g.steps, t->id);
}
extern "C" void mc_thread_join(int id) {
  Thr* me = self_thr;
  if (!me || id < 0) return;
  me->join_target = id;
  sched_point(me, MC_K_JOIN, 0);
  me->hist = mix4(me->hist, MC_K_JOIN, id, g.thr[id].hist);
  if (wm_on()) {
    wm_check_thread(me);
    vc_join(wm_thr[me->id].vc, wm_thr[id].vc);
  }
  // the real thread is parked, not gone (see thread_finished), so the shim detaches instead of joining;
  // the happens-before edge a real join would give TSan is supplied by annotation
  if (AnnotateHappensAfter) AnnotateHappensAfter(__FILE__, __LINE__, &g.thr[id].hb_token);
  me->nops++;
  me->pend_kind = MC_K_NONE;
  vlog("[%llu] T%d joined T%d\n", (unsigned long long)g.steps, me->id, id);
}
extern "C" void mc_thread_detach(int id) {
  if (id >= 0) g.thr[id].detached = 1;
}
extern "C" int mc_live_threads(void) {
  int n = 0;
  for (int i = 0; i < g.nthr; i++)
    if (g.thr[i].state != TS_FINISHED && g.thr[i].state != TS_NONE) n++;
  return n;
}

// modelled threads other than the caller that are blocked inside a futex wait right now (a harness uses it to
// state a precondition such as "every worker is parked" about the instant of a call it is about to make)
extern "C" int mc_futex_waiters(void) {
  int n = 0;
  for (int i = 0; i < g.nthr; i++)
    if (&g.thr[i] != self_thr && g.thr[i].state == TS_BLOCKED && g.thr[i].pend_kind == MC_K_FUTEX_WAIT) n++;
  return n;
}

// ----- harness services
extern "C" int mc_choose(int n) {
  Thr* me = self_thr;
  if (!me || n <= 1) return 0;
  int c = choose_alt(MC_K_CHOOSE, n, 0);
  me->hist = mix3(me->hist, MC_K_CHOOSE, c);
  me->nops++;
  return c;
}
extern "C" void mc_fail(const char* msg) { finish_process(MC_ST_VIOLATION, "%s", msg); }
extern "C" void mc_observe(uint64_t h) { g.obs += mix64(h); }
extern "C" void mc_cover(const char* name) {
  McSlot* s = g.slot;
  if (!s) return;
  // own byte loops: strncmp/strncpy are intercepted by TSan even from this uninstrumented TU, which
  // made the engine race with itself when two modelled threads registered markers
  const unsigned cap = sizeof s->cover[0] - 1;
  for (uint32_t i = 0; i < s->ncover; i++) {
    unsigned k = 0;
    while (k < cap && s->cover[i][k] == name[k] && name[k]) k++;
    if (k == cap || (s->cover[i][k] == 0 && name[k] == 0)) return;
  }
  if (s->ncover < MC_MAX_COVER) {
    unsigned k = 0;
    for (; k < cap && name[k]; k++) s->cover[s->ncover][k] = name[k];
    s->cover[s->ncover][k] = 0;
    s->ncover++;
  }
}
extern "C" void mc_block_until(int (*pred)(void*), void* arg) {
  Thr* me = self_thr;
  if (!me) {
    while (!pred(arg)) raw_sleep_us(50);
    return;
  }
  me->pred = pred;
  me->pred_arg = arg;
  me->fresh = 0;
  sched_point(me, MC_K_BLOCK, 0);
  me->hist = mix3(me->hist, MC_K_BLOCK, me->nops);
  me->nops++;
  me->pend_kind = MC_K_NONE;
}
extern "C" void mc_user_point(const void* tag) {
  Thr* me = self_thr;
  if (!me) return;
  (void)tag;
  sched_point(me, MC_K_USER, 0);
  me->hist = mix3(me->hist, MC_K_USER, me->nops);
  me->nops++;
  me->pend_kind = MC_K_NONE;
}
extern "C" uint64_t mc_now_ns(void) { return g.now_ns; }
extern "C" void mc_set_opt(int opt, long val) {
  if (opt < 0 || opt >= MC_OPT_COUNT) return;
  g.opts[opt] = val;
  if (opt == MC_OPT_SPURIOUS) g.spur_left = val;
  if (opt == MC_OPT_CASFAIL) g.casfail_left = val;
}
extern "C" long mc_get_opt(int opt) { return (opt >= 0 && opt < MC_OPT_COUNT) ? g.opts[opt] : 0; }

// ----- lifetime registry
#define NTRACK 8192
static struct { const void* p; long tag; } g_track[NTRACK];
static long g_track_live, g_track_total;
static int track_find(const void* p, int want_free) {
  uint64_t h = mix64((uint64_t)p) & (NTRACK - 1);
  int tomb = -1;
  for (int i = 0; i < NTRACK; i++) {
    int k = (int)((h + i) & (NTRACK - 1));
    if (g_track[k].p == p) return k;
    if (g_track[k].p == (const void*)1 && tomb < 0) tomb = k;
    if (!g_track[k].p) return want_free ? (tomb >= 0 ? tomb : k) : -1;
  }
  return want_free ? tomb : -1;
}
extern "C" void mc_track_ctor(const void* p, long tag) {
  int k = track_find(p, 0);
  if (k >= 0) finish_process(MC_ST_VIOLATION, "lifetime: object constructed over a live object (tag %ld over tag %ld)", tag, g_track[k].tag);
  k = track_find(p, 1);
  if (k < 0) finish_process(MC_ST_ENGINE, "lifetime registry full");
  g_track[k].p = p;
  g_track[k].tag = tag;
  g_track_live++;
  g_track_total++;
}
extern "C" void mc_track_dtor(const void* p) {
  // Element destructors are plain code that containers run right after a release store ("slot is free
  // again"). A scheduling point here lets the explorer place another thread between that store and the
  // destructor, which is where publish-before-destroy bugs live.
  Thr* me = self_thr;
  if (me && g.opts[MC_OPT_TRACK_POINTS]) {
    sched_point(me, MC_K_USER, 0);
    me->hist = mix3(me->hist, MC_K_USER, me->nops);
    me->nops++;
    me->pend_kind = MC_K_NONE;
  }
  int k = track_find(p, 0);
  if (k < 0) finish_process(MC_ST_VIOLATION, "lifetime: destructor on an object that is not live (double destroy or never constructed)");
  g_track[k].p = (const void*)1;
  g_track_live--;
}
extern "C" void mc_track_point(void) {
  Thr* me = self_thr;
  if (me && g.opts[MC_OPT_TRACK_POINTS]) {
    sched_point(me, MC_K_USER, 0);
    me->hist = mix3(me->hist, MC_K_USER, me->nops);
    me->nops++;
    me->pend_kind = MC_K_NONE;
  }
}
extern "C" void mc_track_use(const void* p) {
  if (track_find(p, 0) < 0) finish_process(MC_ST_VIOLATION, "lifetime: use of an object that is not live");
}
extern "C" long mc_track_live(void) { return g_track_live; }
extern "C" long mc_track_total(void) { return g_track_total; }

// ---------------------------------------------------------------------------------------------
// futex model
static long model_futex(int* uaddr, int op, int val, const struct timespec* timeout) {
  Thr* me = self_thr;
  int cmd = op & ~(FUTEX_PRIVATE_FLAG | FUTEX_CLOCK_REALTIME);
  if (cmd == FUTEX_WAIT) {
    me->pc = __builtin_return_address(0);
    sched_point(me, MC_K_FUTEX_WAIT, uaddr);
    int cur = (int)read_bytes(uaddr, 4, 0);
    Loc* L = loc_get(uaddr, me);
    me->hist = mix4(me->hist, MC_K_FUTEX_WAIT, L->name, mix2(L->last_store, (uint64_t)(uint32_t)cur));
    me->nops++;
    if (cur != val) {
      me->pend_kind = MC_K_NONE;
      vlog("[%llu] T%d futex_wait loc%04x: value %d != %d, EAGAIN\n", (unsigned long long)g.steps, me->id, (unsigned)(L->name & 0xffff), cur, val);
      errno = EAGAIN;
      return -1;
    }
    me->state = TS_BLOCKED;
    me->block_seq = ++g.block_seq;
    me->wake_reason = 0;
    me->deadline = 0;
    if (timeout) {
      uint64_t rel = (uint64_t)timeout->tv_sec * 1000000000ULL + (uint64_t)timeout->tv_nsec;
      me->deadline = g.now_ns + rel + 1;
    }
    vlog("[%llu] T%d futex_wait loc%04x blocks%s\n", (unsigned long long)g.steps, me->id, (unsigned)(L->name & 0xffff), timeout ? " (timed)" : "");
    reschedule(me);
    me->fresh = 1;
    me->hist = mix3(me->hist, 0xfa, (uint64_t)me->wake_reason);
    if (me->wake_reason == 1) {
      errno = ETIMEDOUT;
      return -1;
    }
    if (me->wake_reason == 2) {
      errno = EINTR;
      return -1;
    }
    return 0;
  }
  if (cmd == FUTEX_WAKE) {
    sched_point(me, MC_K_FUTEX_WAKE, uaddr);
    int w[MAXT];
    int k = 0;
    for (int i = 0; i < g.nthr; i++)
      if (g.thr[i].state == TS_BLOCKED && g.thr[i].pend_kind == MC_K_FUTEX_WAIT && g.thr[i].pend_addr == (const volatile void*)uaddr) w[k++] = i;
    // FIFO order
    for (int i = 0; i < k; i++)
      for (int j = i + 1; j < k; j++)
        if (g.thr[w[j]].block_seq < g.thr[w[i]].block_seq) {
          int tmp = w[i];
          w[i] = w[j];
          w[j] = tmp;
        }
    int n = val < 0 ? 0 : val;
    int woken = 0;
    int pick[MAXT];
    if (n >= k) {
      for (int i = 0; i < k; i++) pick[woken++] = w[i];
    } else if (n > 0) {
      // choose which n of the k waiters: enumerate combinations in lexicographic order, FIFO first
      int comb[MAXT];
      for (int i = 0; i < n; i++) comb[i] = i;
      long ncomb = 1;
      for (int i = 0; i < n; i++) {
        ncomb = ncomb * (k - i) / (i + 1);
        if (ncomb > 64) {
          ncomb = 64;
          break;
        }
      }
      uint64_t cm = 0;
      if (g.opts[MC_OPT_WAKEPICK_COST])
        for (int i = 1; i < ncomb; i++) cm |= (1ULL << i);
      int c = choose_alt(MC_K_WAKEPICK, (int)ncomb, cm);
      for (int step = 0; step < c; step++) {
        int i = n - 1;
        while (i >= 0 && comb[i] == k - n + i) i--;
        if (i < 0) break;
        comb[i]++;
        for (int j = i + 1; j < n; j++) comb[j] = comb[j - 1] + 1;
      }
      for (int i = 0; i < n; i++) pick[woken++] = w[comb[i]];
    }
    Loc* L = loc_get(uaddr, me);
    uint64_t wh = 0;
    for (int i = 0; i < woken; i++) {
      Thr* t = &g.thr[pick[i]];
      t->state = TS_RUNNABLE;
      t->wake_reason = 0;
      t->deadline = 0;
      t->pend_kind = MC_K_NONE;
      t->pend_addr = 0;
      wh += mix64(t->id + 1);
    }
    me->hist = mix4(me->hist, MC_K_FUTEX_WAKE, L->name, wh);
    me->nops++;
    me->pend_kind = MC_K_NONE;
    if (woken) {
      g.wver++;
      wake_spinners();
    }
    if (g.verbose) {
      char b[128];
      int off = 0;
      for (int i = 0; i < woken && off < 100; i++) off += snprintf(b + off, sizeof b - off, " T%d", pick[i]);
      b[off] = 0;
      vlog("[%llu] T%d futex_wake loc%04x n=%d of %d waiters ->%s\n", (unsigned long long)g.steps, me->id, (unsigned)(L->name & 0xffff), val, k, woken ? b : " none");
    }
    return woken;
  }
  finish_process(MC_ST_ENGINE, "unmodelled futex op %d", op);
}

extern "C" long syscall(long n, ...) {
  va_list ap;
  va_start(ap, n);
  long a = va_arg(ap, long), b = va_arg(ap, long), c = va_arg(ap, long), d = va_arg(ap, long), e = va_arg(ap, long), f = va_arg(ap, long);
  va_end(ap);
  if (n == SYS_futex && self_thr) return model_futex((int*)a, (int)b, (int)c, (const struct timespec*)d);
  long r = raw_syscall6(n, a, b, c, d, e, f);
  if (r < 0 && r > -4096) {
    errno = (int)-r;
    return -1;
  }
  return r;
}

extern "C" int sched_yield(void) {
  Thr* me = self_thr;
  if (!me) return (int)raw_syscall6(SYS_sched_yield, 0, 0, 0, 0, 0, 0);
  me->hist = mix3(me->hist, MC_K_YIELD, me->nops);
  me->nops++;
  vlog("[%llu] T%d yield\n", (unsigned long long)g.steps, me->id);
  spin_yield(me);
  return 0;
}

// ----- time
#define CLOCK_EPS_NS 10000ULL
static void model_sleep(Thr* me, uint64_t ns) {
  sched_point(me, MC_K_SLEEP, 0);
  me->hist = mix3(me->hist, MC_K_SLEEP, ns);
  me->nops++;
  me->state = TS_BLOCKED;
  me->pend_kind = MC_K_SLEEP;
  me->pend_addr = 0;
  me->block_seq = ++g.block_seq;
  me->deadline = g.now_ns + ns + 1;
  vlog("[%llu] T%d sleeps %llu ns\n", (unsigned long long)g.steps, me->id, (unsigned long long)ns);
  reschedule(me);
  me->fresh = 1;
}
extern "C" int nanosleep(const struct timespec* req, struct timespec* rem) {
  Thr* me = self_thr;
  if (!me) {
    long r = raw_syscall6(SYS_nanosleep, (long)req, (long)rem, 0, 0, 0, 0);
    if (r < 0) {
      errno = (int)-r;
      return -1;
    }
    return 0;
  }
  model_sleep(me, (uint64_t)req->tv_sec * 1000000000ULL + (uint64_t)req->tv_nsec);
  return 0;
}
extern "C" int usleep(useconds_t us) {
  struct timespec ts;
  ts.tv_sec = us / 1000000;
  ts.tv_nsec = (long)(us % 1000000) * 1000;
  return nanosleep(&ts, 0);
}
extern "C" int clock_nanosleep(clockid_t clk, int flags, const struct timespec* req, struct timespec* rem) {
  Thr* me = self_thr;
  if (!me) {
    long r = raw_syscall6(SYS_clock_nanosleep, clk, flags, (long)req, (long)rem, 0, 0);
    return r < 0 ? (int)-r : 0;
  }
  uint64_t t = (uint64_t)req->tv_sec * 1000000000ULL + (uint64_t)req->tv_nsec;
  if (flags & TIMER_ABSTIME) t = t > g.now_ns ? t - g.now_ns : 0;
  model_sleep(me, t);
  return 0;
}
extern "C" int clock_gettime(clockid_t clk, struct timespec* ts) {
  Thr* me = self_thr;
  if (!me) {
    long r = raw_syscall6(SYS_clock_gettime, clk, (long)ts, 0, 0, 0, 0);
    if (r < 0) {
      errno = (int)-r;
      return -1;
    }
    return 0;
  }
  g.now_ns += CLOCK_EPS_NS;
  uint64_t t = g.now_ns + 1000000000ULL; // epoch offset so that "now - small" never underflows
  ts->tv_sec = (time_t)(t / 1000000000ULL);
  ts->tv_nsec = (long)(t % 1000000000ULL);
  me->hist = mix3(me->hist, 0xc10c, g.now_ns);
  return 0;
}
extern "C" int gettimeofday(struct timeval* tv, void* tz) {
  (void)tz;
  struct timespec ts;
  clock_gettime(CLOCK_REALTIME, &ts);
  tv->tv_sec = ts.tv_sec;
  tv->tv_usec = ts.tv_nsec / 1000;
  return 0;
}

// ----- semaphores (moodycamel LightweightSemaphore)
typedef int (*sem_fn1)(sem_t*);
static void* real_sym(const char* name) { return dlsym(RTLD_NEXT, name); }

extern "C" int sem_init(sem_t* s, int pshared, unsigned value) {
  if (!self_thr) {
    typedef int (*fn)(sem_t*, int, unsigned);
    return ((fn)real_sym("sem_init"))(s, pshared, value);
  }
  memset(s, 0, sizeof *s);
  Sem* m = sem_get(s, 1);
  m->count = value;
  return 0;
}
extern "C" int sem_destroy(sem_t* s) {
  if (!self_thr) return ((sem_fn1)real_sym("sem_destroy"))(s);
  Sem* m = sem_get(s, 0);
  if (m) m->used = 0;
  return 0;
}
static int model_sem_wait(sem_t* s, int try_only, uint64_t deadline) {
  Thr* me = self_thr;
  Sem* m = sem_get(s, 1);
  Loc* L = loc_get(s, me);
  if (try_only) {
    sched_point(me, MC_K_TRYLOCK, s);
    me->hist = mix4(me->hist, MC_K_SEM_WAIT, L->name, mix2(L->last_store, (uint64_t)m->count));
    me->nops++;
    me->pend_kind = MC_K_NONE;
    if (m->count <= 0) {
      errno = EAGAIN;
      return -1;
    }
  } else {
    me->timed_out = 0;
    me->deadline = deadline;
    me->fresh = 0;
    sched_point(me, MC_K_SEM_WAIT, s);
    me->deadline = 0;
    me->hist = mix4(me->hist, MC_K_SEM_WAIT, L->name, mix2(L->last_store, (uint64_t)me->timed_out));
    me->nops++;
    me->pend_kind = MC_K_NONE;
    if (me->timed_out && m->count <= 0) {
      me->timed_out = 0;
      vlog("[%llu] T%d sem_wait times out\n", (unsigned long long)g.steps, me->id);
      errno = ETIMEDOUT;
      return -1;
    }
    me->timed_out = 0;
  }
  m->count--;
  uint64_t id = mix3(0x5e, me->id, me->nops);
  g.loc_xor ^= mix2(L->name, L->last_store) ^ mix2(L->name, id);
  L->last_store = id;
  wm_acquire_on(me, L);
  g.wver++;
  wake_spinners();
  vlog("[%llu] T%d sem_wait ok (count now %ld)\n", (unsigned long long)g.steps, me->id, m->count);
  return 0;
}
extern "C" int sem_wait(sem_t* s) {
  if (!self_thr) return ((sem_fn1)real_sym("sem_wait"))(s);
  return model_sem_wait(s, 0, 0);
}
extern "C" int sem_trywait(sem_t* s) {
  if (!self_thr) return ((sem_fn1)real_sym("sem_trywait"))(s);
  return model_sem_wait(s, 1, 0);
}
static uint64_t abs_to_deadline(const struct timespec* ts) {
  uint64_t t = (uint64_t)ts->tv_sec * 1000000000ULL + (uint64_t)ts->tv_nsec;
  t = t > 1000000000ULL ? t - 1000000000ULL : 0; // undo the epoch offset of clock_gettime
  return t > g.now_ns ? t + 1 : g.now_ns + 1;
}
extern "C" int sem_timedwait(sem_t* s, const struct timespec* ts) {
  if (!self_thr) {
    typedef int (*fn)(sem_t*, const struct timespec*);
    return ((fn)real_sym("sem_timedwait"))(s, ts);
  }
  return model_sem_wait(s, 0, abs_to_deadline(ts));
}
extern "C" int sem_clockwait(sem_t* s, clockid_t clk, const struct timespec* ts) {
  if (!self_thr) {
    typedef int (*fn)(sem_t*, clockid_t, const struct timespec*);
    return ((fn)real_sym("sem_clockwait"))(s, clk, ts);
  }
  return model_sem_wait(s, 0, abs_to_deadline(ts));
}
extern "C" int sem_post(sem_t* s) {
  if (!self_thr) return ((sem_fn1)real_sym("sem_post"))(s);
  Thr* me = self_thr;
  sched_point(me, MC_K_SEM_POST, s);
  Sem* m = sem_get(s, 1);
  Loc* L = loc_get(s, me);
  m->count++;
  uint64_t id = mix3(0x5f, me->id, me->nops);
  g.loc_xor ^= mix2(L->name, L->last_store) ^ mix2(L->name, id);
  L->last_store = id;
  wm_release_on(me, L);
  me->hist = mix3(me->hist, MC_K_SEM_POST, L->name);
  me->nops++;
  me->pend_kind = MC_K_NONE;
  g.wver++;
  wake_spinners();
  vlog("[%llu] T%d sem_post (count now %ld)\n", (unsigned long long)g.steps, me->id, m->count);
  return 0;
}

// ----- function-local static guards (linked with -Wl,--wrap=__cxa_guard_acquire etc.)
extern "C" int __real___cxa_guard_acquire(void*);
extern "C" void __real___cxa_guard_release(void*);
extern "C" void __real___cxa_guard_abort(void*);
extern "C" int __wrap___cxa_guard_acquire(void* gp) {
  Thr* me = self_thr;
  if (!me) return __real___cxa_guard_acquire(gp);
  me->fresh = 0;
  sched_point(me, MC_K_GUARD, gp);
  me->pend_kind = MC_K_NONE;
  int r = __real___cxa_guard_acquire(gp);
  Loc* L = loc_get(gp, me);
  me->hist = mix4(me->hist, MC_K_GUARD, L->name, mix2(L->last_store, (uint64_t)r));
  wm_acquire_on(me, L);
  me->nops++;
  if (r) {
    Guard* gd = guard_get(gp, 1);
    gd->owner = me->id;
  }
  return r;
}
static void guard_done(void* gp) {
  Thr* me = self_thr;
  if (!me) return;
  Guard* gd = guard_get(gp, 0);
  if (gd) {
    gd->owner = -1;
    gd->addr = 0;
  }
  Loc* L = loc_get(gp, me);
  uint64_t id = mix3(0x6a, me->id, me->nops);
  g.loc_xor ^= mix2(L->name, L->last_store) ^ mix2(L->name, id);
  L->last_store = id;
  wm_release_on(me, L);
  me->nops++;
  g.wver++;
  wake_spinners();
}
extern "C" void __wrap___cxa_guard_release(void* gp) {
  __real___cxa_guard_release(gp);
  guard_done(gp);
}
extern "C" void __wrap___cxa_guard_abort(void* gp) {
  __real___cxa_guard_abort(gp);
  guard_done(gp);
}

// ---------------------------------------------------------------------------------------------
// child entry
static void* t0_main(void* arg) {
  (void)arg;
  mc_thread_begin(0);
  g.cfg.body(g.cfg.body_arg);
  return 0;
}

static void reset_state() {
  McChildCfg keep = g.cfg;
  memset(&g, 0, sizeof g);
  g.cfg = keep;
  memset(g_track, 0, sizeof g_track);
  g_track_live = 0;
  g_track_total = 0;
  if (keep.opts[MC_OPT_WM]) wm_reset();
}

// Runs one execution in this process. Returns MC_ST_OK after a clean execution (all modelled threads
// have ended and left the kernel, so the process is single-threaded again and can run the next one);
// every other outcome ends the process after writing the verdict into the slot.
extern "C" int mc_run_execution(const McChildCfg* cfg) {
  g.cfg = *cfg;
  reset_state();
  g.slot = cfg->slot;
  g.verbose = cfg->verbose;
  g.pid = (int)raw_syscall6(SYS_getpid, 0, 0, 0, 0, 0, 0);
  for (int i = 0; i < MC_OPT_COUNT; i++) g.opts[i] = cfg->opts[i];
  g.spur_left = g.opts[MC_OPT_SPURIOUS];
  g.casfail_left = g.opts[MC_OPT_CASFAIL];
  g.nthr = 1;
  g.active = 1;
  if (cfg->reset_hook) cfg->reset_hook();
  Thr* t0 = &g.thr[0];
  t0->id = 0;
  t0->state = TS_STARTING;
  t0->hist = 0x70;
  pthread_t pt;
  pthread_attr_t at;
  pthread_attr_init(&at);
  pthread_attr_setstacksize(&at, 2u << 20);
  if (pthread_create(&pt, &at, t0_main, 0)) finish_process(MC_ST_ENGINE, "pthread_create failed");
  pthread_attr_destroy(&at);
  while (__atomic_load_n(&t0->started, __ATOMIC_ACQUIRE) == 0) raw_futex(&t0->started, FUTEX_WAIT, 0, 0);
  t0->state = TS_RUNNABLE;
  t0->fresh = 1;
  g.running = 0;
  give_token(t0);
  struct timespec ts;
  ts.tv_sec = 1;
  ts.tv_nsec = 0;
  int waited = 0;
  while (__atomic_load_n(&g.done, __ATOMIC_ACQUIRE) == 0) {
    long r = raw_futex(&g.done, FUTEX_WAIT, 0, &ts);
    if (r == -ETIMEDOUT && ++waited >= cfg->wall_seconds) {
      // not finish_process(): the scheduler state is being mutated by another thread
      McSlot* s = g.slot;
      snprintf(s->msg, sizeof s->msg, "wall-clock watchdog (%d s) at step %llu, running T%d", cfg->wall_seconds, (unsigned long long)g.steps, g.running);
      s->steps = g.steps;
      s->nrecs = g.nrecs;
      __atomic_store_n(&s->status, MC_ST_WALL, __ATOMIC_SEQ_CST);
      raw_syscall6(SYS_exit_group, 40 + MC_ST_WALL, 0, 0, 0, 0, 0);
    }
  }
  // every modelled thread has finished and is parked; let the real threads go in descending stack
  // address order, each one completely before the next
  for (;;) {
    Thr* best = 0;
    for (int i = 0; i < g.nthr; i++) {
      Thr* t = &g.thr[i];
      if (t->state == TS_FINISHED && !t->release && (!best || t->stack_addr > best->stack_addr)) best = t;
    }
    if (!best) break;
    __atomic_store_n(&best->release, 1, __ATOMIC_RELEASE);
    raw_futex(&best->release, FUTEX_WAKE, 1, 0);
    reap_ended();
  }
  pthread_join(pt, 0);
  g.slot->final_hash = state_hash();
  g.active = 0;
  if (cfg->finish_hook) {
    char msg[900];
    msg[0] = 0;
    int r = cfg->finish_hook(msg, sizeof msg);
    if (r) finish_process(r == 2 ? MC_ST_LEAK : MC_ST_VIOLATION, "%s", msg);
  }
  McSlot* s = g.slot;
  snprintf(s->msg, sizeof s->msg, "ok");
  s->steps = g.steps;
  s->nrecs = g.nrecs;
  s->obs_digest = g.obs;
  s->vclock_ns = g.now_ns;
  s->nthreads = g.nthr;
  __atomic_store_n(&s->status, MC_ST_OK, __ATOMIC_SEQ_CST);
  if (g.verbose) vlog("== ok\n");
  return MC_ST_OK;
}
