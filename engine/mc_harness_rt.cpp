// Harness runtime: registry, spawned-thread list, end-of-execution checks, sanitizer defaults.
// Compiled in the harness' build mode (instrumented) with the shim.
#include "mc_harness.h"
#include <dispenso/small_buffer_allocator.h>
#include <dispenso/detail/small_buffer_allocator_impl.h>

#ifndef MC_MODE
#define MC_MODE "plain"
#endif

struct McHarnessEntry {
  const char* name;
  void (*run)(const char* const* kv, int nkv);
};

namespace {
struct Reg {
  const char* name;
  mc::BodyFn fn;
};
Reg g_regs[32];
int g_nregs;
McHarnessEntry g_table[32];
std::vector<std::thread>* g_threads;
mc::real_mutex g_threads_mu;

template <int I>
void run_i(const char* const* kv, int nkv) {
  mc::Params P;
  for (int i = 0; i < nkv; i++) {
    std::string s = kv[i];
    size_t eq = s.find('=');
    if (eq != std::string::npos) P.set(s.substr(0, eq), s.substr(eq + 1));
  }
  g_regs[I].fn(P);
  if (g_threads && !g_threads->empty()) mc_fail("harness bug: body returned with unjoined spawned threads (call mc::join_all() before locals die)");
}
typedef void (*RunFn)(const char* const*, int);
template <int... Is>
struct Seq {};
template <int N, int... Is>
struct Gen : Gen<N - 1, N - 1, Is...> {};
template <int... Is>
struct Gen<0, Is...> {
  typedef Seq<Is...> type;
};
template <int... Is>
void fill(RunFn* out, Seq<Is...>) {
  RunFn fns[] = {&run_i<Is>...};
  for (unsigned i = 0; i < sizeof...(Is); i++) out[i] = fns[i];
}
} // namespace

namespace mc {
Registrar::Registrar(const char* name, BodyFn f) {
  if (g_nregs < 32) {
    g_regs[g_nregs].name = name;
    g_regs[g_nregs].fn = f;
    g_nregs++;
  }
}
void add_thread(std::thread&& t) {
  g_threads_mu.lock();
  if (!g_threads) g_threads = new std::vector<std::thread>();
  g_threads->push_back(std::move(t));
  g_threads_mu.unlock();
}
void join_all() {
  for (;;) {
    g_threads_mu.lock();
    if (!g_threads || g_threads->empty()) {
      delete g_threads;
      g_threads = nullptr;
      g_threads_mu.unlock();
      return;
    }
    std::thread t = std::move(g_threads->back());
    g_threads->pop_back();
    g_threads_mu.unlock();
    if (t.joinable()) t.join();
  }
}
} // namespace mc

extern "C" const McHarnessEntry* mc_harness_table(int* n) {
  RunFn fns[32];
  fill(fns, Gen<32>::type());
  for (int i = 0; i < g_nregs; i++) {
    g_table[i].name = g_regs[i].name;
    g_table[i].run = fns[i];
  }
  *n = g_nregs;
  return g_table;
}

extern "C" const char* mc_build_mode(void) { return MC_MODE; }

#if defined(__has_feature)
#if __has_feature(address_sanitizer)
#define MC_ASAN 1
#endif
#if __has_feature(thread_sanitizer)
#define MC_TSAN 1
#endif
#endif

#ifdef MC_ASAN
extern "C" int __lsan_do_recoverable_leak_check(void);
extern "C" size_t __sanitizer_get_current_allocated_bytes(void);
static size_t g_alloc_before;
static long g_leak_checks;
extern "C" const char* __asan_default_options() {
  return "detect_leaks=1:use_sigaltstack=0:exitcode=77:abort_on_error=0:detect_stack_use_after_return=0:allocator_may_return_null=1:print_summary=1:malloc_context_size=12";
}
extern "C" const char* __ubsan_default_options() { return "print_stacktrace=1:halt_on_error=1"; }
extern "C" const char* __lsan_default_options() { return "exitcode=0:print_suppressions=0"; }
#endif
#ifdef MC_TSAN
extern "C" const char* __tsan_default_options() {
  return "halt_on_error=1:exitcode=66:report_signal_unsafe=0:detect_deadlocks=0:history_size=4";
}
#endif

extern "C" int mc_finish_hook(char* msg, int cap) {
  long live = mc_track_live();
  if (live != 0) {
    snprintf(msg, cap, "lifetime: %ld tracked object(s) never destroyed (of %ld constructed)", live, mc_track_total());
    return 1;
  }
#ifdef MC_ASAN
  // Cheap screen first: the heap must be back to the byte count it had before the execution. Only a
  // growth is followed by the (expensive, stop-the-world) reachability scan, which then decides.
  size_t now = __sanitizer_get_current_allocated_bytes();
  if (now > g_alloc_before) {
    g_leak_checks++;
    if (__lsan_do_recoverable_leak_check()) {
      snprintf(msg, cap, "LeakSanitizer: memory leaked by this execution (%zu bytes more than before it)", now - g_alloc_before);
      return 2;
    }
  }
#endif
  return 0;
}

// ---------------------------------------------------------------------------------------------
// Process-wide program state. Executions run one after the other in the same worker process, so
// everything dispenso keeps outside the objects a harness creates must be put back to its initial
// value before each execution; the explorer verifies the effect (state hashes of every replayed prefix
// must match the hashes recorded by whichever process produced them).
namespace dispenso {
namespace detail {
template <size_t N>
SmallBufferGlobals& getSmallBufferGlobals();
}
} // namespace dispenso

namespace dispenso {
extern std::atomic<uint64_t> nextThread; // thread_id.cpp
}

namespace mc {
void (*g_user_prewarm)() = nullptr;
void (*g_user_reset)() = nullptr;
}

template <size_t N>
static void reset_small_buffers() {
  // Touch through the public entry point so the function-local static exists (prewarm), then rebuild
  // the globals in place: no thread is alive, so no thread-local cache refers to the old backing store.
  auto& g = dispenso::detail::getSmallBufferGlobals<N>();
  g.~SmallBufferGlobals();
  new (&g) dispenso::detail::SmallBufferGlobals();
}

extern "C" void mc_reset_hook(void) {
  reset_small_buffers<4>();
  reset_small_buffers<8>();
  reset_small_buffers<16>();
  reset_small_buffers<32>();
  reset_small_buffers<64>();
  reset_small_buffers<128>();
  reset_small_buffers<256>();
  dispenso::nextThread.a_.store(0, std::memory_order_relaxed); // threadId() numbering restarts with each execution
  if (mc::g_user_reset) mc::g_user_reset();
#ifdef MC_ASAN
  g_alloc_before = __sanitizer_get_current_allocated_bytes();
#endif
}

extern "C" void mc_prewarm_hook(void) {
  // function-local statics whose guards would otherwise be scheduling points of the first execution only
  mc_reset_hook();
  if (mc::g_user_prewarm) mc::g_user_prewarm();
}
