// C interface between instrumented code (shim, harness) and the uninstrumented scheduler.
#pragma once
#include <stddef.h>
#include <stdint.h>

#ifdef __cplusplus
extern "C" {
#endif

enum {
  MC_K_NONE = 0,
  MC_K_LOAD = 1,
  MC_K_STORE,
  MC_K_RMW,
  MC_K_CAS,
  MC_K_FENCE,
  MC_K_LOCK,
  MC_K_TRYLOCK,
  MC_K_UNLOCK,
  MC_K_SPAWN,
  MC_K_JOIN,
  MC_K_FUTEX_WAIT,
  MC_K_FUTEX_WAKE,
  MC_K_YIELD,
  MC_K_SLEEP,
  MC_K_SEM_WAIT,
  MC_K_SEM_POST,
  MC_K_GUARD,
  MC_K_BLOCK,
  MC_K_CHOOSE,
  MC_K_START,
  MC_K_END,
  MC_K_USER,
  MC_K_TIMEOUT, // pseudo kind used in choice records
  MC_K_WAKEPICK,
  MC_K_SPURIOUS,
  MC_K_CASFAIL,
  MC_K_STALE, // wm: read an older store
};

// options settable by the harness body (mc_set_opt) or from the command line (opt.<name>=v)
enum {
  MC_OPT_TIMEOUTS = 0, // 1: timed waits may expire when nothing else can run (default 1)
  MC_OPT_TIMEOUT_RACE, // 1: timed waits may also expire while others are enabled (deviation)
  MC_OPT_WAKEPICK_COST, // cost of a non-default futex waiter pick (default 1)
  MC_OPT_SPURIOUS, // number of spurious futex returns allowed per execution (deviation each)
  MC_OPT_CASFAIL, // number of spurious weak-CAS failures allowed (deviation each)
  MC_OPT_SPIN_DEV, // 1: scheduling a spinner while others are enabled is offered as deviation
  MC_OPT_WM, // 1: weak-memory stale reads offered as deviations
  MC_OPT_FREE_SWITCH_COST, // cost of choosing a non-default thread when the running one blocked
  MC_OPT_TRACK_POINTS, // 1 (default): the destructor of a lifetime-tracked object is a scheduling point
  MC_OPT_SPIN_OWN, // 1: a thread's own writes do not reset its spin-detection set (see mc_sched.cpp)
  MC_OPT_COUNT
};

int mc_on(void);
void mc_pre(int kind, const volatile void* addr, unsigned size, int order);
void mc_post(int kind, const volatile void* addr, unsigned size);
void mc_post_load(const volatile void* addr, unsigned size, void* result); /* may replace *result by an older store (opt.wm) */
int mc_cas_weak_should_fail(const volatile void* addr);

void mc_mutex_lock(void* m);
int mc_mutex_trylock(void* m);
void mc_mutex_pre_unlock(void* m);
void mc_mutex_unlocked(void* m);

int mc_thread_prepare(void);
void mc_thread_created(int id);
void mc_thread_begin(int id);
void mc_thread_join(int id);
void mc_thread_detach(int id);
int mc_self_id(void);

int mc_choose(int n);
void mc_fail(const char* msg) __attribute__((noreturn));
void mc_observe(uint64_t h);
void mc_cover(const char* name);
void mc_block_until(int (*pred)(void*), void* arg);
void mc_user_point(const void* tag);
uint64_t mc_now_ns(void);
void mc_set_opt(int opt, long val);
long mc_get_opt(int opt);
void mc_log(const char* fmt, ...) __attribute__((format(printf, 1, 2)));
int mc_live_threads(void); // modelled threads not finished (including caller)
void mc_watch(const volatile void* addr, int tid, int nth, void (*fn)(void*), void* arg); // run fn on thread tid right before its nth access to addr
int mc_futex_waiters(void); // modelled threads other than the caller blocked in a futex wait right now

// lifetime registry (kept in the uninstrumented engine so that it adds no happens-before edges)
void mc_track_ctor(const void* p, long tag);
void mc_track_dtor(const void* p);
void mc_track_use(const void* p);
void mc_track_point(void); /* scheduling point if opt.track_points */
long mc_track_live(void);
long mc_track_total(void);

#ifdef __cplusplus
}
#endif
