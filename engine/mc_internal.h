// Shared between the scheduler (child side) and the explorer (parent side). Uninstrumented TUs only.
#pragma once
#include <stdint.h>
#include "mc_api.h"

enum {
  MC_ST_RUNNING = 0,
  MC_ST_OK = 1,
  MC_ST_VIOLATION = 2,
  MC_ST_DEADLOCK = 3,
  MC_ST_LIVELOCK = 4,
  MC_ST_TRUNCATED = 5,
  MC_ST_DIVERGED = 6,
  MC_ST_CRASH = 7, // set by the parent from the wait status
  MC_ST_SANITIZER = 8, // set by the parent from the exit code / stderr
  MC_ST_WALL = 9, // child's own watchdog fired
  MC_ST_ENGINE = 10,
  MC_ST_LEAK = 11,
};

static inline const char* mc_status_name(int s) {
  switch (s) {
    case MC_ST_RUNNING: return "running";
    case MC_ST_OK: return "ok";
    case MC_ST_VIOLATION: return "violation";
    case MC_ST_DEADLOCK: return "deadlock";
    case MC_ST_LIVELOCK: return "livelock";
    case MC_ST_TRUNCATED: return "truncated";
    case MC_ST_DIVERGED: return "diverged";
    case MC_ST_CRASH: return "crash";
    case MC_ST_SANITIZER: return "sanitizer";
    case MC_ST_WALL: return "wall_timeout";
    case MC_ST_ENGINE: return "engine_error";
    case MC_ST_LEAK: return "leak";
  }
  return "?";
}

struct McRec {
  uint64_t hash; // state hash before the choice
  uint64_t costmask; // bit i = cost of alternative i (0/1)
  uint8_t nalts;
  uint8_t chosen;
  uint8_t kind; // MC_K_* of the choice (scheduling = MC_K_NONE)
  uint8_t run; // running thread id
  uint32_t step;
};

#define MC_MAX_RECS 262144
#define MC_MAX_COVER 48

struct McSlot {
  volatile int status;
  int exit_code;
  char msg[1024];
  uint64_t steps;
  uint64_t obs_digest;
  uint64_t vclock_ns;
  uint32_t nrecs;
  uint32_t nthreads;
  uint32_t ncover;
  uint32_t timeouts_fired;
  uint64_t final_hash;
  char cover[MC_MAX_COVER][40];
  McRec recs[MC_MAX_RECS];
};

struct McPrefix {
  const McRec* recs; // first n-1 are replayed with their recorded choice; see alt
  uint32_t n; // number of choice points to replay
  int check_hash; // verify state hashes while replaying
};

struct McChildCfg {
  McPrefix prefix;
  McSlot* slot;
  void (*body)(void*);
  void* body_arg;
  long opts[MC_OPT_COUNT];
  int verbose; // print an operation log to stderr
  uint64_t max_steps;
  int wall_seconds;
  int (*finish_hook)(char* msg, int cap); // runs on the main thread after all threads ended; nonzero = leak/violation
  void (*reset_hook)(void); // runs before each execution: puts process-wide program state back to "fresh"
};

#ifdef __cplusplus
extern "C" {
#endif
int mc_run_execution(const McChildCfg* cfg);
#ifdef __cplusplus
}
#endif
