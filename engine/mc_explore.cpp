// dmc explorer: parent process. Stateless DFS with iterative deviation bounding over forked children.
// Compiled without sanitizers and without the shim. Provides main().
#include <ctype.h>
#include <errno.h>
#include <fcntl.h>
#include <signal.h>
#include <stdio.h>
#include <stdlib.h>
#include <string.h>
#include <poll.h>
#include <pthread.h>
#include <sched.h>
#include <sys/mman.h>
#include <sys/socket.h>
#include <sys/stat.h>
#include <sys/wait.h>
#include <time.h>
#include <unistd.h>
#include <malloc.h>

#include <algorithm>
#include <map>
#include <memory>
#include <set>
#include <string>
#include <unordered_map>
#include <vector>

#include "mc_internal.h"

struct McHarnessEntry {
  const char* name;
  void (*run)(const char* const* kv, int nkv);
};
extern "C" const McHarnessEntry* mc_harness_table(int* n);
extern "C" int mc_finish_hook(char* msg, int cap);
extern "C" const char* mc_build_mode(void);
extern "C" void mc_prewarm_hook(void);

static double now_s() {
  struct timespec ts;
  syscall(228 /*clock_gettime*/, CLOCK_MONOTONIC, &ts);
  return ts.tv_sec + ts.tv_nsec * 1e-9;
}

struct Trace {
  std::vector<McRec> recs;
};
struct Entry {
  std::shared_ptr<Trace> parent; // null for the root
  uint32_t i; // choice point altered
  uint8_t alt;
  uint8_t cost; // total deviations including this one
};

struct Job {
  pid_t pid = 0; // worker process (forks one grandchild per execution)
  int fd = -1; // socket to the worker
  bool busy = false;
  McSlot* slot = nullptr;
  Entry e;
  std::vector<McRec> prefix;
  std::string errfile;
  bool confirm = false;
  int viol_idx = -1;
  std::string errsave;
};

struct Violation {
  int status;
  std::string msg;
  std::string replay;
  bool known;
  int deviations;
};

static struct {
  std::string harness;
  std::vector<std::string> kv; // harness parameters key=val
  long opts[MC_OPT_COUNT];
  int bound = 1;
  int jobs = 16;
  long max_execs = 0;
  double deadline_s = 0;
  int prune = 1;
  std::string replay_file;
  std::string out_file;
  std::string replay_dir = "replays";
  std::string tag;
  std::vector<std::string> known;
  int verbose = 0;
  uint64_t max_steps = 20000000;
  int wall_seconds = 240;  // per execution; executions take milliseconds, this only has to survive a badly overloaded machine
  int samples = 3;
  int fresh = 0; // one process per execution (debugging / cross-check of the in-process mode)
  long recycle = 400; // executions per worker process
  int require_distinct = 0;
} A;

static const McHarnessEntry* H;
static std::vector<const char*> kvptrs;
static std::string tmpdir;

static void body_tramp(void*) { H->run(kvptrs.data(), (int)kvptrs.size()); }

static const char* opt_names[MC_OPT_COUNT] = {"timeouts", "timeout_race", "wakepick_cost", "spurious", "casfail", "spin_dev", "wm", "free_switch_cost", "track_points", "spin_own"};

static std::string json_escape(const std::string& s) {
  std::string o;
  for (char c : s) {
    if (c == '"' || c == '\\') {
      o += '\\';
      o += c;
    } else if (c == '\n')
      o += "\\n";
    else if ((unsigned char)c < 0x20)
      o += ' ';
    else
      o += c;
  }
  return o;
}

static std::string read_file_head(const std::string& path, size_t cap) {
  std::string out;
  FILE* f = fopen(path.c_str(), "r");
  if (!f) return out;
  char buf[4096];
  size_t n;
  while (out.size() < cap && (n = fread(buf, 1, sizeof buf, f)) > 0) out.append(buf, n);
  fclose(f);
  if (out.size() > cap) out.resize(cap);
  return out;
}

extern "C" void mc_reset_hook(void);

static int run_one(Job& j, bool verbose, int check_hash, int wall_mult) {
  McChildCfg cfg;
  memset(&cfg, 0, sizeof cfg);
  cfg.prefix.recs = j.prefix.data();
  cfg.prefix.n = (uint32_t)j.prefix.size();
  cfg.prefix.check_hash = check_hash;
  cfg.slot = j.slot;
  cfg.body = body_tramp;
  cfg.body_arg = nullptr;
  for (int i = 0; i < MC_OPT_COUNT; i++) cfg.opts[i] = A.opts[i];
  cfg.verbose = verbose ? 1 : 0;
  cfg.max_steps = A.max_steps;
  cfg.wall_seconds = A.wall_seconds * wall_mult;
  cfg.finish_hook = mc_finish_hook;
  cfg.reset_hook = mc_reset_hook;
  return mc_run_execution(&cfg);
}

static bool read_full(int fd, void* buf, size_t n) {
  char* p = (char*)buf;
  while (n) {
    ssize_t r = read(fd, p, n);
    if (r <= 0) {
      if (r < 0 && errno == EINTR) continue;
      return false;
    }
    p += r;
    n -= (size_t)r;
  }
  return true;
}
static bool write_full(int fd, const void* buf, size_t n) {
  const char* p = (const char*)buf;
  while (n) {
    ssize_t r = write(fd, p, n);
    if (r <= 0) {
      if (r < 0 && errno == EINTR) continue;
      return false;
    }
    p += r;
    n -= (size_t)r;
  }
  return true;
}

// Worker: a fork of the initialised parent that runs executions in-process, one after the other, for
// as long as they end cleanly. Any other outcome (violation, deadlock, sanitizer report, crash) ends
// the worker with the verdict in its slot and the parent forks a new one. Forking per execution was
// measured at 1.7 ms (plain) / 20 ms (ASan) here and page-table work does not scale across cores in
// this VM, so fresh processes are the exception; what makes in-process re-execution sound is the
// reset hook (process-wide program state back to initial) plus the state-hash check on every replayed
// choice point.
static void worker_loop(Job& j) __attribute__((noreturn));
static void worker_loop(Job& j) {
  int efd = open(j.errfile.c_str(), O_RDWR | O_CREAT | O_TRUNC, 0644);
  if (efd >= 0) {
    dup2(efd, 2);
    dup2(efd, 1);
    close(efd);
  }
  long done = 0;
  for (;;) {
    uint32_t n;
    if (!read_full(j.fd, &n, sizeof n)) _exit(0);
    j.prefix.resize(n);
    if (n && !read_full(j.fd, j.prefix.data(), n * sizeof(McRec))) _exit(0);
    if (ftruncate(2, 0) == 0) lseek(2, 0, SEEK_SET);
    int st = run_one(j, false, 1, 1);
    done++;
    if (A.fresh || done >= A.recycle) _exit(0); // status is in the slot; parent restarts us
    if (!write_full(j.fd, &st, sizeof st)) _exit(0);
  }
}

static void start_worker(std::vector<Job>& jobs, size_t k) {
  int sv[2];
  if (socketpair(AF_UNIX, SOCK_STREAM, 0, sv)) {
    perror("socketpair");
    exit(2);
  }
  pid_t pid = fork();
  if (pid < 0) {
    perror("fork");
    exit(2);
  }
  if (pid == 0) {
    close(sv[0]);
    for (size_t q = 0; q < jobs.size(); q++)
      if (q != k && jobs[q].fd >= 0) close(jobs[q].fd);
    {
      // One CPU per worker: only one modelled thread runs at a time, so this loses nothing and
      // turns every hand-off into a same-CPU context switch (no IPIs, no cross-CPU TLB shootdowns).
      long ncpu = sysconf(_SC_NPROCESSORS_ONLN);
      cpu_set_t cs;
      CPU_ZERO(&cs);
      CPU_SET((int)(k % (size_t)(ncpu > 0 ? ncpu : 1)), &cs);
      sched_setaffinity(0, sizeof cs, &cs);
    }
    jobs[k].fd = sv[1];
    worker_loop(jobs[k]);
  }
  close(sv[1]);
  jobs[k].fd = sv[0];
  jobs[k].pid = pid;
}
static void start_workers(std::vector<Job>& jobs) {
  for (size_t k = 0; k < jobs.size(); k++) start_worker(jobs, k);
}
static void stop_workers(std::vector<Job>& jobs) {
  for (auto& j : jobs) {
    if (j.fd >= 0) close(j.fd);
    j.fd = -1;
  }
  for (auto& j : jobs) {
    int ws;
    if (j.pid > 0) waitpid(j.pid, &ws, 0);
  }
}

static void launch(Job& j, bool) {
  memset((void*)j.slot, 0, offsetof(McSlot, recs));
  uint32_t n = (uint32_t)j.prefix.size();
  if (!write_full(j.fd, &n, sizeof n) || (n && !write_full(j.fd, j.prefix.data(), n * sizeof(McRec)))) {
    fprintf(stderr, "worker died\n");
    exit(2);
  }
  j.busy = true;
}
// wait for any busy job to finish; returns its index. *ws is 0 after a clean in-process execution,
// otherwise the wait status of the worker, which has ended and has been replaced by a new one.
static int wait_any(std::vector<Job>& jobs, int* ws) {
  std::vector<struct pollfd> pf;
  std::vector<int> idx;
  for (size_t k = 0; k < jobs.size(); k++)
    if (jobs[k].busy) {
      pf.push_back(pollfd{jobs[k].fd, POLLIN, 0});
      idx.push_back((int)k);
    }
  if (pf.empty()) return -1;
  for (;;) {
    int r = poll(pf.data(), pf.size(), -1);
    if (r < 0 && errno == EINTR) continue;
    if (r <= 0) return -1;
    for (size_t q = 0; q < pf.size(); q++)
      if (pf[q].revents & (POLLIN | POLLHUP | POLLERR)) {
        Job& j = jobs[idx[q]];
        int st = 0;
        if (read_full(j.fd, &st, sizeof st)) {
          *ws = 0;
        } else {
          int w = 0;
          while (waitpid(j.pid, &w, 0) < 0 && errno == EINTR) {
          }
          *ws = w;
          close(j.fd);
          j.fd = -1;
          // keep the stderr capture of the dead worker for collect(); the new worker truncates it
          j.errsave = read_file_head(j.errfile, 6000);
          start_worker(jobs, (size_t)idx[q]);
        }
        j.busy = false;
        return idx[q];
      }
  }
}

// classify a finished child; returns status
static int collect(Job& j, int wstatus, std::string& msg) {
  McSlot* s = j.slot;
  int st = s->status;
  msg = s->msg;
  if (st == MC_ST_RUNNING) {
    std::string err = j.errsave;
    if (WIFSIGNALED(wstatus)) {
      st = MC_ST_CRASH;
      char b[64];
      snprintf(b, sizeof b, "child killed by signal %d (%s). ", WTERMSIG(wstatus), strsignal(WTERMSIG(wstatus)));
      msg = b + err;
    } else {
      st = MC_ST_SANITIZER;
      char b[64];
      snprintf(b, sizeof b, "child exited with code %d. ", WEXITSTATUS(wstatus));
      msg = b + err;
    }
  } else if (st == MC_ST_LEAK) {
    msg += " " + j.errsave;
  }
  return st;
}

static std::string short_msg(const std::string& m) {
  // first line that looks like a diagnosis
  size_t p = m.find("ERROR:");
  if (p == std::string::npos) p = m.find("WARNING:");
  if (p == std::string::npos) p = m.find("runtime error:");
  std::string s = p == std::string::npos ? m : m.substr(p);
  size_t e = s.find('\n');
  if (e != std::string::npos) s = s.substr(0, e);
  if (s.size() > 300) s.resize(300);
  // drop what varies between two runs of the same schedule: pids and raw addresses
  std::string o;
  for (size_t i = 0; i < s.size(); i++) {
    if (s.compare(i, 4, "pid=") == 0) {
      o += "pid=N";
      i += 4;
      while (i < s.size() && isdigit((unsigned char)s[i])) i++;
      i--;
    } else if (s.compare(i, 2, "0x") == 0) {
      o += "0xN";
      i += 2;
      while (i < s.size() && isxdigit((unsigned char)s[i])) i++;
      i--;
    } else
      o += s[i];
  }
  return o;
}

static std::string write_replay(const std::vector<McRec>& recs, int status, const std::string& msg, int devs, int serial) {
  mkdir(A.replay_dir.c_str(), 0755);
  char name[512];
  std::string cfg;
  for (auto& k : A.kv) cfg += (cfg.empty() ? "" : ",") + k;
  for (char& c : cfg)
    if (c == '/' || c == ' ') c = '_';
  if (cfg.size() > 120) cfg.resize(120);
  snprintf(name, sizeof name, "%s/%s.%s.%s%s.%d.sched", A.replay_dir.c_str(), A.harness.c_str(), mc_build_mode(), cfg.c_str(), A.tag.c_str(), serial);
  FILE* f = fopen(name, "w");
  if (!f) return name;
  fprintf(f, "dmc-replay 1\nharness %s\nmode %s\n", A.harness.c_str(), mc_build_mode());
  for (auto& k : A.kv) fprintf(f, "param %s\n", k.c_str());
  for (int i = 0; i < MC_OPT_COUNT; i++) fprintf(f, "opt %s %ld\n", opt_names[i], A.opts[i]);
  fprintf(f, "status %s\ndeviations %d\n", mc_status_name(status), devs);
  fprintf(f, "choices %zu\n", recs.size());
  for (size_t i = 0; i < recs.size(); i++) fprintf(f, "c %zu %d %d %d\n", i, recs[i].chosen, recs[i].nalts, recs[i].kind);
  fprintf(f, "message\n%s\n", msg.c_str());
  fclose(f);
  return name;
}

static int do_replay() {
  FILE* f = fopen(A.replay_file.c_str(), "r");
  if (!f) {
    fprintf(stderr, "cannot open %s\n", A.replay_file.c_str());
    return 2;
  }
  char line[4096];
  std::vector<McRec> recs;
  std::string harness, want;
  A.kv.clear();
  while (fgets(line, sizeof line, f)) {
    char a[4000];
    long v1, v2, v3, v4;
    if (sscanf(line, "harness %3999s", a) == 1)
      harness = a;
    else if (sscanf(line, "param %3999s", a) == 1)
      A.kv.push_back(a);
    else if (sscanf(line, "opt %3999s %ld", a, &v1) == 2) {
      for (int i = 0; i < MC_OPT_COUNT; i++)
        if (!strcmp(a, opt_names[i])) A.opts[i] = v1;
    } else if (sscanf(line, "status %3999s", a) == 1)
      want = a;
    else if (sscanf(line, "c %ld %ld %ld %ld", &v1, &v2, &v3, &v4) == 4) {
      McRec r;
      memset(&r, 0, sizeof r);
      r.chosen = (uint8_t)v2;
      r.nalts = (uint8_t)v3;
      r.kind = (uint8_t)v4;
      recs.push_back(r);
    } else if (!strncmp(line, "message", 7))
      break;
  }
  fclose(f);
  A.harness = harness;
  int n;
  const McHarnessEntry* tab = mc_harness_table(&n);
  H = nullptr;
  for (int i = 0; i < n; i++)
    if (harness == tab[i].name) H = &tab[i];
  if (!H) {
    fprintf(stderr, "harness %s not in this binary\n", harness.c_str());
    return 2;
  }
  kvptrs.clear();
  for (auto& s : A.kv) kvptrs.push_back(s.c_str());
  Job j;
  j.slot = (McSlot*)mmap(0, sizeof(McSlot), PROT_READ | PROT_WRITE, MAP_SHARED | MAP_ANONYMOUS, -1, 0);
  j.prefix = recs;
  j.errfile = "/dev/null";
  memset((void*)j.slot, 0, offsetof(McSlot, recs));
  pid_t pid = fork();
  if (pid == 0) {
    run_one(j, A.verbose != 0, 0, 4);
    _exit(0);
  }
  int ws;
  waitpid(pid, &ws, 0);
  std::string msg;
  j.errfile = "/nonexistent";
  int st = collect(j, ws, msg);
  printf("replay outcome: %s (recorded: %s) steps=%llu choices=%u\n%s\n", mc_status_name(st), want.c_str(), (unsigned long long)j.slot->steps, j.slot->nrecs, msg.c_str());
  return st == MC_ST_OK ? 0 : 1;
}

int main(int argc, char** argv) {
  mallopt(M_ARENA_MAX, 1);
  {
    // small default stacks: thread creation is the dominant per-execution cost under the sanitizers
    // (they clear shadow memory for the whole stack), and page-table work is serialised in this VM
    pthread_attr_t at;
    pthread_attr_init(&at);
    pthread_attr_setstacksize(&at, 512u << 10);
    pthread_setattr_default_np(&at);
    pthread_attr_destroy(&at);
  }
  for (int i = 0; i < MC_OPT_COUNT; i++) A.opts[i] = 0;
  A.opts[MC_OPT_TIMEOUTS] = 1;
  A.opts[MC_OPT_WAKEPICK_COST] = 1;
  A.opts[MC_OPT_TRACK_POINTS] = 1;
  bool list = false, once = false;
  for (int i = 1; i < argc; i++) {
    std::string a = argv[i];
    auto next = [&]() -> std::string {
      if (i + 1 >= argc) {
        fprintf(stderr, "missing value for %s\n", a.c_str());
        exit(2);
      }
      return argv[++i];
    };
    if (a == "--harness")
      A.harness = next();
    else if (a == "--bound")
      A.bound = atoi(next().c_str());
    else if (a == "--jobs")
      A.jobs = atoi(next().c_str());
    else if (a == "--max-execs")
      A.max_execs = atol(next().c_str());
    else if (a == "--deadline")
      A.deadline_s = atof(next().c_str());
    else if (a == "--no-prune")
      A.prune = 0;
    else if (a == "--replay")
      A.replay_file = next();
    else if (a == "--out")
      A.out_file = next();
    else if (a == "--replay-dir")
      A.replay_dir = next();
    else if (a == "--tag")
      A.tag = next();
    else if (a == "--known")
      A.known.push_back(next());
    else if (a == "--verbose")
      A.verbose = 1;
    else if (a == "--max-steps")
      A.max_steps = strtoull(next().c_str(), 0, 10);
    else if (a == "--wall")
      A.wall_seconds = atoi(next().c_str());
    else if (a == "--samples")
      A.samples = atoi(next().c_str());
    else if (a == "--list")
      list = true;
    else if (a == "--fresh")
      A.fresh = 1;
    else if (a == "--once")
      once = true;
    else if (a == "--recycle")
      A.recycle = atol(next().c_str());
    else if (a.rfind("opt.", 0) == 0) {
      size_t eq = a.find('=');
      std::string nm = a.substr(4, eq - 4);
      bool ok = false;
      for (int k = 0; k < MC_OPT_COUNT; k++)
        if (nm == opt_names[k]) {
          A.opts[k] = atol(a.c_str() + eq + 1);
          ok = true;
        }
      if (!ok) {
        fprintf(stderr, "unknown option %s\n", a.c_str());
        return 2;
      }
    } else if (a.find('=') != std::string::npos)
      A.kv.push_back(a);
    else {
      fprintf(stderr, "unknown argument %s\n", a.c_str());
      return 2;
    }
  }
  int nh;
  const McHarnessEntry* tab = mc_harness_table(&nh);
  if (list) {
    for (int i = 0; i < nh; i++) printf("%s\n", tab[i].name);
    return 0;
  }
  mc_prewarm_hook();
  if (!A.replay_file.empty()) return do_replay();
  if (once) {
    for (int i = 0; i < nh; i++)
      if (A.harness == tab[i].name) H = &tab[i];
    if (!H) return 2;
    std::sort(A.kv.begin(), A.kv.end());
    for (auto& s : A.kv) kvptrs.push_back(s.c_str());
    Job j;
    j.slot = (McSlot*)mmap(0, sizeof(McSlot), PROT_READ | PROT_WRITE, MAP_SHARED | MAP_ANONYMOUS, -1, 0);
    memset((void*)j.slot, 0, offsetof(McSlot, recs));
    pid_t pid = fork();
    if (pid == 0) {
      run_one(j, A.verbose != 0, 0, 4);
      _exit(0);
    }
    int ws;
    waitpid(pid, &ws, 0);
    std::string msg;
    int st = collect(j, ws, msg);
    printf("outcome: %s steps=%llu choices=%u threads=%u\n%s\n", mc_status_name(st), (unsigned long long)j.slot->steps, j.slot->nrecs, j.slot->nthreads, msg.c_str());
    return st == MC_ST_OK ? 0 : 1;
  }
  if (A.harness.empty() && nh == 1) A.harness = tab[0].name;
  for (int i = 0; i < nh; i++)
    if (A.harness == tab[i].name) H = &tab[i];
  if (!H) {
    fprintf(stderr, "no such harness '%s'\n", A.harness.c_str());
    return 2;
  }
  std::sort(A.kv.begin(), A.kv.end());
  for (auto& s : A.kv) kvptrs.push_back(s.c_str());

  char td[256];
  snprintf(td, sizeof td, "build/tmp/%d", (int)getpid());
  mkdir("build", 0755);
  mkdir("build/tmp", 0755);
  mkdir(td, 0755);
  tmpdir = td;

  std::vector<Job> jobs(A.jobs);
  for (int k = 0; k < A.jobs; k++) {
    jobs[k].slot = (McSlot*)mmap(0, sizeof(McSlot), PROT_READ | PROT_WRITE, MAP_SHARED | MAP_ANONYMOUS, -1, 0);
    if (jobs[k].slot == MAP_FAILED) {
      perror("mmap");
      return 2;
    }
    jobs[k].errfile = tmpdir + "/slot" + std::to_string(k) + ".err";
  }

  double t0 = now_s();
  if (!A.fresh) {
    // Warm-up: run the default schedule in this process (twice) before the workers are forked, so that
    // every function-local static and lazily built table the program touches already exists in all of
    // them and the first execution of a worker looks like every later one. Done only after a throw-away
    // child has shown that the default schedule ends cleanly (a failing one must not take us down).
    Job& j = jobs[0];
    j.prefix.clear();
    memset((void*)j.slot, 0, offsetof(McSlot, recs));
    pid_t pid = fork();
    if (pid == 0) {
      int efd = open("/dev/null", O_WRONLY);
      if (efd >= 0) {
        dup2(efd, 2);
        dup2(efd, 1);
      }
      run_one(j, false, 0, 1);
      _exit(0);
    }
    int ws = 0;
    waitpid(pid, &ws, 0);
    if (WIFEXITED(ws) && WEXITSTATUS(ws) == 0 && j.slot->status == MC_ST_OK) {
      for (int rep = 0; rep < 2; rep++) {
        memset((void*)j.slot, 0, offsetof(McSlot, recs));
        run_one(j, false, 0, 1);
      }
    }
  }
  start_workers(jobs);
  uint64_t executions = 0, transitions = 0, pruned = 0, max_depth = 0, max_steps_seen = 0, timeouts_fired = 0, max_threads = 0;
  std::map<std::string, uint64_t> outcome_counts;
  std::set<uint64_t> digests;
  std::set<std::string> cover;
  std::vector<Violation> viols;
  std::vector<std::string> samples;
  uint64_t states_last = 0, execs_last = 0;
  int completed_bound = -1;
  bool cut = false, stop = false;
  std::string engine_error;
  int serial = 0;
  int determinism_double_runs = 0;

  auto build_prefix = [&](const Entry& e, std::vector<McRec>& out) {
    out.clear();
    if (!e.parent) return;
    out.assign(e.parent->recs.begin(), e.parent->recs.begin() + e.i + 1);
    out[e.i].chosen = e.alt;
  };

  // --- determinism self-check: default schedule twice, compared record by record
  {
    std::vector<McRec> first;
    uint64_t fh = 0, fo = 0;
    for (int rep = 0; rep < 2; rep++) {
      Job& j = jobs[0];
      j.prefix.clear();
      launch(j, false);
      int ws;
      wait_any(jobs, &ws);
      std::string msg;
      int st = collect(j, ws, msg);
      (void)st;
      std::vector<McRec> r(j.slot->recs, j.slot->recs + j.slot->nrecs);
      if (rep == 0) {
        first = r;
        fh = j.slot->final_hash;
        fo = j.slot->obs_digest;
      } else {
        bool same = r.size() == first.size() && fh == j.slot->final_hash && fo == j.slot->obs_digest;
        size_t bad = 0;
        for (size_t i = 0; same && i < r.size(); i++) {
          same = r[i].hash == first[i].hash && r[i].nalts == first[i].nalts && r[i].costmask == first[i].costmask && r[i].kind == first[i].kind;
          if (!same) bad = i;
        }
        if (!same) fprintf(stderr, "determinism precheck: first difference at choice point %zu (step %u vs %u), final_hash %s, obs %s\n", bad, bad < r.size() ? r[bad].step : 0, bad < first.size() ? first[bad].step : 0, fh == j.slot->final_hash ? "same" : "differs", fo == j.slot->obs_digest ? "same" : "differs");
        if (!same) {
          engine_error = "default schedule is not deterministic (two runs differ): second run " + std::string(mc_status_name(st)) + " " + short_msg(msg) + " recs " + std::to_string(r.size()) + " vs " + std::to_string(first.size());
        }
        determinism_double_runs++;
      }
    }
  }

  for (int B = 0; B <= A.bound && engine_error.empty() && !stop && !cut; B++) {
    std::unordered_map<uint64_t, int> visited;
    std::vector<Entry> stack;
    stack.push_back(Entry{nullptr, 0, 0, 0});
    uint64_t execs_this = 0;
    int running = 0;
    while ((!stack.empty() || running > 0) && engine_error.empty()) {
      // fill
      for (int k = 0; k < A.jobs && !stack.empty() && !stop && !cut; k++) {
        Job& j = jobs[k];
        if (j.busy) continue;
        if (A.max_execs && (long)executions >= A.max_execs) {
          cut = true;
          break;
        }
        if (A.deadline_s > 0 && now_s() - t0 > A.deadline_s) {
          cut = true;
          break;
        }
        j.e = stack.back();
        stack.pop_back();
        build_prefix(j.e, j.prefix);
        j.confirm = false;
        launch(j, false);
        running++;
        executions++;
        execs_this++;
      }
      if (running == 0) break;
      int ws;
      int k = wait_any(jobs, &ws);
      if (k < 0) break;
      Job& j = jobs[k];
      running--;
      std::string msg;
      int st = collect(j, ws, msg);
      McSlot* s = j.slot;
      transitions += s->steps;
      timeouts_fired += s->timeouts_fired;
      if (s->nrecs > max_depth) max_depth = s->nrecs;
      if (s->steps > max_steps_seen) max_steps_seen = s->steps;
      if (s->nthreads > max_threads) max_threads = s->nthreads;
      for (uint32_t c = 0; c < s->ncover; c++) cover.insert(s->cover[c]);
      if (j.confirm) {
        // second run of a violating schedule
        determinism_double_runs++;
        Violation& v = viols[j.viol_idx];
        if (st != v.status || short_msg(msg) != short_msg(v.msg)) {
          engine_error = "violation did not reproduce on replay: first '" + short_msg(v.msg) + "' then '" + mc_status_name(st) + ": " + short_msg(msg) + "'";
        }
        if (!v.known) stop = true;
        continue;
      }
      outcome_counts[mc_status_name(st)]++;
      if (st == MC_ST_OK) digests.insert(s->obs_digest);
      auto tr = std::make_shared<Trace>();
      tr->recs.assign(s->recs, s->recs + s->nrecs);
      if (st == MC_ST_DIVERGED || st == MC_ST_ENGINE) {
        engine_error = std::string(mc_status_name(st)) + ": " + msg;
        break;
      }
      if ((int)samples.size() < A.samples && (st != MC_ST_OK || j.e.parent)) {
        std::string sm = "{\"status\":\"" + std::string(mc_status_name(st)) + "\",\"deviations\":" + std::to_string(j.e.cost) + ",\"steps\":" + std::to_string(s->steps) + ",\"nonzero_choices\":[";
        bool firstc = true;
        for (uint32_t i = 0; i < s->nrecs; i++)
          if (s->recs[i].chosen) {
            sm += (firstc ? "" : ",") + std::string("[") + std::to_string(i) + "," + std::to_string(s->recs[i].chosen) + "," + std::to_string(s->recs[i].nalts) + "]";
            firstc = false;
          }
        sm += "],\"choice_points\":" + std::to_string(s->nrecs) + "}";
        samples.push_back(sm);
      }
      if (st != MC_ST_OK) {
        std::string sm = short_msg(msg);
        bool known = false;
        for (auto& kn : A.known)
          if (sm.find(kn) != std::string::npos || msg.find(kn) != std::string::npos) known = true;
        bool dup = false;
        for (auto& v : viols)
          if (v.status == st && short_msg(v.msg) == sm) dup = true;
        if (!dup) {
          std::vector<McRec> full = tr->recs;
          std::string path = write_replay(full, st, msg, j.e.cost, serial++);
          viols.push_back(Violation{st, msg, path, known, j.e.cost});
          // confirm by replaying the complete choice list once more
          // (wait for a free slot: this one is free now)
          j.prefix = full;
          j.confirm = true;
          j.viol_idx = (int)viols.size() - 1;
          launch(j, false);
          running++;
          executions++;
        }
        // violating executions are not expanded further: the property already failed on this path
        if (!known) continue;
      }
      // expand
      uint32_t start = j.e.parent ? j.e.i + 1 : 0;
      int base = j.e.cost;
      int rem = B - base;
      std::vector<Entry> fresh;
      for (uint32_t i = start; i < tr->recs.size(); i++) {
        const McRec& r = tr->recs[i];
        if (A.prune) {
          auto it = visited.find(r.hash);
          if (it != visited.end() && it->second >= rem) {
            pruned++;
            break;
          }
          visited[r.hash] = rem;
        } else {
          visited[r.hash] = rem;
        }
        for (int alt = 1; alt < r.nalts; alt++) {
          int c = (int)((r.costmask >> alt) & 1);
          if (base + c <= B) fresh.push_back(Entry{tr, i, (uint8_t)alt, (uint8_t)(base + c)});
        }
      }
      // push in reverse so that the earliest choice point is explored first (DFS order)
      for (size_t q = fresh.size(); q-- > 0;) stack.push_back(fresh[q]);
    }
    // drain on stop/cut
    while (running > 0) {
      int ws;
      int k = wait_any(jobs, &ws);
      if (k < 0) break;
      running--;
      if (jobs[k].confirm) {
        std::string msg;
        int st = collect(jobs[k], ws, msg);
        Violation& v = viols[jobs[k].viol_idx];
        determinism_double_runs++;
        if (st != v.status || short_msg(msg) != short_msg(v.msg))
          engine_error = "violation did not reproduce on replay: first '" + short_msg(v.msg) + "' then '" + mc_status_name(st) + ": " + short_msg(msg) + "'";
        jobs[k].confirm = false;
      }
    }
    bool unknown = false;
    for (auto& v : viols)
      if (!v.known) unknown = true;
    if (unknown) stop = true;
    if (!cut && !stop && engine_error.empty()) {
      completed_bound = B;
      states_last = visited.size();
      execs_last = execs_this;
    } else if (states_last < visited.size()) {
      states_last = visited.size();
    }
  }

  double wall = now_s() - t0;
  stop_workers(jobs);
  // cleanup temp
  for (int k = 0; k < A.jobs; k++) unlink(jobs[k].errfile.c_str());
  rmdir(tmpdir.c_str());

  std::string js = "{";
  js += "\"harness\":\"" + A.harness + "\",\"mode\":\"" + mc_build_mode() + "\",\"params\":[";
  for (size_t i = 0; i < A.kv.size(); i++) js += (i ? "," : "") + std::string("\"") + json_escape(A.kv[i]) + "\"";
  js += "],\"opts\":{";
  for (int i = 0; i < MC_OPT_COUNT; i++) js += (i ? "," : "") + std::string("\"") + opt_names[i] + "\":" + std::to_string(A.opts[i]);
  js += "},\"bound_requested\":" + std::to_string(A.bound) + ",\"completed_bound\":" + std::to_string(completed_bound);
  js += ",\"exhaustive\":" + std::string((completed_bound == A.bound) ? "true" : "false");
  js += ",\"executions\":" + std::to_string(executions) + ",\"executions_last_bound\":" + std::to_string(execs_last);
  js += ",\"states\":" + std::to_string(states_last) + ",\"transitions\":" + std::to_string(transitions);
  js += ",\"pruned\":" + std::to_string(pruned) + ",\"max_choice_points\":" + std::to_string(max_depth) + ",\"max_steps\":" + std::to_string(max_steps_seen);
  js += ",\"max_threads\":" + std::to_string(max_threads) + ",\"timeouts_fired\":" + std::to_string(timeouts_fired);
  js += ",\"distinct_outcomes\":" + std::to_string(digests.size()) + ",\"determinism_double_runs\":" + std::to_string(determinism_double_runs);
  js += ",\"prune\":" + std::to_string(A.prune) + ",\"cut\":" + std::string(cut ? "true" : "false");
  js += ",\"outcomes\":{";
  {
    bool f = true;
    for (auto& kv : outcome_counts) {
      js += (f ? "" : ",") + std::string("\"") + kv.first + "\":" + std::to_string(kv.second);
      f = false;
    }
  }
  js += "},\"cover\":[";
  {
    bool f = true;
    for (auto& c : cover) {
      js += (f ? "" : ",") + std::string("\"") + json_escape(c) + "\"";
      f = false;
    }
  }
  js += "],\"violations\":[";
  for (size_t i = 0; i < viols.size(); i++) {
    js += (i ? "," : "") + std::string("{\"status\":\"") + mc_status_name(viols[i].status) + "\",\"known\":" + (viols[i].known ? "true" : "false") + ",\"deviations\":" + std::to_string(viols[i].deviations) + ",\"replay\":\"" + json_escape(viols[i].replay) + "\",\"msg\":\"" + json_escape(short_msg(viols[i].msg)) + "\"}";
  }
  js += "],\"samples\":[";
  for (size_t i = 0; i < samples.size(); i++) js += (i ? "," : "") + samples[i];
  js += "],\"engine_error\":\"" + json_escape(engine_error) + "\",\"wall_s\":" + std::to_string(wall) + "}";
  if (!A.out_file.empty()) {
    FILE* f = fopen(A.out_file.c_str(), "w");
    if (f) {
      fputs(js.c_str(), f);
      fputc('\n', f);
      fclose(f);
    }
  }
  printf("MCRESULT %s\n", js.c_str());
  if (!engine_error.empty()) {
    fprintf(stderr, "ENGINE ERROR: %s\n", engine_error.c_str());
    return 2;
  }
  bool unknown = false;
  for (auto& v : viols)
    if (!v.known) unknown = true;
  return unknown ? 1 : 0;
}
