// Force-included (-include) in every dispenso and harness translation unit of a dmc build.
// Renames the standard synchronisation types so that every atomic operation, fence, mutex
// operation and thread create/join in the *unmodified* dispenso sources becomes a scheduling point.
#pragma once
#ifdef __cplusplus

// 1. take the include guards of everything that mentions the real names
#include <algorithm>
#include <array>
#include <atomic>
#include <cassert>
#include <cerrno>
#include <chrono>
#include <climits>
#include <cmath>
#include <condition_variable>
#include <cstddef>
#include <cstdint>
#include <cstdio>
#include <cstdlib>
#include <cstring>
#include <ctime>
#include <deque>
#include <exception>
#include <fstream>
#include <functional>
#include <future>
#include <initializer_list>
#include <iostream>
#include <iterator>
#include <limits>
#include <list>
#include <forward_list>
#include <map>
#include <memory>
#include <mutex>
#include <new>
#include <queue>
#include <set>
#include <sstream>
#include <stdexcept>
#include <string>
#include <thread>
#include <tuple>
#include <type_traits>
#include <unordered_map>
#include <unordered_set>
#include <utility>
#include <vector>
#if __cplusplus >= 201703L
#include <optional>
#include <shared_mutex>
#endif
#include <immintrin.h>
#include <semaphore.h>
#include <pthread.h>
#include <unistd.h>
#include <sys/syscall.h>
#include <linux/futex.h>
#include <dirent.h>
#include <fcntl.h>
#include <dlfcn.h>
#include <sched.h>
#include <sys/resource.h>
#include <sys/types.h>

#include "mc_api.h"

#define MC_INL inline __attribute__((always_inline))

namespace mc {
template <class T>
using real_atomic = ::std::atomic<T>;
using real_mutex = ::std::mutex;
using real_thread = ::std::thread;
} // namespace mc

namespace std {

template <class T>
struct mc_atomic {
  ::std::atomic<T> a_;

  mc_atomic() noexcept = default;
  constexpr mc_atomic(T v) noexcept : a_(v) {}
  mc_atomic(const mc_atomic&) = delete;
  mc_atomic& operator=(const mc_atomic&) = delete;

  static constexpr bool is_always_lock_free = true;
  bool is_lock_free() const noexcept { return a_.is_lock_free(); }

  MC_INL T load(memory_order o = memory_order_seq_cst) const noexcept {
    mc_pre(MC_K_LOAD, &a_, sizeof(T), (int)o);
    T v = a_.load(o);
    mc_post_load(&a_, sizeof(T), &v);
    return v;
  }
  MC_INL void store(T v, memory_order o = memory_order_seq_cst) noexcept {
    mc_pre(MC_K_STORE, &a_, sizeof(T), (int)o);
    a_.store(v, o);
    mc_post(MC_K_STORE, &a_, sizeof(T));
  }
  MC_INL operator T() const noexcept { return load(); }
  MC_INL T operator=(T v) noexcept {
    store(v);
    return v;
  }
  MC_INL T exchange(T v, memory_order o = memory_order_seq_cst) noexcept {
    mc_pre(MC_K_RMW, &a_, sizeof(T), (int)o);
    T r = a_.exchange(v, o);
    mc_post(MC_K_RMW, &a_, sizeof(T));
    return r;
  }
  MC_INL bool compare_exchange_strong(T& e, T d, memory_order s, memory_order f) noexcept {
    mc_pre(MC_K_CAS, &a_, sizeof(T), (int)s);
    bool r = a_.compare_exchange_strong(e, d, s, f);
    mc_post(MC_K_CAS, &a_, sizeof(T));
    return r;
  }
  MC_INL bool compare_exchange_strong(T& e, T d, memory_order o = memory_order_seq_cst) noexcept {
    mc_pre(MC_K_CAS, &a_, sizeof(T), (int)o);
    bool r = a_.compare_exchange_strong(e, d, o);
    mc_post(MC_K_CAS, &a_, sizeof(T));
    return r;
  }
  MC_INL bool compare_exchange_weak(T& e, T d, memory_order s, memory_order f) noexcept {
    mc_pre(MC_K_CAS, &a_, sizeof(T), (int)s);
    bool r;
    if (mc_cas_weak_should_fail(&a_)) {
      e = a_.load(f);
      r = false;
    } else {
      r = a_.compare_exchange_strong(e, d, s, f);
    }
    mc_post(MC_K_CAS, &a_, sizeof(T));
    return r;
  }
  MC_INL bool compare_exchange_weak(T& e, T d, memory_order o = memory_order_seq_cst) noexcept {
    mc_pre(MC_K_CAS, &a_, sizeof(T), (int)o);
    bool r;
    if (mc_cas_weak_should_fail(&a_)) {
      e = a_.load(memory_order_relaxed);
      r = false;
    } else {
      r = a_.compare_exchange_strong(e, d, o);
    }
    mc_post(MC_K_CAS, &a_, sizeof(T));
    return r;
  }
#define MC_RMW(name)                                                        \
  template <class A>                                                        \
  MC_INL T name(A arg, memory_order o = memory_order_seq_cst) noexcept {    \
    mc_pre(MC_K_RMW, &a_, sizeof(T), (int)o);                               \
    T r = a_.name(arg, o);                                                  \
    mc_post(MC_K_RMW, &a_, sizeof(T));                                      \
    return r;                                                               \
  }
  MC_RMW(fetch_add)
  MC_RMW(fetch_sub)
  MC_RMW(fetch_and)
  MC_RMW(fetch_or)
  MC_RMW(fetch_xor)
#undef MC_RMW
  MC_INL T operator++() noexcept { return fetch_add(1) + 1; }
  MC_INL T operator++(int) noexcept { return fetch_add(1); }
  MC_INL T operator--() noexcept { return fetch_sub(1) - 1; }
  MC_INL T operator--(int) noexcept { return fetch_sub(1); }
  template <class A>
  MC_INL T operator+=(A v) noexcept {
    return fetch_add(v) + v;
  }
  template <class A>
  MC_INL T operator-=(A v) noexcept {
    return fetch_sub(v) - v;
  }
  template <class A>
  MC_INL T operator|=(A v) noexcept {
    return fetch_or(v) | v;
  }
  template <class A>
  MC_INL T operator&=(A v) noexcept {
    return fetch_and(v) & v;
  }
  template <class A>
  MC_INL T operator^=(A v) noexcept {
    return fetch_xor(v) ^ v;
  }
};

struct mc_atomic_flag {
  ::std::atomic<bool> a_;
  mc_atomic_flag() noexcept = default;
  constexpr mc_atomic_flag(bool v) noexcept : a_(v) {}
  mc_atomic_flag(const mc_atomic_flag&) = delete;
  mc_atomic_flag& operator=(const mc_atomic_flag&) = delete;
  MC_INL bool test_and_set(memory_order o = memory_order_seq_cst) noexcept {
    mc_pre(MC_K_RMW, &a_, 1, (int)o);
    bool r = a_.exchange(true, o);
    mc_post(MC_K_RMW, &a_, 1);
    return r;
  }
  MC_INL void clear(memory_order o = memory_order_seq_cst) noexcept {
    mc_pre(MC_K_STORE, &a_, 1, (int)o);
    a_.store(false, o);
    mc_post(MC_K_STORE, &a_, 1);
  }
};

MC_INL void mc_atomic_thread_fence(memory_order o) noexcept {
  mc_pre(MC_K_FENCE, nullptr, 0, (int)o);
  ::std::atomic_thread_fence(o);
  mc_post(MC_K_FENCE, nullptr, 0);
}

template <class T>
MC_INL bool atomic_compare_exchange_weak_explicit(mc_atomic<T>* a, T* e, T d, memory_order s, memory_order f) noexcept {
  return a->compare_exchange_weak(*e, d, s, f);
}
template <class T>
MC_INL bool atomic_compare_exchange_strong_explicit(mc_atomic<T>* a, T* e, T d, memory_order s, memory_order f) noexcept {
  return a->compare_exchange_strong(*e, d, s, f);
}
template <class T>
MC_INL T atomic_load_explicit(const mc_atomic<T>* a, memory_order o) noexcept {
  return a->load(o);
}
template <class T>
MC_INL void atomic_store_explicit(mc_atomic<T>* a, T v, memory_order o) noexcept {
  a->store(v, o);
}

class mc_mutex {
  ::std::mutex m_;

 public:
  typedef ::std::mutex::native_handle_type native_handle_type;
  constexpr mc_mutex() noexcept = default;
  mc_mutex(const mc_mutex&) = delete;
  mc_mutex& operator=(const mc_mutex&) = delete;
  void lock() {
    mc_mutex_lock(this);
    m_.lock();
  }
  bool try_lock() {
    if (!mc_on()) return m_.try_lock();
    if (!mc_mutex_trylock(this)) return false;
    m_.lock();
    return true;
  }
  void unlock() {
    mc_mutex_pre_unlock(this);
    m_.unlock();
    mc_mutex_unlocked(this);
  }
  native_handle_type native_handle() { return m_.native_handle(); }
};

class mc_thread {
  ::std::thread t_;
  int id_ = -1;

 public:
  typedef ::std::thread::id id;
  typedef ::std::thread::native_handle_type native_handle_type;
  mc_thread() noexcept = default;
  mc_thread(const mc_thread&) = delete;
  mc_thread(mc_thread&& o) noexcept : t_(::std::move(o.t_)), id_(o.id_) { o.id_ = -1; }
  mc_thread& operator=(mc_thread&& o) noexcept {
    t_ = ::std::move(o.t_);
    id_ = o.id_;
    o.id_ = -1;
    return *this;
  }
  template <class F, class... Args, class = typename enable_if<!is_same<typename decay<F>::type, mc_thread>::value>::type>
  explicit mc_thread(F&& f, Args&&... args) {
    int tid = mc_thread_prepare();
    id_ = tid;
    t_ = ::std::thread(
        [tid](typename decay<F>::type fn, typename decay<Args>::type... a) {
          mc_thread_begin(tid);
          ::std::__invoke(::std::move(fn), ::std::move(a)...);
        },
        ::std::forward<F>(f), ::std::forward<Args>(args)...);
    mc_thread_created(tid);
  }
  ~mc_thread() = default;
  bool joinable() const noexcept { return t_.joinable(); }
  id get_id() const noexcept { return t_.get_id(); }
  native_handle_type native_handle() { return t_.native_handle(); }
  void join() {
    mc_thread_join(id_);
    // a modelled thread that has finished keeps its real thread parked until the end of the execution
    // (deterministic exit order, see mc_sched.cpp), so there is nothing to wait for here
    if (id_ >= 0 && mc_on())
      t_.detach();
    else
      t_.join();
  }
  void detach() {
    mc_thread_detach(id_);
    t_.detach();
  }
  void swap(mc_thread& o) noexcept {
    t_.swap(o.t_);
    int x = id_;
    id_ = o.id_;
    o.id_ = x;
  }
  static unsigned hardware_concurrency() noexcept { return 4; }
};

} // namespace std

#undef MC_INL

// 2. rename. From here on, `std::atomic` etc. in dispenso, moodycamel and the harnesses are ours.
#define atomic mc_atomic
#define atomic_flag mc_atomic_flag
#define atomic_thread_fence mc_atomic_thread_fence
#define mutex mc_mutex
#define thread mc_thread

#endif // __cplusplus
