// C41 SmallBufferAllocator: exclusive, aligned blocks across threads, thread exit and diagnostics calls.
// C42 PoolAllocator / NoLockPoolAllocator: exclusive chunks inside live slabs, clear() recycling, slab release.
//
// ---- harness `sba` (C41) ----------------------------------------------------------------------------
// params: sz block size (8, 64, 256; 512 = alignedMalloc path), t0..t2 thread programs, h helper program,
//         warm = what T0 does (alone) before the threads start -- every execution starts with a cold allocator:
//           0 nothing;  1 one alloc+dealloc (central store filled, T0 cache filled);
//           2 T0's cache filled to kMaxNumTLBuffers-1 and T0 holds one block (its next dealloc recycles half
//             of the cache to the central store);
//           3 like 1, then the central store is drained into blocks held by T0 (the next alloc of another
//             thread finds an existing but empty store and must create a slab).
// program letters:
//   a alloc   A alloc kIdealNumTLBuffers blocks   d dealloc my newest block   x export my newest block to my outbox
//   r dealloc a block exported by another thread if there is one     R same, but wait for one
//   b approxBytesAllocatedSmallBuffer     s start a helper thread running program `h` (it exits afterwards:
//   its thread-local cache goes back to the central store)           j join my newest helper
// Every spawned thread exits at the end of its program (cache returned while the others still run). Blocks
// still held by a thread at its end are deallocated by T0 after the joins (dealloc after the owner's exit).
#include "mc_harness.h"
#include <dispenso/pool_allocator.h>
#include <dispenso/small_buffer_allocator.h>
#include <dispenso/detail/small_buffer_allocator_impl.h>

namespace dispenso {
namespace detail {
template <size_t N>
SmallBufferGlobals& getSmallBufferGlobals();
}
} // namespace dispenso

namespace {
// mc_cover() keeps its table with strncmp/strncpy, which TSan intercepts even inside the uninstrumented engine:
// two threads marking coverage would be reported as a race of the engine with itself.
static void hcover(const char* name) {
  mc::TsanIgnore ig;
  mc::cover(name);
}
// A program parameter may list alternatives separated by '|': one of them is picked with mc::choose, so a
// single run explores every combination of alternatives jointly with the schedules. Returns the index too.
static std::string pick_alt(const std::string& spec, int* index = nullptr) {
  std::vector<std::string> alts;
  size_t from = 0;
  for (;;) {
    size_t bar = spec.find('|', from);
    alts.push_back(spec.substr(from, bar == std::string::npos ? std::string::npos : bar - from));
    if (bar == std::string::npos) break;
    from = bar + 1;
  }
  int i = alts.size() > 1 ? mc::choose((int)alts.size()) : 0;
  if (index) *index = i;
  return alts[(size_t)i];
}
constexpr int kMaxT = 10;
constexpr int kBoxCap = 4;

template <size_t N, bool kSmall = (N <= dispenso::kMaxSmallBufferSize)>
struct Internals {
  typedef dispenso::detail::SmallBufferAllocator<N> SBA;
  enum : size_t { kMallocBytes = SBA::kMallocBytes, kIdeal = SBA::kIdealNumTLBuffers, kMax = SBA::kMaxNumTLBuffers, kPerMalloc = SBA::kBuffersPerMalloc };
  static dispenso::detail::SmallBufferGlobals* globals() { return &dispenso::detail::getSmallBufferGlobals<N>(); }
  static size_t tlCount() { return std::get<1>(SBA::buffersAndCount()); }
};
template <size_t N>
struct Internals<N, false> {
  enum : size_t { kMallocBytes = 0, kIdeal = 0, kMax = 0, kPerMalloc = 0 };
  static dispenso::detail::SmallBufferGlobals* globals() { return nullptr; }
  static size_t tlCount() { return 1; }
};

template <size_t N>
struct Sba {
  typedef Internals<N> In;
  // all of this is harness bookkeeping, touched only between scheduling points and under TsanIgnore
  std::map<uintptr_t, int> live; // block address -> tag of the holder
  bool creator_seen[64] = {};
  mc::Shared<int> creators_done{0};
  mc::Shared<void*> box[kMaxT][kBoxCap];
  mc::Shared<int> next_thread{1};
  mc::Shared<int> nleft{0};
  mc::Shared<void*> leftovers[1024];
  mc::Shared<int> nallocs{0}, nforeign{0};
  std::string helper_prog;

  size_t slabs() {
    auto* g = In::globals();
    return g ? g->backingStore.size() : 0;
  }

  void on_alloc(int self, char* p, size_t tl_before) {
    mc::TsanIgnore ig;
    MC_CHECK(p != nullptr, "allocSmallBuffer<%zu>() returned nullptr", N);
    uintptr_t a = reinterpret_cast<uintptr_t>(p);
    MC_CHECK(a % N == 0, "allocSmallBuffer<%zu>() returned a block that is not aligned to %zu (address mod %zu = %zu)", N, N, N, (size_t)(a % N));
    auto it = live.lower_bound(a);
    if (it != live.end()) {
      MC_CHECK(it->first != a, "block handed out twice: T%d received a block that is still held by T%d (size %zu)", self, it->second - 1, N);
      MC_CHECK(a + N <= it->first, "block handed to T%d overlaps a live block of T%d (size %zu)", self, it->second - 1, N);
    }
    if (it != live.begin()) {
      --it;
      MC_CHECK(it->first + N <= a, "block handed to T%d overlaps a live block of T%d (size %zu)", self, it->second - 1, N);
    }
    live[a] = self + 1;
    nallocs.add(1);
    if (auto* g = In::globals()) {
      // the block must be a chunk of one of the slabs the allocator obtained
      int slab = -1;
      for (size_t i = 0; i < g->backingStore.size(); i++) {
        uintptr_t b = reinterpret_cast<uintptr_t>(g->backingStore[i]);
        if (a >= b && a + N <= b + In::kMallocBytes) slab = (int)i;
      }
      MC_CHECK(slab >= 0, "block handed to T%d lies in none of the %zu slabs of the backing store", self, g->backingStore.size());
      uintptr_t b = reinterpret_cast<uintptr_t>(g->backingStore[slab]);
      if (tl_before == 0) {
        if (a == b + In::kMallocBytes - N && slab < 64 && !creator_seen[slab]) {
          // first hand-out of the last chunk of a slab: this alloc() call created the slab inside the
          // backing-store critical section, and we are in the same scheduler step as its releasing store.
          creator_seen[slab] = true;
          hcover("sba_create_slab");
          int in_cs = (int)g->backingStore.size() - creators_done.get();
          MC_CHECK(in_cs == 1,
                   "mutual exclusion of the backing-store critical section broken: T%d is completing its slab creation while %d "
                   "other thread(s) entered the same critical section (backingStore.size()=%zu, completed creations=%d)",
                   self, in_cs - 1, g->backingStore.size(), creators_done.get());
          creators_done.add(1);
        } else {
          hcover("sba_central_dequeue");
          if (In::tlCount() + 1 < In::kIdeal) hcover("sba_partial_dequeue");
        }
      } else {
        hcover("sba_tl_pop");
      }
    }
    memset(p, 0x40 + self, N);
  }

  void on_dealloc(int self, char* p, bool foreign) {
    mc::TsanIgnore ig;
    uintptr_t a = reinterpret_cast<uintptr_t>(p);
    auto it = live.find(a);
    MC_CHECK(it != live.end(), "harness bug: deallocating a block that is not live");
    int holder = it->second - 1;
    for (size_t i = 0; i < N; i++)
      MC_CHECK((unsigned char)p[i] == (unsigned char)(0x40 + holder), "contents of a live block of T%d were overwritten at byte %zu (size %zu)", holder, i, N);
    memset(p, 0xDD, N);
    live.erase(it);
    if (foreign) {
      nforeign.add(1);
      hcover("sba_foreign_dealloc");
    }
    if (In::kMax && In::tlCount() + 1 == In::kMax) hcover("sba_recycle");
    (void)self;
  }

  char* alloc(int self) {
    size_t before = In::tlCount();
    char* p = dispenso::allocSmallBuffer<N>();
    on_alloc(self, p, before); // same scheduler step as the return: nothing runs in between
    return p;
  }
  void dealloc(int self, char* p, bool foreign = false) {
    on_dealloc(self, p, foreign);
    dispenso::deallocSmallBuffer<N>(p);
  }

  void bytes(int self) {
    size_t s0, s1;
    {
      mc::TsanIgnore ig;
      s0 = slabs();
    }
    size_t got = dispenso::approxBytesAllocatedSmallBuffer<N>();
    mc::TsanIgnore ig;
    s1 = slabs();
    hcover("sba_bytes");
    if (!In::globals()) return;
    // same scheduler step as the call's unlocking store: nobody may be inside the critical section now
    int in_cs = (int)s1 - creators_done.get();
    MC_CHECK(in_cs == 0,
             "mutual exclusion of the backing-store critical section broken: approxBytesAllocatedSmallBuffer<%zu>() on T%d held the lock and "
             "released it while %d thread(s) were inside the critical section creating a slab (backingStore.size()=%zu, completed creations=%d)",
             N, self, in_cs, s1, creators_done.get());
    size_t mb = In::kMallocBytes;
    MC_CHECK(got % mb == 0 && got / mb >= s0 && got / mb <= s1, "approxBytesAllocatedSmallBuffer<%zu>() returned %zu, not a slab count between %zu and %zu times %zu", N, got, s0, s1, mb);
  }

  void* take_foreign(int self) {
    for (int j = 0; j < kMaxT; j++) {
      if (j == self) continue;
      for (int k = 0; k < kBoxCap; k++) {
        void* p = box[j][k].get();
        if (p) {
          box[j][k].set(nullptr);
          return p;
        }
      }
    }
    return nullptr;
  }
  bool foreign_available(int self) {
    for (int j = 0; j < kMaxT; j++)
      if (j != self)
        for (int k = 0; k < kBoxCap; k++)
          if (box[j][k].get()) return true;
    return false;
  }

  void run(int self, const std::string& prog, std::vector<char*>& held, bool may_spawn) {
    std::vector<std::thread> helpers;
    for (char op : prog) {
      switch (op) {
        case 'a':
          held.push_back(alloc(self));
          break;
        case 'A': // a whole cache refill's worth of blocks, to walk through the central store quickly
          for (size_t n = 0; n < (In::kIdeal ? In::kIdeal : 1); n++) held.push_back(alloc(self));
          break;
        case 'd':
          if (!held.empty()) {
            char* p = held.back();
            held.pop_back();
            dealloc(self, p);
          }
          break;
        case 'x':
          if (!held.empty()) {
            for (int k = 0; k < kBoxCap; k++)
              if (!box[self][k].get()) {
                box[self][k].set(held.back());
                held.pop_back();
                break;
              }
          }
          break;
        case 'R':
          mc::block_until([&] { return foreign_available(self); });
          // fallthrough
        case 'r': {
          void* p = take_foreign(self);
          if (p) dealloc(self, static_cast<char*>(p), true);
          break;
        }
        case 'b':
          bytes(self);
          break;
        case 's':
          if (may_spawn) {
            int id = next_thread.add(1);
            helpers.emplace_back([this, id] {
              std::vector<char*> mine;
              run(id, helper_prog, mine, false);
              finish_thread(id, mine);
            });
            hcover("sba_helper");
          }
          break;
        case 'j':
          if (!helpers.empty()) {
            helpers.back().join();
            helpers.pop_back();
          }
          break;
        default:
          break;
      }
    }
    for (auto& h : helpers) h.join();
  }

  void finish_thread(int self, std::vector<char*>& held) {
    for (char* p : held) leftovers[nleft.add(1)].set(p);
    held.clear();
    if (In::kMax && In::tlCount() > 0) hcover("sba_exit_with_cache");
    (void)self;
  }

  void warm_up(int mode, std::vector<char*>& held) {
    if (!In::globals() || mode == 0) return;
    if (mode == 1 || mode == 3) {
      char* p = alloc(0);
      dealloc(0, p);
      if (mode == 3) {
        // take everything the central store holds: own cache first, then refills until a refill creates a slab
        size_t want = In::kPerMalloc;
        for (size_t i = 0; i < want; i++) held.push_back(alloc(0));
        MC_CHECK(slabs() == 1, "warm-up: draining one slab created another");
      }
    } else if (mode == 2) {
      std::vector<char*> tmp;
      for (size_t i = 0; i < In::kMax; i++) tmp.push_back(alloc(0));
      while (tmp.size() > 1) {
        dealloc(0, tmp.back());
        tmp.pop_back();
      }
      MC_CHECK(In::tlCount() == In::kMax - 1, "warm-up: cache holds %zu blocks, expected %zu", In::tlCount(), (size_t)In::kMax - 1);
      held.push_back(tmp[0]);
    }
  }

  void body(const mc::Params& P) {
    helper_prog = P.s("h", "a");
    std::string progs[3] = {pick_alt(P.s("t0", "")), pick_alt(P.s("t1", "")), pick_alt(P.s("t2", ""))};
    std::vector<char*> held0;
    warm_up((int)P("warm", 0), held0);
    size_t held_after_warm = held0.size();
    for (int i = 1; i < 3; i++)
      if (!progs[i].empty() && progs[i] != "-") {
        int id = next_thread.add(1);
        mc::spawn([this, id, &progs, i] {
          std::vector<char*> mine;
          run(id, progs[i], mine, true);
          finish_thread(id, mine);
        });
      }
    run(0, progs[0], held0, true);
    mc::join_all();
    // quiescent: everything still held anywhere goes back (T0 frees blocks of threads that have exited)
    for (int j = 0; j < kMaxT; j++)
      for (int k = 0; k < kBoxCap; k++)
        if (void* p = box[j][k].get()) dealloc(0, static_cast<char*>(p), j != 0);
    for (int i = 0; i < nleft.get(); i++) dealloc(0, static_cast<char*>(leftovers[i].get()), true);
    for (char* p : held0) dealloc(0, p);
    {
      mc::TsanIgnore ig;
      MC_CHECK(live.empty(), "harness bug: %zu blocks still registered", live.size());
    }
    mc::observe("slabs", (long)slabs());
    mc::observe("allocs", nallocs.get());
    mc::observe("foreign", nforeign.get());
    if (auto* g = In::globals()) {
      MC_CHECK(g->backingStoreLock.a_.load(std::memory_order_relaxed) == 0, "backingStoreLock is %u at quiescence", g->backingStoreLock.a_.load(std::memory_order_relaxed));
      MC_CHECK((int)slabs() == creators_done.get(), "%zu slabs but %d slab creations seen", slabs(), creators_done.get());
      size_t got = dispenso::approxBytesAllocatedSmallBuffer<N>();
      MC_CHECK(got == In::kMallocBytes * slabs(), "quiescent approxBytesAllocatedSmallBuffer<%zu>() = %zu with %zu slabs", N, got, slabs());
    }
    // Drain: every other thread has exited (its cache went back to the central store), so T0 can take every
    // block the allocator owns. A block that sits twice in the caches / central store (and would be handed
    // out twice by some longer history) shows up here as "handed out twice".
    size_t total = slabs() * In::kPerMalloc;
    std::vector<char*> all;
    for (size_t i = 0; i < total; i++) all.push_back(alloc(0));
    if (In::globals() && slabs() * In::kPerMalloc == total) hcover("sba_drain_exact"); // nothing was lost either
    mc::observe("lost", (long)(slabs() * In::kPerMalloc - total));
    if (!In::globals()) all.push_back(alloc(0));
    for (char* p : all) dealloc(0, p);
    (void)held_after_warm;
  }
};
} // namespace

MC_HARNESS(sba) {
  long sz = P("sz", 256);
  if (sz == 8) {
    Sba<8> s;
    s.body(P);
  } else if (sz == 64) {
    Sba<64> s;
    s.body(P);
  } else if (sz == 512) {
    Sba<512> s;
    s.body(P);
  } else {
    Sba<256> s;
    s.body(P);
  }
}

// ---- harnesses `pool` and `nolock` (C42) ------------------------------------------------------------
// pool:   params cs chunk size, ss slab size, t0..t2 programs (alternatives separated by '|' are all explored;
//         sym=1 keeps only non-decreasing picks) over  a alloc, d dealloc my newest chunk,
//         D dealloc my oldest chunk. PoolAllocator shared by the threads; chunks left at the end stay live
//         until the allocator is destroyed.
// nolock: params cs, ss, depth. One thread; every history of `depth` operations over
//         {alloc, dealloc newest, dealloc oldest, clear, alloc a whole slab's worth of chunks (if > 1)} is
//         enumerated with mc::choose (bound 0).
namespace {
struct SlabLog {
  struct Slab {
    char* base;
    size_t size;
    int freed;
    int touched_since_clear;
  };
  std::vector<Slab> slabs;
  int alloc_calls = 0, dealloc_calls = 0;
  int recycled_at_clear = -1; // number of slabs that existed at the last clear(), -1 = no clear yet
  size_t want_size = 0;
  bool destroyed_phase = false;

  void* do_alloc(size_t n) {
    mc::TsanIgnore ig;
    MC_CHECK(n == want_size, "allocFunc called with %zu bytes, the allocator was constructed with slab size %zu", n, want_size);
    if (recycled_at_clear >= 0) {
      for (int i = 0; i < recycled_at_clear; i++)
        MC_CHECK(slabs[i].touched_since_clear, "allocFunc called after clear() although recycled slab %d of %d has not been reused yet", i, recycled_at_clear);
    }
    alloc_calls++;
    char* p = static_cast<char*>(malloc(n));
    slabs.push_back(Slab{p, n, 0, 0});
    hcover("pool_allocfunc");
    return p;
  }
  void do_dealloc(void* p) {
    mc::TsanIgnore ig;
    MC_CHECK(destroyed_phase, "deallocFunc called before the allocator is being destroyed");
    dealloc_calls++;
    for (auto& s : slabs)
      if (s.base == p) {
        MC_CHECK(s.freed == 0, "deallocFunc called twice for the same slab");
        s.freed = 1;
        free(p);
        return;
      }
    mc::fail("deallocFunc called with a pointer that allocFunc never returned");
  }
  int slab_of(char* p, size_t chunk) {
    for (size_t i = 0; i < slabs.size(); i++)
      if (!slabs[i].freed && p >= slabs[i].base && p + chunk <= slabs[i].base + slabs[i].size) return (int)i;
    return -1;
  }
  void all_freed_once() {
    for (size_t i = 0; i < slabs.size(); i++) MC_CHECK(slabs[i].freed == 1, "slab %zu of %zu was not released by the destructor", i, slabs.size());
    MC_CHECK(dealloc_calls == (int)slabs.size(), "deallocFunc called %d times for %zu slabs", dealloc_calls, slabs.size());
  }
};

struct ChunkMap {
  std::map<uintptr_t, int> live;
  size_t chunk = 0;
  void on_alloc(SlabLog& log, int self, char* p) {
    mc::TsanIgnore ig;
    MC_CHECK(p != nullptr, "alloc() returned nullptr");
    int s = log.slab_of(p, chunk);
    MC_CHECK(s >= 0, "alloc() returned a chunk that does not lie within any live slab obtained from allocFunc");
    log.slabs[s].touched_since_clear = 1;
    uintptr_t a = reinterpret_cast<uintptr_t>(p);
    auto it = live.lower_bound(a);
    if (it != live.end()) {
      MC_CHECK(it->first != a, "chunk handed out twice without an intervening dealloc (to T%d, still held by T%d)", self, it->second - 1);
      MC_CHECK(a + chunk <= it->first, "chunk handed to T%d overlaps a live chunk of T%d", self, it->second - 1);
    }
    if (it != live.begin()) {
      --it;
      MC_CHECK(it->first + chunk <= a, "chunk handed to T%d overlaps a live chunk of T%d", self, it->second - 1);
    }
    live[a] = self + 1;
    memset(p, 0x60 + self, chunk);
  }
  void on_dealloc(char* p) {
    mc::TsanIgnore ig;
    auto it = live.find(reinterpret_cast<uintptr_t>(p));
    MC_CHECK(it != live.end(), "harness bug: dealloc of a chunk that is not live");
    for (size_t i = 0; i < chunk; i++) MC_CHECK((unsigned char)p[i] == (unsigned char)(0x60 + it->second - 1), "contents of a live chunk were overwritten");
    memset(p, 0xDD, chunk);
    live.erase(it);
  }
};

template <class PA>
void pool_thread(PA& pa, SlabLog& log, ChunkMap& cm, int self, const std::string& prog) {
  std::deque<char*> held;
  for (char op : prog) {
    if (op == 'a') {
      char* p = pa.alloc();
      cm.on_alloc(log, self, p); // same scheduler step as alloc()'s unlocking store
      held.push_back(p);
      hcover("pool_alloc");
    } else if ((op == 'd' || op == 'D') && !held.empty()) {
      char* p = op == 'd' ? held.back() : held.front();
      if (op == 'd')
        held.pop_back();
      else
        held.pop_front();
      cm.on_dealloc(p);
      pa.dealloc(p);
      hcover("pool_dealloc");
    }
  }
}
} // namespace

MC_HARNESS(pool) {
  size_t cs = (size_t)P("cs", 8), ss = (size_t)P("ss", 16);
  SlabLog log;
  log.want_size = ss;
  ChunkMap cm;
  cm.chunk = cs;
  int idx[3];
  std::string progs[3] = {pick_alt(P.s("t0", ""), &idx[0]), pick_alt(P.s("t1", ""), &idx[1]), pick_alt(P.s("t2", ""), &idx[2])};
  // sym=1: the threads draw from the same list; only non-decreasing picks are run (a multiset of programs)
  if (P("sym", 0) && (idx[1] < idx[0] || (!progs[2].empty() && idx[2] < idx[1]))) return;
  mc::observe("progs", idx[0] * 64 + idx[1] * 8 + idx[2]);
  {
    dispenso::PoolAllocator pa(cs, ss, [&log](size_t n) { return log.do_alloc(n); }, [&log](void* p) { log.do_dealloc(p); });
    // warm=k: before the threads exist T0 allocates k chunks and calls clear() (documented as not thread-safe, so it
    // is done while nobody else uses the allocator): the threads then start on an allocator that owns retired slabs
    // but no free chunk, and their first allocations have to bring a retired slab back
    int warm = (int)P("warm", 0);
    if (warm) {
      for (int i = 0; i < warm; i++) cm.on_alloc(log, 0, pa.alloc());
      pa.clear();
      cm.live.clear();
      log.recycled_at_clear = (int)log.slabs.size();
      for (auto& sl : log.slabs) sl.touched_since_clear = 0;
      hcover("pool_warm_clear");
    }
    for (int i = 1; i < 3; i++)
      if (!progs[i].empty() && progs[i] != "-") mc::spawn([&, i] { pool_thread(pa, log, cm, i, progs[i]); });
    pool_thread(pa, log, cm, 0, progs[0]);
    mc::join_all();
    mc::TsanIgnore ig;
    MC_CHECK(pa.totalChunkCapacity() == log.slabs.size() * (ss / cs), "totalChunkCapacity() = %zu with %zu slabs of %zu chunks", pa.totalChunkCapacity(), log.slabs.size(), ss / cs);
    MC_CHECK(pa.backingAllocLock_.a_.load(std::memory_order_relaxed) == 0, "lock word not zero at quiescence");
    mc::observe("slabs", (long)log.slabs.size());
    mc::observe("live", (long)cm.live.size());
    log.destroyed_phase = true;
  }
  log.all_freed_once();
}

MC_HARNESS(nolock) {
  size_t cs = (size_t)P("cs", 8), ss = (size_t)P("ss", 16);
  int depth = (int)P("depth", 5);
  SlabLog log;
  log.want_size = ss;
  ChunkMap cm;
  cm.chunk = cs;
  long sig = 0;
  {
    dispenso::NoLockPoolAllocator pa(cs, ss, [&log](size_t n) { return log.do_alloc(n); }, [&log](void* p) { log.do_dealloc(p); });
    std::deque<char*> held;
    for (int step = 0; step < depth; step++) {
      int op = mc::choose(ss / cs > 1 ? 5 : 4);
      sig = sig * 5 + op;
      if (op == 0 || op == 4) {
        // op 4: a whole slab's worth of chunks, so that several slabs exist within the depth bound
        for (size_t n = 0; n < (op == 4 ? ss / cs : 1); n++) {
          char* p = pa.alloc();
          cm.on_alloc(log, 0, p);
          held.push_back(p);
        }
        hcover("nolock_alloc");
      } else if (op == 1 || op == 2) {
        if (held.empty()) continue;
        char* p = op == 1 ? held.back() : held.front();
        if (op == 1)
          held.pop_back();
        else
          held.pop_front();
        cm.on_dealloc(p);
        pa.dealloc(p);
        hcover("nolock_dealloc");
      } else {
        pa.clear(); // everything handed out so far is implicitly returned and must not be dealloc'd
        held.clear();
        cm.live.clear();
        log.recycled_at_clear = (int)log.slabs.size();
        for (auto& s : log.slabs) s.touched_since_clear = 0;
        hcover("nolock_clear");
        if (log.recycled_at_clear > 1) hcover("nolock_clear_multi_slab");
      }
      MC_CHECK(pa.totalChunkCapacity() == log.slabs.size() * (ss / cs), "totalChunkCapacity() = %zu with %zu slabs of %zu chunks", pa.totalChunkCapacity(), log.slabs.size(), ss / cs);
    }
    mc::observe("hist", sig);
    mc::observe("slabs", (long)log.slabs.size());
    log.destroyed_phase = true;
  }
  log.all_freed_once();
}
