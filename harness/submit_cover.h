// (At the time of writing) mc::cover() kept its table in the engine and updated it with strncmp/strncpy, which
// ThreadSanitizer intercepts: calling it from two modelled threads that are not ordered by the program under test (T0 and
// a pool worker running a task body) makes the tsan build report a race *in the engine*. These harnesses
// therefore record path markers in relaxed cells from any thread and hand them to mc::cover() from T0 only,
// at the end of the body (an execution that ends in a violation reports no markers). The engine has since been
// changed to use its own byte loops; routing the markers through T0 remains correct and keeps task bodies free of
// engine calls.
#pragma once
#include "mc_harness.h"

namespace submit_cover {
constexpr int kMax = 96;
struct Table {
  mc::Shared<const char*> name[kMax];
  mc::Shared<int> hit[kMax];
  mc::Shared<int> n;
};
inline Table& table() {
  static Table t;
  return t;
}
// T0, before any other thread exists
inline void reset() {
  Table& t = table();
  for (int i = 0; i < kMax; i++) {
    t.name[i].set(nullptr);
    t.hit[i].set(0);
  }
  t.n.set(0);
}
// any thread; `name` must be a string literal
inline void mark(const char* name) {
  Table& t = table();
  int n = t.n.get();
  for (int i = 0; i < n && i < kMax; i++)
    if (t.name[i].get() == name) {
      t.hit[i].set(1);
      return;
    }
  int idx = t.n.add(1);
  if (idx < kMax) {
    t.name[idx].set(name);
    t.hit[idx].set(1);
  }
}
// T0, after every other thread of the body has ended
inline void flush() {
  Table& t = table();
  int n = t.n.get();
  for (int i = 0; i < n && i < kMax; i++)
    if (t.name[i].get() && t.hit[i].get()) mc::cover(t.name[i].get());
}
} // namespace submit_cover
