// C01: every functor handed to a ThreadPool runs exactly once, no later than ~ThreadPool returns.
// Producer programs (external threads t0/t1, and `p` = a program run by a task on the pool):
//   s  schedule(f)     q  schedule(f, ForceQueuingTag)     b<k>  scheduleBulk(k, gen)
// params: n pool size, mult poolLoadMultiplier, poll=1 setSignalingWake(false, 200us) before use.
#include "mc_harness.h"
#include <dispenso/thread_pool.h>

namespace {
constexpr int kMaxTasks = 32;
struct Counters {
  mc::Shared<int> ran[kMaxTasks];
  mc::Shared<int> next{0};
  mc::Shared<int> pool_gone{0};
  int fresh() { return next.add(1); }
  void run(int id) {
    MC_CHECK(pool_gone.get() == 0, "task %d started after ~ThreadPool returned", id);
    int prev = ran[id].add(1);
    MC_CHECK(prev == 0, "task %d ran a second time", id);
  }
};

void run_program(dispenso::ThreadPool& pool, Counters& c, const std::string& prog) {
  for (size_t pc = 0; pc < prog.size(); pc++) {
    char op = prog[pc];
    if (op == 's') {
      int id = c.fresh();
      pool.schedule([&c, id] { c.run(id); });
      mc::cover("schedule");
    } else if (op == 'q') {
      int id = c.fresh();
      pool.schedule([&c, id] { c.run(id); }, dispenso::ForceQueuingTag());
      mc::cover("schedule_fq");
    } else if (op == 'b') {
      int k = prog[++pc] - '0';
      int base = c.next.add(k);
      pool.scheduleBulk((size_t)k, [&c, base](size_t i) {
        int id = base + (int)i;
        return [&c, id] { c.run(id); };
      });
      mc::cover("schedule_bulk");
    }
  }
}
} // namespace

MC_HARNESS(submit) {
  long n = P("n", 1), mult = P("mult", 32);
  Counters c;
  std::string t0 = P.s("t0", ""), t1 = P.s("t1", ""), inner = P.s("p", "");
  {
    dispenso::ThreadPool pool((size_t)n, (size_t)mult);
    if (P("poll", 0)) pool.setSignalingWake(false, std::chrono::microseconds(200));
    if (!t1.empty() && t1 != "-") mc::spawn([&] { run_program(pool, c, t1); });
    if (!inner.empty() && inner != "-") {
      int id = c.fresh();
      pool.schedule(
          [&, id] {
            c.run(id);
            run_program(pool, c, inner); // a pool thread (or the inline caller) as producer
          },
          dispenso::ForceQueuingTag());
    }
    run_program(pool, c, t0);
    mc::join_all(); // producers are done before the pool is destroyed (documented requirement)
  } // ~ThreadPool
  c.pool_gone.set(1);
  int total = c.next.get();
  for (int i = 0; i < total; i++) MC_CHECK(c.ran[i].get() == 1, "task %d ran %d times by the time ~ThreadPool returned", i, c.ran[i].get());
  mc::observe("tasks", total);
}
