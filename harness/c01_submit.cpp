// C01: every functor handed to a ThreadPool runs exactly once, no later than ~ThreadPool returns.
// Producer programs (external threads t0/t1, and `p` = a program run by a task on the pool):
//   s  schedule(f)     q  schedule(f, ForceQueuingTag)     b<k>  scheduleBulk(k, gen)
//   X  any one of s q b1 b2 b3, resolved by mc::choose before any thread exists: one run then explores a whole family
//      of producer programs jointly with their schedules (far fewer processes than one run per program)
// params: n pool size, mult poolLoadMultiplier, poll=1 setSignalingWake(false, 200us) before use.
//
// Path markers (mc::cover) are derived from *which thread* ran a functor:
//   inline_schedule / inline_bulk   on the submitting thread while its schedule()/scheduleBulk() call is in progress
//   worker_single / worker_bulk     on a pool worker (task went through the central queue; bulk = enqueue_bulk)
//   dtor_drain                      on T0 while ~ThreadPool is in progress (the destructor's own drain loops)
//   inline_on_pool_thread           inline, and the submitting thread is a pool worker (pool-recursive load rule)
#include "mc_harness.h"
#include "submit_cover.h"
#include "submit_stacknorm.h"
#include <dispenso/thread_pool.h>

SUBMIT_STACKNORM_INSTALL();

namespace {
constexpr int kMaxTasks = 32;
enum Kind { kSingle = 0, kFq = 1, kBulk = 2 };
enum Where { wInline = 1, wWorker = 2, wDtor = 3, wOther = 4 };

struct Counters {
  mc::Shared<int> ran[kMaxTasks];
  mc::Shared<int> submitter[kMaxTasks]; // modelled thread id of the submitting thread
  mc::Shared<int> in_call[kMaxTasks]; // 1 while the submitting call is in progress
  mc::Shared<int> kind[kMaxTasks];
  mc::Shared<int> where[kMaxTasks];
  mc::Shared<int> used[kMaxTasks]; // id handed to the pool
  mc::Shared<int> next[4]; // per producer: ids are producer*8 + k, independent of the interleaving
  mc::Shared<int> pool_gone{0};
  mc::Shared<int> destroying{0};
  mc::Shared<int> harness_thread[3]; // ids of T0 and the external producer (never pool workers)
  int t0_id = 0;

  int fresh(int producer, int k, Kind kd) {
    int base = producer * 8 + next[producer].add(k);
    MC_CHECK(base + k <= producer * 8 + 8, "harness: producer %d submits more than 8 tasks", producer);
    for (int i = base; i < base + k; i++) {
      used[i].set(1);
      submitter[i].set(mc_self_id());
      kind[i].set(kd);
      in_call[i].set(1);
    }
    return base;
  }
  void call_done(int base, int k) {
    for (int i = base; i < base + k; i++) in_call[i].set(0);
  }
  bool is_harness_thread(int id) const {
    for (auto& h : harness_thread)
      if (h.get() == id + 1) return true;
    return false;
  }
  void run(int id) {
    MC_CHECK(pool_gone.get() == 0, "task %d started after ~ThreadPool returned", id);
    int prev = ran[id].add(1);
    MC_CHECK(prev == 0, "task %d ran a second time", id);
    int self = mc_self_id();
    bool bulk = kind[id].get() == kBulk;
    int w;
    if (self == submitter[id].get() && in_call[id].get()) {
      w = wInline;
      submit_cover::mark(bulk ? "inline_bulk" : (kind[id].get() == kFq ? "inline_fq_zero_threads" : "inline_schedule"));
      if (!is_harness_thread(self)) submit_cover::mark("inline_on_pool_thread");
    } else if (self == t0_id && destroying.get()) {
      w = wDtor;
      submit_cover::mark("dtor_drain");
    } else if (!is_harness_thread(self)) {
      w = wWorker;
      submit_cover::mark(bulk ? "worker_bulk" : "worker_single");
    } else {
      w = wOther; // a producer thread ran somebody else's task inside one of its own calls: not expected, not forbidden
      submit_cover::mark("ran_on_other_producer");
    }
    where[id].set(w);
  }
};

void run_program(dispenso::ThreadPool& pool, Counters& c, int producer, const std::string& prog) {
  for (size_t pc = 0; pc < prog.size(); pc++) {
    char op = prog[pc];
    if (op == 's') {
      int id = c.fresh(producer, 1, kSingle);
      pool.schedule([&c, id] { c.run(id); });
      c.call_done(id, 1);
      submit_cover::mark("schedule");
    } else if (op == 'q') {
      int id = c.fresh(producer, 1, kFq);
      pool.schedule([&c, id] { c.run(id); }, dispenso::ForceQueuingTag());
      c.call_done(id, 1);
      submit_cover::mark("schedule_fq");
    } else if (op == 'b') {
      int k = prog[++pc] - '0';
      int base = c.fresh(producer, k, kBulk);
      pool.scheduleBulk((size_t)k, [&c, base](size_t i) {
        int id = base + (int)i;
        return [&c, id] { c.run(id); };
      });
      c.call_done(base, k);
      submit_cover::mark("schedule_bulk");
    }
  }
}
std::string expand(const std::string& prog) {
  static const char* ops[] = {"s", "q", "b1", "b2", "b3"};
  std::string out;
  for (char ch : prog) {
    if (ch == 'X')
      out += ops[mc::choose(5)];
    else if (ch != '-')
      out += ch;
  }
  return out;
}
} // namespace

MC_HARNESS(submit) {
  submit_cover::reset();
  long n = P("n", 1), mult = P("mult", 32);
  Counters c;
  c.t0_id = mc_self_id();
  c.harness_thread[0].set(c.t0_id + 1);
  std::string t0 = expand(P.s("t0", "")), t1 = expand(P.s("t1", "")), inner = expand(P.s("p", ""));
  // scheduleBulk from a pool thread enqueues without a producer token: see submit_stacknorm.h
  submit_stacknorm::g_enabled = P.s("p", "").find_first_of("bX") != std::string::npos;
  {
    dispenso::ThreadPool pool((size_t)n, (size_t)mult);
    if (P("poll", 0)) pool.setSignalingWake(false, std::chrono::microseconds(200));
    if (!t1.empty())
      mc::spawn([&] {
        c.harness_thread[1].set(mc_self_id() + 1);
        run_program(pool, c, 1, t1);
      });
    if (!inner.empty()) {
      int id = c.fresh(3, 1, kFq); // the launcher task itself
      pool.schedule(
          [&, id] {
            c.run(id);
            run_program(pool, c, 2, inner); // a pool thread (or, with n=0, the inline caller) as producer
          },
          dispenso::ForceQueuingTag());
      c.call_done(id, 1);
    }
    run_program(pool, c, 0, t0);
    mc::join_all(); // producers are done before the pool is destroyed (documented requirement)
    c.destroying.set(1);
  } // ~ThreadPool
  c.pool_gone.set(1);
  int total = 0;
  for (int i = 0; i < kMaxTasks; i++) {
    if (!c.used[i].get()) continue;
    total++;
    MC_CHECK(c.ran[i].get() == 1, "task %d (producer %d) ran %d times by the time ~ThreadPool returned", i, i / 8, c.ran[i].get());
  }
  // outcome digest: who ran which task
  static const char* keys[kMaxTasks] = {"t0", "t1", "t2", "t3", "t4", "t5", "t6", "t7", "t8", "t9", "t10", "t11", "t12", "t13", "t14", "t15",
                                        "t16", "t17", "t18", "t19", "t20", "t21", "t22", "t23", "t24", "t25", "t26", "t27", "t28", "t29", "t30", "t31"};
  for (int i = 0; i < kMaxTasks; i++)
    if (c.used[i].get()) mc::observe(keys[i], c.where[i].get());
  mc::observe("tasks", total);
  submit_cover::flush();
}
