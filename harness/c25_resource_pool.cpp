// C25: ResourcePool bounds and exclusivity.
// Thread programs: a = acquire; use; release.  m = acquire two, move-assign the second onto the first
// (which must recycle the first), use, release (only in one thread and only with size >= 2).
#include "mc_harness.h"
#include <dispenso/resource_pool.h>

namespace {
struct Res {
  mc::Tracked<int> life;
  mc::Shared<int> holders{0};
  int id;
  explicit Res(int i) : life(i), id(i) {}
  Res(Res&& o) noexcept : life(o.life), id(o.id) {}
};
} // namespace

MC_HARNESS(resource_pool) {
  long size = P("size", 1);
  mc::Shared<int> held{0}, made{0}, peak{0};
  {
    dispenso::ResourcePool<Res> pool((size_t)size, [&] { return Res(made.add(1)); });
    MC_CHECK(made.get() == size, "init ran %d times for a pool of %ld", made.get(), size);
    std::string progs[4] = {P.s("t0", ""), P.s("t1", ""), P.s("t2", ""), P.s("t3", "")};
    auto use = [&](Res& r) {
      MC_CHECK(r.holders.add(1) == 0, "resource %d handed to two holders at once", r.id);
      int h = held.add(1) + 1;
      peak.max_with(h);
      MC_CHECK(h <= size, "%d resources held from a pool of %ld", h, size);
      mc::point();
      held.add(-1);
      r.holders.add(-1);
    };
    auto body = [&](const std::string& prog) {
      for (char op : prog) {
        if (op == 'a') {
          auto r = pool.acquire();
          use(r.get());
        } else if (op == 'm') {
          auto r1 = pool.acquire();
          Res* first = &r1.get();
          MC_CHECK(first->holders.add(1) == 0, "resource %d handed to two holders at once", first->id);
          auto r2 = pool.acquire();
          MC_CHECK(&r2.get() != first, "acquire returned a resource that is still held");
          first->holders.add(-1);
          r1 = std::move(r2); // must give `first` back to the pool
          use(r1.get());
        }
      }
    };
    for (int i = 1; i < 4; i++)
      if (!progs[i].empty() && progs[i] != "-") mc::spawn([&, i] { body(progs[i]); });
    body(progs[0]);
    mc::join_all(); // a thread blocked in acquire() while a resource is free never finishes: deadlock verdict
    mc::observe("peak", peak.get());
    // quiescent: exactly `size` resources can be acquired without blocking
    {
      std::vector<dispenso::Resource<Res>> all;
      for (long i = 0; i < size; i++) all.push_back(pool.acquire());
      for (long i = 0; i < size; i++)
        for (long j = i + 1; j < size; j++) MC_CHECK(&all[i].get() != &all[j].get(), "two handles to one resource");
    }
  }
  // pool destroyed: every resource destroyed exactly once (lifetime registry checked by the engine)
}
