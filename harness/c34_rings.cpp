// C34 MpmcRingBuffer, C35 SPSCRingBuffer, C36 ChaseLevDeque: exactly-once bounded queues.
// Thread programs are strings of one-letter operations (a digit after b/B is the batch size):
//   mpmc: p try_push(T&&)  c try_push(const T&)  e try_emplace  b<n> try_push_batch
//         o try_pop(T&)    O try_pop()->OpResult  i try_pop_into
//   spsc: same, plus B<n> try_pop_batch (t0 = producer, t1 = consumer)
//   deque: owner p push, o pop, i pop_into; stealers s steal, S steal_into
#include "mc_harness.h"
#include <dispenso/chase_lev_deque.h>
#include <dispenso/mpmc_ring_buffer.h>
#include <dispenso/spsc_ring_buffer.h>

namespace {
typedef mc::Tracked<int> Elem;
constexpr int kMaxTags = 64;

struct Log {
  mc::Shared<int> pushed[kMaxTags]; // 1 = push of this tag reported success
  mc::Shared<int> popped[kMaxTags]; // times this tag was returned by a pop
  void push_ok(int tag) { pushed[tag].set(1); }
  void pop_ok(int tag, const char* how) {
    MC_CHECK(tag >= 0 && tag < kMaxTags, "%s returned a value (%d) that was never pushed", how, tag);
    MC_CHECK(pushed[tag].get() == 1, "%s returned tag %d whose push has not (yet) reported success", how, tag);
    MC_CHECK(popped[tag].add(1) == 0, "%s returned tag %d twice", how, tag);
  }
};
inline int tag_of(int thread, int k) { return thread * 8 + k; }
inline int producer_of(int tag) { return tag / 8; }

// ------------------------------------------------------------------------------------------ MPMC
template <class RB>
void mpmc_thread(RB& rb, Log& log, int self, const std::string& prog) {
  int k = 0;
  int last_from[8];
  for (int& x : last_from) x = -1;
  auto got = [&](int tag, const char* how) {
    log.pop_ok(tag, how);
    int pr = producer_of(tag);
    MC_CHECK(tag > last_from[pr], "%s: consumer %d received tag %d after tag %d of the same producer (FIFO broken)", how, self, tag, last_from[pr]);
    last_from[pr] = tag;
  };
  for (size_t pc = 0; pc < prog.size(); pc++) {
    char op = prog[pc];
    switch (op) {
      case 'p': {
        int tag = tag_of(self, k);
        Elem e(tag);
        log.pushed[tag].set(1); // optimistic; cleared again if the push fails (a pop can only see it if it succeeded)
        if (rb.try_push(std::move(e)))
          k++;
        else
          log.pushed[tag].set(0);
        break;
      }
      case 'c': {
        int tag = tag_of(self, k);
        Elem e(tag);
        log.pushed[tag].set(1);
        if (rb.try_push(e))
          k++;
        else
          log.pushed[tag].set(0);
        break;
      }
      case 'e': {
        int tag = tag_of(self, k);
        log.pushed[tag].set(1);
        if (rb.try_emplace(tag))
          k++;
        else
          log.pushed[tag].set(0);
        break;
      }
      case 'b': {
        int n = prog[++pc] - '0';
        Elem items[4] = {Elem(tag_of(self, k)), Elem(tag_of(self, k + 1)), Elem(tag_of(self, k + 2)), Elem(tag_of(self, k + 3))};
        for (int q = 0; q < n; q++) log.pushed[tag_of(self, k + q)].set(1);
        size_t did = rb.try_push_batch(items, (size_t)n);
        MC_CHECK(did <= (size_t)n, "try_push_batch pushed more than asked");
        for (int q = (int)did; q < n; q++) log.pushed[tag_of(self, k + q)].set(0);
        k += (int)did;
        break;
      }
      case 'o': {
        Elem out(-1);
        if (rb.try_pop(out)) got(out.v, "try_pop(T&)");
        break;
      }
      case 'O': {
        auto r = rb.try_pop();
        if (r) got(r.value().v, "try_pop()");
        break;
      }
      case 'i': {
        alignas(Elem) char buf[sizeof(Elem)];
        if (rb.try_pop_into(reinterpret_cast<Elem*>(buf))) {
          Elem* e = reinterpret_cast<Elem*>(buf);
          got(e->v, "try_pop_into");
          e->~Elem();
        }
        break;
      }
      default:
        break;
    }
  }
}

template <class RB>
void mpmc_body(const mc::Params& P) {
  Log log;
  {
    RB rb;
    std::string progs[4] = {P.s("t0", ""), P.s("t1", ""), P.s("t2", ""), P.s("t3", "")};
    for (int i = 1; i < 4; i++)
      if (!progs[i].empty() && progs[i] != "-") mc::spawn([&, i] { mpmc_thread(rb, log, i, progs[i]); });
    mpmc_thread(rb, log, 0, progs[0]);
    mc::join_all();
    // quiescent state
    int inside = 0;
    for (int t = 0; t < kMaxTags; t++) inside += log.pushed[t].get() - log.popped[t].get();
    MC_CHECK(rb.size() == (size_t)inside, "quiescent size() is %zu but %d elements are inside", rb.size(), inside);
    MC_CHECK(rb.empty() == (inside == 0), "quiescent empty() disagrees with %d elements inside", inside);
    MC_CHECK(rb.full() == ((size_t)inside == rb.capacity()), "quiescent full() disagrees with %d elements inside, capacity %zu", inside, rb.capacity());
    MC_CHECK((size_t)inside <= rb.capacity(), "%d elements inside a buffer of capacity %zu", inside, rb.capacity());
    mc::observe("inside", inside);
    int last_from[8];
    for (int& x : last_from) x = -1;
    for (int n = 0; n < inside; n++) {
      Elem out(-1);
      MC_CHECK(rb.try_pop(out), "quiescent try_pop failed with %d elements still inside", inside - n);
      log.pop_ok(out.v, "drain");
      int pr = producer_of(out.v);
      MC_CHECK(out.v > last_from[pr], "drain returned tag %d after tag %d of the same producer", out.v, last_from[pr]);
      last_from[pr] = out.v;
    }
    Elem none(-1);
    MC_CHECK(!rb.try_pop(none), "quiescent try_pop succeeded on an empty buffer");
    for (int t = 0; t < kMaxTags; t++) MC_CHECK(log.pushed[t].get() == log.popped[t].get(), "tag %d pushed %d times but popped %d times", t, log.pushed[t].get(), log.popped[t].get());
    // refill: a push succeeds iff not full
    size_t cap = rb.capacity();
    for (size_t n = 0; n < cap; n++) MC_CHECK(rb.try_emplace(1000 + (int)n), "quiescent push %zu of %zu failed on a non-full buffer", n, cap);
    MC_CHECK(!rb.try_emplace(2000), "quiescent push succeeded on a full buffer of capacity %zu", cap);
    MC_CHECK(rb.full() && rb.size() == cap, "full()/size() wrong on a full buffer");
  } // destructor destroys what is left; the lifetime registry must balance
}
} // namespace

MC_HARNESS(mpmc) {
  long cap = P("cap", 2), round = P("round", 1);
  if (cap == 5 && !round)
    mpmc_body<dispenso::MpmcRingBuffer<Elem, 5, false>>(P);
  else if (cap == 2)
    mpmc_body<dispenso::MpmcRingBuffer<Elem, 2, true>>(P);
  else if (cap == 3 && !round)
    mpmc_body<dispenso::MpmcRingBuffer<Elem, 3, false>>(P);
  else if (cap == 3)
    mpmc_body<dispenso::MpmcRingBuffer<Elem, 3, true>>(P);
  else
    mpmc_body<dispenso::MpmcRingBuffer<Elem, 4, true>>(P);
}

// ------------------------------------------------------------------------------------------ SPSC
namespace {
template <class RB>
void spsc_body(const mc::Params& P) {
  mc::Shared<int> push_done{0}, push_started{0}, pop_done{0}, pop_started{0};
  {
    RB rb;
    const long cap = (long)rb.capacity();
    std::string prod = P.s("t0", ""), cons = P.s("t1", "");
    mc::Shared<int> next_expected{0};
    mc::spawn([&] { // consumer
      auto check_result = [&](int want_max, int got, int pushes_done_before, int pushes_started_after, int nc) {
        (void)want_max;
        // under the weak-memory option a thread's view of its peer may lag behind real time, so
        // "completed before the call started" does not imply "visible to the call"
        if (mc_get_opt(MC_OPT_WM)) return;
        if (got == 0)
          MC_CHECK(pushes_done_before - nc <= 0, "pop refused although %d element(s) had been completely pushed and not popped", pushes_done_before - nc);
        else
          MC_CHECK(pushes_started_after - nc >= got, "pop returned %d element(s) but only %d push(es) had even started", got, pushes_started_after - nc);
      };
      int nc = 0;
      for (size_t pc = 0; pc < cons.size(); pc++) {
        char op = cons[pc];
        int before = push_done.get();
        int gotn = 0;
        int tags[4];
        pop_started.add(op == 'B' ? cons[pc + 1] - '0' : 1);
        if (op == 'o') {
          Elem out(-1);
          if (rb.try_pop(out)) tags[gotn++] = out.v;
        } else if (op == 'O') {
          auto r = rb.try_pop();
          if (r) tags[gotn++] = r.value().v;
        } else if (op == 'i') {
          alignas(Elem) char buf[sizeof(Elem)];
          if (rb.try_pop_into(reinterpret_cast<Elem*>(buf))) {
            Elem* e = reinterpret_cast<Elem*>(buf);
            tags[gotn++] = e->v;
            e->~Elem();
          }
        } else if (op == 'B') {
          int n = cons[++pc] - '0';
          Elem outs[4] = {Elem(-1), Elem(-1), Elem(-1), Elem(-1)};
          size_t did = rb.try_pop_batch(outs, (size_t)n);
          MC_CHECK(did <= (size_t)n, "try_pop_batch returned more than asked");
          for (size_t q = 0; q < did; q++) tags[gotn++] = outs[q].v;
          pop_started.add((int)did - n);
        } else
          continue;
        if (op != 'B' && gotn == 0) pop_started.add(-1);
        check_result(0, gotn, before, push_started.get(), nc);
        for (int q = 0; q < gotn; q++) {
          MC_CHECK(tags[q] == nc, "SPSC pop returned tag %d, expected %d (strict FIFO)", tags[q], nc);
          nc++;
          pop_done.add(1);
        }
      }
    });
    { // producer = T0
      int np = 0;
      for (size_t pc = 0; pc < prod.size(); pc++) {
        char op = prod[pc];
        int pops_before = pop_done.get();
        int want = 1, did = 0;
        if (op == 'p') {
          push_started.add(1);
          Elem e(np);
          did = rb.try_push(std::move(e)) ? 1 : 0;
        } else if (op == 'c') {
          push_started.add(1);
          Elem e(np);
          did = rb.try_push(e) ? 1 : 0;
        } else if (op == 'e') {
          push_started.add(1);
          did = rb.try_emplace(np) ? 1 : 0;
        } else if (op == 'b') {
          want = prod[++pc] - '0';
          push_started.add(want);
          std::vector<Elem> items;
          for (int q = 0; q < want; q++) items.emplace_back(np + q);
          did = (int)rb.try_push_batch(items.begin(), items.end());
          MC_CHECK(did <= want, "try_push_batch pushed more than asked");
        } else
          continue;
        push_started.add(did - want);
        int pops_started_after = pop_started.get();
        // occupancy during the call was at most np - pops_before and at least np - pops_started_after
        if (did < want && !mc_get_opt(MC_OPT_WM)) MC_CHECK(np + did - pops_before >= cap, "push refused although at most %d of %ld slots were in use", np + did - pops_before, cap);
        if (did > 0) MC_CHECK(np + did - pops_started_after <= cap, "push accepted although the buffer held %ld elements throughout", cap);
        np += did;
        push_done.add(did);
      }
    }
    mc::join_all();
    int inside = push_done.get() - pop_done.get();
    MC_CHECK(rb.size() == (size_t)inside, "quiescent size() is %zu but %d elements are inside", rb.size(), inside);
    MC_CHECK(rb.empty() == (inside == 0), "quiescent empty() wrong");
    MC_CHECK(rb.full() == (inside == cap), "quiescent full() wrong");
    mc::observe("inside", inside);
    int expect = pop_done.get();
    for (int n = 0; n < inside; n++) {
      Elem out(-1);
      MC_CHECK(rb.try_pop(out), "quiescent try_pop failed with elements inside");
      MC_CHECK(out.v == expect, "drain returned %d, expected %d", out.v, expect);
      expect++;
    }
    Elem none(-1);
    MC_CHECK(!rb.try_pop(none), "quiescent try_pop succeeded on an empty buffer");
    for (long n = 0; n < cap; n++) MC_CHECK(rb.try_emplace(1000 + (int)n), "quiescent push failed on a non-full buffer");
    MC_CHECK(!rb.try_emplace(2000), "quiescent push succeeded on a full buffer");
  }
}
} // namespace

MC_HARNESS(spsc) {
  long cap = P("cap", 2), round = P("round", 1);
  // exact (round=0) capacities give buffer sizes cap+1 that are NOT powers of two for cap 2, 4, 5
  // (index arithmetic by modulo instead of mask) and a power of two for cap 1, 3
  if (cap == 1)
    spsc_body<dispenso::SPSCRingBuffer<Elem, 1, true>>(P);
  else if (cap == 2 && !round)
    spsc_body<dispenso::SPSCRingBuffer<Elem, 2, false>>(P);
  else if (cap == 4 && !round)
    spsc_body<dispenso::SPSCRingBuffer<Elem, 4, false>>(P);
  else if (cap == 5 && !round)
    spsc_body<dispenso::SPSCRingBuffer<Elem, 5, false>>(P);
  else if (cap == 2)
    spsc_body<dispenso::SPSCRingBuffer<Elem, 2, true>>(P);
  else if (cap == 3 && !round)
    spsc_body<dispenso::SPSCRingBuffer<Elem, 3, false>>(P);
  else if (cap == 3)
    spsc_body<dispenso::SPSCRingBuffer<Elem, 3, true>>(P);
  else
    spsc_body<dispenso::SPSCRingBuffer<Elem, 4, true>>(P);
}

// ------------------------------------------------------------------------------------------ deque
namespace {
template <class DQ>
void deque_body(const mc::Params& P) {
  mc::Shared<int> pushed[kMaxTags], taken[kMaxTags];
  DQ dq;
  std::string owner = P.s("t0", "");
  std::string st[3] = {P.s("t1", ""), P.s("t2", ""), P.s("t3", "")};
  auto take = [&](int tag, const char* how) {
    MC_CHECK(tag >= 0 && tag < kMaxTags && pushed[tag].get() == 1, "%s returned %d which was never pushed", how, tag);
    MC_CHECK(taken[tag].add(1) == 0, "%s returned element %d a second time", how, tag);
  };
  for (int i = 0; i < 3; i++)
    if (!st[i].empty() && st[i] != "-")
      mc::spawn([&, i] {
        int last = -1;
        for (char op : st[i]) {
          int v = -1;
          bool ok = false;
          if (op == 's')
            ok = dq.try_steal(v);
          else if (op == 'S')
            ok = dq.try_steal_into(&v);
          if (ok) {
            take(v, "steal");
            MC_CHECK(v > last, "stealer received %d after %d: steals must come oldest first", v, last);
            last = v;
          }
        }
      });
  {
    int k = 0;
    std::vector<int> mine; // owner's model: pushed and not popped by the owner
    for (char op : owner) {
      if (op == 'p') {
        pushed[k].set(1);
        if (dq.try_push(k)) {
          mine.push_back(k);
          k++;
        } else {
          pushed[k].set(0);
          MC_CHECK(mine.size() >= dq.capacity() || true, "unreachable");
        }
      } else if (op == 'o' || op == 'i') {
        int v = -1;
        bool ok = op == 'o' ? dq.try_pop(v) : dq.try_pop_into(&v);
        if (ok) {
          take(v, "pop");
          MC_CHECK(!mine.empty() && v == mine.back(), "owner pop returned %d but the newest remaining element is %d", v, mine.empty() ? -1 : mine.back());
          mine.pop_back();
        } else {
          mine.clear(); // empty as seen by the owner: everything left was (or is being) stolen
        }
      }
    }
  }
  mc::join_all();
  int inside = 0;
  for (int t = 0; t < kMaxTags; t++) inside += pushed[t].get() - taken[t].get();
  MC_CHECK(dq.size() == (size_t)inside, "quiescent size() is %zu but %d elements are inside", dq.size(), inside);
  MC_CHECK(dq.empty() == (inside == 0), "quiescent empty() wrong");
  MC_CHECK((size_t)inside <= dq.capacity(), "%d elements inside a deque of capacity %zu", inside, dq.capacity());
  mc::observe("inside", inside);
  // quiescent: steal the oldest, pop the rest newest-first
  if (inside > 0) {
    int v = -1;
    MC_CHECK(dq.try_steal(v), "quiescent steal failed on a non-empty deque");
    take(v, "quiescent steal");
    for (int t = 0; t < v; t++) MC_CHECK(pushed[t].get() == 0 || taken[t].get() == 1, "quiescent steal returned %d although older element %d is still inside", v, t);
    inside--;
  }
  int prev = kMaxTags;
  for (int n = 0; n < inside; n++) {
    int v = -1;
    MC_CHECK(dq.try_pop(v), "quiescent pop failed on a non-empty deque");
    take(v, "quiescent pop");
    MC_CHECK(v < prev, "quiescent pops not newest-first");
    prev = v;
  }
  int v = -1;
  MC_CHECK(!dq.try_pop(v) && !dq.try_steal(v), "pop/steal succeeded on an empty deque");
  for (int t = 0; t < kMaxTags; t++) MC_CHECK(pushed[t].get() == taken[t].get(), "element %d pushed but never returned", t);
}
} // namespace

MC_HARNESS(deque) {
  long cap = P("cap", 2);
  if (cap == 1)
    deque_body<dispenso::ChaseLevDeque<int, 1>>(P);
  else if (cap == 2)
    deque_body<dispenso::ChaseLevDeque<int, 2>>(P);
  else
    deque_body<dispenso::ChaseLevDeque<int, 4>>(P);
}
