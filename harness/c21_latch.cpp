// C21: CompletionEvent and Latch waits never miss a wakeup and never return early.
#include "mc_harness.h"
#include <memory>
#include <dispenso/completion_event.h>
#include <dispenso/latch.h>

static std::vector<int> parse_list(const std::string& s) {
  std::vector<int> out;
  int cur = -1;
  for (char c : s) {
    if (c >= '0' && c <= '9')
      cur = (cur < 0 ? 0 : cur * 10) + (c - '0');
    else if (cur >= 0) {
      out.push_back(cur);
      cur = -1;
    }
  }
  if (cur >= 0) out.push_back(cur);
  return out;
}

// params: c = initial count; A, B = dotted lists of count_down amounts for two counting threads
// ("-" = thread absent); aw = number of arrive_and_wait participants; w = number of pure waiters.
// sum(A)+sum(B)+aw == c.
MC_HARNESS(latch) {
  int c = (int)P("c", 1);
  std::vector<int> A = parse_list(P.s("A", "")), B = parse_list(P.s("B", ""));
  int aw = (int)P("aw", 0), w = (int)P("w", 1);
  dispenso::Latch l((uint32_t)c);
  auto raw_count = [&] { return l.impl_.status_.a_.load(std::memory_order_relaxed); };
  mc::Shared<int> returned{0};
  // Plain (non-atomic) payloads, one per counting thread, written before its first count_down() and read by every
  // waiter after its wait returned: a latch is a synchronisation point (as std::latch: count_down strongly
  // happens-before the return of wait), so these accesses are ordered. The serialising scheduler makes the values
  // always right; what this gives is something for the ThreadSanitizer runs (C21's own and C10's) to see if an
  // arrival stops synchronising with the waiters.
  std::unique_ptr<int[]> payload(new int[2]());
  auto read_payloads = [&](const char* who) {
    if (!A.empty()) MC_CHECK(payload[0] == 1, "%s returned but the first counting thread's earlier write is not visible", who);
    if (!B.empty()) MC_CHECK(payload[1] == 1, "%s returned but the second counting thread's earlier write is not visible", who);
  };
  for (int i = 0; i < w; i++)
    mc::spawn([&] {
      l.wait();
      MC_CHECK(raw_count() == 0, "Latch::wait() returned while the count was still %d", raw_count());
      read_payloads("Latch::wait()");
      MC_CHECK(l.try_wait(), "try_wait() false after wait() returned");
      read_payloads("Latch::try_wait()");
      returned.add(1);
    });
  for (int i = 0; i < aw; i++)
    mc::spawn([&] {
      l.arrive_and_wait();
      MC_CHECK(raw_count() == 0, "Latch::arrive_and_wait() returned while the count was still %d", raw_count());
      read_payloads("Latch::arrive_and_wait()");
      returned.add(1);
    });
  if (!B.empty())
    mc::spawn([&] {
      payload[1] = 1;
      for (int n : B) l.count_down((uint32_t)n);
    });
  if (!A.empty()) payload[0] = 1;
  for (int n : A) l.count_down((uint32_t)n);
  mc::join_all(); // a waiter that never returns shows up as a deadlock
  MC_CHECK(returned.get() == w + aw, "not all waiters returned");
  MC_CHECK(l.try_wait(), "try_wait() false after the count reached zero");
  mc::observe("ok", 1);
}

// params: w = waiters (1..2); pre = 1: notify before the waiters start; reset = 1: second round after reset()
MC_HARNESS(cevent) {
  int w = (int)P("w", 1);
  bool pre = P("pre", 0) != 0;
  dispenso::CompletionEvent ev;
  auto raw = [&] { return ev.impl_.status_.a_.load(std::memory_order_relaxed); };
  mc::Shared<int> notified{0};
  std::unique_ptr<int> payload(new int(0)); // plain data published by notify() (see the latch harness)
  if (pre) {
    notified.set(1);
    *payload = 1;
    ev.notify();
  }
  for (int i = 0; i < w; i++)
    mc::spawn([&] {
      ev.wait();
      MC_CHECK(notified.get() == 1 && raw() == 1, "CompletionEvent::wait() returned before notify()");
      MC_CHECK(*payload == 1, "CompletionEvent::wait() returned but the notifier's earlier write is not visible");
      MC_CHECK(ev.completed(), "completed() false after wait() returned");
    });
  if (!pre) {
    notified.set(1);
    *payload = 1;
    ev.notify();
  }
  mc::join_all();
  mc::observe("ok", 1);
}
