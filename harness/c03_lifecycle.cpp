// C03 / C07 / C09: ThreadPool lifecycle under the model checker.
//   idle_submit  (C07)  submissions into a fully parked pool start without the 100 ms sleep backstop
//   lifecycle    (C09)  ~ThreadPool / resize / setSignalingWake return wherever the workers are
//   resize_work  (C03)  resize racing every submission path: exactly once, nothing stranded
#include "mc_harness.h"
#include <dispenso/future.h>
#include <dispenso/parallel_for.h>
#include <dispenso/task_set.h>
#include <dispenso/thread_pool.h>
#include <unistd.h>

namespace {
constexpr int kMax = 16;

// raw (unscheduled) views of private pool state, for block_until predicates and post-conditions
dispenso::detail::PoolWakeState* raw_ws(dispenso::ThreadPool& p) { return p.wakeState_.a_.load(std::memory_order_relaxed); }
int raw_sleeping(dispenso::ThreadPool& p) {
  auto* ws = raw_ws(p);
  return ws ? ws->totalSleeping_.a_.load(std::memory_order_relaxed) : 0;
}
long raw_outstanding(dispenso::TaskSetBase& ts) { return (long)ts.outstandingTaskCount_.a_.load(std::memory_order_relaxed); }

void prewarm() { (void)dispenso::CpuSet::l3CacheGroups(); } // reads sysfs once; keep that out of the executions
static mc::HookSetter hooks(prewarm, nullptr);

struct Tasks {
  mc::Shared<int> started[kMax];
  mc::Shared<int> finished[kMax];
  mc::Shared<int> nstarted{0};
  mc::Shared<int> nfinished{0};
  mc::Shared<int> caller_ran{0};
  mc::Shared<int> pool_gone{0};
  int caller_tid = -1;
  int hold = 0; // >0: a task body does not return before `hold` tasks have started (long-running tasks)
  void body(int id) {
    MC_CHECK(pool_gone.get() == 0, "task %d started after the pool was destroyed", id);
    int prev = started[id].add(1);
    MC_CHECK(prev == 0, "task %d started a second time", id);
    if (mc_self_id() == caller_tid) caller_ran.add(1);
    nstarted.add(1);
    if (hold > 0) mc::block_until([&] { return nstarted.get() >= hold; });
    finished[id].add(1);
    nfinished.add(1);
  }
};
} // namespace

// ------------------------------------------------------------------------------------------------ C07
// params: n pool size; k number of tasks (for pfs/pfa: range size); path:
//   s   k x pool.schedule(f)                     q   k x pool.schedule(f, ForceQueuingTag)
//   b   pool.scheduleBulk(k)                     ts  k x TaskSet::schedule(f)
//   tb  TaskSet::scheduleBulk(k)  (k <= n: per-thread ring fast path; k = n+1: central queue)
//   pfs parallel_for(ts, static range of k, wait=false)     pfa  same with kAdaptive chunking
//   cs  k x ConcurrentTaskSet(kHeavy)::schedule (placed: steal ring of the claimed sleeper)
// hold=1: task bodies are long-running (none returns before min(k,n) of them have started), so every task needs
//         its own worker to be woken; hold=0: bodies return at once (a single woken worker may run all of them).
MC_HARNESS(idle_submit) {
  int n = (int)P("n", 2), k = (int)P("k", 1);
  std::string path = P.s("path", "tb");
  Tasks t;
  t.caller_tid = mc_self_id();
  int want = k; // number of task bodies / range items that must start
  if (P("hold", 0)) t.hold = k < n ? k : n;
  {
    dispenso::ThreadPool pool((size_t)n);
    // Precondition "all workers parked": T0 sleeps 50 ms of virtual time. A timed sleep expires only when no
    // other thread can run, i.e. exactly when every worker is blocked inside its futex wait (their own
    // deadlines are 100 ms after they parked, so T0's is the earliest).
    usleep(50000);
    MC_CHECK(raw_sleeping(pool) == n, "harness: %d of %d workers parked after the quiet period", raw_sleeping(pool), n);
    uint64_t t_submit = mc::now_ns();
    mc::opt(MC_OPT_TIMEOUTS, 0); // from here on the backstop never fires
    dispenso::TaskSet ts(pool);
    dispenso::ConcurrentTaskSet cts(pool);
    bool via_ts = false, via_cts = false;
    if (path == "s") {
      for (int i = 0; i < k; i++) pool.schedule([&t, i] { t.body(i); });
    } else if (path == "q") {
      for (int i = 0; i < k; i++) pool.schedule([&t, i] { t.body(i); }, dispenso::ForceQueuingTag());
    } else if (path == "b") {
      pool.scheduleBulk((size_t)k, [&t](size_t i) { return [&t, i] { t.body((int)i); }; });
    } else if (path == "ts") {
      via_ts = true;
      for (int i = 0; i < k; i++) ts.schedule([&t, i] { t.body(i); });
    } else if (path == "tb") {
      via_ts = true;
      if (k <= n) mc::cover("ring_fast_path");
      else mc::cover("bulk_central_queue");
      ts.scheduleBulk((size_t)k, [&t](size_t i) { return [&t, i] { t.body((int)i); }; });
    } else if (path == "cs") {
      via_cts = true;
      for (int i = 0; i < k; i++) cts.schedule([&t, i] { t.body(i); });
    } else if (path == "pfs" || path == "pfa") {
      via_ts = true;
      dispenso::ParForOptions o;
      o.wait = false;
      auto range = dispenso::makeChunkedRange(0, k, path == "pfs" ? dispenso::ParForChunking::kStatic : dispenso::ParForChunking::kAdaptive);
      dispenso::parallel_for(
          ts, range, [&t](int b, int e) { for (int i = b; i < e; i++) t.body(i); }, o);
    } else {
      MC_CHECK(false, "harness: unknown path %s", path.c_str());
    }
    MC_CHECK(t.caller_ran.get() == 0, "harness: the submitting thread ran %d task(s) inline, the matrix must avoid that", t.caller_ran.get());
    // The producer neither waits nor helps. Oracle: every task starts (and, for task sets, the set drains) with
    // timeouts off. If a task is still unstarted when every thread is parked the engine reports a deadlock.
    mc::block_until([&] { return t.nstarted.get() >= want; });
    if (via_ts) mc::block_until([&] { return raw_outstanding(ts) == 0; });
    if (via_cts) mc::block_until([&] { return raw_outstanding(cts) == 0; });
    MC_CHECK(mc::now_ns() - t_submit < 50ull * 1000 * 1000, "tasks started only after %llu virtual us", (unsigned long long)((mc::now_ns() - t_submit) / 1000));
    mc::observe("sleeping_after", raw_sleeping(pool));
    mc::opt(MC_OPT_TIMEOUTS, 1);
    ts.wait();
    cts.wait();
  }
  t.pool_gone.set(1);
  for (int i = 0; i < want; i++) MC_CHECK(t.started[i].get() == 1 && t.finished[i].get() == 1, "task %d: started %d finished %d", i, t.started[i].get(), t.finished[i].get());
  mc::observe("tasks", want);
}
