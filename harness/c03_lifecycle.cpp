// C03 / C07 / C09: ThreadPool lifecycle under the model checker.
//   idle_submit  (C07)  submissions into a fully parked pool start without the 100 ms sleep backstop
//   lifecycle    (C09)  ~ThreadPool / resize / setSignalingWake return wherever the workers are
//   resize_work  (C03)  resize racing every submission path: exactly once, nothing stranded
#include "mc_harness.h"
#include <dispenso/future.h>
#include <dispenso/parallel_for.h>
#include <dispenso/task_set.h>
#include <dispenso/thread_pool.h>
#include <malloc.h>
#include <unistd.h>

namespace {
constexpr int kMax = 16;

// raw (unscheduled) views of private pool state, for block_until predicates and post-conditions
dispenso::detail::PoolWakeState* raw_ws(dispenso::ThreadPool& p) { return p.wakeState_.a_.load(std::memory_order_relaxed); }
int raw_sleeping(dispenso::ThreadPool& p) {
  auto* ws = raw_ws(p);
  return ws ? ws->totalSleeping_.a_.load(std::memory_order_relaxed) : 0;
}
long raw_outstanding(dispenso::TaskSetBase& ts) { return (long)ts.outstandingTaskCount_.a_.load(std::memory_order_relaxed); }

void prewarm() {
  (void)dispenso::CpuSet::l3CacheGroups(); // reads sysfs once; keep that out of the executions
  // The engine classifies a store as "changed memory" by comparing with the previous content, so the initial
  // stores into freshly malloc'ed objects depend on heap garbage. Make fresh allocations deterministic.
  if (!getenv("LIFECYCLE_NOPERTURB")) mallopt(M_PERTURB, 0x5a);
}
static mc::HookSetter hooks(prewarm, nullptr);

struct Tasks {
  mc::Shared<int> started[kMax];
  mc::Shared<int> finished[kMax];
  mc::Shared<int> runner[kMax];
  mc::Shared<int> nstarted{0};
  mc::Shared<int> nfinished{0};
  mc::Shared<int> caller_ran{0};
  mc::Shared<int> pool_gone{0};
  int caller_tid = -1;
  int hold = 0; // >0: a task body does not return before `hold` tasks have started (long-running tasks)
  void body(int id) {
    MC_CHECK(pool_gone.get() == 0, "task %d started after the pool was destroyed", id);
    int prev = started[id].add(1);
    MC_CHECK(prev == 0, "task %d started a second time", id);
    runner[id].set(mc_self_id());
    if (mc_self_id() == caller_tid) caller_ran.add(1);
    nstarted.add(1);
    if (hold > 0) mc::block_until([&] { return nstarted.get() >= hold; });
    finished[id].add(1);
    nfinished.add(1);
  }
};
} // namespace

// ------------------------------------------------------------------------------------------------ C07
// params: n pool size; k number of tasks (for pfs/pfa: range size); path:
//   s   k x pool.schedule(f)                     q   k x pool.schedule(f, ForceQueuingTag)
//   b   pool.scheduleBulk(k)                     ts  k x TaskSet::schedule(f)
//   tb  TaskSet::scheduleBulk(k)  (k <= n: per-thread ring fast path; k = n+1: central queue)
//   pfs parallel_for(ts, static range of k, wait=false)     pfa  same with kAdaptive chunking
//   cs  k x ConcurrentTaskSet(kHeavy)::schedule (placed: steal ring of the claimed sleeper)
// hold=1: task bodies are long-running (none returns before min(k,n) of them have started), so every task needs
//         its own worker to be woken; hold=0: bodies return at once (a single woken worker may run all of them).
MC_HARNESS(idle_submit) {
  int n = (int)P("n", 2), k = (int)P("k", 1);
  std::string path = P.s("path", "tb");
  Tasks t;
  t.caller_tid = mc_self_id();
  int want = k; // number of task bodies / range items that must start
  if (P("hold", 0)) t.hold = k < n ? k : n;
  {
    dispenso::ThreadPool pool((size_t)n);
    // Precondition "all workers parked": T0 sleeps 50 ms of virtual time. A timed sleep expires only when no
    // other thread can run, i.e. exactly when every worker is blocked inside its futex wait (their own
    // deadlines are 100 ms after they parked, so T0's is the earliest).
    usleep(50000);
    MC_CHECK(raw_sleeping(pool) == n, "harness: %d of %d workers parked after the quiet period", raw_sleeping(pool), n);
    uint64_t t_submit = mc::now_ns();
    mc::opt(MC_OPT_TIMEOUTS, 0); // from here on the backstop never fires
    dispenso::TaskSet ts(pool);
    dispenso::ConcurrentTaskSet cts(pool);
    bool via_ts = false, via_cts = false;
    if (path == "s") {
      for (int i = 0; i < k; i++) pool.schedule([&t, i] { t.body(i); });
    } else if (path == "q") {
      for (int i = 0; i < k; i++) pool.schedule([&t, i] { t.body(i); }, dispenso::ForceQueuingTag());
    } else if (path == "b") {
      pool.scheduleBulk((size_t)k, [&t](size_t i) { return [&t, i] { t.body((int)i); }; });
    } else if (path == "ts") {
      via_ts = true;
      for (int i = 0; i < k; i++) ts.schedule([&t, i] { t.body(i); });
    } else if (path == "tb") {
      via_ts = true;
      if (k <= n) mc::cover("ring_fast_path");
      else mc::cover("bulk_central_queue");
      ts.scheduleBulk((size_t)k, [&t](size_t i) { return [&t, i] { t.body((int)i); }; });
    } else if (path == "cs") {
      via_cts = true;
      for (int i = 0; i < k; i++) cts.schedule([&t, i] { t.body(i); });
    } else if (path == "pfs" || path == "pfa") {
      via_ts = true;
      dispenso::ParForOptions o;
      o.wait = false;
      auto range = dispenso::makeChunkedRange(0, k, path == "pfs" ? dispenso::ParForChunking::kStatic : dispenso::ParForChunking::kAdaptive);
      dispenso::parallel_for(
          ts, range, [&t](int b, int e) { for (int i = b; i < e; i++) t.body(i); }, o);
    } else {
      MC_CHECK(false, "harness: unknown path %s", path.c_str());
    }
    MC_CHECK(t.caller_ran.get() == 0, "harness: the submitting thread ran %d task(s) inline, the matrix must avoid that", t.caller_ran.get());
    // The producer neither waits nor helps. Oracle: every task starts (and, for task sets, the set drains) with
    // timeouts off. If a task is still unstarted when every thread is parked the engine reports a deadlock.
    mc::block_until([&] { return t.nstarted.get() >= want; });
    if (via_ts) mc::block_until([&] { return raw_outstanding(ts) == 0; });
    if (via_cts) mc::block_until([&] { return raw_outstanding(cts) == 0; });
    MC_CHECK(mc::now_ns() - t_submit < 50ull * 1000 * 1000, "tasks started only after %llu virtual us", (unsigned long long)((mc::now_ns() - t_submit) / 1000));
    mc::observe("sleeping_after", raw_sleeping(pool));
    mc::opt(MC_OPT_TIMEOUTS, 1);
    ts.wait();
    cts.wait();
  }
  t.pool_gone.set(1);
  for (int i = 0; i < want; i++) MC_CHECK(t.started[i].get() == 1 && t.finished[i].get() == 1, "task %d: started %d finished %d", i, t.started[i].get(), t.finished[i].get());
  mc::observe("tasks", want);
}

// ------------------------------------------------------------------------------------------------ C09
// params: n pool size; poll=1: pool switched to poll mode (setSignalingWake(false, 200us)) before the test;
//   task: 0 none, 1 T0 submits one task and goes on at once, 2 T0 submits one task and waits until its body has
//         started (worker busy inside the task, which contains scheduling points);
//   when: 0 act immediately, 1 act as soon as totalSleeping()==n (T0 becomes runnable at the last worker's
//         enterSleep, so "between enterSleep and the futex wait" is one preemption away), 2 act after a quiet
//         period in which every worker is blocked in its futex wait (wake mode only);
//   op: d = destroy, r<m> = resize(m), w0 / w1 = setSignalingWake(false, 200us) / setSignalingWake(true).
// In wake mode timed futex waits never expire once the call under test begins (the harness switches
// MC_OPT_TIMEOUTS off right before it), so a worker that misses
// stop()+wakeAll() leaves T0 blocked in join => deadlock verdict. The same holds in poll mode (the poll period is
// for finding work, not for shutting down), except while an unstarted task (task=1) still needs a poll. After the call: live modelled threads == 1 + new size.
MC_HARNESS(lifecycle) {
  int n = (int)P("n", 1), task = (int)P("task", 0), when = (int)P("when", 0);
  bool poll = P("poll", 0) != 0;
  std::string op = P.s("op", "d");
  mc::Shared<int> started{0}, finished{0};
  auto expect_live = [&](int workers, const char* what) {
    int live = mc_live_threads();
    MC_CHECK(live == 1 + workers, "after %s: %d modelled threads alive, expected T0 + %d workers", what, live, workers);
  };
  {
    auto pool = std::make_unique<dispenso::ThreadPool>((size_t)n);
    if (poll) pool->setSignalingWake(false, std::chrono::microseconds(200));
    expect_live(n, "construction");
    if (when == 2 && !poll) {
      usleep(50000); // expires only when every worker is blocked in its (100 ms) futex wait
      MC_CHECK(raw_sleeping(*pool) == n, "harness: %d of %d workers parked after the quiet period", raw_sleeping(*pool), n);
      mc::cover("all_parked");
    }
    bool wake_mode = !poll;
    // (timeouts stay on while the optional task is submitted: a submission racing a worker that is just parking
    // is allowed to fall back on the backstop - documented in thread_pool.h - and is not what C09 is about)
    if (task) {
      pool->schedule(
          [&] {
            started.set(1);
            mc::point();
            mc::point();
            finished.set(1);
          },
          dispenso::ForceQueuingTag());
      if (task == 2) {
        mc::block_until([&] { return started.get() == 1; });
        if (finished.get() == 0) mc::cover("worker_busy");
      }
    }
    if (when == 1 && !poll) {
      mc::block_until([&] { return raw_sleeping(*pool) == n; });
      mc::cover("at_enter_sleep");
    }
    int size_now = n;
    // From here on a parked worker is only ever woken by wakeAll(): timed waits may not expire. That holds in poll
    // mode too - the poll period is how a polling worker finds *work*, but stop()+wakeAll() must end its sleep at
    // once whatever the period (setSignalingWake(false, 3s) is legal) - except while a task that nobody has started
    // yet (task=1) still needs a poll to be picked up.
    const bool no_timeouts = wake_mode || task != 1;
    mc::opt(MC_OPT_TIMEOUTS, no_timeouts ? 0 : 1);
    if (op == "d") {
      pool.reset();
      expect_live(0, "~ThreadPool");
      if (task) MC_CHECK(finished.get() == 1, "~ThreadPool returned with the queued task not run");
      mc::cover("destroy");
    } else if (op[0] == 'r') {
      int m = atoi(op.c_str() + 1);
      pool->resize(m);
      size_now = m;
      expect_live(m, "resize");
      MC_CHECK(pool->numThreads() == m, "numThreads() %ld after resize(%d)", (long)pool->numThreads(), m);
      mc::cover(m > n ? "grow" : (m == 0 ? "to_zero" : (m == n ? "same" : "shrink")));
    } else if (op == "w0" || op == "w1") {
      if (op == "w0") pool->setSignalingWake(false, std::chrono::microseconds(200));
      else pool->setSignalingWake(true, std::chrono::microseconds(dispenso::kDefaultSleepLenUs));
      wake_mode = op == "w1";
      expect_live(n, "setSignalingWake");
      mc::cover(op == "w0" ? "to_poll" : "to_wake");
    } else {
      MC_CHECK(false, "harness: unknown op %s", op.c_str());
    }
    // teardown doubles as a second shutdown test: workers that were only just created, in the final mode
    mc::opt(MC_OPT_TIMEOUTS, (wake_mode || task != 1) ? 0 : 1);
    (void)size_now;
    pool.reset();
    expect_live(0, "final ~ThreadPool");
  }
  mc::opt(MC_OPT_TIMEOUTS, 1);
  if (task) MC_CHECK(started.get() == 1 && finished.get() == 1, "task started %d finished %d after the pool is gone", started.get(), finished.get());
  mc::observe("done", 1);
}

// ------------------------------------------------------------------------------------------------ C03
// Thread A submits k tasks through one path and waits for them; thread B runs a resize script concurrently
// (resize() racing schedule() from other threads is supported: thread_pool_test ResizeConcurrent /
// ResizeMoreConcurrent / ResizeGrowConcurrentBulk do exactly that, and resizeLocked()'s comments say external
// schedule() calls are safe to race). T0 is the watchdog.
// params: n initial size; r dotted resize script ("3", "1", "0", "0.2", "1.3"); k tasks (default n); path:
//   s   k x pool.schedule(f); no wait API on a bare pool, so the tasks must have run when ~ThreadPool returns
//   ts  k x TaskSet::schedule(f); wait()            tb  TaskSet::scheduleBulk(k) (k <= n: ring fast path); wait()
//   cs  k x ConcurrentTaskSet(kHeavy)::schedule(f) (placed -> steal ring when a sleeper is claimed); wait()
//   pf  parallel_for(TaskSet, static range of k+1, wait=true): k chunks to the rings, one on the caller
//   as  k x dispenso::async(pool, f); Future::wait() on each
// gate=g (directed variant): the g-th piece of *user code* that dispenso runs on thread A inside the submission
//   call (a bulk generator invocation, or a copy/move of the user's functor) is slow: it returns only after B's
//   whole script has run, and B starts only when that hook has been entered (or A's submission is over). Slow
//   generators / copy constructors are legal user code, so these are legal programs; they put a complete resize
//   at every such point of the submission window without spending deviations. gate=0: free-running race.
// Oracle: every body runs exactly once; when wait() returns all of A's tasks have finished; wait() and resize()
// return within 3 s of virtual time (the 100 ms backstop may fire, so a merely delayed task is not reported, only
// one that nobody will ever run); all bodies have run when ~ThreadPool returns and none runs later.
namespace {
struct Gate {
  int at = 0, a_tid = -1;
  mc::Shared<int> armed{0}, count{0}, fired{0}, b_done{0}, submitted{0};
  void hook() {
    if (!at || !armed.get() || mc_self_id() != a_tid) return;
    if (count.add(1) + 1 != at) return;
    fired.set(1);
    mc::cover("gate_fired");
    mc::block_until([&] { return b_done.get() == 1; });
  }
};
struct Fn { // user functor whose copies/moves are observable user code
  Tasks* t;
  Gate* g;
  int id;
  Fn(Tasks* t_, Gate* g_, int id_) : t(t_), g(g_), id(id_) {}
  Fn(const Fn& o) : t(o.t), g(o.g), id(o.id) { g->hook(); }
  Fn(Fn&& o) noexcept : t(o.t), g(o.g), id(o.id) { g->hook(); }
  void operator()() const { t->body(id); }
};
struct RangeFn { // parallel_for body
  Tasks* t;
  Gate* g;
  RangeFn(Tasks* t_, Gate* g_) : t(t_), g(g_) {}
  RangeFn(const RangeFn& o) : t(o.t), g(o.g) { g->hook(); }
  RangeFn(RangeFn&& o) noexcept : t(o.t), g(o.g) { g->hook(); }
  void operator()(int b, int e) const {
    for (int i = b; i < e; i++) t->body(i);
  }
};
} // namespace

MC_HARNESS(resize_work) {
  int n = (int)P("n", 2), k = (int)P("k", n);
  std::string path = P.s("path", "tb"), script = P.s("r", "1");
  std::vector<int> sizes;
  {
    int cur = -1;
    for (char c : script + ".") {
      if (c >= '0' && c <= '9') cur = (cur < 0 ? 0 : cur * 10) + (c - '0');
      else if (cur >= 0) sizes.push_back(cur), cur = -1;
    }
  }
  Tasks t;
  Gate g;
  g.at = (int)P("gate", 0);
  // watch=w (directed variant, like gate): B's whole script runs right before A's w-th access to pool.numRings_
  // inside the submission call - the windows of the ring dispatch that contain no user code (between the task
  // set's "count <= numRings_" gate and the re-read in scheduleBulkToRings, and between that and the pushes)
  int watch = (int)P("watch", 0);
  mc::Shared<int> a_done{0};
  int ntasks = path == "pf" ? k + 1 : k;
  auto all_finished = [&] {
    for (int i = 0; i < ntasks; i++)
      if (t.finished[i].get() != 1) return false;
    return true;
  };
  {
    // pool and task sets live on the heap (deterministic fill, see prewarm): their atomics must not start from
    // whatever the previous execution left on a reused thread stack
    auto pool_p = std::make_unique<dispenso::ThreadPool>((size_t)n);
    dispenso::ThreadPool& pool = *pool_p;
    auto thread_a = [&] { // ---- thread A (runs on T0, see below)
      g.a_tid = mc_self_id();
      auto ring_likely = [&](int cnt) {
        long np = (long)pool.numThreads_.a_.load(std::memory_order_relaxed);
        long nr = (long)pool.numRings_.a_.load(std::memory_order_relaxed);
        return cnt * 4 >= np && cnt <= np && nr >= cnt;
      };
      auto gen = [&](size_t i) {
        g.hook();
        return Fn(&t, &g, (int)i);
      };
      g.armed.set(1);
      if (watch)
        mc_watch(&pool.numRings_.a_, mc_self_id(), watch,
                 [](void* p) {
                   Gate* gg = (Gate*)p;
                   gg->fired.set(1);
                   mc::cover("watch_fired");
                   mc::block_until([gg] { return gg->b_done.get() == 1; });
                 },
                 &g);
      if (path == "s") {
        for (int i = 0; i < k; i++) pool.schedule(Fn(&t, &g, i));
        g.armed.set(0), g.submitted.set(1);
      } else if (path == "ts") {
        auto ts_p = std::make_unique<dispenso::TaskSet>(pool);
        dispenso::TaskSet& ts = *ts_p;
        for (int i = 0; i < k; i++) ts.schedule(Fn(&t, &g, i));
        g.armed.set(0), g.submitted.set(1);
        ts.wait();
        MC_CHECK(all_finished(), "TaskSet::wait() returned with %d of %d tasks finished", t.nfinished.get(), ntasks);
      } else if (path == "tb") {
        auto ts_p = std::make_unique<dispenso::TaskSet>(pool);
        dispenso::TaskSet& ts = *ts_p;
        if (ring_likely(k)) mc::cover("ring_fast_path");
        ts.scheduleBulk((size_t)k, gen);
        g.armed.set(0), g.submitted.set(1);
        ts.wait();
        MC_CHECK(all_finished(), "TaskSet::wait() returned with %d of %d tasks finished", t.nfinished.get(), ntasks);
      } else if (path == "cs") {
        auto cts_p = std::make_unique<dispenso::ConcurrentTaskSet>(pool);
        dispenso::ConcurrentTaskSet& cts = *cts_p;
        for (int i = 0; i < k; i++) {
          cts.schedule(Fn(&t, &g, i));
          if (pool.stealRingsWithWork_.a_.load(std::memory_order_relaxed) != 0) mc::cover("steal_ring");
        }
        g.armed.set(0), g.submitted.set(1);
        cts.wait();
        MC_CHECK(all_finished(), "ConcurrentTaskSet::wait() returned with %d of %d tasks finished", t.nfinished.get(), ntasks);
      } else if (path == "pf") {
        auto ts_p = std::make_unique<dispenso::TaskSet>(pool);
        dispenso::TaskSet& ts = *ts_p;
        if (ring_likely(k)) mc::cover("ring_fast_path");
        // the hooks of this path are the copies of the loop body that parallel_for makes per chunk while it is
        // inside TaskSet::scheduleBulk; the caller's own chunk and wait() follow inside the same call
        dispenso::parallel_for(ts, dispenso::makeChunkedRange(0, k + 1, dispenso::ParForChunking::kStatic), RangeFn(&t, &g));
        g.armed.set(0), g.submitted.set(1);
        MC_CHECK(all_finished(), "parallel_for returned with %d of %d indices done", t.nfinished.get(), ntasks);
      } else if (path == "as") {
        std::vector<dispenso::Future<void>> futs;
        for (int i = 0; i < k; i++) futs.push_back(dispenso::async(pool, Fn(&t, &g, i)));
        g.armed.set(0), g.submitted.set(1);
        for (auto& f : futs) f.wait();
        MC_CHECK(all_finished(), "Future::wait() returned with %d of %d functors finished", t.nfinished.get(), ntasks);
      } else {
        MC_CHECK(false, "harness: unknown path %s", path.c_str());
      }
      mc::observe("hooks", g.count.get());
      a_done.set(1);
    };
    mc::spawn([&] { // ---- thread B
      if (g.at || watch) mc::block_until([&] { return g.fired.get() == 1 || g.submitted.get() == 1; });
      for (int m : sizes) {
        pool.resize(m);
        MC_CHECK(pool.numThreads() == m, "numThreads() %ld right after resize(%d)", (long)pool.numThreads(), m);
      }
      g.b_done.set(1);
    });
    // ---- watchdog in virtual time (a third thread that is blocked for the whole execution)
    uint64_t limit = mc::now_ns() + 3000ull * 1000 * 1000;
    mc::spawn([&] {
      mc::block_until([&] { return (a_done.get() && g.b_done.get()) || mc::now_ns() > limit; });
      MC_CHECK(g.b_done.get() == 1, "resize script %s did not finish within 3 s of virtual time", script.c_str());
      MC_CHECK(a_done.get() == 1, "stranded: the submitter is still waiting after 3 s of virtual time (%d of %d tasks started, %d finished, pool size now %ld)",
               t.nstarted.get(), ntasks, t.nfinished.get(), (long)pool.numThreads_.a_.load(std::memory_order_relaxed));
    });
    // A runs on T0 itself: moodycamel keys implicit producers by the address of a thread_local, and T0's is the
    // same in every execution while a spawned thread's is not (the engine then reports a non-deterministic replay)
    thread_a();
    mc::join_all();
    int final_size = sizes.empty() ? n : sizes.back();
    MC_CHECK(mc_live_threads() == 1 + final_size, "%d modelled threads alive after the script, expected T0 + %d workers", mc_live_threads(), final_size);
    if (t.nfinished.get() < ntasks) mc::cover("left_for_destructor");
  }
  t.pool_gone.set(1);
  for (int i = 0; i < ntasks; i++) MC_CHECK(t.started[i].get() == 1 && t.finished[i].get() == 1, "task %d: started %d finished %d when ~ThreadPool returned", i, t.started[i].get(), t.finished[i].get());
  mc::observe("tasks", ntasks);
}
