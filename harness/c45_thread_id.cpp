// C45: threadId() is stable per thread and unique across threads.
#include "mc_harness.h"
#include <dispenso/thread_id.h>

MC_HARNESS(thread_id) {
  long T = P("t", 3);
  std::vector<mc::Shared<long>> ids(T + 1);
  for (auto& x : ids) x.set(-1);
  for (long i = 1; i <= T; i++)
    mc::spawn([&, i] {
      uint64_t a = dispenso::threadId();
      mc::point();
      uint64_t b = dispenso::threadId();
      MC_CHECK(a == b, "threadId() changed within a thread: %llu then %llu", (unsigned long long)a, (unsigned long long)b);
      ids[i].set((long)a);
    });
  uint64_t a = dispenso::threadId();
  mc::point();
  MC_CHECK(a == dispenso::threadId(), "threadId() changed within a thread");
  ids[0].set((long)a);
  mc::join_all();
  for (long i = 0; i <= T; i++)
    for (long j = i + 1; j <= T; j++) MC_CHECK(ids[i].get() != ids[j].get(), "threads %ld and %ld share threadId %ld", i, j, ids[i].get());
  mc::observe("first", ids[0].get() < ids[1].get());
}
