// C27 pipeline delivers every item through every stage exactly once
// C28 pipeline stages never exceed their concurrency limit
// C29 pipeline exceptions terminate cleanly without leaks
//
// One harness, `pipeline`; `prop` selects which property's oracle is enforced (27, 28 or 29), so that each check
// demands its own statement and no more.  The pipeline is always started through the public dispenso::pipeline().
//
// params
//   n      pool size (0,1,2)
//   st     one character per stage (1..5 stages): p = plain function object (implicit limit 1),
//          1/2/3 = dispenso::stage(f, 1/2/3), u = dispenso::stage(f, kStageNoLimit).
//          stage 0 is the generator (or the single stage), the last one the sink, the others transforms.
//          With 4-5 stages `p` is built as stage(f,1) (keeps the number of template instantiations small).
//   f1,f2,f3  kind of the transform at stage index 1/2/3: -1 (default) = value-returning transform (kTransform
//          pipe); m >= 0 = OpResult-returning transform (kOpTransform pipe) that filters out the items whose bit
//          is set in m (m=0: filtering pipe class that drops nothing).
//   items  number of items the generator produces (<= 6)
//   thr,at    (C29) stage `thr` throws TagEx{thr*8+id} when it sees item id `at` (generator: when it would produce
//          item `at`); all=1: it throws for every id >= at.  thr2,at2: a second thrower.
//   wildcards, enumerated exhaustively inside one run with mc::choose (cost 0): '*' in st = each of p/2/u;
//          f<k>=-2 = each of {-1, 0, 2}; thr=-2 = each stage; at=-2 = each item.  Every message ends with the
//          resolved configuration in brackets.
//   again  (C29) 1 = afterwards run a second, non-throwing pipeline on the same pool and check it fully
//
// Items own heap memory twice (a unique_ptr<mc::Tracked<int>> for the lifetime registry, which also works in the
// plain build, and a std::vector<int> for LeakSanitizer in the asan build).  The Tracked object is held by pointer
// because OnceFunction relocates inline-stored functors with memcpy (documented), which an address-keyed registry
// must not see.  sizeof(Item)=40 makes the limited-stage queue entry an *inline* OnceFunction (56 bytes) and the
// task-set wrapped entries *spilled* ones, so both storage classes carry payloads.
#include "mc_harness.h"
#include <dispenso/pipeline.h>
#include <pthread.h>
#include <cstring>
#include <algorithm>
#include <memory>

namespace {
constexpr int kMaxStages = 5, kMaxItems = 6;
char g_desc[160]; // resolved configuration (wildcards), written by T0 before the pool exists; appended to every message
#define PCHECK(cond, fmt, ...) MC_CHECK(cond, fmt " [%s]", ##__VA_ARGS__, g_desc)

struct TagEx {
  int tag;
};

struct Item {
  std::unique_ptr<mc::Tracked<int>> t;
  std::vector<int> v; // v[0] = id, then the index of every stage that has processed the item, in order
  int id;
  unsigned path; // bit k set = stage k has processed the item
};

struct Ctx {
  int prop = 27, nst = 2, nitems = 2, n = 1;
  long limit[kMaxStages]; // effective limit the stage was built with (kStageNoLimit for u)
  bool plain[kMaxStages];
  long drop[kMaxStages]; // -1: value-returning transform; >=0: OpResult transform dropping these ids
  int thr[2] = {-1, -1}, at[2] = {-1, -1};
  bool thr_all = false;

  mc::Shared<int> next{0};                      // generator cursor
  mc::Shared<int> cnt[kMaxStages][kMaxItems];   // invocations per (stage,item)
  mc::Shared<int> inflight[kMaxStages], maxin[kMaxStages];
  mc::Shared<int> gen_calls{0}, gen_ends{0}, gen_late{0};
  mc::Shared<int> returned{0};                  // pipeline() has returned / thrown
  mc::Shared<int> seq{0};
  mc::Shared<unsigned long> thrown{0}, thrown_late{0}; // bit = tag
  mc::Shared<dispenso::TaskSetBase*> ts{nullptr};      // the pipeline's internal ConcurrentTaskSet
  mc::Shared<int> inlined{0};

  bool visible() const { // has an exception been captured (or is it being captured) by the pipeline's task set?
    dispenso::TaskSetBase* t = ts.get();
    return t && t->guardException_.a_.load(std::memory_order_relaxed) != dispenso::TaskSetBase::kUnset;
  }
  bool dropped_before(int k, int id) const { // filtered by a transform upstream of stage k
    for (int j = 1; j < k; j++)
      if (drop[j] > 0 && (drop[j] >> id & 1)) return true;
    return false;
  }
};

// brackets one invocation of stage k: in-flight accounting (C28), a scheduling point, "not after return" (C27)
struct Flight {
  Ctx& c;
  int k;
  Flight(Ctx& cc, int kk) : c(cc), k(kk) {
    PCHECK(c.returned.get() == 0, "C27: stage %d invoked after pipeline() had returned", k);
    int cur = c.inflight[k].add(1) + 1;
    c.maxin[k].max_with(cur);
    if (c.prop == 28)
      PCHECK((long)cur <= c.limit[k], "C28: stage %d has %d concurrent invocations, limit %ld%s", k, cur, c.limit[k],
               c.plain[k] ? " (plain function = serial)" : "");
    if (dispenso::detail::PerPoolPerThreadInfo::inlineDepth() > 0) c.inlined.set(1);
  }
  ~Flight() { c.inflight[k].add(-1); }
};

inline void record(Ctx& c, int k, int id) {
  PCHECK(id >= 0 && id < c.nitems, "C27: stage %d received an item with id %d that the generator never produced", k, id);
  int prev = c.cnt[k][id].add(1);
  PCHECK(prev == 0, "C%d: stage %d processed item %d a second time", c.prop == 29 ? 29 : 27, k, id);
  mc::observe("ev", (long)c.seq.add(1) * 64 + k * 8 + id);
}

inline void maybe_throw(Ctx& c, int k, int id) {
  for (int w = 0; w < 2; w++) {
    if (c.thr[w] != k) continue;
    bool hit = (w == 0 && c.thr_all) ? id >= c.at[w] : id == c.at[w];
    if (!hit) continue;
    int tag = k * 8 + id;
    // a throw made while a capture is already visible can not be "the first captured exception"
    if (c.visible()) c.thrown_late.set(c.thrown_late.get() | (1ul << tag));
    c.thrown.set(c.thrown.get() | (1ul << tag));
    mc::cover("throw");
    throw TagEx{tag};
  }
}

// checks a received item against what its predecessor stage must have produced, then stamps stage k on it
inline void receive(Ctx& c, int k, Item& in) {
  record(c, k, in.id);
  unsigned want = (1u << k) - 1;
  PCHECK(in.path == want, "C27: stage %d received item %d with stage path %#x, expected %#x (not its predecessor's output)", k, in.id, in.path, want);
  PCHECK((int)in.v.size() == k + 1 && in.v[0] == in.id, "C27: stage %d received item %d with a payload of %d entries", k, in.id, (int)in.v.size());
  for (int j = 1; j <= k; j++) PCHECK(in.v[j] == j - 1, "C27: stage %d item %d: payload entry %d is %d", k, in.id, j, in.v[j]);
  PCHECK(in.t && in.t->v == in.id, "C27: stage %d received item %d without its owned object", k, in.id);
  PCHECK(!c.dropped_before(k, in.id), "C27: stage %d received item %d, which an upstream stage had filtered out", k, in.id);
  in.path |= 1u << k;
  in.v.push_back(k);
}

struct GenF {
  Ctx* c;
  dispenso::OpResult<Item> operator()() {
    Flight fl(*c, 0);
    dispenso::TaskSetBase* t = dispenso::parentTaskSet(); // generator instances always run as tasks of the pipeline's set
    PCHECK(t != nullptr, "harness: generator running outside any task set");
    c->ts.set(t);
    if (c->visible()) c->gen_late.add(1);
    c->gen_calls.add(1);
    mc::point();
    int id = c->next.add(1);
    if (id >= c->nitems) {
      c->gen_ends.add(1);
      return dispenso::OpResult<Item>();
    }
    record(*c, 0, id);
    maybe_throw(*c, 0, id);
    Item it;
    it.t.reset(new mc::Tracked<int>(id));
    it.v.push_back(id);
    it.v.push_back(0);
    it.id = id;
    it.path = 1;
    return dispenso::OpResult<Item>(std::move(it));
  }
};

struct OneF { // the only stage of a single-stage pipeline
  Ctx* c;
  bool operator()() {
    Flight fl(*c, 0);
    c->ts.set(dispenso::parentTaskSet());
    if (c->visible()) c->gen_late.add(1);
    c->gen_calls.add(1);
    mc::point();
    int id = c->next.add(1);
    if (id >= c->nitems) {
      c->gen_ends.add(1);
      return false;
    }
    record(*c, 0, id);
    maybe_throw(*c, 0, id);
    return true;
  }
};

struct XfF { // value-returning transform
  Ctx* c;
  int k;
  Item operator()(Item in) {
    Flight fl(*c, k);
    receive(*c, k, in);
    mc::point();
    maybe_throw(*c, k, in.id);
    Item out; // a new object: the successor must see this one, not the input
    out.t = std::move(in.t);
    out.v = in.v;
    out.id = in.id;
    out.path = in.path;
    return out;
  }
};

struct FiF { // filtering transform
  Ctx* c;
  int k;
  dispenso::OpResult<Item> operator()(Item in) {
    Flight fl(*c, k);
    receive(*c, k, in);
    mc::point();
    maybe_throw(*c, k, in.id);
    if (c->drop[k] >> in.id & 1) {
      mc::cover("filtered");
      return dispenso::OpResult<Item>();
    }
    return dispenso::OpResult<Item>(std::move(in));
  }
};

struct SinkF {
  Ctx* c;
  int k;
  void operator()(Item in) {
    Flight fl(*c, k);
    receive(*c, k, in);
    mc::point();
    maybe_throw(*c, k, in.id);
  }
};

// ---- building the stage pack: every stage is either the bare functor (serial) or dispenso::stage(functor, limit)
template <class F, class K>
void wrap(const Ctx& c, int k, F f, K&& cont) {
  if (c.plain[k])
    cont(std::move(f));
  else
    cont(dispenso::stage(std::move(f), (ssize_t)c.limit[k]));
}
template <class K>
void wrap_mid(Ctx& c, int k, K&& cont) {
  if (c.drop[k] >= 0)
    wrap(c, k, FiF{&c, k}, cont);
  else
    wrap(c, k, XfF{&c, k}, cont);
}
template <class K>
void staged_mid(Ctx& c, int k, K&& cont) { // 4-5 stages: always dispenso::stage
  if (c.drop[k] >= 0)
    cont(dispenso::stage(FiF{&c, k}, (ssize_t)c.limit[k]));
  else
    cont(dispenso::stage(XfF{&c, k}, (ssize_t)c.limit[k]));
}

void run_pipeline(dispenso::ThreadPool& pool, Ctx& c) {
  using dispenso::pipeline;
  using dispenso::stage;
  switch (c.nst) {
    case 1:
      wrap(c, 0, OneF{&c}, [&](auto&& s0) { pipeline(pool, std::move(s0)); });
      break;
    case 2:
      wrap(c, 0, GenF{&c}, [&](auto&& s0) {
        wrap(c, 1, SinkF{&c, 1}, [&](auto&& s1) { pipeline(pool, std::move(s0), std::move(s1)); });
      });
      break;
    case 3:
      wrap(c, 0, GenF{&c}, [&](auto&& s0) {
        wrap_mid(c, 1, [&](auto&& s1) {
          wrap(c, 2, SinkF{&c, 2}, [&](auto&& s2) { pipeline(pool, std::move(s0), std::move(s1), std::move(s2)); });
        });
      });
      break;
    case 4:
      staged_mid(c, 1, [&](auto&& s1) {
        staged_mid(c, 2, [&](auto&& s2) {
          pipeline(pool, stage(GenF{&c}, (ssize_t)c.limit[0]), std::move(s1), std::move(s2), stage(SinkF{&c, 3}, (ssize_t)c.limit[3]));
        });
      });
      break;
    case 5:
      staged_mid(c, 1, [&](auto&& s1) {
        staged_mid(c, 2, [&](auto&& s2) {
          staged_mid(c, 3, [&](auto&& s3) {
            pipeline(pool, stage(GenF{&c}, (ssize_t)c.limit[0]), std::move(s1), std::move(s2), std::move(s3),
                     stage(SinkF{&c, 4}, (ssize_t)c.limit[4]));
          });
        });
      });
      break;
    default:
      mc::fail("harness: bad stage count %d", c.nst);
  }
}

void configure(Ctx& c, int prop, int n, const std::string& st, const long* drops, int items) {
  c.prop = prop;
  c.n = n;
  c.nst = (int)st.size();
  c.nitems = items;
  PCHECK(c.nst >= 1 && c.nst <= kMaxStages && items >= 0 && items <= kMaxItems, "harness: bad shape");
  for (int k = 0; k < c.nst; k++) {
    char ch = st[(size_t)k];
    c.plain[k] = ch == 'p' && c.nst <= 3;
    c.limit[k] = ch == 'u' ? (long)dispenso::kStageNoLimit : (ch == 'p' ? 1 : ch - '0');
    PCHECK(c.limit[k] >= 1, "harness: bad stage character '%c'", ch);
    c.drop[k] = (k >= 1 && k < c.nst - 1) ? drops[k] : -1;
  }
}

// what a pipeline that was NOT interrupted by an exception must have done by the time pipeline() returns
void check_complete(Ctx& c, const char* which) {
  for (int k = 0; k < c.nst; k++)
    PCHECK(c.inflight[k].get() == 0, "C27: %s pipeline() returned while stage %d was still running", which, k);
  if (c.nst == 1) {
    // the single stage is to be called until it reports completion by returning false
    PCHECK(c.gen_ends.get() >= 1,
             "C27: %s single-stage pipeline() returned before the stage reported completion (%d of %d items done, stage invoked %d times)",
             which, c.next.get() < c.nitems ? c.next.get() : c.nitems, c.nitems, c.gen_calls.get());
  }
  for (int id = 0; id < c.nitems; id++) {
    bool alive = true;
    for (int k = 0; k < c.nst; k++) {
      int want = alive ? 1 : 0, got = c.cnt[k][id].get();
      PCHECK(got == want, "C27: %s pipeline() returned with item %d processed %d times by stage %d (expected %d)", which, id, got, k, want);
      if (k >= 1 && c.drop[k] > 0 && (c.drop[k] >> id & 1)) alive = false;
    }
  }
}

void check_limits(Ctx& c) {
  for (int k = 0; k < c.nst; k++) {
    long mx = c.maxin[k].get();
    PCHECK(mx <= c.limit[k], "C28: stage %d reached %ld concurrent invocations, limit %ld", k, mx, c.limit[k]);
    if (mx >= 2) mc::cover("stage_concurrency_2");
    mc::observe("max", k * 8 + mx);
  }
  // every generator instance ends with exactly one empty result: their number is bounded by the generator's limit
  PCHECK((long)c.gen_ends.get() <= c.limit[0], "C28: %d generator instances ran, limit %ld", c.gen_ends.get(), c.limit[0]);
  if (c.gen_ends.get() >= 2) mc::cover("generator_instances_2");
}

// ---- per-execution reset: canonical order of glibc's cached thread stacks.
// Pool workers reach moodycamel's *implicit* producer path of the limited stages' local queue, which hashes the
// calling thread's id (the address of a thread_local) into a bucket array.  glibc hands out cached thread stacks
// LIFO, so which worker gets which stack - hence which bucket, hence which atomic it touches - depends on the order
// in which the workers of the PREVIOUS execution exited.  Without this hook the engine (correctly) refuses to run:
// "default schedule is not deterministic" / "replay diverged".  The hook makes kCanon real (unmodelled) threads
// take the cached worker-sized stacks and releases them in descending address order, so every execution starts
// from the same cache order and worker i always gets the same stack.
// Only needed (and only done) for pools of >= 2 workers: T0 has its own stack size class, a single worker always gets
// the only cached worker stack.  g_canon is set by the harness body (parameters are constant within a run) and is
// in effect from the second warm-up execution in the parent on, i.e. for every explored execution.
constexpr int kCanon = 4;
int g_canon = 0; // number of worker-sized stacks to put in order
pthread_mutex_t g_cmu = PTHREAD_MUTEX_INITIALIZER;
pthread_cond_t g_ccv = PTHREAD_COND_INITIALIZER;
int g_cready, g_cgo[kCanon];
uintptr_t g_caddr[kCanon];
void* canon_thread(void* p) {
  int i = (int)(intptr_t)p;
  char here;
  pthread_mutex_lock(&g_cmu);
  g_caddr[i] = (uintptr_t)&here;
  g_cready++;
  pthread_cond_broadcast(&g_ccv);
  while (!g_cgo[i]) pthread_cond_wait(&g_ccv, &g_cmu);
  pthread_mutex_unlock(&g_cmu);
  return nullptr;
}
void canon_stacks() {
  const int kCanon = g_canon; // shadows the capacity: number of threads used this time
  if (kCanon < 2) return;
  pthread_t th[4];
  g_cready = 0;
  for (int i = 0; i < kCanon; i++) g_cgo[i] = 0;
  for (int i = 0; i < kCanon; i++)
    if (pthread_create(&th[i], nullptr, canon_thread, (void*)(intptr_t)i)) abort();
  pthread_mutex_lock(&g_cmu);
  while (g_cready < kCanon) pthread_cond_wait(&g_ccv, &g_cmu);
  pthread_mutex_unlock(&g_cmu);
  int order[4];
  for (int i = 0; i < kCanon; i++) order[i] = i;
  std::sort(order, order + kCanon, [](int a, int b) { return g_caddr[a] > g_caddr[b]; });
  for (int q = 0; q < kCanon; q++) {
    pthread_mutex_lock(&g_cmu);
    g_cgo[order[q]] = 1;
    pthread_cond_broadcast(&g_ccv);
    pthread_mutex_unlock(&g_cmu);
    pthread_join(th[order[q]], nullptr); // its stack is back in the cache before the next one exits
  }
}
void arena_reset();
void reset_hook() {
  canon_stacks();
  arena_reset();
}
mc::HookSetter g_hooks(nullptr, reset_hook);
} // namespace

// ---- per-execution heap (plain build only).
// The engine names an atomic location by the address it first saw it at and keeps that entry for the whole
// execution.  A second pipeline() re-allocates LimitGatedSchedulers, moodycamel queues and completion events; whether
// they land on addresses the first pipeline used depends on glibc's heap state, which in a worker process depends
// on every execution it ran before (and on the size of the replay-prefix buffer).  The same schedule then hashes
// differently => "replay diverged".  To make address reuse a function of the program's own malloc/free sequence, the
// modelled threads of an execution allocate from an arena that is wiped and restarted before every execution; the
// process' main thread (engine bookkeeping) and everything before the second warm-up execution keep using glibc.
// The sanitizer builds own malloc, so there `again=1` is only used where a run has a single execution.
#if defined(__has_feature)
#if __has_feature(address_sanitizer) || __has_feature(thread_sanitizer)
#define C27_NO_ARENA 1
#endif
#endif
#ifdef C27_NO_ARENA
namespace {
void arena_reset() {}
} // namespace
#else
#include <sys/mman.h>
extern "C" {
void* __libc_malloc(size_t);
void __libc_free(void*);
void* __libc_calloc(size_t, size_t);
void* __libc_realloc(void*, size_t);
void* __libc_memalign(size_t, size_t);
}
namespace {
constexpr size_t kArenaSize = 256u << 20; // virtual; only touched pages cost anything
constexpr size_t kClasses = 512;          // exact-size free lists for blocks up to 8 KiB (16-byte steps)
char* g_abase;
size_t g_aused, g_ahigh;
void* g_afree[kClasses];
int g_aresets, g_aactive;
pthread_t g_amain;
int g_alock;
struct AHdr {
  size_t size;  // usable size (multiple of 16)
  size_t align; // 16, or the larger alignment it was allocated with (then it is never reused)
};
inline bool in_arena(const void* p) { return g_abase && (const char*)p >= g_abase && (const char*)p < g_abase + kArenaSize; }
inline bool use_arena() { return g_aactive && !pthread_equal(pthread_self(), g_amain); }
inline void alock() {
  while (__atomic_exchange_n(&g_alock, 1, __ATOMIC_ACQUIRE)) {
  }
}
inline void aunlock() { __atomic_store_n(&g_alock, 0, __ATOMIC_RELEASE); }
void* arena_alloc(size_t size, size_t align) {
  size_t sz = (size + 15) & ~(size_t)15;
  if (sz < 16) sz = 16;
  if (align < 16) align = 16;
  alock();
  void* out = nullptr;
  size_t cls = sz / 16;
  if (align == 16 && cls < kClasses && g_afree[cls]) {
    out = g_afree[cls];
    g_afree[cls] = *(void**)out;
  } else {
    size_t off = (g_aused + sizeof(AHdr) + align - 1) & ~(align - 1);
    if (off + sz > kArenaSize) {
      aunlock();
      return nullptr;
    }
    out = g_abase + off;
    AHdr* h = (AHdr*)((char*)out - sizeof(AHdr));
    h->size = sz;
    h->align = align;
    g_aused = off + sz;
    if (g_aused > g_ahigh) g_ahigh = g_aused;
  }
  aunlock();
  return out;
}
void arena_free(void* p) {
  AHdr* h = (AHdr*)((char*)p - sizeof(AHdr));
  size_t cls = h->size / 16;
  if (h->align != 16 || cls >= kClasses) return; // large / over-aligned blocks are not recycled within an execution
  alock();
  *(void**)p = g_afree[cls];
  g_afree[cls] = p;
  aunlock();
}
void arena_reset() {
  // call 1 = prewarm, call 2 = first warm-up execution (lazily built process-wide objects get glibc memory), then active
  if (++g_aresets < 3) return;
  if (!g_abase) {
    void* m = mmap(nullptr, kArenaSize, PROT_READ | PROT_WRITE, MAP_PRIVATE | MAP_ANONYMOUS | MAP_NORESERVE, -1, 0);
    if (m == MAP_FAILED) abort();
    g_abase = (char*)m;
    g_amain = pthread_self();
  }
  if (g_ahigh) memset(g_abase, 0, g_ahigh); // no garbage from the previous execution
  g_aused = g_ahigh = 0;
  for (auto& f : g_afree) f = nullptr;
  g_aactive = 1;
}
} // namespace
extern "C" {
void* malloc(size_t n) { return use_arena() ? arena_alloc(n, 16) : __libc_malloc(n); }
void free(void* p) {
  if (!p) return;
  if (in_arena(p))
    arena_free(p);
  else
    __libc_free(p);
}
void* calloc(size_t a, size_t b) {
  if (!use_arena()) return __libc_calloc(a, b);
  size_t n = a * b;
  void* p = arena_alloc(n, 16);
  if (p) memset(p, 0, n);
  return p;
}
void* realloc(void* p, size_t n) {
  if (!p) return malloc(n);
  if (!in_arena(p)) {
    if (!use_arena()) return __libc_realloc(p, n);
    // a glibc block grown from a modelled thread: keep it in glibc
    return __libc_realloc(p, n);
  }
  AHdr* h = (AHdr*)((char*)p - sizeof(AHdr));
  if (n <= h->size) return p;
  void* q = arena_alloc(n, 16);
  if (q) {
    memcpy(q, p, h->size);
    arena_free(p);
  }
  return q;
}
void* memalign(size_t al, size_t n) { return use_arena() ? arena_alloc(n, al) : __libc_memalign(al, n); }
void* aligned_alloc(size_t al, size_t n) { return memalign(al, n); }
int posix_memalign(void** out, size_t al, size_t n) {
  void* p = memalign(al, n);
  if (!p) return 12;
  *out = p;
  return 0;
}
size_t malloc_usable_size(void* p) {
  if (!p) return 0;
  if (in_arena(p)) return ((AHdr*)((char*)p - sizeof(AHdr)))->size;
  return 0; // not used by anything in this binary for glibc blocks
}
}
#endif

MC_HARNESS(pipeline) {
  int prop = (int)P("prop", 27), n = (int)P("n", 1), items = (int)P("items", 2);
  // wd=1 (default): a modelled watchdog thread turns "pipeline() never returns" into a violation.  The idle
  // workers' 100 ms back-stop timers keep firing in such a state, so the engine sees neither a deadlock nor a livelock
  // and would only hit its step horizon ("truncated").
  bool wd = P("wd", 1) != 0;
  int wthreads = n + (wd ? 1 : 0); // threads with worker-sized stacks
  g_canon = wthreads >= 2 ? (wthreads > kCanon ? kCanon : wthreads) : 0;
  // wildcards (explored exhaustively through mc::choose, cost 0): '*' in st = any of p/2/u; f<k>=-2 = any transform kind of
  // {value, OpResult dropping nothing, OpResult dropping item 1}; thr=-2 = any stage; at=-2 = any item
  std::string st = P.s("st", "pp");
  for (char& ch : st)
    if (ch == '*') ch = "p2u"[mc::choose(3)];
  int nst = (int)st.size();
  long drops[kMaxStages] = {-1, -1, -1, -1, -1};
  static const char* fk[] = {"", "f1", "f2", "f3"};
  static const long kinds[] = {-1, 0, 2};
  for (int k = 1; k < nst - 1 && k <= 3; k++) {
    long v = P(fk[k], -1);
    drops[k] = v == -2 ? kinds[mc::choose(3)] : v;
  }
  Ctx c;
  c.thr[0] = (int)P("thr", -1);
  c.at[0] = (int)P("at", 0);
  if (c.thr[0] == -2) c.thr[0] = mc::choose(nst);
  if (c.at[0] == -2) c.at[0] = mc::choose(items);
  c.thr[1] = (int)P("thr2", -1);
  c.at[1] = (int)P("at2", 0);
  c.thr_all = P("all", 0) != 0;
  snprintf(g_desc, sizeof g_desc, "n=%d st=%s items=%d f=%ld,%ld,%ld thr=%d at=%d%s thr2=%d at2=%d", n, st.c_str(), items, drops[1], drops[2], drops[3],
           c.thr[0], c.at[0], c.thr_all ? "+" : "", c.thr[1], c.at[1]);
  mc_log("config: %s\n", g_desc);
  configure(c, prop, n, st, drops, items);
  bool again = P("again", 0) != 0;
  mc::Shared<int> finished{0}, wd_ready{0};
  if (wd) {
    // started before the pool exists and parked at once, woken only when everything (including ~ThreadPool) is over or
    // by the virtual clock: while the pipeline runs it is never an alternative for the scheduler, so it adds no branching
    mc::spawn([&finished, &wd_ready, prop] {
      const uint64_t kHangNs = 3000000000ull; // 30 back-stop periods of virtual time
      const long kHangSteps = 200000;         // ~100x the length of a normal execution
      mc::Shared<long> polls{0};              // the predicate is evaluated once per scheduling step while we are parked
      wd_ready.set(1);
      mc::block_until([&finished, &polls] { return finished.get() != 0 || mc::now_ns() > kHangNs || polls.add(1) > kHangSteps; });
      PCHECK(finished.get() != 0,
             "C%d: pipeline() has not returned after %s (hang)", prop,
             polls.get() > kHangSteps ? "200000 further scheduling steps of busy waiting" : "3 s of virtual time in which only the pool's idle back-stop timers ran");
    });
    mc::block_until([&wd_ready] { return wd_ready.get() != 0; });
  }
  {
    dispenso::ThreadPool pool((size_t)n);
    bool threw = false;
    int tag = -1;
    try {
      run_pipeline(pool, c);
    } catch (const TagEx& e) {
      threw = true;
      tag = e.tag;
    }
    c.returned.set(1);
    if (c.inlined.get()) mc::cover("stage_ran_inline_nested");

    unsigned long thrown = c.thrown.get();
    if (prop == 29) {
      // exactly the first captured exception comes out, exactly once (a second delivery would surface in ~pipeline
      // internals or in the second pipeline below)
      PCHECK(threw == (thrown != 0), "C29: pipeline() %s although %s", threw ? "threw" : "returned normally", thrown ? "a stage threw" : "no stage threw");
      if (threw) {
        PCHECK(tag >= 0 && tag < 40 && (thrown >> tag & 1), "C29: pipeline() threw tag %d, which no stage threw", tag);
        PCHECK(!(c.thrown_late.get() >> tag & 1),
                 "C29: pipeline() threw tag %d, but that exception was thrown after another one had already been captured", tag);
        mc::observe("tag", tag);
        long instances = std::max<long>(1, std::min<long>(n, c.limit[0]));
        PCHECK(c.gen_late.get() <= instances, "C29: the first stage was invoked %d times after the exception was visible (%ld instances)",
                 c.gen_late.get(), instances);
        if (c.gen_late.get()) mc::cover("generator_call_after_exception");
        for (int k = 0; k < c.nst; k++) PCHECK(c.inflight[k].get() == 0, "C29: pipeline() threw while stage %d was still running", k);
        int done = 0;
        for (int k = 0; k < c.nst; k++)
          for (int id = 0; id < c.nitems; id++) done += c.cnt[k][id].get(); // each <= 1: enforced in record()
        mc::observe("done", done);
      } else {
        check_complete(c, "first");
      }
    } else {
      PCHECK(!threw, "harness: unexpected exception");
      if (prop == 27) check_complete(c, "the");
      if (prop == 28) check_limits(c);
    }

    if (again) {
      // the pool must still be usable: a plain 3-stage pipeline (serial generator, 2-wide filter, serial sink)
      Ctx d;
      long dr[kMaxStages] = {-1, 2, -1, -1, -1};
      configure(d, 27, n, "p2p", dr, 3);
      bool threw2 = false;
      try {
        run_pipeline(pool, d);
      } catch (const TagEx&) {
        threw2 = true;
      }
      d.returned.set(1);
      PCHECK(!threw2, "C29: a later pipeline on the same pool rethrew the old exception");
      check_complete(d, "second");
      mc::cover("second_pipeline");
    }
  } // ~ThreadPool: must terminate (a stuck worker is a deadlock verdict)
  finished.set(1);
  mc::join_all();
  c.returned.set(2);
  mc::observe("gen_calls", c.gen_calls.get());
  // live Tracked objects / LeakSanitizer are checked by the engine when the body has returned
}
