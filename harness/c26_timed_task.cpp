// C26 TimedTask: run count, cancellation and teardown, on a private TimedTaskScheduler (virtual time).
//
// harness `timed`
// params:
//   pool   0 = kImmediateInvoker, 1 = ThreadPool(1) as the backing schedulable
//   n      timesToRun (1..3)          per  period in microseconds (0 or 1000)       steady 0/1
//   delay  first run = now + delay microseconds (0: the task is already due, so schedule() kicks the first call
//          off on T0 itself; >0: the scheduler thread does)
//   fa     the function returns false at its fa-th call (0 = never)
//   act    what T0 does with the task: 0 wait until every expected call has completed, then destroy it;
//          1 cancel(), later destroy;   2 destroy (~TimedTask) without cancel()
//   when   when T0 acts: 0 right after schedule() returned; 1 after sleeping until the scheduled time;
//          2 as soon as the first call is inside the function; 3 as soon as the first call has returned;
//          4 as soon as a kick-off has taken its run from timesToRun (the kicker is about to enter, or is inside, the
//          task's wrapped function: one preemption away from every point of it)
//          ('|' separates alternatives of when/act/fa; all combinations are explored via mc::choose)\n//   entry  1 (default): a scheduling point at the very beginning of the function (see Fn::operator())
// Order of teardown: task, scheduler (stops its thread), pool.
#include "mc_harness.h"
#include <dispenso/detail/quanta.h>
#include <dispenso/schedulable.h>
#include <dispenso/timed_task.h>

namespace {
// function-local static of the scheduler thread's prelude: create it once in the parent
static void prewarm() { dispenso::detail::registerFineSchedulerQuanta(); }
static mc::HookSetter hooks(prewarm, nullptr);

static std::string pick_alt(const std::string& spec) {
  std::vector<std::string> alts;
  size_t from = 0;
  for (;;) {
    size_t bar = spec.find('|', from);
    alts.push_back(spec.substr(from, bar == std::string::npos ? std::string::npos : bar - from));
    if (bar == std::string::npos) break;
    from = bar + 1;
  }
  int i = alts.size() > 1 ? mc::choose((int)alts.size()) : 0;
  return alts[(size_t)i];
}
static void hcover(const char* name) {
  mc::TsanIgnore ig;
  mc::cover(name);
}

struct Ctx {
  int n = 1, fa = 0, entry_point = 1;
  mc::Shared<int> started{0}, finished{0}, in_call{0};
  mc::Shared<int> returned_false{0};
  mc::Shared<int> cancel_returned{0}, inprog_at_cancel{0};
  mc::Shared<int> destroyed{0};
  mc::Shared<uint64_t> first_ns{0}; // virtual time the first run was scheduled for
  mc::Shared<uint64_t> last_start_ns{0};
};

// The user function. The canary tells (in plain builds, where ASan is not watching) that the function object
// was destroyed while, or before, it is being called.
struct Fn {
  Ctx* c;
  int canary;
  explicit Fn(Ctx* cc) : c(cc), canary(0x600D) {}
  Fn(const Fn& o) : c(o.c), canary(o.canary) {}
  Fn(Fn&& o) noexcept : c(o.c), canary(o.canary) {}
  ~Fn() { canary = 0xDEAD; }
  bool operator()() const { // the library keeps the function in a non-mutable lambda capture
    int can0;
    {
      mc::TsanIgnore ig;
      can0 = canary;
    }
    MC_CHECK(can0 == 0x600D, "the function object had already been destroyed when it was called (canary %x)", can0);
    // A preemption right at the call boundary: the wrapped call's cancelled check and this call are plain code,
    // so this is the only way to let another thread run between them. The call "starts" with its first effect.
    if (c->entry_point) mc::point();
    int k = c->started.add(1) + 1;
    uint64_t now = mc::now_ns();
    MC_CHECK(!c->destroyed.get(), "call %d started after ~TimedTask returned", k);
    if (c->cancel_returned.get()) {
      if (c->inprog_at_cancel.get() == 0)
        mc::fail("call %d started after cancel() returned although no call was in progress (inProgress == 0) when it returned", k);
      else
        mc::fail("call %d started after cancel() returned (the wrapped call had passed its cancelled check before; inProgress was %d when cancel() returned)", k, c->inprog_at_cancel.get());
    }
    MC_CHECK(k <= c->n, "call %d although timesToRun is %d", k, c->n);
    MC_CHECK(!c->returned_false.get(), "call %d after the function returned false", k);
    // dispenso kicks a task off when it is due within kSmallTimeBuffer (10 us): that tolerance is allowed here
    MC_CHECK(now + 10000 >= c->first_ns.get(), "call %d at virtual time %llu ns, before the first scheduled time %llu ns", k, (unsigned long long)now, (unsigned long long)c->first_ns.get());
    c->last_start_ns.set(now);
    c->in_call.add(1);
    mc::point(); // the call is in progress: others may run
    {
      mc::TsanIgnore ig;
      can0 = canary;
    }
    MC_CHECK(can0 == 0x600D, "the function object was destroyed while call %d was in progress", k);
    MC_CHECK(!c->destroyed.get(), "~TimedTask returned while call %d was in progress", k);
    bool ret = (k != c->fa);
    if (!ret) c->returned_false.set(1);
    c->in_call.add(-1);
    c->finished.add(1);
    return ret;
  }
};

template <class Sched>
void timed_body(const mc::Params& P, Sched& sched) {
  Ctx c;
  c.n = (int)P("n", 1);
  c.fa = atoi(pick_alt(P.s("fa", "0")).c_str());
  c.entry_point = (int)P("entry", 1);
  int act = atoi(pick_alt(P.s("act", "0")).c_str());
  int when = atoi(pick_alt(P.s("when", "0")).c_str());
  long per = P("per", 0), delay = P("delay", 0);
  bool steady = P("steady", 0) != 0;
  int expected = (c.fa > 0 && c.fa <= c.n) ? c.fa : c.n;
  mc::observe("cfg", act * 100 + when * 10 + c.fa);
  {
    dispenso::TimedTaskScheduler sch;
    {
      double t0 = dispenso::getTime();
      double first = t0 + 1e-6 * (double)delay;
      // mc::now_ns() and getTime() tick together but from different origins; getTime() was read one tick (10 us) ago
      c.first_ns.set(mc::now_ns() - 10000 + (uint64_t)delay * 1000);
      dispenso::TimedTask task = sch.schedule(sched, Fn(&c), first, 1e-6 * (double)per, (size_t)c.n,
                                              steady ? dispenso::TimedTaskType::kSteady : dispenso::TimedTaskType::kNormal);
      if (act == 0) {
        mc::block_until([&] { return c.finished.get() >= expected; });
        hcover("timed_all_calls");
      } else {
        if (when == 1)
          std::this_thread::sleep_for(std::chrono::microseconds(delay));
        else if (when == 2)
          mc::block_until([&] { return c.started.get() >= 1; });
        else if (when == 3)
          mc::block_until([&] { return c.finished.get() >= 1; });
        else if (when == 4) {
          auto* impl = task.impl_.get();
          size_t n0 = (size_t)c.n;
          // '!=': after a cancel / a false return the next kick-off's fetch_sub wraps the counter from 0 to SIZE_MAX
          mc::block_until([impl, n0] { return impl->timesToRun.a_.load(std::memory_order_relaxed) != n0; });
          hcover("timed_act_at_kickoff");
        }
        if (act == 1) {
          task.cancel();
          // same scheduler step as cancel()'s last operation
          c.inprog_at_cancel.set((int)task.impl_->inProgress.a_.load(std::memory_order_relaxed));
          c.cancel_returned.set(1);
          hcover("timed_cancel");
          if (c.started.get() == 0) hcover("timed_cancel_before_first_call");
          if (c.in_call.get() > 0) hcover("timed_cancel_during_call");
        }
      }
      if (c.in_call.get() > 0) hcover("timed_destroy_during_call");
      if (c.started.get() == 0) hcover("timed_destroy_before_first_call");
    } // ~TimedTask
    MC_CHECK(c.in_call.get() == 0, "~TimedTask returned while a call was in progress");
    c.destroyed.set(1);
    if (act == 0) MC_CHECK(c.finished.get() == expected, "%d calls completed, expected %d", c.finished.get(), expected);
    mc::observe("calls", c.started.get());
  } // ~TimedTaskScheduler: stops and joins its thread
  MC_CHECK(c.started.get() == c.finished.get(), "a call was still in progress after the scheduler was destroyed");
  MC_CHECK(c.started.get() <= expected, "%d calls, at most %d expected", c.started.get(), expected);
  if (c.started.get() > 1) hcover("timed_repeated");
  if (c.returned_false.get()) hcover("timed_returned_false");
}
} // namespace

MC_HARNESS(timed) {
  if (P("pool", 0)) {
    dispenso::ThreadPool pool(1);
    timed_body(P, pool);
  } else {
    timed_body(P, dispenso::kImmediateInvoker);
  }
}
