// C22 RWLock and C23 DistributedRWLock: mutual exclusion and progress.
// A thread program is a string of critical sections:
//   W lock/unlock   w try_lock   R lock_shared/unlock_shared   r try_lock_shared
//   U lock_shared -> lock_upgrade -> unlock (single upgrader)   D lock -> lock_downgrade -> unlock_shared
#include "mc_harness.h"
#include <dispenso/rw_lock.h>
#include <dispenso/distributed_rw_lock.h>

namespace {
struct Occupancy {
  mc::Shared<int> writers{0}, readers{0};
  void enter_write(const char* how) {
    int w = writers.add(1), r = readers.get();
    MC_CHECK(w == 0 && r == 0, "exclusive access via %s granted while %d writer(s) and %d reader(s) hold the lock", how, w, r);
  }
  void leave_write() { writers.add(-1); }
  void enter_read(const char* how) {
    readers.add(1);
    int w = writers.get();
    MC_CHECK(w == 0, "shared access via %s granted while a writer holds the lock", how);
  }
  void leave_read() { readers.add(-1); }
};

template <class L>
void run_program(L& l, Occupancy& occ, const std::string& prog, mc::Shared<int>& tries_ok) {
  for (char op : prog) {
    switch (op) {
      case 'W':
        l.lock();
        occ.enter_write("lock()");
        mc::point();
        occ.leave_write();
        l.unlock();
        break;
      case 'w':
        if (l.try_lock()) {
          tries_ok.add(1);
          occ.enter_write("try_lock()");
          mc::point();
          occ.leave_write();
          l.unlock();
        }
        break;
      case 'R':
        l.lock_shared();
        occ.enter_read("lock_shared()");
        mc::point();
        occ.leave_read();
        l.unlock_shared();
        break;
      case 'r':
        if (l.try_lock_shared()) {
          tries_ok.add(1);
          occ.enter_read("try_lock_shared()");
          mc::point();
          occ.leave_read();
          l.unlock_shared();
        }
        break;
      default:
        break;
    }
  }
}
} // namespace

MC_HARNESS(rwlock) {
  dispenso::RWLock l;
  Occupancy occ;
  mc::Shared<int> tries_ok{0};
  std::string progs[4] = {P.s("t0", ""), P.s("t1", ""), P.s("t2", ""), P.s("t3", "")};
  auto body = [&](const std::string& prog) {
    for (char op : prog) {
      if (op == 'U') {
        l.lock_shared();
        occ.enter_read("lock_shared()");
        mc::point();
        occ.leave_read(); // give up the read role, then become the writer
        l.lock_upgrade();
        occ.enter_write("lock_upgrade()");
        mc::point();
        occ.leave_write();
        l.unlock();
      } else if (op == 'D') {
        l.lock();
        occ.enter_write("lock()");
        mc::point();
        // the writer turns reader: swap roles in the bookkeeping first (no scheduling point in between);
        // nobody else may be granted write access from here until our unlock_shared()
        occ.leave_write();
        occ.readers.add(1);
        l.lock_downgrade();
        mc::point();
        occ.leave_read();
        l.unlock_shared();
      } else {
        std::string one(1, op);
        run_program(l, occ, one, tries_ok);
      }
    }
  };
  for (int i = 1; i < 4; i++)
    if (!progs[i].empty() && progs[i] != "-") mc::spawn([&, i] { body(progs[i]); });
  body(progs[0]);
  mc::join_all();
  int word = l.event_.status_.a_.load(std::memory_order_relaxed);
  MC_CHECK(word == 0, "lock word is %d after every critical section ended", word);
  mc::observe("tries_ok", tries_ok.get());
}

// D = lock_downgrade is not offered by DistributedRWLock. idx = slot indices per thread, e.g. "0.1.0"
MC_HARNESS(drwlock) {
  long N = P("n", 2);
  Occupancy occ;
  mc::Shared<int> tries_ok{0};
  std::string progs[4] = {P.s("t0", ""), P.s("t1", ""), P.s("t2", ""), P.s("t3", "")};
  std::string idx = P.s("idx", "0.1.2.3");
  int slot[4] = {0, 1, 2, 3};
  {
    int k = 0;
    for (char c : idx)
      if (c >= '0' && c <= '9' && k < 4) slot[k++] = c - '0';
  }
  auto go = [&](auto& impl) {
    struct Bound {
      decltype(impl)& l;
      size_t s;
      void lock() { l.lock(); }
      bool try_lock() { return l.try_lock(); }
      void unlock() { l.unlock(); }
      void lock_shared() { l.lock_shared(s); }
      bool try_lock_shared() { return l.try_lock_shared(s); }
      void unlock_shared() { l.unlock_shared(s); }
    };
    for (int i = 1; i < 4; i++)
      if (!progs[i].empty() && progs[i] != "-")
        mc::spawn([&, i] {
          Bound b{impl, (size_t)slot[i]};
          run_program(b, occ, progs[i], tries_ok);
        });
    Bound b0{impl, (size_t)slot[0]};
    run_program(b0, occ, progs[0], tries_ok);
    mc::join_all();
    for (size_t i = 0; i < impl.kNumSlots; i++) {
      int word = impl.slots_[i].event_.status_.a_.load(std::memory_order_relaxed);
      MC_CHECK(word == 0, "slot %zu lock word is %d after every critical section ended (a failed try_lock must leave no trace)", i, word);
    }
  };
  if (N == 1) {
    dispenso::detail::DistributedRWLockImpl<1> impl;
    go(impl);
  } else if (N == 2) {
    dispenso::detail::DistributedRWLockImpl<2> impl;
    go(impl);
  } else if (N == 4) {
    dispenso::detail::DistributedRWLockImpl<4> impl;
    go(impl);
  } else {
    dispenso::detail::DistributedRWLockImpl<16> impl;
    go(impl);
  }
  mc::observe("tries_ok", tries_ok.get());
}
