// C33 ConcurrentVector: concurrent growth is exact.   C37 ConcurrentObjectArena: growth and copies are exact.
//
// ---- harness `cvec` (C33) ---------------------------------------------------------------------------
// params: cap kDefaultCapacity (2 or 4; first bucket = cap/2 elements), strat 0 kFullBufferAhead /
//         1 kHalfBufferAhead / 2 kAsNeeded, inl kPreferBuffersInline, fast kIteratorPreferSpeed,
//         init = elements T0 appends before the threads start (tags 100+i; alternatives allowed, they set where the
//         growth starts relative to the bucket boundaries), t0..t2 grower programs (alternatives
//         separated by '|' are all explored via mc::choose; sym=1 keeps only non-decreasing picks),
//         rd=1 adds a reader thread holding a reference, a pointer and an iterator to element 0 (needs init>=1),
//         which looks rr times (default 2) at arbitrary points.
// program letters (a digit follows the letters that take a count):
//   p push_back(const T&)   P push_back(T&&)   e emplace_back(tag)
//   g<k> grow_by(k, value)  G<k> grow_by(k) (default-constructed, then the thread writes its tag)
//   n<k> grow_by_generator(k, gen)   i<k> grow_by(first, last)   l grow_by({a, b})
//   m<k> grow_to_at_least(k, value)  M<k> grow_to_at_least(k)
// Tiny capacities are injected by specialising DefaultConcurrentVectorSizeTraits for the element type
// (ConcurrentVector<T, Traits, SizeTraits> does not compile with a non-default SizeTraits: its iterator types
// name ConcurrentVector<T, Traits>).
//
// ---- harness `arena` (C37, concurrent) --------------------------------------------------------------
// params: bs minimum buffer size (1, 2, 4; 3 rounds up to 4), pre = elements grown by T0 before the threads
//         start, g0..g2 dotted lists of grow_by amounts per thread (g0 runs on T0; '|' separates alternatives,
//         sym=1 as above), rd=1 reader holding &arena[0].
// ---- harness `arena_copy` (C37, sequential, bound 0) ------------------------------------------------
// params: bs, nb = number of internal buffers the source arena is grown to (1..6; 0 = all of them). mc::choose enumerates the
//         fill within the last buffer, one-shot vs element-wise growth, and the operation: copy-construct,
//         copy-assign, move-construct, move-assign, swap.
#include "mc_harness.h"
#include <dispenso/concurrent_object_arena.h>
#include <dispenso/concurrent_vector.h>

namespace {
// mc_cover() keeps its table with strncmp/strncpy, which TSan intercepts even inside the uninstrumented engine:
// two threads marking coverage would be reported as a race of the engine with itself.
static void hcover(const char* name) {
  mc::TsanIgnore ig;
  mc::cover(name);
}
// A program parameter may list alternatives separated by '|': one of them is picked with mc::choose, so a
// single run explores every combination of alternatives jointly with the schedules. Returns the index too.
static std::string pick_alt(const std::string& spec, int* index = nullptr) {
  std::vector<std::string> alts;
  size_t from = 0;
  for (;;) {
    size_t bar = spec.find('|', from);
    alts.push_back(spec.substr(from, bar == std::string::npos ? std::string::npos : bar - from));
    if (bar == std::string::npos) break;
    from = bar + 1;
  }
  int i = alts.size() > 1 ? mc::choose((int)alts.size()) : 0;
  if (index) *index = i;
  return alts[(size_t)i];
}
template <int Cap>
struct VElem : mc::Tracked<int> {
  typedef mc::Tracked<int> Base;
  VElem() noexcept : Base() {}
  VElem(int x) noexcept : Base(x) {}
  VElem(const VElem&) noexcept = default;
  VElem(VElem&&) noexcept = default;
  VElem& operator=(const VElem&) noexcept = default;
  VElem& operator=(VElem&&) noexcept = default;
};
} // namespace

namespace dispenso {
template <>
struct DefaultConcurrentVectorSizeTraits<VElem<2>> {
  static constexpr size_t kDefaultCapacity = 2;
  static constexpr size_t kMaxVectorSize = 64;
};
template <>
struct DefaultConcurrentVectorSizeTraits<VElem<4>> {
  static constexpr size_t kDefaultCapacity = 4;
  static constexpr size_t kMaxVectorSize = 128;
};
} // namespace dispenso

namespace {
template <bool Inline, bool Fast, dispenso::ConcurrentVectorReallocStrategy S>
struct Tr {
  static constexpr bool kPreferBuffersInline = Inline;
  static constexpr dispenso::ConcurrentVectorReallocStrategy kReallocStrategy = S;
  static constexpr bool kIteratorPreferSpeed = Fast;
};

constexpr int kMaxRanges = 32;
constexpr int kMaxElems = 64;

struct RangeLog {
  mc::Shared<int> n{0};
  mc::Shared<long> start[kMaxRanges], count[kMaxRanges], tag[kMaxRanges];
  void add(long s, long c, long t) {
    int i = n.add(1);
    MC_CHECK(i < kMaxRanges, "harness: too many ranges");
    start[i].set(s);
    count[i].set(c);
    tag[i].set(t);
  }
};

template <class Vec>
struct CVec {
  typedef typename Vec::value_type Elem;
  Vec v;
  RangeLog log;
  mc::Shared<long> fixed_growth{0};
  mc::Shared<int> mtags[8]; // tags used by grow_to_at_least(k, value) calls (growth not known in advance)
  mc::Shared<int> nmt{0};
  mc::Shared<int> default_m{0};

  size_t bucket_of(size_t idx) {
    size_t first = v.firstBucketLen_;
    if (idx < first) return 0;
    size_t b = 1, lo = first, len = first;
    while (idx >= lo + len) { // bucket 1 = [first, 2 first), bucket 2 = [2 first, 4 first), ...
      lo += len;
      len = lo;
      b++;
    }
    return b;
  }

  void check_range(typename Vec::iterator it, int k, int want, const char* what, int tagv) {
    long s = it - v.begin();
    MC_CHECK(s >= 0 && s + k <= (long)v.size(), "%s returned a range [%ld,%ld) outside [0,size()=%zu)", what, s, s + k, v.size());
    for (int q = 0; q < k; q++, ++it) MC_CHECK((*it).v == want, "%s: element %ld of the returned range holds %d, expected %d", what, s + q, (*it).v, want);
    log.add(s, k, tagv);
    fixed_growth.add(k);
    if (k > 1 && bucket_of((size_t)s) != bucket_of((size_t)(s + k - 1))) hcover("cvec_range_spans_buckets");
    if (k > 2 && bucket_of((size_t)s) + 1 < bucket_of((size_t)(s + k - 1))) hcover("cvec_range_spans_3_buckets");
  }

  void run(int self, const std::string& prog) {
    int opn = 0;
    for (size_t pc = 0; pc < prog.size(); pc++) {
      char op = prog[pc];
      int tagv = (self + 1) * 10 + (opn++);
      int k = 0;
      if (strchr("gGnimM", op) && pc + 1 < prog.size()) k = prog[++pc] - '0';
      switch (op) {
        case 'p': {
          Elem e(tagv);
          auto it = v.push_back(e);
          check_range(it, 1, tagv, "push_back(const T&)", tagv);
          break;
        }
        case 'P': {
          Elem e(tagv);
          auto it = v.push_back(std::move(e));
          check_range(it, 1, tagv, "push_back(T&&)", tagv);
          break;
        }
        case 'e': {
          auto it = v.emplace_back(tagv);
          check_range(it, 1, tagv, "emplace_back", tagv);
          break;
        }
        case 'g': {
          Elem e(tagv);
          auto it = v.grow_by((size_t)k, e);
          check_range(it, k, tagv, "grow_by(k, value)", tagv);
          break;
        }
        case 'G': {
          auto it = v.grow_by((size_t)k);
          auto w = it;
          check_range(it, k, 0, "grow_by(k)", tagv);
          for (int q = 0; q < k; q++, ++w) *w = Elem(tagv); // the range is ours
          break;
        }
        case 'n': {
          auto it = v.grow_by_generator((size_t)k, [tagv] { return Elem(tagv); });
          check_range(it, k, tagv, "grow_by_generator", tagv);
          break;
        }
        case 'i': {
          std::vector<Elem> src;
          for (int q = 0; q < k; q++) src.emplace_back(tagv);
          auto it = v.grow_by(src.begin(), src.end());
          check_range(it, k, tagv, "grow_by(first, last)", tagv);
          break;
        }
        case 'l': {
          auto it = v.grow_by({Elem(tagv), Elem(tagv)});
          check_range(it, 2, tagv, "grow_by(initializer_list)", tagv);
          break;
        }
        case 'm': {
          Elem e(tagv);
          mtags[nmt.add(1)].set(tagv);
          v.grow_to_at_least((size_t)k, e);
          MC_CHECK(v.size() >= (size_t)k, "size() is %zu after grow_to_at_least(%d, value) returned", v.size(), k);
          hcover("cvec_grow_to_at_least");
          break;
        }
        case 'M': {
          default_m.set(1);
          v.grow_to_at_least((size_t)k);
          MC_CHECK(v.size() >= (size_t)k, "size() is %zu after grow_to_at_least(%d) returned", v.size(), k);
          hcover("cvec_grow_to_at_least");
          break;
        }
        default:
          break;
      }
    }
  }

  void body(const mc::Params& P) {
    int init = atoi(pick_alt(P.s("init", "0")).c_str()); // alternatives allowed: init=0|1|2|3
    bool rd = P("rd", 0) != 0;
    int idx[3];
    std::string progs[3] = {pick_alt(P.s("t0", ""), &idx[0]), pick_alt(P.s("t1", ""), &idx[1]), pick_alt(P.s("t2", ""), &idx[2])};
    if (P("sym", 0) && (idx[1] < idx[0] || (!progs[2].empty() && idx[2] < idx[1]))) return; // multisets only
    mc::observe("progs", (idx[0] * 4096 + idx[1] * 64 + idx[2]) * 16 + init);
    for (int i = 0; i < init; i++) {
      v.push_back(Elem(100 + i));
      log.add(i, 1, 100 + i);
      fixed_growth.add(1);
    }
    if (rd && init >= 1) {
      int rounds = (int)P("rr", 2);
      mc::spawn([&, init, rounds] {
        Elem& r0 = v[0];
        Elem* p0 = &v[0];
        auto it0 = v.begin();
        size_t last = v.size();
        for (int round = 0; round < rounds; round++) {
          mc::point();
          MC_CHECK(r0.v == 100, "held reference to element 0 reads %d, expected 100", r0.v);
          MC_CHECK((*it0).v == 100, "held iterator to element 0 reads %d, expected 100", (*it0).v);
          MC_CHECK(&v[0] == p0, "element 0 moved while the vector was growing");
          auto it = it0;
          for (int i = 0; i < init; i++, ++it) {
            MC_CHECK(v[(size_t)i].v == 100 + i, "published element %d reads %d through operator[], expected %d", i, v[(size_t)i].v, 100 + i);
            MC_CHECK((*it).v == 100 + i, "published element %d reads %d through an iterator, expected %d", i, (*it).v, 100 + i);
          }
          size_t s = v.size();
          MC_CHECK(s >= last, "size() went from %zu to %zu", last, s);
          last = s;
          hcover("cvec_reader");
        }
      });
    }
    for (int i = 1; i < 3; i++)
      if (!progs[i].empty() && progs[i] != "-") mc::spawn([&, i] { run(i, progs[i]); });
    run(0, progs[0]);
    mc::join_all();

    // quiescent checks
    long size = (long)v.size();
    MC_CHECK(size <= kMaxElems, "harness: vector larger than expected");
    int expected[kMaxElems] = {};
    for (int r = 0; r < log.n.get(); r++) {
      for (long i = log.start[r].get(); i < log.start[r].get() + log.count[r].get(); i++) {
        MC_CHECK(i < size, "a grower was given index %ld but the final size() is %ld", i, size);
        MC_CHECK(expected[i] == 0, "index %ld was handed to two growers (tags %d and %ld)", i, expected[i], log.tag[r].get());
        expected[i] = (int)log.tag[r].get();
      }
    }
    long unknown = 0;
    int seen_first[8], seen_last[8], seen_n[8];
    for (int q = 0; q < 8; q++) seen_first[q] = -1, seen_last[q] = -1, seen_n[q] = 0;
    auto it = v.begin();
    for (long i = 0; i < size; i++, ++it) {
      int val = v[(size_t)i].v;
      MC_CHECK((*it).v == val, "iterator and operator[] disagree at index %ld", i);
      if (expected[i]) {
        MC_CHECK(val == expected[i], "element %ld holds %d but was written by the grower with tag %d (lost or overwritten)", i, val, expected[i]);
        continue;
      }
      unknown++;
      bool ok = (val == 0 && default_m.get());
      for (int q = 0; q < nmt.get(); q++)
        if (val == mtags[q].get()) {
          ok = true;
          if (seen_first[q] < 0) seen_first[q] = (int)i;
          seen_last[q] = (int)i;
          seen_n[q]++;
        }
      MC_CHECK(ok, "element %ld holds %d, which no grower wrote", i, val);
    }
    for (int q = 0; q < nmt.get(); q++)
      if (seen_n[q]) MC_CHECK(seen_last[q] - seen_first[q] + 1 == seen_n[q], "elements of one grow_to_at_least call are not contiguous");
    MC_CHECK(size == fixed_growth.get() + unknown, "final size() %ld != total growth %ld", size, fixed_growth.get() + unknown);
    if (nmt.get() == 0 && !default_m.get()) MC_CHECK(unknown == 0, "final size() %ld exceeds the total growth %ld", size, fixed_growth.get());
    if (init >= 1) MC_CHECK(v[0].v == 100 && v.front().v == 100, "element 0 changed");
    if (bucket_of((size_t)(size > 0 ? size - 1 : 0)) >= 2) hcover("cvec_bucket_allocated");
    if (bucket_of((size_t)(size > 0 ? size - 1 : 0)) >= 3) hcover("cvec_two_buckets_allocated");
    mc::observe("size", size);
    // order of the ranges is the outcome: who got which index
    long sig = 0;
    for (long i = 0; i < size; i++) sig = sig * 7 + v[(size_t)i].v % 1000;
    mc::observe("layout", sig);
  }
};

template <int Cap, bool Inline, bool Fast>
void cvec_strat(const mc::Params& P) {
  using S = dispenso::ConcurrentVectorReallocStrategy;
  long st = P("strat", 2);
  if (st == 0) {
    CVec<dispenso::ConcurrentVector<VElem<Cap>, Tr<Inline, Fast, S::kFullBufferAhead>>> c;
    c.body(P);
  } else if (st == 1) {
    CVec<dispenso::ConcurrentVector<VElem<Cap>, Tr<Inline, Fast, S::kHalfBufferAhead>>> c;
    c.body(P);
  } else {
    CVec<dispenso::ConcurrentVector<VElem<Cap>, Tr<Inline, Fast, S::kAsNeeded>>> c;
    c.body(P);
  }
}
template <int Cap>
void cvec_cap(const mc::Params& P) {
  bool inl = P("inl", 1) != 0, fast = P("fast", 1) != 0;
  if (inl && fast)
    cvec_strat<Cap, true, true>(P);
  else if (inl)
    cvec_strat<Cap, true, false>(P);
  else if (fast)
    cvec_strat<Cap, false, true>(P);
  else
    cvec_strat<Cap, false, false>(P);
}
} // namespace

MC_HARNESS(cvec) {
  if (P("cap", 2) == 4)
    cvec_cap<4>(P);
  else
    cvec_cap<2>(P);
}

// =====================================================================================================
namespace {
constexpr int kDefaultV = 0x5A5A;
struct AElem {
  int v;
  int owner;
  AElem() : v(kDefaultV), owner(0) {}
};
static_assert(std::is_trivially_copyable<AElem>::value, "arena copies use memcpy");

std::vector<int> parse_list(const std::string& s) {
  std::vector<int> out;
  int cur = -1;
  for (char c : s) {
    if (c >= '0' && c <= '9')
      cur = (cur < 0 ? 0 : cur * 10) + (c - '0');
    else if (cur >= 0) {
      out.push_back(cur);
      cur = -1;
    }
  }
  if (cur >= 0) out.push_back(cur);
  return out;
}
typedef dispenso::ConcurrentObjectArena<AElem> Arena;
} // namespace

MC_HARNESS(arena) {
  size_t bs = (size_t)P("bs", 1);
  int pre = (int)P("pre", 1);
  bool rd = P("rd", 0) != 0;
  int gi[3];
  std::vector<int> g[3] = {parse_list(pick_alt(P.s("g0", ""), &gi[0])), parse_list(pick_alt(P.s("g1", ""), &gi[1])), parse_list(pick_alt(P.s("g2", ""), &gi[2]))};
  if (P("sym", 0) && (gi[1] < gi[0] || (!g[2].empty() && gi[2] < gi[1]))) return; // multisets only
  mc::observe("amounts", gi[0] * 4096 + gi[1] * 64 + gi[2]);
  RangeLog log;
  {
    Arena arena(bs);
    size_t bufsz = arena.kBufferSize;
    auto grow = [&](int self, int k, int opn) {
      int tagv = (self + 1) * 10 + opn;
      size_t s = arena.grow_by((size_t)k);
      MC_CHECK(s + (size_t)k <= arena.size(), "grow_by(%d) returned %zu but size() is only %zu", k, s, arena.size());
      MC_CHECK(arena.capacity() >= s + (size_t)k, "capacity() %zu is smaller than the end of a returned range %zu", arena.capacity(), s + (size_t)k);
      for (size_t i = s; i < s + (size_t)k; i++) {
        AElem& e = arena[i];
        MC_CHECK(e.v == kDefaultV && e.owner == 0, "element %zu of the range returned by grow_by(%d) is not default-constructed (v=%x owner=%d)", i, k, e.v, e.owner);
        e.owner = tagv;
      }
      log.add((long)s, k, tagv);
      if (k > 1 && (s / bufsz) != ((s + k - 1) / bufsz)) hcover("arena_range_spans_buffers");
    };
    for (int i = 0; i < pre; i++) {
      size_t s = arena.grow_by(1);
      arena[s].owner = 100 + i;
      log.add((long)s, 1, 100 + i);
    }
    int rounds = (int)P("rr", 2);
    if (rd && pre >= 1)
      mc::spawn([&] {
        AElem* p0 = &arena[0];
        size_t last = arena.size();
        for (int round = 0; round < rounds; round++) {
          mc::point();
          MC_CHECK(p0->owner == 100 && p0->v == kDefaultV, "held reference to element 0 reads v=%x owner=%d", p0->v, p0->owner);
          for (int i = 0; i < pre; i++) MC_CHECK(arena[(size_t)i].owner == 100 + i && &arena[0] == p0, "existing element %d reads owner=%d, or element 0 moved", i, arena[(size_t)i].owner);
          size_t s = arena.size();
          MC_CHECK(s >= last, "size() went from %zu to %zu", last, s);
          last = s;
          hcover("arena_reader");
        }
      });
    for (int t = 1; t < 3; t++)
      if (!g[t].empty())
        mc::spawn([&, t] {
          int opn = 0;
          for (int k : g[t]) grow(t, k, opn++);
        });
    {
      int opn = 0;
      for (int k : g[0]) grow(0, k, opn++);
    }
    mc::join_all();
    long size = (long)arena.size();
    MC_CHECK(size <= kMaxElems, "harness: arena larger than expected");
    int expected[kMaxElems] = {};
    long total = 0;
    for (int r = 0; r < log.n.get(); r++) {
      total += log.count[r].get();
      for (long i = log.start[r].get(); i < log.start[r].get() + log.count[r].get(); i++) {
        MC_CHECK(i < size, "a grower was given index %ld but the final size() is %ld", i, size);
        MC_CHECK(expected[i] == 0, "index %ld lies in two returned ranges (tags %d and %ld)", i, expected[i], log.tag[r].get());
        expected[i] = (int)log.tag[r].get();
      }
    }
    MC_CHECK(total == size, "returned ranges cover %ld indices but size() is %ld", total, size);
    for (long i = 0; i < size; i++) {
      AElem& e = arena[(size_t)i];
      MC_CHECK(e.v == kDefaultV && e.owner == expected[i], "element %ld holds v=%x owner=%d, expected the default value and owner %d (re-constructed or overwritten)", i, e.v, e.owner, expected[i]);
    }
    MC_CHECK(arena.capacity() >= (size_t)size && arena.capacity() == arena.numBuffers() * bufsz, "capacity() %zu inconsistent with %zu buffers of %zu", arena.capacity(), arena.numBuffers(), bufsz);
    size_t covered = 0;
    for (size_t b = 0; b < arena.numBuffers(); b++) covered += arena.getBufferSize(b);
    MC_CHECK(covered == (size_t)size, "getBufferSize() sums to %zu, size() is %ld", covered, size);
    if (arena.numBuffers() > 1) hcover("arena_new_buffer");
    if (arena.numBuffers() > 2) hcover("arena_pointer_array_regrown");
    mc::observe("size", size);
    long sig = 0;
    for (long i = 0; i < size; i++) sig = sig * 7 + expected[i];
    mc::observe("layout", sig);
  }
}

namespace {
void fill_arena(Arena& a, size_t n, bool oneshot, int salt) {
  if (n == 0) return;
  if (oneshot)
    a.grow_by(n);
  else
    for (size_t i = 0; i < n; i++) a.grow_by(1);
  for (size_t i = 0; i < n; i++) {
    a[i].v = salt + (int)i * 7;
    a[i].owner = (int)i;
  }
}
void same(const Arena& a, size_t n, int salt, size_t bufsz, const char* what) {
  MC_CHECK(a.size() == n, "%s: size() is %zu, expected %zu", what, a.size(), n);
  MC_CHECK(a.kBufferSize == bufsz, "%s: buffer size is %zu, expected %zu", what, (size_t)a.kBufferSize, bufsz);
  MC_CHECK(a.numBuffers() == n / bufsz + 1, "%s: numBuffers() is %zu, expected %zu", what, a.numBuffers(), n / bufsz + 1);
  MC_CHECK(a.capacity() == a.numBuffers() * bufsz, "%s: capacity() is %zu with %zu buffers of %zu", what, a.capacity(), a.numBuffers(), bufsz);
  for (size_t i = 0; i < n; i++) MC_CHECK(a[i].v == salt + (int)i * 7 && a[i].owner == (int)i, "%s: element %zu holds v=%d owner=%d, expected v=%d owner=%zu", what, i, a[i].v, a[i].owner, salt + (int)i * 7, i);
}
// the result must be a fully working arena: grow it across a buffer boundary and look again
void grow_more(Arena& a, size_t n, int salt, size_t bufsz, const char* what) {
  size_t s = a.grow_by(bufsz + 1);
  MC_CHECK(s == n, "%s: grow_by on the result returned %zu, expected %zu", what, s, n);
  for (size_t i = n; i < n + bufsz + 1; i++) {
    MC_CHECK(a[i].v == kDefaultV, "%s: new element %zu of the result is not default-constructed", what, i);
    a[i].v = salt + (int)i * 7;
    a[i].owner = (int)i;
  }
  same(a, n + bufsz + 1, salt, bufsz, what);
}
} // namespace

MC_HARNESS(arena_copy) {
  size_t bs = (size_t)P("bs", 1);
  size_t nb = (size_t)P("nb", 0);
  if (nb == 0) nb = (size_t)mc::choose(6) + 1; // nb=0: every buffer count 1..6
  size_t bufsz = 1;
  while (bufsz < bs) bufsz *= 2;
  size_t off = (size_t)mc::choose((int)bufsz);
  bool oneshot = mc::choose(2) != 0;
  int op = mc::choose(5);
  size_t n = (nb - 1) * bufsz + off;
  Arena src(bs);
  fill_arena(src, n, oneshot, 1000);
  same(src, n, 1000, bufsz, "source");
  MC_CHECK(src.numBuffers() == nb, "harness: source has %zu buffers, wanted %zu", src.numBuffers(), nb);
  mc::observe("n", (long)n);
  mc::observe("op", op * 2 + (oneshot ? 1 : 0));
  switch (op) {
    case 0: {
      hcover("arena_copy_construct");
      Arena c(src);
      same(c, n, 1000, bufsz, "copy-constructed arena");
      same(src, n, 1000, bufsz, "source after copy construction");
      grow_more(c, n, 1000, bufsz, "copy-constructed arena after growth");
      same(src, n, 1000, bufsz, "source after the copy grew"); // deep copy
      if (n) {
        c[0].v = -1;
        MC_CHECK(src[0].v == 1000, "copy shares storage with its source");
      }
      break;
    }
    case 1: {
      hcover("arena_copy_assign");
      Arena d(2 * bufsz); // different geometry and contents
      fill_arena(d, 3, true, 5000);
      d = src;
      same(d, n, 1000, bufsz, "copy-assigned arena");
      same(src, n, 1000, bufsz, "source after copy assignment");
      grow_more(d, n, 1000, bufsz, "copy-assigned arena after growth");
      same(src, n, 1000, bufsz, "source after the copy grew");
      break;
    }
    case 2: {
      hcover("arena_move_construct");
      Arena m(std::move(src));
      same(m, n, 1000, bufsz, "move-constructed arena");
      grow_more(m, n, 1000, bufsz, "move-constructed arena after growth");
      break;
    }
    case 3: {
      hcover("arena_move_assign");
      Arena d(2 * bufsz);
      fill_arena(d, 3, true, 5000);
      d = std::move(src);
      same(d, n, 1000, bufsz, "move-assigned arena");
      grow_more(d, n, 1000, bufsz, "move-assigned arena after growth");
      break;
    }
    default: {
      hcover("arena_swap");
      Arena d(2 * bufsz);
      fill_arena(d, 2 * bufsz + 1, false, 5000);
      swap(src, d);
      same(d, n, 1000, bufsz, "swap: second arena");
      same(src, 2 * bufsz + 1, 5000, 2 * bufsz, "swap: first arena");
      grow_more(d, n, 1000, bufsz, "swap: second arena after growth");
      grow_more(src, 2 * bufsz + 1, 5000, 2 * bufsz, "swap: first arena after growth");
      break;
    }
  }
}
