// C30: graph executors respect dependencies and run each incomplete node exactly once.
// C31: partial re-evaluation (setIncomplete + ForwardPropagator) re-runs exactly the propagated closure.
//
// A configuration is a DAG in a fixed topological labelling plus a build script; the graph is built with the
// real API, evaluated with a real executor, and the run log is compared with the DAG.
//   n      nodes 0..n-1; pair (i,j), i<j, has bit index in lexicographic order (0,1),(0,2),..,(n-2,n-1)
//   e      edge mask: bit (i,j) set = node j depends on node i
//   b      subset of e: those dependencies are declared with biPropDependsOn (gt=1 only)
//   s      subgraph mask: bit i set = node i lives in an added subgraph, else in subgraph 0 (s=0: no addSubgraph)
//   o      bit0: nodes are added in descending label order (forEachNode order is then anti-topological)
//          bit1: dependencies are declared in descending pair order (matters for dependents_ order / set merging)
//   gt     0 Graph, 1 BiPropGraph
//   ex     0 SingleThreadExecutor, 1 ParallelForExecutor(TaskSet), 2 ParallelForExecutor(ConcurrentTaskSet),
//          3 ConcurrentTaskSetExecutor, 4 same with wait=false + tasks.wait(), 5 same with poolRecursiveLoadFactor 0
//   N      pool threads
//   script 0 build; 1 build [-> evaluate] -> clear -> rebuild -> evaluate; 2 build part -> evaluate -> add nodes -> evaluate
//   init   how the first evaluation is prepared: 0 setAllNodesIncomplete (what every test/example/doc page does),
//          1 ForwardPropagator on the fresh graph, 2 nothing (graph.h header example, diagnostic only)
//   k      script 1: 0/1 subgraph(k).clear(); 2 graph.clear(); 3 graph.clearSubgraphs()
//   pre    script 1: 1 = evaluate once before the clear
//   re     scripts 1,2: how the evaluation after the change is prepared: 0 setAllNodesIncomplete (full evaluation),
//          1 ForwardPropagator (new nodes + their closure; older complete nodes must not run)
//   late   script 2: mask of the nodes added after the first evaluation
//   mv     1 = the graph is move-constructed into another GraphT after the first build
//   mark   C31: mask of nodes given setIncomplete(); -1 = every subset in turn on the same graph
// The *_batch harnesses enumerate e x b x s x o x script arguments inside one body (one canonical schedule covers
// the whole slice; run them with --bound 0 opt.free_switch_cost=1); part/parts slice the enumeration.
#include "mc_harness.h"
#include <algorithm>
#include <dispenso/graph.h>
#include <dispenso/graph_executor.h>
#include <dispenso/platform.h>
#include <dispenso/task_set.h>
#include <dispenso/thread_pool.h>

namespace {
constexpr int kMaxN = 6;

inline int npairs(int n) { return n * (n - 1) / 2; }
inline int pair_idx(int n, int i, int j) { // i<j
  int idx = 0;
  for (int a = 0; a < i; a++) idx += n - 1 - a;
  return idx + (j - i - 1);
}
inline int popcount(unsigned x) { return __builtin_popcount(x); }
struct SetStr { // "{0,2}" for mask 5
  char b[32];
  explicit SetStr(unsigned m) {
    int k = 0;
    b[k++] = '{';
    for (int i = 0; i < 8; i++)
      if ((m >> i) & 1) {
        if (k > 1) b[k++] = ',';
        b[k++] = (char)('0' + i);
      }
    b[k++] = '}';
    b[k] = 0;
  }
  const char* c() const { return b; }
};

struct Cfg {
  int n = 3, gt = 0, ex = 0, N = 0;
  unsigned e = 0, b = 0, s = 0;
  int o = 0, script = 0, init = 0, k = 0, pre = 0, re = 0, mv = 0;
  unsigned late = 0;
  int mark = -1, fin = 1, sameset = 1;
  bool edge(int i, int j) const { return (e >> pair_idx(n, i, j)) & 1; }
  bool biprop(int i, int j) const { return (b >> pair_idx(n, i, j)) & 1; }
  std::string str() const {
    char buf[300];
    snprintf(buf, sizeof buf, "n=%d gt=%d ex=%d N=%d e=%u b=%u s=%u o=%d script=%d init=%d k=%d pre=%d re=%d late=%u mv=%d", n, gt, ex, N, e, b, s, o,
             script, init, k, pre, re, late, mv);
    return buf;
  }
};

// ---------------------------------------------------------------------------------------------- run log
struct Log {
  mc::Shared<int> runs[kMaxN], start[kMaxN], fin[kMaxN];
  mc::Shared<int> clock{0}, inflight{0}, on_caller{0}, on_worker{0}, overlap{0};
  int plainv[kMaxN]; // plain data: written by node i, read by its dependents (the TSan leg sees a missing edge)
  // expectation for the evaluation in progress (written by T0 before the executor starts)
  unsigned R = 0; // nodes expected to run
  unsigned pred[kMaxN]; // predecessor masks
  int epoch = 0;
  bool immediate = false; // violations are reported from inside the node functor (single-configuration harnesses)
  bool yield_in_body = false;
  const Cfg* cfg = nullptr;
  const char* phase = "";
  Log() {
    for (int i = 0; i < kMaxN; i++) plainv[i] = 0, pred[i] = 0;
  }
  void reset() {
    for (int i = 0; i < kMaxN; i++) runs[i].set(0), start[i].set(0), fin[i].set(0);
    inflight.set(0);
  }
  void body(int i) {
    int t = clock.add(1) + 1;
    int prev = runs[i].add(1);
    if (prev == 0) start[i].set(t);
    if (immediate) {
      MC_CHECK(prev == 0, "[%s] %s: node %d ran a second time in one evaluation", cfg->str().c_str(), phase, i);
      MC_CHECK((R >> i) & 1, "[%s] %s: node %d was run although it was complete", cfg->str().c_str(), phase, i);
      for (int p = 0; p < kMaxN; p++)
        if (((pred[i] & R) >> p) & 1)
          MC_CHECK(fin[p].get() != 0, "[%s] %s: node %d started before its incomplete predecessor %d had finished", cfg->str().c_str(), phase, i, p);
    }
    for (int p = 0; p < kMaxN; p++)
      if (((pred[i] & R) >> p) & 1) {
        int v = plainv[p];
        if (immediate && fin[p].get() != 0) MC_CHECK(v == epoch, "[%s] %s: node %d does not see the value written by predecessor %d (%d, expected %d)", cfg->str().c_str(), phase, i, p, v, epoch);
      }
    // (mc::cover is only called from T0: its table is touched through libc string functions, which TSan intercepts)
    if (mc_self_id() == 0)
      on_caller.set(1);
    else
      on_worker.set(1);
    if (inflight.add(1) > 0) overlap.set(1);
    if (yield_in_body)
      std::this_thread::yield(); // canonical-schedule batches: hand the processor to whoever else can run
    else
      mc::point();
    plainv[i] = epoch;
    inflight.add(-1);
    fin[i].set(clock.add(1) + 1);
  }
};
struct Fn {
  Log* L;
  int i;
  void operator()() const { L->body(i); }
};

// ---------------------------------------------------------------------------------------------- executors
struct Exec {
  dispenso::ThreadPool pool;
  dispenso::TaskSet ts;
  dispenso::ConcurrentTaskSet cts;
  dispenso::SingleThreadExecutor st;
  dispenso::ParallelForExecutor pf;
  dispenso::ConcurrentTaskSetExecutor ce;
  dispenso::ForwardPropagator fp;
  explicit Exec(int N) : pool((size_t)N), ts(pool), cts(pool) {}
  int raw_sleeping() {
    auto* ws = pool.wakeState_.a_.load(std::memory_order_relaxed);
    return ws ? (int)ws->totalSleeping_.a_.load(std::memory_order_relaxed) : 0;
  }
  // block (at model level) until every worker has parked: the evaluation then starts against an idle pool
  void wait_parked(int N) {
    if (N > 0) mc::block_until([&] { return raw_sleeping() >= N; });
  }
  template <class G>
  void run(int ex, const G& g) {
    switch (ex) {
      case 0: st(g); mc::cover("ex_single"); break;
      case 1: pf(ts, g); mc::cover("ex_pf_taskset"); break;
      case 2: pf(cts, g); mc::cover("ex_pf_cts"); break;
      case 3: ce(cts, g); mc::cover("ex_cts"); break;
      case 4:
        ce(cts, g, false);
        cts.wait();
        mc::cover("ex_cts_nowait");
        break;
      default: ce(cts, g, true, 0.0f); mc::cover("ex_cts_lf0"); break;
    }
  }
};

// ---------------------------------------------------------------------------------------------- reference
// Forward closure of `roots` over the dependencies among `live` nodes, plus every bidirectional-propagation set
// (connected component of the biprop pairs among live nodes) that intersects it. Written independently of
// dispenso: plain reachability + union-find, no shared code.
unsigned ref_components(const Cfg& c, unsigned live, int comp[kMaxN]) {
  for (int i = 0; i < c.n; i++) comp[i] = i;
  bool ch = true;
  while (ch) {
    ch = false;
    for (int i = 0; i < c.n; i++)
      for (int j = i + 1; j < c.n; j++)
        if (((live >> i) & 1) && ((live >> j) & 1) && c.edge(i, j) && c.biprop(i, j) && comp[i] != comp[j]) {
          int m = comp[i] < comp[j] ? comp[i] : comp[j];
          comp[i] = comp[j] = m;
          ch = true;
        }
  }
  unsigned ingroup = 0;
  for (int i = 0; i < c.n; i++)
    for (int j = i + 1; j < c.n; j++)
      if (((live >> i) & 1) && ((live >> j) & 1) && c.edge(i, j) && c.biprop(i, j)) ingroup |= (1u << i) | (1u << j);
  return ingroup;
}
unsigned ref_closure(const Cfg& c, unsigned live, unsigned roots) {
  unsigned reach = roots & live;
  for (int j = 0; j < c.n; j++) // labels are topological: one ascending pass is a fixpoint
    for (int i = 0; i < j; i++)
      if (((reach >> i) & 1) && ((live >> j) & 1) && c.edge(i, j)) reach |= 1u << j;
  int comp[kMaxN];
  unsigned ingroup = ref_components(c, live, comp);
  unsigned out = reach;
  for (int i = 0; i < c.n; i++)
    if (((reach >> i) & 1) && ((ingroup >> i) & 1))
      for (int j = 0; j < c.n; j++)
        if (((ingroup >> j) & 1) && comp[j] == comp[i]) out |= 1u << j;
  return out;
}

// ---------------------------------------------------------------------------------------------- one case
struct Failures {
  bool immediate = false;
  int count = 0, cases = 0;
  long serial = 0, last_serial = -1; // the batch driver numbers the configurations
  std::vector<std::pair<std::string, std::pair<int, std::string>>> kinds; // format string -> (count, first message)
  void add(const char* kind, const Cfg* cfg, const std::string& m) {
    if (immediate) mc::fail("%s", m.c_str());
    count++;
    (void)cfg;
    if (serial != last_serial) cases++, last_serial = serial;
    for (auto& k : kinds)
      if (k.first == kind) {
        k.second.first++;
        return;
      }
    kinds.push_back({kind, {1, m}});
  }
  std::string summary() const {
    std::string out;
    for (auto& k : kinds) {
      char b[64];
      snprintf(b, sizeof b, " (%d failures of this kind, first:) ", k.second.first);
      out += b + k.second.second.substr(0, 330);
    }
    return out.substr(0, 800);
  }
};

template <class N>
struct Decl {
  static void edge(N& to, N& from, bool) { to.dependsOn(from); }
};
template <>
struct Decl<dispenso::BiPropNode> {
  static void edge(dispenso::BiPropNode& to, dispenso::BiPropNode& from, bool bi) {
    if (bi)
      to.biPropDependsOn(from);
    else
      to.dependsOn(from);
  }
};

template <class G>
struct World {
  typedef typename G::NodeType NodeT;
  const Cfg& c;
  Exec& x;
  Log& L;
  Failures& F;
  G g0;
  G* g = &g0;
  std::unique_ptr<G> moved;
  NodeT* node[kMaxN];
  unsigned live = 0;
  bool ok = true;

  World(const Cfg& c_, Exec& x_, Log& L_, Failures& F_) : c(c_), x(x_), L(L_), F(F_) {
    for (auto& p : node) p = nullptr;
    L.cfg = &c;
    for (int j = 0; j < c.n; j++) {
      L.pred[j] = 0;
      for (int i = 0; i < j; i++)
        if (c.edge(i, j)) L.pred[j] |= 1u << i;
    }
  }
  void failf(const char* fmt, ...) __attribute__((format(printf, 2, 3))) {
    char buf[700];
    va_list ap;
    va_start(ap, fmt);
    vsnprintf(buf, sizeof buf, fmt, ap);
    va_end(ap);
    ok = false;
    F.add(fmt, &c, "[" + c.str() + "] " + L.phase + ": " + buf);
  }
  int sub_of(int i) const { return (int)((c.s >> i) & 1); }

  void add_subgraphs() {
    if (c.s != 0 && g->numSubgraphs() < 2) g->addSubgraph();
  }
  void add_nodes(unsigned mask) {
    for (int q = 0; q < c.n; q++) {
      int i = (c.o & 1) ? c.n - 1 - q : q;
      if (!((mask >> i) & 1)) continue;
      if (sub_of(i) == 0)
        node[i] = &g->addNode(Fn{&L, i});
      else
        node[i] = &g->subgraph(1).addNode(Fn{&L, i});
      live |= 1u << i;
    }
  }
  // declare every dependency (i,j) of the DAG with both ends alive and at least one end in `touching`
  void add_edges(unsigned touching) {
    int P = npairs(c.n);
    for (int q = 0; q < P; q++) {
      int want = (c.o & 2) ? P - 1 - q : q;
      for (int i = 0; i < c.n; i++)
        for (int j = i + 1; j < c.n; j++) {
          if (pair_idx(c.n, i, j) != want || !c.edge(i, j)) continue;
          if (!((live >> i) & 1) || !((live >> j) & 1)) continue;
          if (!(((touching >> i) | (touching >> j)) & 1)) continue;
          Decl<NodeT>::edge(*node[j], *node[i], c.biprop(i, j));
          if (sub_of(i) != sub_of(j)) mc::cover("cross_subgraph_edge");
        }
    }
  }
  void drop(unsigned mask) {
    for (int i = 0; i < c.n; i++)
      if ((mask >> i) & 1) node[i] = nullptr;
    live &= ~mask;
  }
  unsigned in_sub(int k) const {
    unsigned m = 0;
    for (int i = 0; i < c.n; i++)
      if (((live >> i) & 1) && sub_of(i) == k) m |= 1u << i;
    return m;
  }
  unsigned incomplete_now() const {
    unsigned m = 0;
    for (int i = 0; i < c.n; i++)
      if (((live >> i) & 1) && !node[i]->isCompleted()) m |= 1u << i;
    return m;
  }
  size_t count_nodes() const {
    size_t k = 0;
    g->forEachNode([&](const NodeT&) { ++k; });
    return k;
  }

  // One evaluation: exactly the nodes of R are incomplete, the executor must run exactly those, each once, each
  // after the R-members among its predecessors have finished, and leave every node complete.
  bool evaluate(unsigned R, const char* phase) {
    L.phase = phase;
    if (count_nodes() != (size_t)popcount(live)) {
      failf("graph holds %zu nodes, %d were added and not cleared", count_nodes(), popcount(live));
      return false;
    }
    unsigned inc = incomplete_now();
    if (inc != R) {
      failf("before the executor ran, the incomplete nodes are %s, expected %s", SetStr(inc).c(), SetStr(R).c());
      return false;
    }
    L.reset();
    L.R = R;
    L.epoch++;
    x.run(c.ex, *g);
    for (int i = 0; i < c.n; i++) {
      if (!((live >> i) & 1)) {
        if (L.runs[i].get() != 0) failf("node %d ran although it is not in the graph (cleared or not yet added)", i);
        continue;
      }
      int r = L.runs[i].get();
      if ((R >> i) & 1) {
        if (r != 1) failf("incomplete node %d ran %d times in one evaluation (incomplete set %s)", i, r, SetStr(R).c());
      } else if (r != 0)
        failf("node %d was complete and ran %d time(s) (incomplete set %s)", i, r, SetStr(R).c());
      if (!node[i]->isCompleted()) failf("node %d is not complete after the executor returned (ran %d times, incomplete set was %s)", i, r, SetStr(R).c());
    }
    if (!ok) return false;
    for (int j = 0; j < c.n; j++)
      for (int i = 0; i < j; i++)
        if (((R >> i) & 1) && ((R >> j) & 1) && c.edge(i, j) && !(L.fin[i].get() != 0 && L.fin[i].get() < L.start[j].get())) {
          failf("node %d started (t=%d) before its incomplete predecessor %d had finished (t=%d)", j, L.start[j].get(), i, L.fin[i].get());
          return false;
        }
    // which situations did this evaluation exercise
    for (int j = 0; j < c.n; j++)
      for (int i = 0; i < j; i++)
        if (((live >> i) & 1) && ((live >> j) & 1) && c.edge(i, j)) {
          if (((R >> j) & 1) && !((R >> i) & 1)) mc::cover("complete_predecessor_of_rerun_node");
          if (((R >> i) & 1) && !((R >> j) & 1)) mc::cover("complete_dependent_of_rerun_node");
        }
    if (L.on_caller.get()) mc::cover("node_on_caller");
    if (L.on_worker.get()) mc::cover("node_on_worker");
    if (L.overlap.get()) mc::cover("nodes_overlap");
    if (R != 0 && R != live) mc::cover("partial_evaluation");
    if (R == 0) mc::cover("empty_evaluation");
    long order = 0; // the order in which the nodes started, as an outcome
    for (int i = 0; i < c.n; i++) order = order * 16 + L.start[i].get();
    mc::observe(phase, order);
    return true;
  }

  void prepare(int how, const char* phase) { // 0 setAllNodesIncomplete, 1 ForwardPropagator, 2 nothing
    L.phase = phase;
    if (how == 0)
      setAllNodesIncomplete(*g);
    else if (how == 1)
      x.fp(*g);
  }
  void maybe_move() {
    if (c.mv) {
      moved.reset(new G(std::move(*g)));
      g = moved.get();
      mc::cover("graph_moved");
    }
  }

  // builds the graph according to the script and leaves it fully evaluated; returns false after a failure
  bool build_and_run() {
    unsigned all = (1u << c.n) - 1;
    if (c.script == 0) {
      add_subgraphs();
      add_nodes(all);
      add_edges(all);
      maybe_move();
      prepare(c.init, "init");
      return evaluate(all, "first evaluation");
    }
    if (c.script == 1) {
      add_subgraphs();
      add_nodes(all);
      add_edges(all);
      maybe_move();
      if (c.pre) {
        prepare(c.init, "init");
        if (!evaluate(all, "evaluation before clear")) return false;
      }
      unsigned gone;
      if (c.k <= 1) {
        gone = in_sub(c.k);
        if ((int)g->numSubgraphs() <= c.k) return true; // no such subgraph in this split
        g->subgraph((size_t)c.k).clear();
        mc::cover("subgraph_clear");
        for (int i = 0; i < c.n; i++)
          for (int j = i + 1; j < c.n; j++)
            if (c.edge(i, j) && (((gone >> i) ^ (gone >> j)) & 1)) mc::cover(((gone >> j) & 1) ? "clear_removes_edge_from_outside" : "clear_removes_edge_to_outside");
      } else if (c.k == 2) {
        gone = live;
        g->clear();
        mc::cover("graph_clear");
      } else {
        gone = live;
        g->clearSubgraphs();
        mc::cover("graph_clearSubgraphs");
      }
      drop(gone);
      L.phase = "after clear";
      if (count_nodes() != (size_t)popcount(live)) {
        failf("graph holds %zu nodes after the clear, expected %d", count_nodes(), popcount(live));
        return false;
      }
      for (int i = 0; i < c.n; i++)
        if ((live >> i) & 1) {
          size_t want = (size_t)popcount(L.pred[i] & live);
          if (node[i]->numPredecessors() != want) {
            failf("node %d reports %zu predecessors after the clear, %zu remain", i, node[i]->numPredecessors(), want);
            return false;
          }
        }
      add_subgraphs();
      add_nodes(gone);
      add_edges(gone);
      unsigned R = all;
      if (c.re == 1 && c.pre) R = ref_closure(c, live, gone);
      if (c.re == 1 && !c.pre && c.init != 1) {
        // never evaluated: every node is still in its freshly-built state, ForwardPropagator initialises all of them
      }
      prepare(c.re, "re-init after rebuild");
      if (!evaluate(R, "evaluation after rebuild")) return false;
      if (R != all) { // bring the graph to "all complete" through a full evaluation as well
        prepare(0, "setAllNodesIncomplete after partial");
        return evaluate(all, "full evaluation after rebuild");
      }
      return true;
    }
    // script 2: grow
    unsigned early = all & ~c.late;
    add_subgraphs();
    add_nodes(early);
    add_edges(early);
    maybe_move();
    prepare(c.init, "init");
    if (!evaluate(early, "evaluation before growth")) return false;
    add_nodes(c.late);
    add_edges(c.late);
    mc::cover("nodes_added_after_evaluation");
    unsigned R = c.re == 1 ? ref_closure(c, live, c.late) : all;
    prepare(c.re, "re-init after growth");
    if (!evaluate(R, "evaluation after growth")) return false;
    return true;
  }

  // C31 part, on a fully evaluated graph
  bool same_set_check() { return true; }
  bool partial_round(unsigned M, const char* hist) {
    char ph[120];
    snprintf(ph, sizeof ph, "mark=%s%s", SetStr(M).c(), hist);
    L.phase = ph;
    unsigned before = incomplete_now();
    if (before != 0) {
      failf("nodes %s are incomplete before marking", SetStr(before).c());
      return false;
    }
    for (int i = 0; i < c.n; i++)
      if ((M >> i) & 1) {
        if (!node[i]->setIncomplete()) {
          failf("setIncomplete() on complete node %d returned false", i);
          return false;
        }
      }
    x.fp(*g);
    unsigned R = ref_closure(c, live, M);
    unsigned inc = incomplete_now();
    if (inc != R) {
      failf("ForwardPropagator left nodes %s incomplete; the forward closure of %s plus the bidirectional sets it touches is %s", SetStr(inc).c(), SetStr(M).c(), SetStr(R).c());
      return false;
    }
    if (R != ref_closure(Cfg_no_biprop(), live, M)) mc::cover("biprop_set_pulled_in");
    std::string p2 = std::string("partial evaluation ") + ph;
    return evaluate(R, p2.c_str());
  }
  Cfg Cfg_no_biprop() const {
    Cfg d = c;
    d.b = 0;
    return d;
  }
};

template <>
bool World<dispenso::BiPropGraph>::same_set_check() {
  int comp[kMaxN];
  unsigned ingroup = ref_components(c, live, comp);
  L.phase = "isSameSet";
  for (int i = 0; i < c.n; i++)
    for (int j = 0; j < c.n; j++) {
      if (i == j || !((live >> i) & 1) || !((live >> j) & 1)) continue;
      bool want = ((ingroup >> i) & 1) && ((ingroup >> j) & 1) && comp[i] == comp[j];
      bool got = node[i]->isSameSet(*node[j]);
      if (want != got) {
        failf("node(%d).isSameSet(node(%d)) = %d, but the declared biPropDependsOn pairs put them in %s", i, j, (int)got, want ? "one set" : "different sets");
        return false;
      }
    }
  return true;
}

template <class G>
bool run_case(const Cfg& c, Exec& x, Log& L, Failures& F, bool c31) {
  World<G> w(c, x, L, F);
  if (!w.build_and_run()) return false;
  if (!c31) return true;
  unsigned all = (1u << c.n) - 1;
  if (w.live != all) return true;
  if (c.sameset) w.same_set_check(); // a mismatch is recorded; the propagation rounds below show what it means for re-evaluation
  w.ok = true;
  if (c.mark >= 0) {
    if (!w.partial_round((unsigned)c.mark, "")) return false;
  } else {
    for (unsigned M = 0; M <= all; M++)
      if (!w.partial_round(M, " (after every smaller mask)")) return false;
  }
  if (c.fin) {
    // setAllNodesIncomplete makes the next execution a full evaluation, whatever the counters were before:
    // (a) marks without propagation, (b) marks with propagation that was never executed
    unsigned M = c.mark >= 0 ? (unsigned)c.mark : (all & 0x5u);
    for (int variant = 0; variant < 2; variant++) {
      for (int i = 0; i < c.n; i++)
        if ((M >> i) & 1) w.node[i]->setIncomplete();
      if (variant == 1) x.fp(*w.g);
      setAllNodesIncomplete(*w.g);
      if (!w.evaluate(all, variant == 0 ? "full evaluation after marks + setAllNodesIncomplete" : "full evaluation after marks + ForwardPropagator + setAllNodesIncomplete")) return false;
    }
    mc::cover("setAllNodesIncomplete_full");
  }
  return true;
}

bool dispatch(const Cfg& c, Exec& x, Log& L, Failures& F, bool c31) {
  if (c.gt == 0) return run_case<dispenso::Graph>(c, x, L, F, c31);
  return run_case<dispenso::BiPropGraph>(c, x, L, F, c31);
}

Cfg cfg_from(const mc::Params& P) {
  Cfg c;
  c.n = (int)P("n", 3);
  c.gt = (int)P("gt", 0);
  c.ex = (int)P("ex", 0);
  c.N = (int)P("N", 0);
  c.e = (unsigned)P("e", 0);
  c.b = (unsigned)P("b", 0);
  c.s = (unsigned)P("s", 0);
  c.o = (int)P("o", 0);
  c.script = (int)P("script", 0);
  c.init = (int)P("init", 0);
  c.k = (int)P("k", 0);
  c.pre = (int)P("pre", 0);
  c.re = (int)P("re", 0);
  c.late = (unsigned)P("late", 0);
  c.mv = (int)P("mv", 0);
  c.mark = (int)P("mark", -1);
  c.fin = (int)P("fin", 1);
  c.sameset = (int)P("sameset", 1);
  return c;
}

void one(const mc::Params& P, bool c31) {
  Cfg c = cfg_from(P);
  MC_CHECK(c.n >= 1 && c.n <= kMaxN, "harness: n out of range");
  MC_CHECK((c.b & ~c.e) == 0 && (c.gt == 1 || c.b == 0), "harness: b must be a subset of e, and 0 for gt=0");
  Log L;
  L.immediate = true;
  Failures F;
  F.immediate = true;
  L.yield_in_body = P("y", 0) != 0;
  {
    Exec x(c.N);
    if (P("park", 1)) x.wait_parked(c.N);
    dispatch(c, x, L, F, c31);
  }
  mc::observe("done", 1);
}

// Enumerates the slice; `f` is called for every configuration.
template <class F>
long enumerate(const mc::Params& P, bool c31, F&& f) {
  Cfg base0 = cfg_from(P);
  int bmax = (int)P("bmax", 3);
  long o_sel = P("o", -1), s_sel = P("s", -1), e_sel = P("e", -1), mv_sel = P("mv", 0);
  long part = P("part", 0), parts = P("parts", 1), idx = 0, done = 0;
  int nlo = (int)P("nlo", base0.n); // node counts nlo..n
  std::string exs = P.s("exs", ""); // executors, e.g. "0123"; default: the one given by ex
  if (exs.empty()) exs = std::string(1, (char)('0' + base0.ex));
  for (int n = nlo; n <= base0.n; n++)
  for (char exc : exs) {
  Cfg base = base0;
  base.n = n;
  base.ex = exc - '0';
  unsigned all = (1u << n) - 1;
  int PP = npairs(n);
  for (unsigned e = 0; e < (1u << PP); e++) {
    if (e_sel >= 0 && e != (unsigned)e_sel) continue;
    // biprop subsets of e (BiPropGraph with n <= bmax), else only the empty one
    for (unsigned b = e;; b = (b - 1) & e) {
      bool use_b = base.gt == 1 && n <= bmax;
      if (use_b || b == 0) {
        for (unsigned s = 0; s <= all; s++) {
          if (s_sel >= 0 && s != (unsigned)s_sel) continue;
          for (int o = 0; o < 4; o++) {
            if (o_sel >= 0 && o != o_sel) continue;
            if ((o & 2) && popcount(e) < 2) continue; // a single dependency has one declaration order
            for (int mv = 0; mv <= 1; mv++) {
              if (mv_sel >= 0 && mv != mv_sel) continue;
              Cfg c = base;
              c.e = e, c.b = b, c.s = s, c.o = o, c.mv = mv;
              auto emit = [&](const Cfg& cc) {
                if (idx++ % parts == part) {
                  f(cc);
                  done++;
                }
              };
              if (c.script == 0) {
                for (int init = 0; init <= (c31 ? 0 : 1); init++) {
                  c.init = init;
                  emit(c);
                }
              } else if (c.script == 1) {
                for (int k = 0; k <= 3; k++) {
                  if (k == 1 && s == 0) continue;
                  if (k <= 1) {
                    unsigned members = 0;
                    for (int i = 0; i < n; i++)
                      if ((int)((s >> i) & 1) == k) members |= 1u << i;
                    if (members == 0) continue; // clearing an empty subgraph
                  }
                  for (int pre = 0; pre <= 1; pre++)
                    for (int re = 0; re <= 1; re++) {
                      if (c31 && !(pre == 1 && re == 0)) continue;
                      c.k = k, c.pre = pre, c.re = re;
                      c.init = (pre == 0 && re == 1) ? 1 : 0;
                      emit(c);
                    }
                }
              } else {
                for (unsigned late = 1; late < all; late++)
                  for (int re = 0; re <= 1; re++) {
                    if (c31 && re != 0) continue;
                    c.late = late, c.re = re;
                    emit(c);
                  }
              }
            }
          }
        }
      }
      if (b == 0) break;
    }
  }
  }
  return done;
}

void batch(const mc::Params& P, bool c31) {
  Cfg base = cfg_from(P);
  MC_CHECK(base.n >= 1 && base.n <= kMaxN, "harness: n out of range");
  Log L;
  Failures F;
  long cases = 0;
  L.yield_in_body = P("y", 1) != 0;
  {
    Exec x(base.N);
    if (P("park", 1)) x.wait_parked(base.N);
    bool park = P("park", 1) != 0;
    cases = enumerate(P, c31, [&](const Cfg& c) {
      if (park) x.wait_parked(base.N); // workers idle while the next graph is built: no choice points there
      F.serial++;
      dispatch(c, x, L, F, c31);
    });
  }
  if (P("count", 0)) mc_log("cases=%ld", cases);
  MC_CHECK(F.count == 0, "%d of %ld configurations failed:%s", F.cases, cases, F.summary().c_str());
  MC_CHECK(cases > 0, "harness: empty slice");
  mc::observe("cases", cases);
  mc::observe("evaluations", L.epoch);
}

// g_sgcache in graph.cpp keeps up to 8 node pool allocators per node type alive between graphs (process-wide).
// Fill both caches before every execution so that each execution starts from the same cache state (full) and
// neither grows the heap (the ASan leg compares allocated bytes before/after) nor takes the "cache empty" path.
template <class G>
void fill_one() {
  G g; // subgraph 0 + 7 more = kMaxCache allocators: takes whatever the cache holds and creates the rest
  for (int i = 0; i < 7; i++) g.addSubgraph();
  std::vector<typename G::SubgraphType*> sgs;
  g.forEachSubgraph([&](typename G::SubgraphType& sg) {
    (void)sg.allocator_->alloc(); // every cached allocator owns its first chunk already
    sgs.push_back(&sg);
  });
  // hand them back in one fixed order, so that subgraph k of every execution gets the same allocator (node
  // addresses decide the order inside a bidirectional-propagation set, hence the order of atomic operations)
  std::sort(sgs.begin(), sgs.end(), [](typename G::SubgraphType* a, typename G::SubgraphType* b) { return a->allocator_.get() < b->allocator_.get(); });
  for (auto* sg : sgs) sg->allocator_.reset();
}
void fill_subgraph_cache() {
  fill_one<dispenso::Graph>();
  fill_one<dispenso::BiPropGraph>();
}
void prewarm() {
  (void)dispenso::CpuSet::l3CacheGroups();
  fill_subgraph_cache();
}
mc::HookSetter hooks(prewarm, fill_subgraph_cache);
} // namespace

MC_HARNESS(c30) { one(P, false); }
MC_HARNESS(c31) { one(P, true); }
MC_HARNESS(c30_batch) { batch(P, false); }
MC_HARNESS(c31_batch) { batch(P, true); }
