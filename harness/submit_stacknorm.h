// Work-around for an engine limitation (see c01_submit.notes.md, "engine"): moodycamel's implicit-producer
// table is indexed by a hash of the calling thread's TLS address. Executions run back to back in one
// worker process and glibc hands cached thread stacks (and with them TLS blocks) back in LIFO order of
// the previous execution's pthread_join calls, so pool worker k gets a different TLS address from one
// execution to the next (observed: strictly alternating between two values). Any program in which a
// *pool thread* enqueues without a producer token (ThreadPool::scheduleBulk or ConcurrentTaskSet::
// scheduleBulk called from a task) then touches a different table slot on replay and the explorer
// reports "replay diverged".
//
// The reset hook below runs before every execution (outside the model, on the worker process's main
// thread): it takes the K most recently cached default-size stacks by creating K plain pthreads that are
// alive at the same time, and joins them in descending address order. glibc queues a joinable thread's
// stack at join time, at the head of its cache, so afterwards the cache hands out the same stacks in the
// same order whatever the previous execution did. Only raw pthread primitives are used (none of them is
// interposed by the engine).
#pragma once
#include <pthread.h>
#include <stdint.h>
#include <algorithm>
#include "mc_harness.h"

namespace submit_stacknorm {
constexpr int K = 8;
// Set by the harness body from its parameters (constant for the whole run; the first, unnormalised execution
// is the parent's warm-up, whose trace is not compared with anything).
static int g_enabled = 0;
struct Slot {
  pthread_t th;
  uintptr_t addr;
};
static pthread_barrier_t g_bar;
static Slot g_slot[K];

static void* fn(void* p) {
  Slot* s = static_cast<Slot*>(p);
  char here;
  s->addr = reinterpret_cast<uintptr_t>(&here);
  pthread_barrier_wait(&g_bar); // all K are alive now: together they hold the top K cached stacks
  return nullptr;
}

static void normalise() {
  if (!g_enabled) return;
  pthread_barrier_init(&g_bar, nullptr, K + 1);
  for (int i = 0; i < K; i++) pthread_create(&g_slot[i].th, nullptr, fn, &g_slot[i]);
  pthread_barrier_wait(&g_bar);
  std::sort(g_slot, g_slot + K, [](const Slot& a, const Slot& b) { return a.addr > b.addr; });
  for (int i = 0; i < K; i++) pthread_join(g_slot[i].th, nullptr);
  pthread_barrier_destroy(&g_bar);
}
} // namespace submit_stacknorm

#define SUBMIT_STACKNORM_INSTALL() static ::mc::HookSetter submit_stacknorm_hooks(nullptr, ::submit_stacknorm::normalise)
