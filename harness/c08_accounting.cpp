// C08: once all work handed to a ThreadPool has finished and no submission is in progress, the pool's
// pending-work counter (workRemaining_) is zero again, for any history of scheduling, task-set use and resize().
//
// History `h` = string of steps run by T0 (a digit follows b r R C L z):
//   s  pool.schedule(f)            q  pool.schedule(f, FQ)          b<k> pool.scheduleBulk(k, gen)
//   t  TaskSet::schedule(f)        u  TaskSet::schedule(f, FQ)      r<k> TaskSet::scheduleBulk(k, gen)   R<k> ...(k, gen, FQ)
//   c  ConcurrentTaskSet<kHeavy>::schedule(f)   d  ...schedule(f, FQ)   C<k> ...scheduleBulk(k, gen)     (steal-ring / "placed" paths)
//   l  ConcurrentTaskSet<kLightweight>::schedule(f)                 L<k> ...scheduleBulk(k, gen)
//   w  wait() on every task set used so far
//   z<n> pool.resize(n)            p  setSignalingWake(false, 200us) (poll mode)     e  setSignalingWake(true)
//   k  quiescent-point check (wait the task sets, then see below)
//   X  any one submission step, Y any one of s q b2, Z any one of z0 z1 z2 - resolved by mc::choose, i.e. one run explores the whole family of
//      histories jointly with their schedules (the violation message names the concrete history)
// A quiescent-point check also runs at the end of every history, after the task sets were destroyed.
// `t1` = optional second external thread running a program over {s,q,b<k>} concurrently with T0's history.
// params: n initial pool size, mult poolLoadMultiplier, smult stealingLoadMultiplier, oracle=counter|probe.
//
// Quiescence. Workers subtract what they executed from workRemaining_ in batches (kWorkBatchSize = 8, and at the
// end of every burst), always before they park, so the harness waits - at model level, without touching the pool -
// until (1) every functor handed over so far has finished, (2) no call is in progress (T0 is between steps, t1 has
// been joined) and (3) every worker is parked: wakeState_->totalSleeping() == numThreads (a worker counts itself
// there in enterSleep(), after its last flush), or the pool has no threads. In poll mode workers never register
// as sleeping, so mid-history checks are skipped there and the final check is made after a resize(0) (no workers
// left => nothing unflushed).
//
// Oracle (counter): workRemaining_ == 0 and poolLoadFactor_ == numThreads*mult, i.e. exactly the state of a freshly
// constructed pool of that size. Oracle (probe): the public effect only - on a pool with >= 1 thread, schedule(f)
// at a quiescent point must queue f, as a fresh pool does, and not run it inline on the caller.
#include "mc_harness.h"
#include "submit_cover.h"
#include "submit_stacknorm.h"
#include <new>
#include <dispenso/task_set.h>
#include <dispenso/thread_pool.h>

SUBMIT_STACKNORM_INSTALL();

namespace {
constexpr int kMax = 48;
enum Kind { kPool = 0, kRing = 1, kPlaced = 2, kSetQueue = 3, kProbe = 4 };

struct State {
  mc::Shared<int> submitted{0}, finished{0};
  mc::Shared<int> ran[kMax];
  mc::Shared<int> kind[kMax];
  mc::Shared<int> submitter[kMax];
  mc::Shared<int> in_call[kMax];
  mc::Shared<int> inline_run[kMax];
  mc::Shared<int> next{0};
  mc::Shared<int> in_resize{0}, in_wait{0};
  int t0_id = 0;

  int fresh(int k, Kind kd) {
    int base = next.add(k);
    MC_CHECK(base + k <= kMax, "harness: more than %d tasks", kMax);
    for (int i = base; i < base + k; i++) {
      kind[i].set(kd);
      submitter[i].set(mc_self_id());
      in_call[i].set(1);
    }
    submitted.add(k);
    return base;
  }
  void done(int base, int k) {
    for (int i = base; i < base + k; i++) in_call[i].set(0);
  }
  void body(int id) {
    MC_CHECK(ran[id].add(1) == 0, "task %d ran twice", id);
    int self = mc_self_id();
    int kd = kind[id].get();
    if (self == submitter[id].get() && in_call[id].get()) {
      inline_run[id].set(1);
      submit_cover::mark("ran_inline");
    } else if (self == t0_id && in_resize.get()) {
      submit_cover::mark(kd == kRing ? "resize_ran_ring_candidate" : kd == kPlaced ? "resize_ran_placed_task" : "resize_ran_queue_task");
    } else if (self == t0_id && in_wait.get()) {
      submit_cover::mark("wait_ran_task");
    } else {
      submit_cover::mark("worker_ran_task");
    }
    finished.add(1);
  }
};

template <class T>
struct Lazy { // stack storage for a lazily constructed, over-aligned task set
  alignas(T) unsigned char buf[sizeof(T)];
  T* p = nullptr;
  template <class... A>
  T& get(A&&... a) {
    if (!p) p = new (buf) T(std::forward<A>(a)...);
    return *p;
  }
  void destroy() {
    if (p) p->~T();
    p = nullptr;
  }
};

struct Runner {
  dispenso::ThreadPool& pool;
  State& st;
  long mult, smult;
  bool probe_oracle;
  bool poll = false;
  bool t1_active = false;
  mc::Shared<int> t1_done{0};
  std::string done_prefix;
  Lazy<dispenso::TaskSet> ts;
  Lazy<dispenso::ConcurrentTaskSet> ch, cl;

  long raw_threads() { return (long)pool.numThreads_.a_.load(std::memory_order_relaxed); }
  long raw_work() { return (long)pool.workRemaining_.a_.load(std::memory_order_relaxed); }

  dispenso::TaskSet& TS() { return ts.get(pool, (ssize_t)smult); }
  dispenso::ConcurrentTaskSet& CH() { return ch.get(pool, dispenso::TaskCost::kHeavy, (ssize_t)smult); }
  dispenso::ConcurrentTaskSet& CL() { return cl.get(pool, dispenso::TaskCost::kLightweight, (ssize_t)smult); }

  void wait_sets() {
    st.in_wait.set(1);
    if (ts.p) ts.p->wait();
    if (ch.p) ch.p->wait();
    if (cl.p) cl.p->wait();
    st.in_wait.set(0);
  }

  // model-level wait; true if quiescence in the sense of the header comment was established. The three conditions are
  // evaluated together, at one instant, and re-evaluated by T0 itself after it has been resumed (other threads may
  // have run between the predicate turning true and T0 continuing); T0 then reads the counter without a scheduling
  // point in between.
  bool quiesce() {
    auto all_done = [&] { return (!t1_active || t1_done.get() != 0) && st.finished.get() == st.submitted.get(); };
    auto parked = [&] {
      long nt = raw_threads();
      if (nt == 0 || poll) return true;
      auto* ws = pool.wakeState_.a_.load(std::memory_order_relaxed);
      return ws && (long)ws->totalSleeping_.a_.load(std::memory_order_relaxed) == nt;
    };
    auto pred = [&] { return all_done() && parked(); };
    do {
      mc::block_until(pred);
    } while (!pred());
    return raw_threads() == 0 || !poll;
  }

  void check(const char* where) {
    wait_sets();
    if (!quiesce()) {
      submit_cover::mark("check_skipped_poll_mode");
      return;
    }
    long nt = raw_threads(), wr = raw_work(), lf = (long)pool.poolLoadFactor_.a_.load(std::memory_order_relaxed);
    submit_cover::mark(nt == 0 ? "quiescent_check_n0" : nt == 1 ? "quiescent_check_n1" : "quiescent_check_n2plus");
    MC_CHECK(lf == nt * mult, "poolLoadFactor_ is %ld, a fresh pool of %ld thread(s) has %ld (after '%s', %s)", lf, nt, nt * mult, done_prefix.c_str(), where);
    if (!probe_oracle) {
      MC_CHECK(wr == 0,
               "workRemaining_ is %ld at a quiescent point (all %d functors finished, no call in progress, %ld of %ld workers parked) after history '%s' (%s); "
               "a fresh pool has 0, and schedule() runs inline once it exceeds %ld",
               wr, st.submitted.get(), nt, nt, done_prefix.c_str(), where, lf);
      return;
    }
    if (nt == 0) return;
    // public effect: a fresh pool of nt >= 1 threads queues the first schedule()
    int id = st.fresh(1, kProbe);
    pool.schedule([this, id] { st.body(id); });
    st.done(id, 1);
    bool inl = st.inline_run[id].get() != 0;
    submit_cover::mark(inl ? "probe_ran_inline" : "probe_was_queued");
    MC_CHECK(!inl,
             "schedule() on an idle pool of %ld thread(s) ran the functor inline on the caller where a fresh pool queues it (pending-work counter reads %ld, load factor %ld) "
             "after history '%s' (%s)",
             nt, wr, lf, done_prefix.c_str(), where);
    quiesce();
  }

  void note_ring_path(dispenso::TaskSetBase& set, int k) {
    long nt = raw_threads();
    long out = (long)set.outstandingTaskCount_.a_.load(std::memory_order_relaxed);
    bool fast = k * 4 >= nt && k <= nt && (long)pool.numRings_.a_.load(std::memory_order_relaxed) >= k && out <= (long)set.taskSetLoadFactor_;
    submit_cover::mark(fast ? "bulk_ring_fast_path" : "bulk_standard_path");
  }

  template <class Set>
  void set_single(Set& set, Kind kd, bool fq) {
    int id = st.fresh(1, kd);
    if (fq)
      set.schedule([this, id] { st.body(id); }, dispenso::ForceQueuingTag());
    else
      set.schedule([this, id] { st.body(id); });
    st.done(id, 1);
  }
  template <class Set>
  void set_bulk(Set& set, Kind kd, int k, bool fq) {
    int base = st.fresh(k, kd);
    auto gen = [this, base](size_t i) {
      int id = base + (int)i;
      return [this, id] { st.body(id); };
    };
    if (fq)
      set.scheduleBulk((size_t)k, gen, dispenso::ForceQueuingTag());
    else
      set.scheduleBulk((size_t)k, gen);
    st.done(base, k);
  }

  // pool-only program (also used by the concurrent thread t1)
  bool pool_step(const std::string& h, size_t& pc) {
    char op = h[pc];
    if (op == 's') {
      int id = st.fresh(1, kPool);
      pool.schedule([this, id] { st.body(id); });
      st.done(id, 1);
      submit_cover::mark("pool_schedule");
    } else if (op == 'q') {
      int id = st.fresh(1, kPool);
      pool.schedule([this, id] { st.body(id); }, dispenso::ForceQueuingTag());
      st.done(id, 1);
      submit_cover::mark("pool_schedule_fq");
    } else if (op == 'b') {
      int k = h[++pc] - '0';
      int base = st.fresh(k, kPool);
      pool.scheduleBulk((size_t)k, [this, base](size_t i) {
        int id = base + (int)i;
        return [this, id] { st.body(id); };
      });
      st.done(base, k);
      submit_cover::mark("pool_bulk");
    } else {
      return false;
    }
    return true;
  }

  // expand the wildcards (data nondeterminism, explored exhaustively at no cost)
  static std::string expand(const std::string& h) {
    static const char* subs[] = {"s", "q", "b2", "t", "u", "r1", "r2", "R2", "c", "d", "C2", "l", "L1", "L2"};
    static const char* rez[] = {"z0", "z1", "z2"};
    std::string out;
    for (char ch : h) {
      if (ch == 'X')
        out += subs[mc::choose(14)];
      else if (ch == 'Z')
        out += rez[mc::choose(3)];
      else if (ch == 'Y')
        out += subs[mc::choose(3)]; // pool-only submissions: s q b2
      else
        out += ch;
    }
    return out;
  }

  void run(const std::string& h) {
    for (size_t pc = 0; pc < h.size(); pc++) {
      size_t start = pc;
      char op = h[pc];
      if (pool_step(h, pc)) {
      } else if (op == 't' || op == 'u') {
        set_single(TS(), kSetQueue, op == 'u');
        submit_cover::mark(op == 'u' ? "ts_schedule_fq" : "ts_schedule");
      } else if (op == 'r' || op == 'R') {
        int k = h[++pc] - '0';
        if (op == 'r') note_ring_path(TS(), k);
        set_bulk(TS(), op == 'r' ? kRing : kSetQueue, k, op == 'R');
        submit_cover::mark(op == 'r' ? "ts_bulk" : "ts_bulk_fq");
      } else if (op == 'c' || op == 'd') {
        set_single(CH(), kPlaced, op == 'd');
        submit_cover::mark(op == 'd' ? "ctsh_schedule_fq" : "ctsh_schedule");
      } else if (op == 'C') {
        int k = h[++pc] - '0';
        set_bulk(CH(), kPlaced, k, false);
        submit_cover::mark("ctsh_bulk");
      } else if (op == 'l') {
        set_single(CL(), kSetQueue, false);
        submit_cover::mark("ctsl_schedule");
      } else if (op == 'L') {
        int k = h[++pc] - '0';
        note_ring_path(CL(), k);
        set_bulk(CL(), kRing, k, false);
        submit_cover::mark("ctsl_bulk");
      } else if (op == 'w') {
        wait_sets();
        submit_cover::mark("wait");
      } else if (op == 'z') {
        int n = h[++pc] - '0';
        bool pending = st.finished.get() != st.submitted.get();
        long before = raw_threads();
        st.in_resize.set(1);
        pool.resize(n);
        st.in_resize.set(0);
        if (pending && before != n) submit_cover::mark("resize_with_unfinished_work");
        submit_cover::mark(n == 0 ? "resize_to_0" : n > before ? "resize_up" : n < before ? "resize_down" : "resize_same");
      } else if (op == 'p' || op == 'e') {
        st.in_resize.set(1);
        if (op == 'p')
          pool.setSignalingWake(false, std::chrono::microseconds(200));
        else
          pool.setSignalingWake(true, std::chrono::microseconds(dispenso::kDefaultSleepLenUs));
        st.in_resize.set(0);
        poll = op == 'p';
        submit_cover::mark(op == 'p' ? "set_poll_mode" : "set_wake_mode");
      }
      done_prefix.append(h, start, pc - start + 1);
      if (op == 'k') check("explicit check");
    }
  }
};
} // namespace

MC_HARNESS(acct) {
  submit_cover::reset();
  long n = P("n", 1), mult = P("mult", 1), smult = P("smult", 4);
  std::string h = Runner::expand(P.s("h", "")), t1 = Runner::expand(P.s("t1", ""));
  // the external thread t1 enqueues without a producer token and resize() reshuffles glibc's stack cache: see submit_stacknorm.h
  submit_stacknorm::g_enabled = !t1.empty() && t1 != "-";
  State st;
  st.t0_id = mc_self_id();
  {
    dispenso::ThreadPool pool((size_t)n, (size_t)mult);
    Runner r{pool, st, mult, smult, P.s("oracle", "counter") == "probe"};
    if (!t1.empty() && t1 != "-") {
      submit_cover::mark("concurrent_submitter");
      r.t1_active = true;
      mc::spawn([&] {
        for (size_t pc = 0; pc < t1.size(); pc++) r.pool_step(t1, pc);
        r.t1_done.set(1);
      });
    }
    r.run(h);
    mc::join_all();
    // the task sets go first (their destructors wait), then the final quiescent-point check
    r.wait_sets();
    r.ts.destroy();
    r.ch.destroy();
    r.cl.destroy();
    if (r.poll && r.raw_threads() != 0) {
      st.in_resize.set(1);
      pool.resize(0);
      st.in_resize.set(0);
      r.done_prefix += "z0";
      submit_cover::mark("final_resize0_in_poll_mode");
    }
    r.check("end of history");
    mc::observe("work_remaining", r.raw_work());
    mc::observe("threads", r.raw_threads());
  }
  int inl = 0;
  for (int i = 0; i < st.next.get(); i++) {
    MC_CHECK(st.ran[i].get() == 1, "task %d ran %d times", i, st.ran[i].get());
    inl += st.inline_run[i].get();
  }
  mc::observe("inline", inl);
  submit_cover::flush();
}
