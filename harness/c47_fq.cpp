// C47: on a pool with at least one thread, no ForceQueuingTag entry point runs the functor on the calling
// thread before it returns, whatever the load.
//
// Entry points that exist in this tree (thread_pool.h, task_set.h, detail/task_set_impl.h):
//   api=pool   ThreadPool::schedule(f, FQ)                                   ops: q
//   api=ts     TaskSet::schedule(f, FQ), TaskSet::scheduleBulk(k, gen, FQ)   ops: q, B<k>
//   api=ctsl   ConcurrentTaskSet(TaskCost::kLightweight) schedule / scheduleBulk with FQ    ops: q, B<k>
//   api=ctsh   ConcurrentTaskSet(TaskCost::kHeavy)  -> ThreadPool::schedulePlaced(f, FQ) (steal rings) / scheduleBulk FQ
// (ThreadPool has no scheduleBulk(..., FQ) overload.)
//
// api=sets = any of ts/ctsl/ctsh, api=any = any of the four, caller=any = ext or pool (chosen by mc::choose; with api=pool the
// B<k> steps of a program are skipped).
// params: n pool size (>=1), mult poolLoadMultiplier, smult stealingLoadMultiplier, caller=ext|pool (the thread
// that runs program `t0`: T0 itself, or a task running on a pool thread), t1 = optional second external caller
// (api pool/ctsl/ctsh only: TaskSet is single-threaded), gate=1: every functor blocks until its caller has
// finished its whole program, so the load only grows: call number i is made with i-1.. earlier tasks pending,
// from an empty pool to far beyond poolLoadFactor_ (n*mult), the pool-recursive factor (1.5n) and the task-set
// factor (n*smult) - exactly the conditions under which the non-FQ overloads run the functor inline.
//
// Oracle: a functor handed to an FQ call never starts on the calling thread while that call is in progress.
#include "mc_harness.h"
#include "submit_cover.h"
#include "submit_stacknorm.h"
#include <dispenso/task_set.h>
#include <dispenso/thread_pool.h>

SUBMIT_STACKNORM_INSTALL();

namespace {
constexpr int kMax = 32;
struct State {
  mc::Shared<int> caller[kMax]; // modelled thread id of the calling thread
  mc::Shared<int> in_call[kMax];
  mc::Shared<int> started[kMax];
  mc::Shared<int> used[kMax];
  mc::Shared<int> during[kMax]; // 1: started while the call was still in progress (necessarily on another thread)
  mc::Shared<int> next[4];
  mc::Shared<int> gate_open[4]; // per caller
  mc::Shared<int> finished{0};
  mc::Shared<int> submitted{0};
  bool gate = true;

  int fresh(int who, int k) {
    int base = who * 8 + next[who].add(k);
    MC_CHECK(base + k <= who * 8 + 8, "harness: caller %d submits more than 8 tasks", who);
    for (int i = base; i < base + k; i++) {
      used[i].set(1);
      caller[i].set(mc_self_id());
      in_call[i].set(1);
    }
    submitted.add(k);
    return base;
  }
  void done(int base, int k) {
    for (int i = base; i < base + k; i++) in_call[i].set(0);
  }
  void body(int id, const char* what) {
    int self = mc_self_id();
    MC_CHECK(!(in_call[id].get() && caller[id].get() == self),
             "%s ran functor %d on the calling thread (T%d) before the call returned", what, id, self);
    MC_CHECK(started[id].add(1) == 0, "functor %d started twice", id);
    bool dur = in_call[id].get() != 0;
    during[id].set(dur ? 1 : 2);
    submit_cover::mark(dur ? "started_during_call_elsewhere" : "started_after_call");
    if (gate) {
      int who = id / 8;
      mc::block_until([&] { return gate_open[who].get() != 0; });
    }
    finished.add(1);
  }
};

// would the corresponding non-FQ overload have run the functor inline right now? (read without scheduling points)
void note_load(dispenso::ThreadPool& pool, dispenso::TaskSetBase* ts, bool pool_thread) {
  long wr = (long)pool.workRemaining_.a_.load(std::memory_order_relaxed);
  long lf = (long)pool.poolLoadFactor_.a_.load(std::memory_order_relaxed);
  long nt = (long)pool.numThreads_.a_.load(std::memory_order_relaxed);
  if (wr == 0) submit_cover::mark("load_empty");
  if (wr > 0 && wr <= lf) submit_cover::mark("load_below_pool_factor");
  if (wr > lf) submit_cover::mark("load_beyond_pool_factor");
  if (wr > 2 * lf + 1) submit_cover::mark("load_far_beyond_pool_factor");
  if (pool_thread && wr > nt + nt / 2) submit_cover::mark("load_beyond_pool_recursive_factor");
  if (ts) {
    long out = (long)ts->outstandingTaskCount_.a_.load(std::memory_order_relaxed);
    if (out > (long)ts->taskSetLoadFactor_) submit_cover::mark("load_beyond_taskset_factor");
    if (out > 2 * (long)ts->taskSetLoadFactor_ + 1) submit_cover::mark("load_far_beyond_taskset_factor");
  }
}

template <class Set>
void run_on_set(dispenso::ThreadPool& pool, Set& set, State& st, int who, const std::string& prog, bool pool_thread, const char* qname,
                const char* bname, const char* qcover, const char* bcover) {
  for (size_t pc = 0; pc < prog.size(); pc++) {
    char op = prog[pc];
    note_load(pool, &set, pool_thread);
    if (op == 'q') {
      int id = st.fresh(who, 1);
      set.schedule([&st, id, qname] { st.body(id, qname); }, dispenso::ForceQueuingTag());
      st.done(id, 1);
      submit_cover::mark(qcover);
    } else if (op == 'B') {
      int k = prog[++pc] - '0';
      int base = st.fresh(who, k);
      set.scheduleBulk(
          (size_t)k,
          [&st, base, bname](size_t i) {
            int id = base + (int)i;
            return [&st, id, bname] { st.body(id, bname); };
          },
          dispenso::ForceQueuingTag());
      st.done(base, k);
      submit_cover::mark(bcover);
    }
  }
}

void run_on_pool(dispenso::ThreadPool& pool, State& st, int who, const std::string& prog, bool pool_thread) {
  for (size_t pc = 0; pc < prog.size(); pc++) {
    if (prog[pc] != 'q') continue;
    note_load(pool, nullptr, pool_thread);
    int id = st.fresh(who, 1);
    pool.schedule([&st, id] { st.body(id, "ThreadPool::schedule(f, FQ)"); }, dispenso::ForceQueuingTag());
    st.done(id, 1);
    submit_cover::mark("fq_pool_schedule");
  }
}

// one caller: runs its program against its API object, opens its gate, waits (task sets) and returns
void caller_main(dispenso::ThreadPool& pool, dispenso::ConcurrentTaskSet* shared_cts, State& st, const std::string& api, long smult, int who,
                 const std::string& prog, bool pool_thread) {
  if (api == "pool") {
    run_on_pool(pool, st, who, prog, pool_thread);
    st.gate_open[who].set(1);
  } else if (api == "ts") {
    dispenso::TaskSet ts(pool, (ssize_t)smult);
    run_on_set(pool, ts, st, who, prog, pool_thread, "TaskSet::schedule(f, FQ)", "TaskSet::scheduleBulk(n, gen, FQ)", "fq_ts_schedule", "fq_ts_bulk");
    st.gate_open[who].set(1);
    ts.wait(); // may run the functors on this thread - after the calls returned, which is allowed
  } else {
    bool heavy = api == "ctsh";
    const char* qn = heavy ? "ConcurrentTaskSet<kHeavy>::schedule(f, FQ)" : "ConcurrentTaskSet<kLightweight>::schedule(f, FQ)";
    const char* bn = heavy ? "ConcurrentTaskSet<kHeavy>::scheduleBulk(n, gen, FQ)" : "ConcurrentTaskSet<kLightweight>::scheduleBulk(n, gen, FQ)";
    const char* qc = heavy ? "fq_ctsh_schedule" : "fq_ctsl_schedule";
    const char* bc = heavy ? "fq_ctsh_bulk" : "fq_ctsl_bulk";
    if (shared_cts) {
      run_on_set(pool, *shared_cts, st, who, prog, pool_thread, qn, bn, qc, bc);
      st.gate_open[who].set(1);
    } else {
      dispenso::ConcurrentTaskSet cts(pool, heavy ? dispenso::TaskCost::kHeavy : dispenso::TaskCost::kLightweight, (ssize_t)smult);
      run_on_set(pool, cts, st, who, prog, pool_thread, qn, bn, qc, bc);
      st.gate_open[who].set(1);
      cts.wait();
    }
  }
}
} // namespace

MC_HARNESS(fq) {
  submit_cover::reset();
  long n = P("n", 1), mult = P("mult", 1), smult = P("smult", 1);
  std::string api = P.s("api", "pool"), t0 = P.s("t0", "q"), t1 = P.s("t1", ""), who0 = P.s("caller", "ext");
  // api=any / api=sets / caller=any: resolved by mc::choose before any thread exists, so that one run (one process)
  // explores the whole family jointly with its schedules
  bool norm = (who0 == "pool" || who0 == "any") && api != "pool" && api != "ts" && t0.find('B') != std::string::npos;
  if (api == "any") {
    static const char* apis[] = {"pool", "ts", "ctsl", "ctsh"};
    api = apis[mc::choose(4)];
  } else if (api == "sets") {
    static const char* apis[] = {"ts", "ctsl", "ctsh"};
    api = apis[mc::choose(3)];
  }
  if (who0 == "any") who0 = mc::choose(2) ? "pool" : "ext";
  bool two = !t1.empty() && t1 != "-";
  State st;
  st.gate = P("gate", 1) != 0;
  // ConcurrentTaskSet::scheduleBulk(.., FQ) from a pool thread enqueues without a producer token: see submit_stacknorm.h
  submit_stacknorm::g_enabled = norm;
  MC_CHECK(n >= 1, "harness: C47 is stated for pools with at least one thread");
  {
    dispenso::ThreadPool pool((size_t)n, (size_t)mult);
    // two callers on one ConcurrentTaskSet share it (that is what the class is for); it is waited by T0 after both are done
    bool use_shared = two && api != "pool" && api != "ts";
    dispenso::ConcurrentTaskSet shared_set(pool, api == "ctsh" ? dispenso::TaskCost::kHeavy : dispenso::TaskCost::kLightweight, (ssize_t)smult);
    dispenso::ConcurrentTaskSet* shared = use_shared ? &shared_set : nullptr;
    if (two) mc::spawn([&] { caller_main(pool, shared, st, api, smult, 1, t1, false); });
    if (who0 == "pool") {
      // the caller is a pool thread: a launcher task (itself force-queued, and checked like any other) runs the program
      // (the closure is kept at 16 bytes: a larger one makes OnceFunction take a 128-byte small-buffer chunk, whose
      // first carve-up costs ~700 scheduling points on T0)
      struct Ctx {
        dispenso::ThreadPool& pool;
        dispenso::ConcurrentTaskSet* shared;
        State& st;
        const std::string& api;
        long smult;
        const std::string& t0;
        mc::Shared<int> done{0};
      } ctx{pool, shared, st, api, smult, t0};
      mc::Shared<int>& launcher_done = ctx.done;
      int id = st.fresh(3, 1);
      st.gate_open[3].set(1); // the launcher does not wait for a gate
      Ctx* cp = &ctx;
      pool.schedule(
          [cp, id] {
            cp->st.body(id, "ThreadPool::schedule(f, FQ) [launcher]");
            submit_cover::mark("caller_is_pool_thread");
            caller_main(cp->pool, cp->shared, cp->st, cp->api, cp->smult, 0, cp->t0, true);
            cp->done.set(1);
          },
          dispenso::ForceQueuingTag());
      st.done(id, 1);
      mc::block_until([&] { return launcher_done.get() != 0; });
    } else {
      caller_main(pool, shared, st, api, smult, 0, t0, false);
    }
    mc::join_all();
    if (shared) shared->wait();
  } // ~ThreadPool runs whatever is still queued (api=pool)
  static const char* keys[kMax] = {"f0", "f1", "f2", "f3", "f4", "f5", "f6", "f7", "f8", "f9", "f10", "f11", "f12", "f13", "f14", "f15",
                                   "f16", "f17", "f18", "f19", "f20", "f21", "f22", "f23", "f24", "f25", "f26", "f27", "f28", "f29", "f30", "f31"};
  int total = 0;
  for (int i = 0; i < kMax; i++)
    if (st.used[i].get()) {
      total++;
      mc::observe(keys[i], st.during[i].get());
      MC_CHECK(st.started[i].get() == 1, "functor %d ran %d times by the end", i, st.started[i].get());
    }
  mc::observe("tasks", total);
  submit_cover::flush();
}
