// Probe: real dispenso pool programs under the scheduler (not a registered check).
#include "mc_harness.h"
#include <dispenso/thread_pool.h>
#include <dispenso/task_set.h>
#include <dispenso/parallel_for.h>

MC_HARNESS(pool_taskset) {
  long N = P("n", 2), K = P("k", 3);
  mc::Shared<int> ran[8];
  {
    dispenso::ThreadPool pool(N);
    dispenso::TaskSet ts(pool);
    for (long i = 0; i < K; i++) ts.schedule([&ran, i] { ran[i].add(1); });
    ts.wait();
    for (long i = 0; i < K; i++) MC_CHECK(ran[i].get() == 1, "task %ld ran %d times at wait() return", i, ran[i].get());
  }
  mc::observe("done", 1);
}

MC_HARNESS(pool_bulk) {
  long N = P("n", 2), K = P("k", 2);
  mc::Shared<int> ran[8];
  {
    dispenso::ThreadPool pool(N);
    dispenso::TaskSet ts(pool);
    ts.scheduleBulk((size_t)K, [&ran](size_t i) { return [&ran, i] { ran[i].add(1); }; });
    ts.wait();
    for (long i = 0; i < K; i++) MC_CHECK(ran[i].get() == 1, "task %ld ran %d times at wait() return", i, ran[i].get());
  }
}

MC_HARNESS(pool_pfor) {
  long N = P("n", 2), K = P("k", 8);
  mc::Shared<int> ran[16];
  {
    dispenso::ThreadPool pool(N);
    dispenso::TaskSet ts(pool);
    dispenso::parallel_for(ts, 0, (int)K, [&ran](int i) { ran[i].add(1); });
    for (long i = 0; i < K; i++) MC_CHECK(ran[i].get() == 1, "index %ld ran %d times", i, ran[i].get());
  }
}
