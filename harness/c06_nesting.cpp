// C06 nested waits never starve the pool      -> harness `nest`
// C16 parallel_invoke runs each functor once  -> harness `pinvoke`
// C46 inline execution depth is bounded       -> harness `depth`
#include "mc_harness.h"
#include <dispenso/future.h>
#include <dispenso/graph.h>
#include <dispenso/graph_executor.h>
#include <dispenso/parallel_for.h>
#include <dispenso/parallel_invoke.h>
#include <dispenso/pipeline.h>
#include <dispenso/task_set.h>
#include <dispenso/thread_pool.h>

#include <pthread.h>
#include <algorithm>
#include <memory>

// ---- engine workaround: canonical thread-stack reuse -------------------------------------------------------------
// glibc hands a new thread the most recently cached stack that fits, so which of two workers gets which cached stack
// alternates from one in-process execution to the next. Thread-local addresses follow the stack, moodycamel derives
// its implicit-producer id from a thread-local address and probes a hash table with it, so the number of atomic
// operations a worker performs in LimitGatedScheduler::schedule (pipeline stages enqueue without a token) differs
// between executions of the same schedule: "default schedule is not deterministic". Before every execution this hook
// starts kNorm real threads, lets them end one by one in ascending stack-address order and joins them, which leaves
// the stack cache in one canonical order whatever the previous execution did.
namespace stacknorm {
constexpr int kNorm = 3;
struct Slot {
  pthread_t th;
  pthread_mutex_t gate;
  uintptr_t sp;
};
Slot g_slot[kNorm];
pthread_barrier_t g_bar;
void* run(void* a) {
  Slot* s = static_cast<Slot*>(a);
  s->sp = (uintptr_t)__builtin_frame_address(0);
  pthread_barrier_wait(&g_bar);
  pthread_mutex_lock(&s->gate);
  pthread_mutex_unlock(&s->gate);
  return nullptr;
}
void reset() {
  pthread_barrier_init(&g_bar, nullptr, kNorm + 1);
  for (int i = 0; i < kNorm; i++) {
    pthread_mutex_init(&g_slot[i].gate, nullptr);
    pthread_mutex_lock(&g_slot[i].gate);
    pthread_create(&g_slot[i].th, nullptr, run, &g_slot[i]); // default attributes: the same 512 KiB stacks pool workers get
  }
  pthread_barrier_wait(&g_bar);
  int order[kNorm];
  for (int i = 0; i < kNorm; i++) order[i] = i;
  std::sort(order, order + kNorm, [](int a, int b) { return g_slot[a].sp < g_slot[b].sp; });
  for (int k = 0; k < kNorm; k++) {
    Slot& s = g_slot[order[k]];
    pthread_mutex_unlock(&s.gate);
    pthread_join(s.th, nullptr);
    pthread_mutex_destroy(&s.gate);
  }
  pthread_barrier_destroy(&g_bar);
}
static mc::HookSetter hooks(nullptr, reset);
} // namespace stacknorm

namespace {
// mc::cover from task bodies on several threads: the engine's cover table is written with strncpy/strncmp, which the
// TSan runtime intercepts and reports as a race of the harness with itself; it is bookkeeping, so hide it from TSan
void cov(const char* name) {
  mc::TsanIgnore ig;
  mc::cover(name);
}
bool on_pool_thread(dispenso::ThreadPool& pool) {
  return dispenso::detail::PerPoolPerThreadInfo::isPoolRecursive(&pool);
}
// a parameter given as "*" is data nondeterminism: every listed value is explored (mc::choose, cost 0), so one run
// covers the variants of a configuration (each run is a process; on a loaded machine process start-up dominates)
long pick(const mc::Params& P, const char* key, long def, std::initializer_list<long> vals) {
  if (P.s(key, "") != "*") return P(key, def);
  long v = vals.begin()[mc::choose((int)vals.size())];
  mc::observe(key, v);
  return v;
}
std::string picks(const mc::Params& P, const char* key, const char* def, std::initializer_list<const char*> vals) {
  if (P.s(key, "") != "*") return P.s(key, def);
  int c = mc::choose((int)vals.size());
  mc::observe(key, c);
  return vals.begin()[c];
}
} // namespace

// ================================================================================================ C06
// T0 puts `prog.size()` outer tasks into an outer set (o = T TaskSet | C ConcurrentTaskSet heavy | L light) and
// waits on it. Outer task i builds the inner construct named by prog[i], gives it k leaves and waits on it:
//   T TaskSet   C ConcurrentTaskSet(kHeavy)   L ConcurrentTaskSet(kLightweight)   F futures from async(pool)
//   P parallel_for over k+1 indices on a TaskSet (waiting)   B scheduleBulk(k+1) on a TaskSet
// fq bit0: outer tasks are submitted with ForceQueuingTag; bit1: inner leaves are (launch::async for F).
// Oracle: the program ends (deadlock / livelock / truncation verdicts of the engine are the violation).
namespace nest {
constexpr int kMaxLeaves = 64;
struct St {
  mc::Shared<int> leaf_ran[kMaxLeaves];
  mc::Shared<int> next{0};
  mc::Shared<int> workers_waiting{0};
  mc::Shared<int> outer_ran{0}, outer_done{0};
  mc::Shared<int> outer_on_t0{0}, leaf_on_t0{0}, max_waiting{0};
  dispenso::ThreadPool* pool = nullptr;
  int N = 0;
  int base(int k) {
    int b = next.add(k);
    MC_CHECK(b + k <= kMaxLeaves, "harness: too many leaves");
    return b;
  }
  void leaf(int id) {
    int prev = leaf_ran[id].add(1);
    MC_CHECK(prev == 0, "leaf %d ran a second time", id);
    if (!on_pool_thread(*pool)) leaf_on_t0.add(1);
  }
};

struct WaitScope { // bookkeeping only: "every worker is inside a wait at the same time" must be reached
  St& s;
  bool worker;
  WaitScope(St& st, dispenso::ThreadPool& pool) : s(st), worker(on_pool_thread(pool)) {
    if (worker) {
      int w = s.workers_waiting.add(1) + 1;
      s.max_waiting.max_with(w);
      if (w == s.N) cov("all_workers_in_wait");
      if (pool.stealRingsWithWork_.a_.load(std::memory_order_relaxed) != 0) cov("steal_ring_nonempty_at_wait");
    } else {
      cov("t0_in_inner_wait");
    }
  }
  ~WaitScope() {
    if (worker) s.workers_waiting.add(-1);
  }
};

template <class Set>
void inner_set(St& s, dispenso::ThreadPool& pool, Set& set, int k, bool ifq) {
  int b = s.base(k);
  for (int j = 0; j < k; j++) {
    int id = b + j;
    if (ifq)
      set.schedule([&s, id] { s.leaf(id); }, dispenso::ForceQueuingTag());
    else
      set.schedule([&s, id] { s.leaf(id); });
  }
  WaitScope w(s, pool);
  set.wait();
}

void run_inner(St& s, dispenso::ThreadPool& pool, char kind, int k, bool ifq) {
  s.outer_ran.add(1);
  if (!on_pool_thread(pool)) s.outer_on_t0.add(1);
  switch (kind) {
    case 'T': {
      cov("inner_T");
      dispenso::TaskSet ts(pool);
      inner_set(s, pool, ts, k, ifq);
      break;
    }
    case 'C': {
      cov("inner_C");
      dispenso::ConcurrentTaskSet ts(pool);
      inner_set(s, pool, ts, k, ifq);
      break;
    }
    case 'L': {
      cov("inner_L");
      dispenso::ConcurrentTaskSet ts(pool, dispenso::TaskCost::kLightweight);
      inner_set(s, pool, ts, k, ifq);
      break;
    }
    case 'F': {
      cov("inner_F");
      int b = s.base(k);
      dispenso::Future<int> fs[4];
      MC_CHECK(k <= 4, "harness: k too large");
      for (int j = 0; j < k; j++) {
        int id = b + j;
        fs[j] = dispenso::async(pool, ifq ? std::launch::async : std::launch::deferred, [&s, id] {
          s.leaf(id);
          return id;
        });
      }
      WaitScope w(s, pool);
      for (int j = 0; j < k; j++) {
        int got = fs[j].get();
        MC_CHECK(got == b + j, "future %d returned %d", b + j, got);
      }
      break;
    }
    case 'P': {
      cov("inner_P");
      int b = s.base(k + 1);
      dispenso::TaskSet ts(pool);
      WaitScope w(s, pool);
      dispenso::parallel_for(ts, 0, k + 1, [&s, b](int i) { s.leaf(b + i); });
      break;
    }
    case 'B': {
      cov("inner_B");
      int b = s.base(k + 1);
      dispenso::TaskSet ts(pool);
      ts.scheduleBulk((size_t)(k + 1), [&s, b](size_t i) {
        int id = b + (int)i;
        return [&s, id] { s.leaf(id); };
      });
      WaitScope w(s, pool);
      ts.wait();
      break;
    }
    default:
      MC_CHECK(false, "harness: unknown inner kind %c", kind);
  }
}

// t0 = 'w': T0 waits on the outer set (and so steals work like the documentation promises for waiters);
// t0 = 'i': T0 is idle - it blocks at harness level until every outer task has ended and only then calls wait(), like a
// main thread that sleeps on something else. Then the pool threads, all of them inside waits, must finish on their own.
template <class Set>
void outer(St& s, dispenso::ThreadPool& pool, Set& set, const std::string& prog, int k, int fq, bool idle) {
  for (size_t i = 0; i < prog.size(); i++) {
    char kind = prog[i];
    auto task = [&s, &pool, kind, k, fq] {
      run_inner(s, pool, kind, k, (fq & 2) != 0);
      s.outer_done.add(1);
    };
    if (fq & 1)
      set.schedule(task, dispenso::ForceQueuingTag());
    else
      set.schedule(task);
  }
  if (idle) {
    int want = (int)prog.size();
    mc::block_until([&s, want] { return s.outer_done.get() == want; });
    cov("t0_idle");
  }
  set.wait();
}
} // namespace nest

// A set that the *submitting thread* filled before the pool got busy, waited for from inside a task of another set:
// T0 lets every worker park, schedules k leaves to a ConcurrentTaskSet `inner` (kHeavy: placed into the steal ring
// of a claimed sleeper; kLightweight: central queue), then puts one task "inner.wait()" into an outer set and waits
// on the outer set. Whoever picks the waiting task up must still be able to find the leaves.
//   o  outer set kind T|C|L     ic  inner cost h|l     k leaves     n pool size
MC_HARNESS(nest_pre) {
  int N = (int)P("n", 1), k = (int)P("k", 1);
  std::string o = P.s("o", "C"), ic = P.s("ic", "h");
  mc::Shared<int> leaves{0}, waited{0};
  {
    dispenso::ThreadPool pool((size_t)N);
    usleep(50000); // virtual time: expires only when nothing else can run, i.e. when every worker is parked
    dispenso::ConcurrentTaskSet inner(pool, ic == "l" ? dispenso::TaskCost::kLightweight : dispenso::TaskCost::kHeavy);
    for (int i = 0; i < k; i++)
      inner.schedule([&] {
        mc::point();
        leaves.add(1);
      });
    auto waiter = [&] {
      inner.wait();
      MC_CHECK(leaves.get() == k, "inner wait() returned with %d of %d leaves run", leaves.get(), k);
      waited.set(1);
    };
    if (o == "T") {
      dispenso::TaskSet outer(pool);
      outer.schedule(waiter, dispenso::ForceQueuingTag());
      outer.wait();
    } else {
      dispenso::ConcurrentTaskSet outer(pool, o == "L" ? dispenso::TaskCost::kLightweight : dispenso::TaskCost::kHeavy);
      outer.schedule(waiter, dispenso::ForceQueuingTag());
      outer.wait();
    }
    MC_CHECK(waited.get() == 1 && leaves.get() == k, "outer wait() returned: waiter done=%d, leaves %d of %d", waited.get(), leaves.get(), k);
    cov("pre_filled_inner_set");
  }
  mc::observe("leaves", leaves.get());
}

MC_HARNESS(nest) {
  using namespace nest;
  int N = (int)P("n", 1), k = (int)P("k", 1), fq = (int)P("fq", 1);
  std::string prog = P.s("prog", "T"), o = P.s("o", "T"), t0 = P.s("t0", "w");
  if (o == "*") { // the variants of one program in one run: outer set kind x forcing x T0 role
    static const struct { const char* o; int fq; const char* t0; } var[] = {
        {"C", 1, "w"}, {"T", 1, "w"}, {"L", 1, "w"}, {"C", 3, "w"}, {"C", 0, "w"}, {"T", 0, "w"},
        {"C", 1, "i"}, {"T", 1, "i"}, {"L", 1, "i"}, {"C", 3, "i"}, {"T", 3, "i"}, {"C", 0, "i"}};
    int c = mc::choose((int)(sizeof var / sizeof var[0]));
    mc::observe("variant", c);
    o = var[c].o;
    fq = var[c].fq;
    t0 = var[c].t0;
  } else if (t0 == "*") {
    int c = mc::choose(2);
    mc::observe("t0", c);
    t0 = c ? "i" : "w";
  }
  bool idle = t0 == "i" && N > 0;
  St s;
  s.N = N;
  // Non-termination with backstop timeouts allowed is an endless sequence of 100 ms timer wake-ups; the engine would
  // report it as a step-horizon truncation after minutes. This watchdog turns it into a verdict: at most a dozen tasks
  // exist, each lost wake-up costs one backstop period, so 3 s of virtual time (30 periods) without an end is "never".
  mc::Shared<int> stage{0};
  constexpr uint64_t kLimitNs = 3000000000ULL;
  mc::Shared<int> parked{0};
  mc::spawn([&stage, &parked] {
    parked.set(1);
    mc::block_until([&stage] { return stage.get() == 2 || mc::now_ns() > kLimitNs; });
    MC_CHECK(stage.get() == 2, "no termination: after %llu ms of virtual time (30 backstop periods) %s", (unsigned long long)(mc::now_ns() / 1000000),
             stage.get() == 0 ? "the outer wait() has not returned" : "~ThreadPool has not returned");
  });
  mc::block_until([&parked] { return parked.get() != 0; }); // the watchdog is parked (disabled) before the program starts: no extra alternatives
  {
    dispenso::ThreadPool pool((size_t)N);
    s.pool = &pool;
    if (o == "T") {
      dispenso::TaskSet set(pool);
      outer(s, pool, set, prog, k, fq, idle);
    } else if (o == "C") {
      dispenso::ConcurrentTaskSet set(pool);
      outer(s, pool, set, prog, k, fq, idle);
    } else {
      dispenso::ConcurrentTaskSet set(pool, dispenso::TaskCost::kLightweight);
      outer(s, pool, set, prog, k, fq, idle);
    }
    cov("outer_wait_returned");
    stage.set(1);
  }
  stage.set(2);
  mc::join_all();
  // not part of C06 (it is C02's barrier), but free to look at: nothing was lost on the way
  MC_CHECK(s.outer_ran.get() == (int)prog.size(), "only %d of %d outer tasks ran", s.outer_ran.get(), (int)prog.size());
  for (int i = 0; i < s.next.get(); i++) MC_CHECK(s.leaf_ran[i].get() == 1, "leaf %d ran %d times", i, s.leaf_ran[i].get());
  mc::observe("leaves", s.next.get());
  mc::observe("outer_on_t0", s.outer_on_t0.get());
  mc::observe("leaf_on_t0", s.leaf_on_t0.get());
  mc::observe("max_waiting", s.max_waiting.get());
}

// ================================================================================================ C16
// shape: flat (one parallel_invoke of arity a) | bin (binary recursion, d levels, every functor of a level-j call
// makes a level-(j-1) call) | chain (left-deep: the FIRST, scheduled, functor recurses, d levels) | rchain (the
// LAST, inline, functor recurses). cost h|l, mult = stealingLoadMultiplier of the ConcurrentTaskSet.
namespace pinv {
constexpr int kMaxFn = 64;
thread_local char tl_me;
struct St {
  mc::Shared<int> ran[kMaxFn], fin[kMaxFn];
  mc::Shared<const void*> thr[kMaxFn];
  mc::Shared<int> next{0};
  mc::Shared<int> waited{0};
  mc::Shared<int> sib_inline{0}, sib_pending{0}, sib_other{0};
  dispenso::ConcurrentTaskSet* ts = nullptr;
};
void recurse(St& s, int shape, int a, int d);

struct Fun {
  St* s;
  int id, shape, a, d; // d = levels of parallel_invoke below this functor
  void operator()() {
    MC_CHECK(s->waited.get() == 0, "functor %d started after wait() had returned", id);
    int prev = s->ran[id].add(1);
    MC_CHECK(prev == 0, "functor %d invoked a second time", id);
    s->thr[id].set(&tl_me);
    mc::point(); // the functor is "running": others may interleave here (a wait() returning now returns too early)
    if (d > 0) recurse(*s, shape, a, d);
    s->fin[id].set(1);
  }
};

// one parallel_invoke call of arity a; child_d[i] = recursion levels below functor i
void group(St& s, int shape, int a, const int* child_d) {
  int b = s.next.add(a);
  MC_CHECK(b + a <= kMaxFn, "harness: too many functors");
  Fun f[4];
  for (int i = 0; i < a; i++) f[i] = Fun{&s, b + i, shape, a, child_d[i]};
  const void* me = &tl_me;
  auto& ts = *s.ts;
  switch (a) {
    case 1: dispenso::parallel_invoke(ts, Fun(f[0])); break;
    case 2: dispenso::parallel_invoke(ts, Fun(f[0]), Fun(f[1])); break;
    case 3: dispenso::parallel_invoke(ts, Fun(f[0]), Fun(f[1]), Fun(f[2])); break;
    default: dispenso::parallel_invoke(ts, Fun(f[0]), Fun(f[1]), Fun(f[2]), Fun(f[3])); break;
  }
  int last = b + a - 1;
  MC_CHECK(s.fin[last].get() == 1, "parallel_invoke returned before its last functor (%d) had finished (ran=%d)", last, s.ran[last].get());
  MC_CHECK(s.thr[last].get() == me, "the last functor (%d) of parallel_invoke did not run on the calling thread", last);
  for (int i = 0; i + 1 < a; i++) {
    if (s.fin[b + i].get() == 1 && s.thr[b + i].get() == me) {
      cov("sibling_ran_inline_on_caller");
      s.sib_inline.add(1);
    }
    if (s.fin[b + i].get() == 0) {
      cov("sibling_pending_at_return");
      s.sib_pending.add(1);
    }
    if (s.ran[b + i].get() == 1 && s.thr[b + i].get() != me) {
      cov("sibling_on_other_thread");
      s.sib_other.add(1);
    }
  }
}

enum { kFlat = 0, kBin = 1, kChain = 2, kRChain = 3 };
void recurse(St& s, int shape, int a, int d) {
  int cd[4] = {0, 0, 0, 0};
  if (shape == kBin) {
    for (int i = 0; i < a; i++) cd[i] = d - 1;
  } else if (shape == kChain) {
    cd[0] = d - 1;
  } else if (shape == kRChain) {
    cd[a - 1] = d - 1;
  }
  group(s, shape, a, cd);
}
int expected(int shape, int a, int d) {
  if (shape == kFlat) return a;
  if (shape == kBin) {
    int tot = 0, lvl = 1;
    for (int j = 0; j < d; j++) {
      lvl *= a;
      tot += lvl;
    }
    return tot;
  }
  return a * d;
}
} // namespace pinv

MC_HARNESS(pinvoke) {
  using namespace pinv;
  int N = (int)P("n", 1), a = (int)P("a", 2), d = (int)P("d", 1), mult = (int)pick(P, "mult", 4, {1, 4});
  std::string sh = P.s("shape", "flat"), cost = picks(P, "cost", "h", {"h", "l"});
  if (sh == "*") { // every shape of the matrix in one run (used for the zero-thread pool, where each is one execution)
    static const struct { const char* s; int a, d; } all[] = {{"flat", 1, 1}, {"flat", 2, 1}, {"flat", 3, 1}, {"flat", 4, 1}, {"bin", 2, 1},
                                                              {"bin", 2, 2},  {"bin", 2, 3},  {"chain", 2, 4}, {"rchain", 2, 4}};
    int c = mc::choose(9);
    mc::observe("shape", c);
    sh = all[c].s;
    a = all[c].a;
    d = all[c].d;
  }
  int shape = sh == "bin" ? kBin : sh == "chain" ? kChain : sh == "rchain" ? kRChain : kFlat;
  if (shape == kFlat) d = 1;
  St s;
  {
    dispenso::ThreadPool pool((size_t)N);
    {
      dispenso::ConcurrentTaskSet tasks(pool, cost == "l" ? dispenso::TaskCost::kLightweight : dispenso::TaskCost::kHeavy, (ssize_t)mult);
      s.ts = &tasks;
      recurse(s, shape, a, d);
      tasks.wait();
      s.waited.set(1);
      int tot = s.next.get(), want = expected(shape, a, d);
      MC_CHECK(tot == want, "%d functors were created, expected %d", tot, want);
      for (int i = 0; i < tot; i++)
        MC_CHECK(s.fin[i].get() == 1 && s.ran[i].get() == 1, "after wait(): functor %d ran %d times, finished=%d", i, s.ran[i].get(), s.fin[i].get());
    }
  }
  for (int i = 0; i < s.next.get(); i++) MC_CHECK(s.ran[i].get() == 1, "functor %d ran %d times in total", i, s.ran[i].get());
  mc::observe("functors", s.next.get());
  mc::observe("sib_inline", s.sib_inline.get());
  mc::observe("sib_pending", s.sib_pending.get());
  mc::observe("sib_other", s.sib_other.get());
}

// ================================================================================================ C46
// Every task / stage / node / continuation body opens a Probe. It measures, per thread,
//   open = bodies currently open on this thread (entry ++, exit --) -- sees nesting through *scheduling* paths
//   lvl  = number of probed frames that are still live below the current one, from the stack pointer: an entry
//          is popped when a later body starts at the same or a shallower stack position. It also sees nesting
//          through *completion* paths (the previous body has returned, its dispenso caller has not). Bodies
//          reached through call paths of different depth can add a small constant, never something growing with n.
// One program of size n per execution (destroying one pool and building the next inside one execution makes the
// engine's location naming depend on heap reuse). The comparison "depth(n) == depth(64)" is made inside the run:
// the bodies of the first n0 (=64) chain links / items / nodes form the baseline; no body with a larger index may see
// more live task frames (or open bodies) than the baseline maximum (checked at the end, when the baseline is complete,
// and immediately against the ceiling). The run also reports lvl=<max> as a cover name so that the spec can
// compare the maxima of runs with different n.
namespace dep {
constexpr int kCeil = 4 * dispenso::detail::kMaxInlineDepth;
constexpr int kSpCap = 1024;
struct Meter {
  mc::Shared<int> max_open{0}, max_lvl{0}, done{0};
  mc::Shared<int> started{0}, pre_open{0}, pre_lvl{0}, post_open{0}, post_lvl{0};
  int n0 = 0, tol = 0;
};
Meter* g_m = nullptr;
thread_local int tl_open = 0;
thread_local int tl_nsp = 0;
thread_local uintptr_t tl_sp[kSpCap];
mc::Shared<int> g_n{0};

struct Probe {
  __attribute__((noinline)) explicit Probe(int index) {
    uintptr_t sp = (uintptr_t)__builtin_frame_address(0);
    while (tl_nsp > 0 && tl_sp[tl_nsp - 1] <= sp) --tl_nsp;
    if (tl_nsp < kSpCap) tl_sp[tl_nsp++] = sp;
    int open = ++tl_open;
    g_m->started.add(1);
    g_m->max_open.max_with(open);
    g_m->max_lvl.max_with(tl_nsp);
    if (index < g_m->n0) {
      g_m->pre_open.max_with(open);
      g_m->pre_lvl.max_with(tl_nsp);
    } else {
      g_m->post_open.max_with(open);
      g_m->post_lvl.max_with(tl_nsp);
    }
    if (open > 1) cov("body_inside_body");
    if (tl_nsp > open) cov("body_inside_completion_path");
    // stop before the real stack overflows
    MC_CHECK(tl_nsp <= kCeil, "inline nesting reached %d live task frames on one thread (%d bodies open) with n=%d: above the ceiling 4*kMaxInlineDepth=%d",
             tl_nsp, open, g_n.get(), kCeil);
  }
  ~Probe() { --tl_open; }
};
void reset_thread() {
  tl_open = 0;
  tl_nsp = 0;
}

struct Cfg {
  int N, mult, smult, rel, lf;
  std::string prog, sched;
};

// ---- a task that schedules its successor
template <class Target>
struct ChainCtx {
  Target* target;
  int n;
  Meter* m;
  mc::Shared<int> go{0};
};
template <class Target>
struct ChainTask {
  ChainCtx<Target>* c;
  int k;
  void operator()() {
    if (k == 0) mc::block_until([this] { return c->go.get() != 0; }); // T0 has left schedule(); harness gate, not a dispenso wait
    {
      Probe p(k);
      if (k + 1 < c->n) c->target->schedule(ChainTask{c, k + 1});
    }
    c->m->done.add(1);
  }
};
template <class Target>
void run_chain(Target& target, int n, Meter& m) {
  ChainCtx<Target> c;
  c.target = &target;
  c.n = n;
  c.m = &m;
  c.go.set(1);
  target.schedule(ChainTask<Target>{&c, 0});
  mc::block_until([&] { return m.done.get() == n; });
}
// TaskSet may be used by one thread at a time: T0 only submits the gated root (forced to the queue) and comes
// back to the set after the chain has ended.
void run_chain_taskset(dispenso::TaskSet& ts, int N, int n, Meter& m) {
  ChainCtx<dispenso::TaskSet> c;
  c.target = &ts;
  c.n = n;
  c.m = &m;
  if (N == 0) {
    c.go.set(1);
    ts.schedule(ChainTask<dispenso::TaskSet>{&c, 0});
  } else {
    ts.schedule(ChainTask<dispenso::TaskSet>{&c, 0}, dispenso::ForceQueuingTag());
    c.go.set(1);
  }
  mc::block_until([&] { return m.done.get() == n; });
  ts.wait();
}

// ---- then chains
struct Hold { // a Schedulable that keeps the functor until the harness releases it ("or similar type that has schedule")
  dispenso::OnceFunction fn;
  bool have = false;
  template <class F>
  void schedule(F&& f) {
    fn = dispenso::OnceFunction(std::forward<F>(f));
    have = true;
  }
  template <class F>
  void schedule(F&& f, dispenso::ForceQueuingTag) {
    schedule(std::forward<F>(f));
  }
};
template <class Sched>
void run_then(dispenso::ThreadPool& pool, Sched& sched, bool ready, int rel, int n, Meter& m) {
  Hold hold;
  auto body = [&m](dispenso::Future<int>&& x) {
    int v = x.get(); // the antecedent is ready: its value is this link's index
    {
      Probe p(v);
      v = v + 1;
    }
    m.done.add(1);
    return v;
  };
  dispenso::Future<int> cur;
  if (ready) {
    cur = dispenso::make_ready_future(0);
  } else {
    cur = dispenso::Future<int>([] { return 0; }, hold);
  }
  for (int i = 0; i < n; i++) cur = cur.then(body, sched);
  if (!ready) {
    MC_CHECK(hold.have, "harness: root functor was not captured");
    if (rel == 1 && pool.numThreads() > 0)
      pool.schedule(std::move(hold.fn), dispenso::ForceQueuingTag());
    else
      hold.fn();
  }
  mc::block_until([&] { return m.done.get() == n; });
  int v = cur.get(); // every body has ended: this can only wait for the final status store
  MC_CHECK(v == n, "then chain delivered %d, expected %d", v, n);
}

// ---- pipeline: serial generator, serial transform, serial sink
void run_pipe(dispenso::ThreadPool& pool, int n, Meter& m) {
  int produced = 0;
  mc::Shared<int> sunk{0};
  dispenso::pipeline(
      pool,
      [&]() -> dispenso::OpResult<int> {
        Probe p(produced);
        if (produced == n) return {};
        return produced++;
      },
      [&](int v) {
        Probe p(v);
        return v;
      },
      [&](int v) {
        Probe p(v);
        sunk.add(1);
      });
  MC_CHECK(sunk.get() == n, "pipeline delivered %d of %d items", sunk.get(), n);
  m.done.set(n);
}

// ---- graphs: chain (k -> k+1) and comb (fork k -> leaf k first, fork k+1 second: the maintainers' deep-graph shape)
void run_graph(dispenso::ThreadPool& pool, const std::string& exec, bool comb, int n, int lf10, Meter& m) {
  dispenso::Graph g;
  std::vector<dispenso::Node*> forks((size_t)n), leaves((size_t)n);
  for (int i = 0; i < n; i++) {
    forks[(size_t)i] = &g.addNode([&m, i] {
      { Probe p(i); }
      m.done.add(1);
    });
    if (comb)
      leaves[(size_t)i] = &g.addNode([&m, i] {
        { Probe p(i); }
        m.done.add(1);
      });
  }
  for (int i = 0; i < n; i++) {
    if (comb) leaves[(size_t)i]->dependsOn(*forks[(size_t)i]);
    if (i + 1 < n) forks[(size_t)i + 1]->dependsOn(*forks[(size_t)i]);
  }
  setAllNodesIncomplete(g); // friend template, found by ADL only
  if (exec == "st") {
    dispenso::SingleThreadExecutor ex;
    ex(g);
  } else if (exec == "pf") {
    dispenso::TaskSet ts(pool);
    dispenso::ParallelForExecutor ex;
    ex(ts, g);
  } else {
    dispenso::ConcurrentTaskSet ts(pool);
    dispenso::ConcurrentTaskSetExecutor ex;
    ex(ts, g, true, (float)lf10 / 10.0f); // poolRecursiveLoadFactor: 3.0 is the default, 0 makes pool threads inline whenever work is pending
  }
  int want = comb ? 2 * n : n;
  MC_CHECK(m.done.get() == want, "graph ran %d of %d nodes", m.done.get(), want);
}

void run_prog(const Cfg& c, int n, Meter& m) {
  g_m = &m;
  g_n.set(n);
  reset_thread();
  dispenso::ThreadPool pool((size_t)c.N, (size_t)c.mult);
  const std::string& p = c.prog;
  if (p == "sched_pool") {
    run_chain(pool, n, m);
  } else if (p == "sched_ts") {
    dispenso::TaskSet ts(pool, (ssize_t)c.smult);
    run_chain_taskset(ts, c.N, n, m);
  } else if (p == "sched_cts" || p == "sched_ctsl") {
    dispenso::ConcurrentTaskSet ts(pool, p == "sched_cts" ? dispenso::TaskCost::kHeavy : dispenso::TaskCost::kLightweight, (ssize_t)c.smult);
    run_chain(ts, n, m);
    ts.wait();
  } else if (p == "then_ready" || p == "then_unready") {
    bool ready = p == "then_ready";
    if (c.sched == "t") {
      dispenso::TaskSet ts(pool, (ssize_t)c.smult);
      run_then(pool, ts, ready, c.rel, n, m);
      ts.wait();
    } else if (c.sched == "c") {
      dispenso::ConcurrentTaskSet ts(pool, (ssize_t)c.smult);
      run_then(pool, ts, ready, c.rel, n, m);
      ts.wait();
    } else {
      run_then(pool, pool, ready, c.rel, n, m);
    }
  } else if (p == "pipe") {
    run_pipe(pool, n, m);
  } else if (p == "graph_st" || p == "graph_pf" || p == "graph_cts") {
    run_graph(pool, p.substr(6), false, n, c.lf, m);
  } else if (p == "comb_st" || p == "comb_pf" || p == "comb_cts") {
    run_graph(pool, p.substr(5), true, n, c.lf, m);
  } else {
    MC_CHECK(false, "harness: unknown program %s", p.c_str());
  }
}
} // namespace dep

MC_HARNESS(depth) {
  using namespace dep;
  Cfg c;
  c.N = (int)P("N", 1);
  c.mult = (int)pick(P, "mult", 1, {1, 32});
  c.smult = (int)pick(P, "smult", 1, {1, 4});
  c.rel = (int)pick(P, "rel", 0, {0, 1});
  c.lf = (int)pick(P, "lf", 30, {30, 0});
  c.prog = P.s("prog", "sched_pool");
  c.sched = picks(P, "sched", "p", {"p", "t", "c"});
  int n = (int)P("n", 8);
  Meter m1;
  m1.n0 = (int)P("n0", 0);
  m1.tol = (int)P("tol", 0);
  run_prog(c, n, m1);
  g_m = nullptr;
  if (P("show", 0))
    fprintf(stderr, "DEPTH prog=%s N=%d n=%d: lvl %d open %d | index < %d: lvl %d open %d | bodies %d\n", c.prog.c_str(), c.N, n, m1.max_lvl.get(), m1.max_open.get(),
            m1.n0, m1.pre_lvl.get(), m1.pre_open.get(), m1.started.get());
  if (m1.n0 > 0 && n > m1.n0) {
    cov("compared_against_baseline");
    MC_CHECK(m1.post_lvl.get() <= m1.pre_lvl.get() + m1.tol,
             "inline nesting depth grows with the program size (n=%d): a body with index >= %d started with %d live task frames on its thread, the bodies with index < %d never saw more than %d (bodies open: %d vs %d)",
             n, m1.n0, m1.post_lvl.get(), m1.n0, m1.pre_lvl.get(), m1.post_open.get(), m1.pre_open.get());
    MC_CHECK(m1.post_open.get() <= m1.pre_open.get() + m1.tol,
             "number of task bodies open on one thread grows with the program size (n=%d): %d open for an index >= %d, never more than %d for the indices below", n,
             m1.post_open.get(), m1.n0, m1.pre_open.get());
    if (m1.max_lvl.get() == m1.pre_lvl.get()) cov("depth_equal_to_baseline");
  }
  {
    char name[48];
    snprintf(name, sizeof name, "lvl=%d", m1.max_lvl.get());
    cov(name);
    snprintf(name, sizeof name, "open=%d", m1.max_open.get());
    cov(name);
  }
  if (m1.max_lvl.get() >= dispenso::detail::kMaxInlineDepth) cov("depth_guard_saturated");
  if (m1.max_lvl.get() > 1) cov("nested_inline_execution");
  mc::observe("lvl", m1.max_lvl.get());
  mc::observe("open", m1.max_open.get());
}
