// C02 / C04 / C05: TaskSet and ConcurrentTaskSet under the model checker.
//   barrier (C02)  wait() / tryWait(n)==true / the destructor return only after every task scheduled before the call
//                  has finished; every body runs exactly once
//   cancel  (C04)  no body starts once the set has been cancelled (cancel() on T0 / on a second thread / an exception
//                  thrown by a task / a ParentCascadeCancel::kOn ancestor at depth 1-2); wait() reports cancellation
//   exc     (C05)  thrown task exceptions are captured, delivered exactly once by the next wait, accounting survives
//
// Common parameters
//   set   ts = TaskSet, ch = ConcurrentTaskSet(TaskCost::kHeavy), cl = ConcurrentTaskSet(TaskCost::kLightweight)
//   n     pool threads            slm  stealingLoadMultiplier (ctor parameter)       plm  poolLoadMultiplier
//   prog  submission program, a string of steps run by one thread:
//           s     set.schedule(f)                       q     set.schedule(f, ForceQueuingTag)
//           b<k>  set.scheduleBulk(k, gen)              B<k>  set.scheduleBulk(k, gen, ForceQueuingTag)
//           n     schedule(FQ) of a task that creates a TaskSet on the same pool, schedules a child, waits it  (C02)
//           m     schedule() of a task that does the same with a ConcurrentTaskSet                              (C02)
//           a     dispenso::async(set, f)               t     async(set, f0).then(f1, set)                      (C02)
//           T     async(pool, f0).then(f1, set)   (only f1 is a task of the set)                                (C02)
//         or "?L": every program of 1..L steps over the comma separated alphabet `alpha`, picked with mc::choose
//   mask  bit i set: program task i (numbered in creation order) throws Tagged{i} after its scheduling point
//   g     gate tasks scheduled to the set first (ForceQueuingTag); pg: gate tasks given to the pool directly.
//         A gate body does not return before the submitter has finished its program, i.e. these are the "earlier,
//         long-running tasks" that load the set / the pool so that the inline fallbacks are taken. Only with n >= 1.
#include "mc_harness.h"
#include <dispenso/future.h>
#include <dispenso/task_set.h>
#include <dispenso/thread_pool.h>

#include <functional>

namespace {
constexpr int kMax = 48;
constexpr int kGateBase = 32; // ids >= kGateBase are gate tasks: 32.. gates of the set, 40.. gates of the pool
constexpr int kPoolGateBase = 40;

struct Tagged {
  int tag;
};

void prewarm() { (void)dispenso::CpuSet::l3CacheGroups(); } // reads sysfs once; keep that out of the executions
static mc::HookSetter hooks(prewarm, nullptr);

// mc_cover compares/copies names with libc string functions, which TSan intercepts: when several threads mark
// paths, TSan reports the engine's own table. Keep the marker calls out of race detection.
inline void cov(const char* name) {
  mc::TsanIgnore ig;
  mc::cover(name);
}

template <class A>
auto raw(const A& a) -> decltype(a.a_.load(std::memory_order_relaxed)) {
  return a.a_.load(std::memory_order_relaxed);
}

// what the submitting thread knows while it is inside one schedule()/scheduleBulk() call on the set under test
struct CallCtx {
  bool pre_canceled = false; // set.canceled() was already true when the call began (a modelled load, see notes)
  bool threw_in_call = false; // a body run inline earlier in this call (same thread) threw
};
thread_local CallCtx* tl_call = nullptr;
thread_local int tl_in_wait = 0;
thread_local int tl_prev_flag = 0; // this thread saw the set under test cancelled at its previous harness step
// a cancel() that covers the set under test (on the set itself or on an ancestor it cascades from) has *returned* on
// this thread: by program order every later submission of this thread is "after cancel() has been called", whatever
// the set's own flag says (a cascade that has not reached the child by then is exactly what C04 forbids)
thread_local int tl_cancel_returned = 0;

struct World {
  mc::Shared<int> started[kMax];
  mc::Shared<int> finished[kMax]; // 1 returned, 2 threw
  mc::Shared<int> caller_got[kMax]; // the exception of task i propagated out of the schedule call
  mc::Shared<int> submitted_canceled[kMax]; // task i was submitted by a call that began with the set cancelled
  mc::Shared<int> next{0};
  mc::Shared<int> ngates{0};
  mc::Shared<int> npoolgates{0};
  mc::Shared<int> gate_open{0};
  mc::Shared<int> gates_started{0};
  mc::Shared<int> progress{0}; // submission steps completed by the program runner
  mc::Shared<int> child_ready{0}; // x1: the set under test exists; the top set's throwing task may go ahead
  mc::Shared<int> settled{0}; // the runner's gate tasks sit in their workers; a racing canceller may go ahead
  mc::Shared<int> submitter{-1}; // modelled thread id of the program runner
  mc::Shared<const std::atomic<bool>*> cflag{nullptr}; // canceled_ of the set under test (cancel harness only)
  mc::Shared<int> canceled_seen{0};
  unsigned mask = 0;
  bool strict = false;
  bool barrier[kMax] = {}; // T0 only: task belongs to the set under test (C02)

  // short trace of harness-visible events, dumped with cancel-oracle failures (diagnostics only)
  mc::Shared<int> ntrace{0};
  mc::Shared<int> trace[64];
  void ev(char what, int id) {
    const std::atomic<bool>* cf = cflag.get();
    int flag = (cf && raw(*cf)) ? 1 : 0;
    int k = ntrace.add(1);
    if (k < 64) trace[k].set((mc_self_id() << 24) | (flag << 16) | ((what & 0xff) << 8) | (id & 0xff));
  }
  std::string dump() {
    std::string out;
    char buf[32];
    int n = std::min(ntrace.get(), 64);
    for (int i = 0; i < n; i++) {
      int v = trace[i].get();
      snprintf(buf, sizeof buf, " T%d:%c%d%s", v >> 24, (char)((v >> 8) & 0xff), v & 0xff, ((v >> 16) & 1) ? "*" : "");
      out += buf;
    }
    return out;
  }

  int fresh() {
    int id = next.add(1);
    MC_CHECK(id < kGateBase, "harness: too many tasks");
    if (tl_call && tl_call->pre_canceled) submitted_canceled[id].set(1);
    return id;
  }
  int fresh_gate() { return kGateBase + ngates.add(1); }
  int fresh_pool_gate() { return kPoolGateBase + npoolgates.add(1); }

  // ---- the cancellation oracle, evaluated at the first instruction of a body.
  // Any implementation has a window between its own "cancelled?" test and the first instruction of the body (the
  // engine opens it too: an inferred yield is taken *after* the load that completes a spin pattern, e.g. the
  // second packaged task in a row on one worker). A cancel() landing in that window cannot be ordered before the
  // decision to run by anybody, so the oracle reports exactly the bodies for which the cancellation is ordered
  // before that decision by program order or by the submission itself:
  //   (1) the running thread had already seen the set cancelled at its previous step (end of its previous body,
  //       entry of the schedule call it is in, return of its own cancel(), its own thrown exception), or
  //   (2) the task was submitted by a call that began after the set had been cancelled.
  void cancel_oracle(int id) {
    const std::atomic<bool>* cf = cflag.get();
    if (id >= kPoolGateBase || !cf) return; // pool gates are not tasks of the set
    if (!raw(*cf)) {
      if (id < kGateBase && submitted_canceled[id].get())
        mc::fail("body of task %d started although it was submitted after a cancel() covering its set had returned on the submitting thread (the set's own flag is still clear: the cascade did not reach it) [thread T%d] events:%s",
                 id, mc_self_id(), dump().c_str());
      return;
    }
    canceled_seen.set(1);
    CallCtx* c = tl_call;
    const char* how = c ? "run inline by its schedule call" : "run from the pool queue/ring";
    if (tl_prev_flag)
      mc::fail("body of task %d started (%s) although its thread had already observed the set cancelled before [thread T%d, in_wait=%d] events (thread:what id, * = flag set):%s",
               id, how, mc_self_id(), tl_in_wait, dump().c_str());
    if (c && c->threw_in_call)
      mc::fail("body of task %d was run inline after an earlier body of the same bulk call threw (set cancelled) events:%s", id, dump().c_str());
    if (submitted_canceled[id].get())
      mc::fail("body of task %d started (%s) although it was submitted after the set had been cancelled [thread T%d] events:%s", id, how, mc_self_id(), dump().c_str());
    cov(c ? "inline_overlapping_cancel" : "queued_overlapping_cancel");
    if (strict) mc::fail("strict reading: body of task %d started (%s) after a cancel that overlapped the decision to run it; events:%s", id, how, dump().c_str());
  }
  // the running thread looks at the flag between two steps (a modelled load: part of the explored state)
  void note_flag() {
    const std::atomic<bool>* cf = cflag.get();
    if (cf) tl_prev_flag = cf->load(std::memory_order_acquire) ? 1 : 0;
  }

  void body(int id) {
    int prev = started[id].add(1);
    MC_CHECK(prev == 0, "body of task %d started a second time", id);
    ev('b', id);
    cancel_oracle(id);
    if (mc_self_id() == submitter.get()) {
      if (tl_call)
        cov("ran_inline_in_schedule");
      else if (tl_in_wait)
        cov("ran_in_wait");
      else
        cov("ran_on_submitter_other");
    } else {
      cov("ran_on_other_thread");
    }
    if (id >= kGateBase) {
      gates_started.add(1);
      mc::block_until([this] { return gate_open.get() != 0; });
    }
    mc::point();
    if (id < kGateBase && ((mask >> id) & 1u)) {
      finished[id].set(2);
      ev('x', id);
      if (tl_call) tl_call->threw_in_call = true;
      if (cflag.get()) tl_prev_flag = 1; // cancel harness (one thrower): the handler that catches this cancels the set
      throw Tagged{id};
    }
    finished[id].set(1);
    ev('e', id);
    note_flag();
  }
  bool in_progress(int id) { return started[id].get() != 0 && finished[id].get() == 0; }
};

struct Step {
  char op;
  int k;
};

std::vector<std::string> split(const std::string& s, char sep) {
  std::vector<std::string> out;
  std::string cur;
  for (char c : s) {
    if (c == sep) {
      if (!cur.empty()) out.push_back(cur);
      cur.clear();
    } else
      cur.push_back(c);
  }
  if (!cur.empty()) out.push_back(cur);
  return out;
}

std::vector<Step> parse_prog(const std::string& prog) {
  std::vector<Step> out;
  for (size_t i = 0; i < prog.size(); i++) {
    Step s{prog[i], 1};
    if (s.op == '-') continue;
    if (s.op == 'b' || s.op == 'B' || s.op == 'r' || s.op == 'R') {
      MC_CHECK(i + 1 < prog.size(), "harness: bulk step without a count");
      s.k = prog[++i] - '0';
    }
    out.push_back(s);
  }
  return out;
}

// explicit program, or "?L": all programs of 1..L steps over `alpha` by data nondeterminism
std::vector<Step> get_prog(const mc::Params& P, const char* def) {
  std::string prog = P.s("prog", def);
  if (prog.empty() || prog[0] != '?') return parse_prog(prog);
  int L = atoi(prog.c_str() + 1);
  std::vector<std::string> alpha = split(P.s("alpha", "s,q,b1,b2,B2"), ',');
  int len = 1 + mc::choose(L);
  std::string chosen;
  for (int i = 0; i < len; i++) chosen += alpha[(size_t)mc::choose((int)alpha.size())];
  mc::observe("prog", (long)mc::hash_str(chosen.c_str()));
  return parse_prog(chosen);
}

// mask >= 0: as given; mask < 0: every subset of the program's tasks (mc::choose)
unsigned get_mask(const mc::Params& P, const std::vector<Step>& prog, long def) {
  long m = P("mask", def);
  if (m >= 0) return (unsigned)m;
  int tasks = 0;
  for (const Step& st : prog) tasks += st.k;
  unsigned mask = (unsigned)mc::choose(1 << tasks);
  mc::observe("mask", (long)mask);
  return mask;
}

// number of gate tasks that puts a set of this kind over its inline threshold: outstanding > slm*n
// (kHeavy: > max(n+1, slm*n/2))
long gates_for_set_load(const std::string& kind, long n, long slm) {
  if (kind == "ch") return std::max(n + 1, slm * n / 2) + 1;
  return slm * n + 1;
}

template <class F>
void with_set(const std::string& kind, dispenso::ThreadPool& pool, dispenso::ParentCascadeCancel casc, long slm, F&& f) {
  if (kind == "ts") {
    dispenso::TaskSet s(pool, casc, (ssize_t)slm);
    f(s);
  } else if (kind == "ch") {
    dispenso::ConcurrentTaskSet s(pool, casc, (ssize_t)slm, dispenso::TaskCost::kHeavy);
    f(s);
  } else {
    dispenso::ConcurrentTaskSet s(pool, casc, (ssize_t)slm, dispenso::TaskCost::kLightweight);
    f(s);
  }
}

inline bool is_heavy(dispenso::TaskSet&) { return false; }
inline bool is_heavy(dispenso::ConcurrentTaskSet& s) { return s.cost_ == dispenso::TaskCost::kHeavy; }
inline bool is_cts(dispenso::TaskSet&) { return false; }
inline bool is_cts(dispenso::ConcurrentTaskSet&) { return true; }

// which path will this call take, judged from the state just before it (for cover markers only; the state is
// stable when the workers sit in gates, otherwise this is a hint)
template <class SetT>
void cover_expected_path(SetT& set, dispenso::ThreadPool& pool, const Step& st) {
  long n = (long)pool.numThreads();
  long outstanding = (long)raw(set.outstandingTaskCount_);
  long lf = (long)set.taskSetLoadFactor_;
  long work = (long)raw(pool.workRemaining_);
  long plf = (long)raw(pool.poolLoadFactor_);
  bool recursive = dispenso::detail::PerPoolPerThreadInfo::isPoolRecursive(&pool);
  bool pool_over = (recursive && work > (long)((float)n * dispenso::kDefaultPoolRecursiveLoadFactor)) || work > plf;
  if (st.op == 's') {
    if (!is_cts(set)) {
      cov(outstanding > lf ? "ts_schedule_inline_set_load" : "ts_schedule_to_pool");
    } else {
      long thr = is_heavy(set) ? std::max(n + 1, lf / 2) : lf;
      if (outstanding > thr)
        cov("cts_schedule_inline_set_load");
      else if (pool_over)
        cov("cts_schedule_inline_pool_load");
      else
        cov("cts_schedule_queued");
    }
  } else if (st.op == 'b') {
    size_t k = (size_t)st.k;
    if (is_heavy(set))
      cov("bulk_placed");
    else if (k * 4 >= (size_t)n && k <= (size_t)n && raw(pool.numRings_) >= k && !recursive && outstanding <= lf)
      cov("bulk_ring_fast_path");
    else
      cov((lf - outstanding <= 0 || pool_over) ? "bulk_standard_inline" : "bulk_standard_enqueue");
  } else if (st.op == 'B') {
    cov("bulk_force_queue");
  } else if (st.op == 'q') {
    cov("schedule_force_queue");
  }
}

// Runs one submission step on `set`. Futures created by a/t/T are parked in `futs` until the caller drops them.
template <class SetT>
void submit_step(SetT& set, dispenso::ThreadPool& pool, World& w, const Step& st, std::vector<dispenso::Future<void>>& futs) {
  CallCtx ctx;
  ctx.pre_canceled = set.canceled() || tl_cancel_returned; // what a user could have observed before making the call
  tl_prev_flag = ctx.pre_canceled ? 1 : 0;
  cover_expected_path(set, pool, st);
  int first = w.next.get();
  tl_call = &ctx;
  try {
    switch (st.op) {
      case 's': {
        int id = w.fresh();
        w.barrier[id] = true;
        set.schedule([&w, id] { w.body(id); });
        break;
      }
      case 'q': {
        int id = w.fresh();
        w.barrier[id] = true;
        set.schedule([&w, id] { w.body(id); }, dispenso::ForceQueuingTag());
        break;
      }
      case 'b':
      case 'B': {
        int base = w.next.add(st.k);
        MC_CHECK(base + st.k <= kGateBase, "harness: too many tasks");
        for (int i = 0; i < st.k; i++) {
          w.barrier[base + i] = true;
          if (ctx.pre_canceled) w.submitted_canceled[base + i].set(1);
        }
        auto gen = [&w, base](size_t i) {
          int id = base + (int)i;
          return [&w, id] { w.body(id); };
        };
        if (st.op == 'b')
          set.scheduleBulk((size_t)st.k, gen);
        else
          set.scheduleBulk((size_t)st.k, gen, dispenso::ForceQueuingTag());
        break;
      }
      case 'n':
      case 'm': {
        int id = w.fresh(), cid = w.fresh();
        w.barrier[id] = w.barrier[cid] = true;
        bool inner_cts = st.op == 'm';
        auto outer = [&w, &pool, id, cid, inner_cts] {
          int prev = w.started[id].add(1);
          MC_CHECK(prev == 0, "body of task %d started a second time", id);
          CallCtx* saved = tl_call; // the inner set is a different set: its calls are not calls on the set under test
          tl_call = nullptr;
          if (inner_cts) {
            dispenso::ConcurrentTaskSet inner(pool);
            inner.schedule([&w, cid] { w.body(cid); });
            inner.wait();
            MC_CHECK(w.finished[cid].get() == 1, "nested ConcurrentTaskSet::wait() returned before its task finished");
          } else {
            dispenso::TaskSet inner(pool);
            inner.schedule([&w, cid] { w.body(cid); });
            inner.wait();
            MC_CHECK(w.finished[cid].get() == 1, "nested TaskSet::wait() returned before its task finished");
          }
          tl_call = saved;
          cov("nested_wait");
          mc::point();
          w.finished[id].set(1);
        };
        if (st.op == 'n')
          set.schedule(outer, dispenso::ForceQueuingTag());
        else
          set.schedule(outer);
        break;
      }
      case 'r':
      case 'R': {
        // self-recursive bulk scheduling (ConcurrentTaskSet only): a task of the set bulk-schedules st.k children
        // into its own set while the owner may already be in wait(). The parent was scheduled before the wait, so
        // the wait may not return before the parent has (and by then the children are counted).
        MC_CHECK(is_cts(set), "harness: recursive scheduling needs a ConcurrentTaskSet");
        int id = w.fresh();
        int base = w.next.add(st.k);
        MC_CHECK(base + st.k <= kGateBase, "harness: too many tasks");
        w.barrier[id] = true;
        for (int i = 0; i < st.k; i++) w.barrier[base + i] = true;
        bool fq = st.op == 'R';
        int k = st.k;
        auto parent = [&w, &set, id, base, k, fq] {
          int prev = w.started[id].add(1);
          MC_CHECK(prev == 0, "body of task %d started a second time", id);
          CallCtx* saved = tl_call;
          tl_call = nullptr;
          auto gen = [&w, base](size_t i) {
            int cid = base + (int)i;
            return [&w, cid] { w.body(cid); };
          };
          if (fq)
            set.scheduleBulk((size_t)k, gen, dispenso::ForceQueuingTag());
          else
            set.scheduleBulk((size_t)k, gen);
          tl_call = saved;
          cov(fq ? "recursive_bulk_fq" : "recursive_bulk");
          mc::point();
          w.finished[id].set(1);
        };
        set.schedule(parent, dispenso::ForceQueuingTag());
        break;
      }
      case 'a': {
        int id = w.fresh();
        w.barrier[id] = true;
        futs.push_back(dispenso::async(set, [&w, id] { w.body(id); }));
        cov("async_on_set");
        break;
      }
      case 't': {
        int id = w.fresh(), id2 = w.fresh();
        w.barrier[id] = w.barrier[id2] = true;
        dispenso::Future<void> f0 = dispenso::async(set, [&w, id] { w.body(id); });
        futs.push_back(f0.then(
            [&w, id, id2](dispenso::Future<void>&&) {
              MC_CHECK(w.finished[id].get() == 1, "continuation ran before its antecedent finished");
              w.body(id2);
            },
            set));
        futs.push_back(std::move(f0));
        cov("then_on_set");
        break;
      }
      case 'T': {
        int id = w.fresh(), id2 = w.fresh();
        w.barrier[id2] = true; // the antecedent belongs to the pool, not to the set
        dispenso::Future<void> f0 = dispenso::async(pool, [&w, id] { w.body(id); });
        futs.push_back(f0.then(
            [&w, id, id2](dispenso::Future<void>&&) {
              MC_CHECK(w.finished[id].get() == 1, "continuation ran before its antecedent finished");
              w.body(id2);
            },
            set));
        futs.push_back(std::move(f0));
        cov("then_on_set_pool_antecedent");
        break;
      }
      default:
        mc::fail("harness: unknown step '%c'", st.op);
    }
  } catch (const Tagged& t) {
    // documented: a functor run inline by schedule() may propagate its exception to the scheduling caller
    MC_CHECK(t.tag >= first && t.tag < w.next.get(), "schedule call threw the exception of task %d which it did not submit", t.tag);
    w.caller_got[t.tag].set(1);
    cov("exception_to_schedule_caller");
  }
  tl_call = nullptr;
  w.progress.add(1);
}

// gate tasks of the set (FQ) followed by a model-level wait until the free workers sit inside gate bodies
template <class SetT>
void submit_set_gates(SetT& set, dispenso::ThreadPool& pool, World& w, int g) {
  for (int i = 0; i < g; i++) {
    int id = w.fresh_gate();
    set.schedule([&w, id] { w.body(id); }, dispenso::ForceQueuingTag());
  }
}
void submit_pool_gates(dispenso::ThreadPool& pool, World& w, int pg) {
  for (int i = 0; i < pg; i++) {
    int id = w.fresh_pool_gate();
    pool.schedule([&w, id] { w.body(id); }, dispenso::ForceQueuingTag());
  }
}
void settle_gates(dispenso::ThreadPool& pool, World& w) {
  long n = (long)pool.numThreads();
  long freeWorkers = n - (dispenso::detail::PerPoolPerThreadInfo::isPoolRecursive(&pool) ? 1 : 0);
  long want = std::min<long>(w.ngates.get() + w.npoolgates.get(), freeWorkers);
  if (want > 0) mc::block_until([&w, want] { return w.gates_started.get() >= want; });
}

void final_exactly_once(World& w) {
  int total = w.next.get();
  for (int i = 0; i < total; i++) {
    MC_CHECK(w.started[i].get() <= 1, "task %d started %d times", i, w.started[i].get());
    MC_CHECK(!w.in_progress(i), "task %d still running after the pool was destroyed", i);
  }
}
} // namespace

// ------------------------------------------------------------------------------------------------ C02
// extra params: w = how the submitter waits: w wait(); 0/1/8 tryWait(n) (then wait()); d the destructor
//               t1 = program of a second submitting thread (ConcurrentTaskSet only; joined before the wait, as documented)
MC_HARNESS(barrier) {
  long n = P("n", 1), slm = P("slm", 4), plm = P("plm", 32);
  std::string kind = P.s("set", "ts"), wmode = P.s("w", "w");
  std::vector<Step> prog = get_prog(P, "s");
  std::vector<Step> prog1 = parse_prog(P.s("t1", ""));
  if (slm == 0) { // both multipliers
    slm = mc::choose(2) ? 4 : 1;
    mc::observe("slm", slm);
  }
  if (wmode == "?") { // every way of waiting
    static const char* const kWaits[] = {"w", "0", "1", "8", "d"};
    wmode = kWaits[mc::choose(5)];
    mc::observe("wmode", (long)mc::hash_str(wmode.c_str()));
  }
  World w;
  w.submitter.set(mc_self_id());
  std::vector<dispenso::Future<void>> futs;
  futs.reserve(16);
  {
    dispenso::ThreadPool pool((size_t)n, (size_t)plm);
    int issued = 0;
    auto check_barrier = [&](const char* what) {
      for (int i = 0; i < issued; i++)
        if (w.barrier[i]) {
          MC_CHECK(w.started[i].get() == 1, "%s returned but task %d had started %d times", what, i, w.started[i].get());
          MC_CHECK(w.finished[i].get() == 1, "%s returned while task %d had not finished (started=%d)", what, i, w.started[i].get());
        }
    };
    with_set(kind, pool, dispenso::ParentCascadeCancel::kOff, slm, [&](auto& set) {
      if (!prog1.empty()) {
        mc::spawn([&] {
          std::vector<dispenso::Future<void>> none;
          for (const Step& st : prog1) submit_step(set, pool, w, st, none);
        });
      }
      for (const Step& st : prog) submit_step(set, pool, w, st, futs);
      mc::join_all();
      issued = w.next.get();
      if (wmode == "w") {
        tl_in_wait = 1;
        bool r = set.wait();
        tl_in_wait = 0;
        check_barrier("wait()");
        MC_CHECK(!r, "wait() reported cancellation of a set nobody cancelled");
        mc::observe("wait", 1);
      } else if (wmode != "d") {
        size_t k = (size_t)atoi(wmode.c_str());
        tl_in_wait = 1;
        bool r = set.tryWait(k);
        tl_in_wait = 0;
        if (r) {
          check_barrier("tryWait()==true");
          cov("trywait_true");
        } else {
          cov("trywait_false");
        }
        mc::observe("trywait", r);
        tl_in_wait = 1;
        set.wait();
        tl_in_wait = 0;
        check_barrier("wait() after tryWait()");
        MC_CHECK(set.tryWait(0), "tryWait(0) false after wait() returned");
      } else {
        tl_in_wait = 1; // the destructor waits
      }
    });
    tl_in_wait = 0;
    if (wmode == "d") {
      check_barrier("the destructor");
      mc::observe("dtor", 1);
    }
    futs.clear();
  } // ~ThreadPool
  final_exactly_once(w);
  int total = w.next.get();
  for (int i = 0; i < total; i++) MC_CHECK(w.started[i].get() == 1 && w.finished[i].get() == 1, "task %d did not run exactly once (started=%d)", i, w.started[i].get());
  mc::observe("tasks", total);
}

// ------------------------------------------------------------------------------------------------ C04
// extra params:
//   src  t0    the program runner (T0) calls set.cancel() before step `pos`
//        t1    a second thread calls set.cancel() once `pos` steps are done (races the remaining steps; CTS only)
//        ex    no cancel() call: the throwing tasks of `mask` cancel the set (trySetCurrentException)
//        p1/p2 the set is created with ParentCascadeCancel::kOn inside a task of a parent (p2: of a parent that is
//              itself a kOn child of a grandparent); the runner cancels the top set before step `pos`
//        P1/P2 same, but T0 cancels the top set once `pos` steps are done, racing the runner (n >= 1)
//   pos  position of the cancel among the steps, 0..len; absent: every position (mc::choose)
//   strict=1: also reject a body run inline by a schedule call that overlapped the cancel (see notes)
namespace {
struct CancelCfg {
  std::string kind, src;
  long n, slm, plm, g, pg, pos;
  std::vector<Step> prog;
};

// the program of the thread that owns the set under test; `do_cancel` is invoked before step cfg.pos when the
// cancel comes from this thread. Returns after wait() has been checked.
template <class SetT>
void cancel_runner(SetT& set, dispenso::ThreadPool& pool, World& w, const CancelCfg& cfg, const std::function<void()>& self_cancel) {
  std::vector<dispenso::Future<void>> none;
  w.cflag.set(&set.canceled_);
  w.submitter.set(mc_self_id());
  tl_cancel_returned = 0;
  submit_set_gates(set, pool, w, (int)cfg.g);
  settle_gates(pool, w);
  w.settled.set(1);
  int len = (int)cfg.prog.size();
  for (int i = 0; i <= len; i++) {
    if (self_cancel && i == cfg.pos) {
      w.ev('C', 0);
      self_cancel();
      tl_cancel_returned = 1;
      w.ev('D', 0);
      w.note_flag();
      cov("cancel_by_runner");
    }
    if (i < len) submit_step(set, pool, w, cfg.prog[(size_t)i], none);
  }
  w.gate_open.set(1);
  w.ev('o', 0);
  mc::join_all(); // a racing canceller is done before wait(): "wait() then reports cancellation"
  w.ev('w', 0);
  bool pre = set.canceled();
  tl_prev_flag = pre ? 1 : 0;
  bool threw = false, r = false;
  tl_in_wait = 1;
  try {
    r = set.wait();
  } catch (const Tagged& t) {
    threw = true;
    MC_CHECK(w.finished[t.tag].get() == 2 && !w.caller_got[t.tag].get(), "wait() threw an exception nobody left with the set");
  }
  tl_in_wait = 0;
  bool post = raw(set.canceled_);
  if (threw) {
    MC_CHECK(post, "a task exception was captured but the set is not cancelled");
    r = set.wait(); // the exception is gone; the return value is what is left to report
    cov("wait_threw");
  }
  if (pre) MC_CHECK(r, "wait() returned false although the set had been cancelled before wait() was called");
  if (!post) MC_CHECK(!r, "wait() reported cancellation of a set that is not cancelled");
  if (pre) MC_CHECK(!set.tryWait(0), "tryWait() returned true on a cancelled set (documented: false)");
  // nothing may still be running, and nothing that did not start may start later (checked by the oracle in body())
  int total = w.next.get();
  int ran = 0, skipped = 0;
  for (int i = 0; i < total; i++) {
    MC_CHECK(!w.in_progress(i), "wait() returned while task %d was running", i);
    (w.started[i].get() ? ran : skipped)++;
  }
  for (int i = kGateBase; i < kGateBase + w.ngates.get(); i++) MC_CHECK(!w.in_progress(i), "wait() returned while gate task %d was running", i);
  if (!post) MC_CHECK(skipped == 0, "%d tasks never ran although the set was not cancelled", skipped);
  if (skipped) cov("task_skipped");
  if (pre && ran) cov("task_ran_before_cancel");
  mc::observe("ran", ran);
  mc::observe("skipped", skipped);
  mc::observe("r", r);
}
} // namespace

MC_HARNESS(cancel) {
  CancelCfg cfg;
  cfg.kind = P.s("set", "cl");
  cfg.src = P.s("src", "t0");
  cfg.n = P("n", 1);
  cfg.slm = P("slm", 1);
  cfg.plm = P("plm", 1);
  cfg.g = P("g", 0);
  cfg.pg = P("pg", 0);
  cfg.prog = get_prog(P, "s");
  if (P.s("load", "") == "?" && cfg.n >= 1) { // no load / set over its load factor / pool over its load factor
    int c = mc::choose(3);
    cfg.g = c == 1 ? gates_for_set_load(cfg.kind, cfg.n, cfg.slm) : 0;
    cfg.pg = c == 2 ? cfg.n * cfg.plm + 1 : 0;
    mc::observe("load", c);
  }
  int len = (int)cfg.prog.size();
  cfg.pos = P.has("pos") ? P("pos") : mc::choose(len + 1);
  mc::observe("pos", cfg.pos);
  const std::string& src = cfg.src;
  World w;
  w.mask = get_mask(P, cfg.prog, 0);
  w.strict = P("strict", 0) != 0;
  MC_CHECK(cfg.n >= 1 || (cfg.g == 0 && cfg.pg == 0), "harness: gates need a worker");
  {
    dispenso::ThreadPool pool((size_t)cfg.n, (size_t)cfg.plm);
    submit_pool_gates(pool, w, (int)cfg.pg);
    settle_gates(pool, w);
    if (src == "t0" || src == "t1" || src == "ex") {
      with_set(cfg.kind, pool, dispenso::ParentCascadeCancel::kOff, cfg.slm, [&](auto& set) {
        std::function<void()> self_cancel;
        if (src == "t0") self_cancel = [&] { set.cancel(); };
        if (src == "t1") {
          MC_CHECK(is_cts(set), "harness: cancel() from a second thread needs a ConcurrentTaskSet");
          mc::spawn([&] {
            mc::block_until([&] { return w.settled.get() && w.progress.get() >= cfg.pos; });
            w.ev('C', 0);
            set.cancel();
            w.ev('D', 0);
            cov("cancel_by_second_thread");
          });
        }
        cancel_runner(set, pool, w, cfg, self_cancel);
      });
    } else {
      // parent cascade: top (-> mid) -> set under test, each child created inside a task of its parent
      // x1: the top set is first cancelled *by an exception* of another of its tasks (which sets its flag without
      //     walking the children), then the runner calls top.cancel() explicitly: that call must still cascade
      // cc: the runner and T0 both call top.cancel(); whichever returns first, the cascade must have reached the
      //     child by the time the runner's own call returns
      bool deep = src == "p2" || src == "P2";
      bool exc_first = src == "x1", dbl = src == "cc";
      bool racing = src == "P1" || src == "P2" || dbl;
      MC_CHECK(!racing || cfg.n >= 1, "harness: a racing cancel needs the runner on a worker");
      with_set(cfg.kind, pool, dispenso::ParentCascadeCancel::kOff, 4, [&](auto& top) {
        auto runner = [&] {
          MC_CHECK(dispenso::parentTaskSet() != nullptr, "harness: no parent task set inside a task");
          with_set(cfg.kind, pool, dispenso::ParentCascadeCancel::kOn, cfg.slm, [&](auto& set) {
            std::function<void()> self_cancel;
            if (!racing) self_cancel = [&] { top.cancel(); };
            if (dbl) // the runner's call begins once T0's has begun, so that one preemption of T0 puts it inside T0's walk
              self_cancel = [&] {
                mc::block_until([&] { return raw(top.canceled_); });
                top.cancel();
              };
            if (exc_first)
              self_cancel = [&] {
                w.child_ready.set(1);
                mc::block_until([&] { return raw(top.canceled_); });
                cov("cancel_after_exception_cancel");
                top.cancel();
              };
            cancel_runner(set, pool, w, cfg, self_cancel);
          });
          cov(deep ? "cascade_depth2" : "cascade_depth1");
        };
        auto mid = [&] {
          with_set(cfg.kind, pool, dispenso::ParentCascadeCancel::kOn, 4, [&](auto& midset) {
            midset.schedule(runner);
            midset.wait();
          });
        };
        if (deep)
          top.schedule(mid, dispenso::ForceQueuingTag());
        else
          top.schedule(runner, dispenso::ForceQueuingTag());
        if (exc_first)
          top.schedule(
              [&] {
                mc::block_until([&] { return w.child_ready.get() != 0; });
                throw Tagged{kMax - 1};
              },
              dispenso::ForceQueuingTag());
        if (racing) {
          mc::block_until([&] { return w.settled.get() && w.progress.get() >= cfg.pos; });
          top.cancel();
          cov(dbl ? "cancel_twice_racing" : "cancel_by_t0_racing");
        }
        bool r;
        try {
          r = top.wait();
        } catch (const Tagged&) {
          MC_CHECK(exc_first, "top wait() threw although no task of the top set throws");
          r = top.wait();
        }
        MC_CHECK(r == raw(top.canceled_), "top wait() return value does not match its cancelled state");
      });
    }
    w.cflag.set(nullptr);
  } // ~ThreadPool
  final_exactly_once(w);
  mc::observe("canceled_seen", w.canceled_seen.get());
}

// ------------------------------------------------------------------------------------------------ C05
// extra params:
//   ws   wait sequence after the program: w = wait(), 0/1/8 = tryWait(n); default "ww8"
//   r    resubmission after that sequence: n = one more task (FQ), x = one more throwing task (FQ), then wait(); wait()
MC_HARNESS(exc) {
  long n = P("n", 1), slm = P("slm", 1), plm = P("plm", 32), g = P("g", 0);
  std::string kind = P.s("set", "ts"), ws = P.s("ws", "ww8"), rs = P.s("r", "n");
  std::vector<Step> prog = get_prog(P, "q");
  World w;
  w.mask = get_mask(P, prog, 1);
  if (g < 0) { // no load / set over its load factor
    g = (n >= 1 && mc::choose(2)) ? gates_for_set_load(kind, n, slm) : 0;
    mc::observe("g", g);
  }
  w.submitter.set(mc_self_id());
  MC_CHECK(n >= 1 || g == 0, "harness: gates need a worker");
  {
    dispenso::ThreadPool pool((size_t)n, (size_t)plm);
    with_set(kind, pool, dispenso::ParentCascadeCancel::kOff, slm, [&](auto& set) {
      std::vector<dispenso::Future<void>> none;
      int delivered = 0; // exceptions handed out by wait()/tryWait() in the current round
      int round_first = 0;
      // tasks of the current round whose exception stayed with the set
      auto captured = [&](int tag) { return tag >= round_first && tag < w.next.get() && w.finished[tag].get() == 2 && !w.caller_got[tag].get(); };
      auto ncaptured = [&] {
        int c = 0;
        for (int i = round_first; i < w.next.get(); i++) c += captured(i);
        return c;
      };
      auto complete_check = [&](const char* what) {
        MC_CHECK(raw(set.outstandingTaskCount_) == 0, "%s returned with %ld tasks outstanding", what, (long)raw(set.outstandingTaskCount_));
        for (int i = 0; i < w.next.get(); i++) MC_CHECK(!w.in_progress(i), "%s returned while task %d was running", what, i);
        for (int i = kGateBase; i < kGateBase + w.ngates.get(); i++) MC_CHECK(!w.in_progress(i), "%s returned while gate %d was running", what, i);
      };
      auto do_wait = [&](char c) {
        bool threw = false;
        int tag = -1;
        bool r = false;
        tl_in_wait = 1;
        try {
          if (c == 'w')
            r = set.wait();
          else
            r = set.tryWait((size_t)(c - '0'));
        } catch (const Tagged& t) {
          threw = true;
          tag = t.tag;
        }
        tl_in_wait = 0;
        if (threw) {
          MC_CHECK(delivered == 0, "a second exception (task %d) was delivered for one round of tasks", tag);
          MC_CHECK(captured(tag), "delivered exception has tag %d, which no task of this round left with the set", tag);
          delivered++;
          complete_check(c == 'w' ? "wait() (by exception)" : "tryWait() (by exception)");
          cov(c == 'w' ? "wait_delivered" : "trywait_delivered");
        } else if (c == 'w') {
          complete_check("wait()");
          MC_CHECK(delivered == 1 || ncaptured() == 0, "wait() returned normally although %d task exception(s) were captured and none delivered", ncaptured());
        } else if (r) {
          complete_check("tryWait()==true");
          MC_CHECK(delivered == 1 || ncaptured() == 0, "tryWait() returned true although %d task exception(s) were captured and none delivered", ncaptured());
        }
        mc::observe(c == 'w' ? "w_ret" : "tw_ret", (threw ? 2 : r) + 3 * delivered);
      };
      // ---- round 1
      submit_set_gates(set, pool, w, (int)g);
      settle_gates(pool, w);
      for (const Step& st : prog) submit_step(set, pool, w, st, none);
      w.gate_open.set(1);
      for (char c : ws) do_wait(c);
      if (ws.find('w') == std::string::npos) do_wait('w');
      int thrown = 0;
      for (int i = 0; i < w.next.get(); i++) thrown += w.finished[i].get() == 2;
      mc::observe("thrown", thrown);
      mc::observe("captured", ncaptured());
      if (ncaptured() > 1) cov("several_throwers_captured");
      // ---- round 2: the set is still usable
      bool was_canceled = raw(set.canceled_);
      round_first = w.next.get();
      delivered = 0;
      int rid = w.next.get();
      if (rs == "x") w.mask |= 1u << rid;
      submit_step(set, pool, w, Step{'q', 1}, none);
      do_wait('w');
      do_wait('w');
      if (!was_canceled) {
        MC_CHECK(w.started[rid].get() == 1 && w.finished[rid].get() != 0, "resubmitted task did not run on a set that is not cancelled");
        cov("reused_uncancelled");
      } else {
        cov("reused_cancelled");
      }
    });
  } // ~ThreadPool
  final_exactly_once(w);
}
