// C12 / C13 / C14 / C15 / C48: parallel_for and for_each under the model checker.
//
//   pf_batch  (C12, C13)  input enumeration: one execution = a whole batch of parallel_for calls (every range of an
//                         input set x every listed option set) on one pool, on the scheduler's default schedule
//                         (run with --bound 0 opt.free_switch_cost=1). The chunked-range body records (begin,end);
//                         the oracle sorts the chunks, so ranges of 2^63 elements cost nothing.
//   pf_one    (C12, C13, C48)  schedule exploration of ONE parallel_for call; the body brackets an mc::point().
//   pf_state  (C14, C48)  schedule exploration of ONE stateful parallel_for call (states container overloads).
//   fe_batch  (C15)       input enumeration for for_each / for_each_n (containers x n x maxThreads x api).
//   fe_one    (C15, C48)  schedule exploration of ONE for_each call.
//
// `check=` selects whose oracle decides the run: 12 partition + completion, 13 granularity contract, 48 peak
// concurrency (14 and 15 are fixed by the harness). Completion ("all bodies have returned when the call / wait()
// returns") is demanded by every harness.
#include "mc_harness.h"
#include <dispenso/for_each.h>
#include <dispenso/parallel_for.h>
#include <dispenso/task_set.h>
#include <dispenso/thread_pool.h>
#include <algorithm>
#include <deque>
#include <forward_list>
#include <limits>
#include <list>
#include <memory>
#include <vector>

namespace {

void prewarm() { (void)dispenso::CpuSet::l3CacheGroups(); } // reads sysfs once; keep that out of the executions
static mc::HookSetter hooks(prewarm, nullptr);

typedef __int128 i128;

// ------------------------------------------------------------------------------------------ small helpers
std::vector<std::string> split(const std::string& s, char sep = '.') {
  std::vector<std::string> out;
  std::string cur;
  for (char c : s) {
    if (c == sep) {
      if (!cur.empty()) out.push_back(cur);
      cur.clear();
    } else
      cur += c;
  }
  if (!cur.empty()) out.push_back(cur);
  return out;
}
std::vector<unsigned long> nums(const std::string& s) {
  std::vector<unsigned long> out;
  for (auto& t : split(s)) out.push_back(strtoul(t.c_str(), nullptr, 10));
  return out;
}
std::string str128(i128 v) {
  if (v == 0) return "0";
  bool neg = v < 0;
  unsigned __int128 u = neg ? (unsigned __int128)(-(v + 1)) + 1 : (unsigned __int128)v;
  std::string s;
  while (u) {
    s += (char)('0' + (int)(u % 10));
    u /= 10;
  }
  if (neg) s += '-';
  std::reverse(s.begin(), s.end());
  return s;
}
template <class T>
std::string str(T v) {
  return str128((i128)v);
}
template <class T>
uint64_t width(T b, T e) { // e - b for b <= e, exact modulo 2^64
  return (uint64_t)e - (uint64_t)b;
}

// chunking mode: 's' static, 'a' adaptive, 'c<k>' explicit chunk size k
struct Mode {
  char kind;
  long chunk;
  std::string name;
};
Mode parse_mode(const std::string& t) {
  Mode m{t.empty() ? 's' : t[0], 0, t};
  if (m.kind == 'c') m.chunk = atol(t.c_str() + 1);
  return m;
}
struct Opt {
  Mode mode;
  uint32_t mt, mi, g;
  bool wait;
  int N;
};
std::string describe(const Opt& o) {
  char buf[160];
  snprintf(buf, sizeof buf, "chunking=%s maxThreads=%u minItemsPerChunk=%u granularity=%u wait=%d poolThreads=%d", o.mode.name.c_str(), o.mt, o.mi, o.g,
           (int)o.wait, o.N);
  return buf;
}

template <class T, class TS, class F>
void call_pf(TS& ts, T s, T e, const Opt& o, F& f) {
  dispenso::ParForOptions po;
  po.maxThreads = o.mt;
  po.wait = o.wait;
  po.minItemsPerChunk = o.mi;
  po.granularity = o.g;
  if (o.mode.kind == 'c') {
    dispenso::parallel_for(ts, dispenso::makeChunkedRange(s, e, (T)o.mode.chunk), f, po);
  } else {
    po.defaultChunking = o.mode.kind == 's' ? dispenso::ParForChunking::kStatic : dispenso::ParForChunking::kAdaptive;
    dispenso::parallel_for(ts, s, e, f, po);
  }
}

// ------------------------------------------------------------------------------------------ chunk recorder
template <class T>
struct Rec {
  static constexpr int kMax = 4096;
  mc::Shared<int> n{0};
  mc::Shared<int> inflight{0}, peak{0};
  mc::Shared<long> cur{-1}; // id of the call whose bodies may run now; -1 = none
  mc::Shared<int> on_worker{0}, on_caller{0};
  int caller_tid = -1;
  const Opt* opt = nullptr;
  T rs = 0, re = 0;
  mc::Shared<T> b[kMax], e[kMax];

  std::string input() const { return "[" + str(rs) + "," + str(re) + ") " + (opt ? describe(*opt) : std::string()); }
  void begin_call(long id, T s, T e_, const Opt* o) {
    n.set(0);
    peak.set(0);
    on_worker.set(0);
    on_caller.set(0);
    rs = s;
    re = e_;
    opt = o;
    cur.set(id);
  }
  void enter(long call, T lo, T hi) {
    MC_CHECK(cur.get() == call, "a body invocation [%s,%s) of call #%ld started after that call's parallel_for / wait() had returned", str(lo).c_str(),
             str(hi).c_str(), call);
    int i = n.add(1);
    MC_CHECK(i < kMax, "more than %d body invocations (latest [%s,%s)) for %s", kMax, str(lo).c_str(), str(hi).c_str(), input().c_str());
    b[i].set(lo);
    e[i].set(hi);
    peak.max_with(inflight.add(1) + 1);
    if (mc_self_id() == caller_tid)
      on_caller.set(1);
    else
      on_worker.set(1);
  }
  void leave() { inflight.add(-1); }
};

template <class T>
struct Verdict {
  std::vector<std::pair<T, T>> c; // sorted chunks
  std::string why12, why13;
  int nonmult = 0;
};

// C12 oracle: the recorded chunks are non-empty, pairwise disjoint, inside [s,e) and their union is [s,e).
// C13 oracle (g > 1, no explicit chunk size): at most one chunk size is not a multiple of g and that chunk ends at e.
template <class T>
void judge(Rec<T>& r, T s, T e, const Opt& o, Verdict<T>& v) {
  v.c.clear();
  v.why12.clear();
  v.why13.clear();
  v.nonmult = 0;
  int n = r.n.get();
  for (int i = 0; i < n; i++) v.c.emplace_back(r.b[i].get(), r.e[i].get());
  std::sort(v.c.begin(), v.c.end());
  auto ch = [&](int i) { return "[" + str(v.c[i].first) + "," + str(v.c[i].second) + ")"; };
  if (e <= s) {
    if (n != 0) v.why12 = "the body was called (" + ch(0) + ") for an empty range";
    return;
  }
  if (n == 0) {
    v.why12 = "no body invocation for a non-empty range";
    return;
  }
  for (int i = 0; i < n && v.why12.empty(); i++) {
    if (!(v.c[i].first < v.c[i].second))
      v.why12 = "empty or reversed chunk " + ch(i);
    else if (v.c[i].first < s || v.c[i].second > e)
      v.why12 = "chunk " + ch(i) + " lies outside the range";
  }
  for (int i = 0; i + 1 < n && v.why12.empty(); i++) {
    if (v.c[i].second > v.c[i + 1].first)
      v.why12 = "chunks " + ch(i) + " and " + ch(i + 1) + " overlap";
    else if (v.c[i].second < v.c[i + 1].first)
      v.why12 = "indices [" + str(v.c[i].second) + "," + str(v.c[i + 1].first) + ") were not visited";
  }
  if (v.why12.empty() && v.c[0].first != s) v.why12 = "indices [" + str(s) + "," + str(v.c[0].first) + ") were not visited";
  if (v.why12.empty() && v.c[n - 1].second != e) v.why12 = "indices [" + str(v.c[n - 1].second) + "," + str(e) + ") were not visited";
  if (o.g > 1 && o.mode.kind != 'c') {
    for (int i = 0; i < n; i++) {
      if (!(v.c[i].first < v.c[i].second)) continue;
      if (width(v.c[i].first, v.c[i].second) % o.g != 0) {
        v.nonmult++;
        if (v.c[i].second != e && v.why13.empty())
          v.why13 = "chunk " + ch(i) + " has a size that is not a multiple of the granularity and does not end at the range end";
      }
    }
    if (v.nonmult > 1 && v.why13.empty()) v.why13 = std::to_string(v.nonmult) + " chunks have sizes that are not multiples of the granularity";
  }
}

uint64_t fnv(uint64_t h, uint64_t x) { return (h ^ x) * 1099511628211ULL; }

// ------------------------------------------------------------------------------------------ input sets
template <class T>
struct Lim {
  static i128 lo() { return (i128)std::numeric_limits<T>::min(); }
  static i128 hi() { return (i128)std::numeric_limits<T>::max(); }
  // the largest size the header's size_type (int64_t for signed, uint64_t for unsigned index types) can hold
  static i128 maxsz() { return std::is_signed<T>::value ? (i128)std::numeric_limits<int64_t>::max() : (i128)std::numeric_limits<uint64_t>::max(); }
};

template <class T>
std::vector<std::pair<T, T>> make_set(const std::string& set, uint32_t g) {
  std::vector<std::pair<T, T>> out;
  const i128 lo = Lim<T>::lo(), hi = Lim<T>::hi();
  auto add = [&](i128 s, i128 e) {
    if (s < lo || s > hi || e < lo || e > hi) return;
    if (e > s && e - s > Lim<T>::maxsz()) return; // beyond the documented size limit
    out.emplace_back((T)s, (T)e);
  };
  auto anchors = [&] {
    std::vector<i128> a;
    for (int k = 0; k <= 2; k++) a.push_back(lo + k);
    for (int k = -2; k <= 2; k++) a.push_back(k);
    for (int k = 2; k >= 0; k--) a.push_back(hi - k);
    std::sort(a.begin(), a.end());
    a.erase(std::unique(a.begin(), a.end()), a.end());
    a.erase(std::remove_if(a.begin(), a.end(), [&](i128 x) { return x < lo || x > hi; }), a.end());
    return a;
  };
  if (set == "full8") { // every (start,end) pair of the type, including empty and reversed
    for (i128 s = lo; s <= hi; s++)
      for (i128 e = lo; e <= hi; e++) add(s, e);
  } else if (set.compare(0, 2, "sz") == 0) { // sz<k>: every start x sizes 0..k, every range touching MIN or MAX, reversed neighbours
    const int k = atoi(set.c_str() + 2);
    for (i128 s = lo; s <= hi; s++) {
      for (int sz = 0; sz <= k; sz++) add(s, s + sz);
      add(s, s - 1);
      add(lo, s);
      add(s, hi);
    }
    add(hi, lo);
  } else if (set == "edge") { // ranges starting or ending at the edge anchors
    std::vector<i128> sizes;
    for (int k = 0; k <= 9; k++) sizes.push_back(k);
    for (int k = 63; k <= 65; k++) sizes.push_back(k);
    i128 span = hi - lo;
    const i128 i64max = (i128)std::numeric_limits<int64_t>::max();
    if (span > i64max) span = i64max;
    sizes.push_back(span / 2); // 2^62 for the 64-bit types
    if (sizeof(T) < 8) sizes.push_back(hi - lo); // the whole type range fits the size type for 16/32-bit types
    for (i128 a : anchors()) {
      for (i128 sz : sizes) {
        add(a, a + sz);
        if (sz) add(a - sz, a);
      }
      add(a, a - 1);
    }
    add(hi, lo);
  } else if (set == "huge") { // 64-bit only: sizes at the limit of the size type (and of int64_t for unsigned types)
    std::vector<i128> sizes;
    const i128 i64max = (i128)std::numeric_limits<int64_t>::max();
    // Supported sizes end at INT64_MAX for the unsigned types too: ChunkedRange's own comment rules out
    // "ranges larger than can be held in int64_t", and the static path converts the size to ssize_t.
    // (Sizes of 2^63 and above were tried once: they break static chunking; outside the documented domain.)
    if (std::is_signed<T>::value) {
      for (int d = 0; d <= 1; d++) sizes.push_back(Lim<T>::maxsz() - d);
    } else {
      sizes.push_back(i64max);
      sizes.push_back(i64max - 1);
    }
    sizes.push_back(i64max - 1000);
    for (i128 a : anchors())
      for (i128 sz : sizes) {
        add(a, a + sz);
        add(a - sz, a);
      }
  } else if (set.compare(0, 4, "gran") == 0) { // gran<m>: every start offset mod g (both signs) x sizes 0..m*g+1 (default m = 3)
    const long m = set.size() > 4 ? atol(set.c_str() + 4) : 3;
    long from = std::is_signed<T>::value && g <= 16 ? -(long)g : 0;
    long to = std::is_signed<T>::value ? (long)g : 2 * (long)g;
    if (g > 16) to = (long)g;
    for (long s = from; s < to; s++)
      for (long sz = 0; sz <= m * (long)g + 1; sz++) add(s, s + sz);
  } else {
    mc::fail("harness: unknown input set '%s'", set.c_str());
  }
  return out;
}

// ------------------------------------------------------------------------------------------ pf_batch
// The batch = every listed option set x every range of the input set, numbered 0..total-1. One execution runs the
// calls whose number is congruent to `part` modulo `parts`; `part` is picked by mc::choose (cost 0, explored
// exhaustively), so that no execution exceeds the engine's per-execution horizon (49152 choice points).
struct BatchPlan {
  std::vector<Mode> modes;
  std::vector<unsigned long> mts, mis, gs, waits;
  std::string set;
  long total = 0, parts = 1, part = 0;
};
template <class T>
BatchPlan make_plan(const mc::Params& P) {
  BatchPlan pl;
  pl.set = P.s("set", "sz12");
  for (auto& t : split(P.s("mode", "s"))) pl.modes.push_back(parse_mode(t));
  pl.mts = nums(P.s("mt", "2147483647"));
  pl.mis = nums(P.s("mi", "1"));
  pl.gs = nums(P.s("g", "1"));
  pl.waits = nums(P.s("wait", "1"));
  long per_g = (long)(pl.modes.size() * pl.mts.size() * pl.mis.size() * pl.waits.size());
  size_t fixed = 0;
  for (unsigned long g : pl.gs) {
    if (pl.set.compare(0, 4, "gran") == 0 || !fixed) fixed = make_set<T>(pl.set, (uint32_t)g).size();
    pl.total += per_g * (long)fixed;
  }
  long per = P("per", 150);
  pl.parts = std::max(1L, (pl.total + per - 1) / per);
  MC_CHECK(pl.parts <= 64 * 64, "harness: batch of %ld calls needs %ld executions (> 4096); raise per= or split the run", pl.total, pl.parts);
  if (pl.parts <= 64) {
    pl.part = pl.parts > 1 ? mc::choose((int)pl.parts) : 0;
  } else {
    long k = (pl.parts + 63) / 64;
    long a = mc::choose(64);
    pl.part = a * k + mc::choose((int)k);
  }
  return pl;
}

template <class T, class TS>
void run_batch(dispenso::ThreadPool& pool, const mc::Params& P, const BatchPlan& pl) {
  if (pl.part >= pl.parts) return; // padding of the two-level choice
  const int N = (int)P("n", 1);
  const int check = (int)P("check", 12);
  const bool yield_in_body = P("yield", 0) != 0;
  const unsigned long max_explicit = (unsigned long)P("maxexp", 2000);

  TS ts(pool);
  std::unique_ptr<Rec<T>> rec(new Rec<T>());
  rec->caller_tid = mc_self_id();
  Verdict<T> v;
  long calls = 0, idx = 0, skipped = 0, fails = 0, chunks = 0;
  uint64_t layout = 1469598103934665603ULL;
  std::string first;
  std::vector<std::pair<T, T>> in;
  for (unsigned long g : pl.gs) {
    if (in.empty() || pl.set.compare(0, 4, "gran") == 0) in = make_set<T>(pl.set, (uint32_t)g);
    for (auto& mode : pl.modes)
      for (unsigned long mt : pl.mts)
        for (unsigned long mi : pl.mis)
          for (unsigned long w : pl.waits) {
            const bool wait = w != 0;
            Opt o{mode, (uint32_t)mt, (uint32_t)mi, (uint32_t)g, wait, N};
            for (auto& se : in) {
              if (idx++ % pl.parts != pl.part) continue;
              T s = se.first, e = se.second;
              if (mode.kind == 'c' && e > s && width(s, e) / (uint64_t)mode.chunk > max_explicit) {
                skipped++; // an explicit chunk size on a huge range would need > maxexp body calls
                continue;
              }
              long id = calls++;
              rec->begin_call(id, s, e, &o);
              auto body = [r = rec.get(), id, yield_in_body](T lo, T hi) {
                r->enter(id, lo, hi);
                if (yield_in_body) std::this_thread::yield(); // lets other threads run on the default schedule
                r->leave();
              };
              call_pf(ts, s, e, o, body);
              if (!wait) ts.wait();
              MC_CHECK(rec->inflight.get() == 0, "C12: %d body invocation(s) still running when %s returned, for %s", rec->inflight.get(),
                       wait ? "parallel_for" : "wait()", rec->input().c_str());
              rec->cur.set(-1);
              judge(*rec, s, e, o, v);
              const std::string& why = check == 13 ? v.why13 : v.why12;
              if (!why.empty()) {
                if (!fails++) first = why + " for " + rec->input();
              }
              int n = (int)v.c.size();
              chunks += n;
              for (auto& c : v.c) layout = fnv(fnv(layout, (uint64_t)c.first), (uint64_t)c.second);
              layout = fnv(layout, 0x51ed);
              if (e == s)
                mc::cover("empty_range");
              else if (e < s)
                mc::cover("reversed_range");
              else if (n == 1)
                mc::cover("single_chunk");
              else if (n > 1)
                mc::cover("multi_chunk");
              if (rec->on_worker.get()) mc::cover("body_on_worker");
              if (rec->on_caller.get()) mc::cover("body_on_caller");
              if (rec->peak.get() >= 2) mc::cover("concurrent_bodies");
              if (v.nonmult == 1 && n > 1 && v.why13.empty()) mc::cover("granularity_tail");
              if (o.g > 1 && mode.kind != 'c' && n > 1 && v.nonmult == 0) mc::cover("granular_chunks");
            }
          }
  }
  MC_CHECK(idx == pl.total, "harness: planned %ld calls, enumerated %ld", pl.total, idx);
  MC_CHECK(fails == 0, "C%d: %ld of %ld parallel_for calls violated the property; first: %s", check, fails, calls, first.c_str());
  mc::observe("calls", calls);
  mc::observe("chunks", chunks);
  mc::observe("skipped", skipped);
  mc::observe("layout", (long)(layout & 0x7fffffff));
}

template <class T, class TS>
void pf_batch_T(const mc::Params& P) {
  const int N = (int)P("n", 1);
  const int nest = (int)P("nest", 0);
  const BatchPlan pl = make_plan<T>(P);
  dispenso::ThreadPool pool((size_t)N);
  if (nest == 0) {
    run_batch<T, TS>(pool, P, pl);
  } else if (nest == 1) {
    // nesting level 1: the calls are made from inside a body invocation of an outer parallel_for on the same pool
    dispenso::TaskSet outer(pool);
    mc::Shared<int> ran{0};
    dispenso::ParForOptions po;
    dispenso::parallel_for(
        outer, 0, 2,
        [&](int i) {
          if (i == 0) {
            run_batch<T, TS>(pool, P, pl);
            ran.add(1);
          }
        },
        po);
    MC_CHECK(ran.get() == 1, "harness: outer parallel_for did not run index 0 exactly once");
    mc::cover("nested_in_parallel_for");
  } else {
    // the calls are made by a plain task running on a pool thread (pool-recursive submission rules)
    dispenso::TaskSet outer(pool);
    mc::Shared<int> ran{0};
    outer.schedule(
        [&] {
          run_batch<T, TS>(pool, P, pl);
          ran.add(1);
        },
        dispenso::ForceQueuingTag());
    outer.wait();
    MC_CHECK(ran.get() == 1, "harness: outer task did not run exactly once");
    mc::cover("nested_in_task");
  }
}

// ------------------------------------------------------------------------------------------ exploration helpers
// A parameter of the exploration harnesses may be a dotted list; the value is then picked by mc::choose (cost 0, so
// every combination is explored), which folds a whole configuration matrix into one run of the explorer.
std::string sel(const mc::Params& P, const char* key, const char* def) {
  std::vector<std::string> v = split(P.s(key, def));
  if (v.empty()) return def;
  if (v.size() == 1) return v[0];
  MC_CHECK(v.size() <= 64, "harness: more than 64 alternatives for %s", key);
  return v[(size_t)mc::choose((int)v.size())];
}
unsigned long long selnum(const mc::Params& P, const char* key, const char* def) { return strtoull(sel(P, key, def).c_str(), nullptr, 10); }

int raw_sleeping(dispenso::ThreadPool& p) {
  auto* ws = p.wakeState_.a_.load(std::memory_order_relaxed);
  return ws ? (int)ws->totalSleeping_.a_.load(std::memory_order_relaxed) : 0;
}
// settle=1: the call starts on an idle pool (all workers on their way into the futex); keeps the explored
// interleavings on the loop itself instead of on pool start-up. settle=0 explores the call racing pool start-up.
void settle(dispenso::ThreadPool& pool, int N, bool on) {
  if (on && N > 0) mc::block_until([&] { return raw_sleeping(pool) >= N; });
}

// ------------------------------------------------------------------------------------------ pf_one
// One parallel_for call. at=0: start = off; at=min: start = MIN+off; at=max: end = MAX-off. The range has `size` elements.
template <class T, class TS>
void pf_one_T(const mc::Params& P) {
  const int check = (int)P("check", 12);
  const int N = (int)selnum(P, "n", "1");
  const std::string at = sel(P, "at", "0");
  const long off = atol(sel(P, "off", "0").c_str());
  const unsigned long long size = selnum(P, "size", "4");
  Opt o{parse_mode(sel(P, "mode", "s")), (uint32_t)selnum(P, "mt", "2147483647"), (uint32_t)selnum(P, "mi", "1"), (uint32_t)selnum(P, "g", "1"),
        selnum(P, "wait", "1") != 0, N};
  const bool yield_in_body = P("yield", 0) != 0;
  const bool do_settle = P("settle", 1) != 0;
  i128 s128, e128;
  if (at == "min") {
    s128 = Lim<T>::lo() + off;
    e128 = s128 + (i128)size;
  } else if (at == "max") {
    e128 = Lim<T>::hi() - off;
    s128 = e128 - (i128)size;
  } else {
    s128 = off;
    e128 = s128 + (i128)size;
  }
  MC_CHECK(s128 >= Lim<T>::lo() && e128 <= Lim<T>::hi(), "harness: range does not fit the type");
  T s = (T)s128, e = (T)e128;
  std::unique_ptr<Rec<T>> rec(new Rec<T>());
  rec->caller_tid = mc_self_id();
  Verdict<T> v;
  const unsigned allowed = std::max<uint32_t>(1, o.mt);
  {
    dispenso::ThreadPool pool((size_t)N);
    TS ts(pool);
    settle(pool, N, do_settle);
    rec->begin_call(0, s, e, &o);
    auto body = [r = rec.get(), check, allowed, yield_in_body](T lo, T hi) {
      r->enter(0, lo, hi);
      if (check == 48)
        MC_CHECK((unsigned)r->inflight.get() <= allowed, "C48: %d body invocations run at the same time with maxThreads=%u (latest [%s,%s)), for %s", r->inflight.get(),
                 r->opt->mt, str(lo).c_str(), str(hi).c_str(), r->input().c_str());
      mc::point();
      if (yield_in_body) std::this_thread::yield();
      r->leave();
    };
    call_pf(ts, s, e, o, body);
    if (!o.wait) {
      mc::cover("returned_before_wait");
      ts.wait();
    }
    MC_CHECK(rec->inflight.get() == 0, "C12: %d body invocation(s) still running when %s returned, for %s", rec->inflight.get(), o.wait ? "parallel_for" : "wait()",
             rec->input().c_str());
    rec->cur.set(-1);
  } // ~TaskSet, ~ThreadPool: a body starting now trips the check in enter()
  judge(*rec, s, e, o, v);
  if (check == 13)
    MC_CHECK(v.why13.empty(), "C13: %s for %s", v.why13.c_str(), rec->input().c_str());
  else if (check == 12)
    MC_CHECK(v.why12.empty(), "C12: %s for %s", v.why12.c_str(), rec->input().c_str());
  int n = (int)v.c.size();
  if (n > 1) mc::cover("multi_chunk");
  if (n == 1) mc::cover("single_chunk");
  if (rec->on_worker.get()) mc::cover("body_on_worker");
  if (rec->on_caller.get()) mc::cover("body_on_caller");
  if (rec->on_worker.get() && rec->on_caller.get()) mc::cover("caller_and_worker");
  if (rec->peak.get() >= 2) mc::cover("concurrent_bodies");
  if ((unsigned)rec->peak.get() == allowed && allowed >= 2) mc::cover("peak_equals_maxThreads");
  if (v.nonmult == 1 && n > 1 && v.why13.empty()) mc::cover("granularity_tail");
  if (o.g > 1 && o.mode.kind != 'c' && n > 1 && v.nonmult == 0) mc::cover("granular_chunks");
  uint64_t layout = 1469598103934665603ULL;
  for (auto& c : v.c) layout = fnv(fnv(layout, (uint64_t)c.first), (uint64_t)c.second);
  mc::observe("layout", (long)(layout & 0x7fffffff));
  mc::observe("peak", rec->peak.get());
}

// ------------------------------------------------------------------------------------------ pf_state (C14)
struct State {
  int id;
  mc::Shared<int> inuse{0};
  mc::Shared<int> uses{0};
  explicit State(int i) : id(i) {}
  State(const State& o) : id(o.id), inuse(o.inuse.get()), uses(o.uses.get()) {}
  State& operator=(const State& o) {
    id = o.id;
    inuse.set(o.inuse.get());
    uses.set(o.uses.get());
    return *this;
  }
};

template <class C, class TS>
void pf_state_C(const mc::Params& P) {
  const int check = (int)P("check", 14);
  const int N = (int)selnum(P, "n", "1");
  const int size = (int)selnum(P, "size", "4");
  const int off = atoi(sel(P, "off", "0").c_str());
  const int pre = (int)selnum(P, "pre", "0");
  Opt o{parse_mode(sel(P, "mode", "s")), (uint32_t)selnum(P, "mt", "2147483647"), (uint32_t)selnum(P, "mi", "1"), (uint32_t)selnum(P, "g", "1"),
        selnum(P, "wait", "1") != 0, N};
  const bool reuse = selnum(P, "reuse", "0") != 0;
  const bool yield_in_body = P("yield", 0) != 0;
  const bool do_settle = P("settle", 1) != 0;
  const unsigned allowed = std::max<uint32_t>(1, o.mt);
  mc::Shared<int> next_id{0}, inflight{0}, peak{0}, done{0}, tail_seen{0}, covered{0};
  C states;
  for (int i = 0; i < pre; i++) states.emplace_back(State(100 + i));
  auto gen = [&] { return State(next_id.add(1)); };
  const int s = off, e = off + size;
  {
    dispenso::ThreadPool pool((size_t)N);
    TS ts(pool);
    settle(pool, N, do_settle);
    auto body = [&](State& st, int lo, int hi) {
      MC_CHECK(done.get() == 0, "a body invocation [%d,%d) started after %s had returned", lo, hi, o.wait ? "parallel_for" : "wait()");
      int prev = st.inuse.add(1);
      if (check == 14)
        MC_CHECK(prev == 0, "C14: state object #%d is used by %d body invocations at the same time (the later one covers [%d,%d)); range [%d,%d) %s reuseExistingState=%d",
                 st.id, prev + 1, lo, hi, s, e, describe(o).c_str(), (int)reuse);
      st.uses.add(1);
      int now = inflight.add(1) + 1;
      peak.max_with(now);
      if (check == 48)
        MC_CHECK((unsigned)now <= allowed, "C48: %d body invocations run at the same time with maxThreads=%u (latest [%d,%d)); range [%d,%d) %s", now, o.mt, lo, hi, s, e,
                 describe(o).c_str());
      if (o.g > 1 && o.mode.kind != 'c' && (hi - lo) % (int)o.g != 0) tail_seen.set(1);
      covered.add(hi - lo);
      mc::point();
      if (yield_in_body) std::this_thread::yield();
      inflight.add(-1);
      st.inuse.add(-1);
    };
    dispenso::ParForOptions po;
    po.maxThreads = o.mt;
    po.wait = o.wait;
    po.minItemsPerChunk = o.mi;
    po.granularity = o.g;
    po.reuseExistingState = reuse;
    if (o.mode.kind == 'c') {
      dispenso::parallel_for(ts, states, gen, dispenso::makeChunkedRange(s, e, (int)o.mode.chunk), body, po);
    } else {
      po.defaultChunking = o.mode.kind == 's' ? dispenso::ParForChunking::kStatic : dispenso::ParForChunking::kAdaptive;
      dispenso::parallel_for(ts, states, gen, s, e, body, po);
    }
    if (!o.wait) {
      mc::cover("returned_before_wait");
      ts.wait();
    }
    MC_CHECK(inflight.get() == 0, "%d body invocation(s) still running when %s returned", inflight.get(), o.wait ? "parallel_for" : "wait()");
    done.set(1);
  }
  MC_CHECK(covered.get() == size, "harness cross-check: bodies covered %d of %d indices; range [%d,%d) %s", covered.get(), size, s, e, describe(o).c_str());
  size_t count = 0;
  int used = 0;
  for (auto& st : states) {
    count++;
    if (st.uses.get()) used++;
  }
  if (check == 14)
    MC_CHECK(count >= 1, "C14: the states container is empty after parallel_for; range [%d,%d) %s reuseExistingState=%d", s, e, describe(o).c_str(), (int)reuse);
  if (tail_seen.get()) mc::cover("granularity_tail");
  if (peak.get() >= 2) mc::cover("concurrent_bodies");
  if ((unsigned)peak.get() == allowed && allowed >= 2) mc::cover("peak_equals_maxThreads");
  if (used >= 2) mc::cover("several_states_used");
  if (reuse && pre) mc::cover("reused_existing_state");
  mc::observe("states", (long)count);
  mc::observe("used", used);
  mc::observe("peak", peak.get());
}

// ------------------------------------------------------------------------------------------ for_each
struct Elem {
  mc::Shared<int> hits{0};
  Elem() {}
  Elem(const Elem& o) : hits(o.hits.get()) {}
};
struct FeLog {
  mc::Shared<long> cur{-1};
  mc::Shared<int> inflight{0}, peak{0}, on_worker{0};
  int caller_tid = -1;
  unsigned allowed = 0; // > 0: C48 is checked at every application
  bool yield_in_body = false;
};

// one for_each / for_each_n call on the first cnt of cnt+2 elements; returns "" or the violation text
template <class C, class TS>
std::string fe_call(TS& ts, FeLog& log, long id, int cnt, uint32_t mt, bool wait, bool api_n, bool with_point) {
  C c((size_t)(cnt + 2));
  log.cur.set(id);
  log.peak.set(0);
  auto f = [&log, id, with_point, mt](Elem& x) {
    MC_CHECK(log.cur.get() == id, "C15: the function was applied (call #%ld) after for_each / wait() had returned", id);
    int now = log.inflight.add(1) + 1;
    log.peak.max_with(now);
    if (log.allowed) MC_CHECK((unsigned)now <= log.allowed, "C48: %d applications of for_each's function run at the same time with maxThreads=%u", now, mt);
    if (mc_self_id() != log.caller_tid) log.on_worker.set(1);
    x.hits.add(1);
    if (with_point) mc::point();
    if (log.yield_in_body) std::this_thread::yield();
    log.inflight.add(-1);
  };
  dispenso::ForEachOptions fo;
  fo.maxThreads = mt;
  fo.wait = wait;
  if (api_n) {
    dispenso::for_each_n(ts, c.begin(), (size_t)cnt, f, fo);
  } else {
    auto last = c.begin();
    std::advance(last, cnt);
    dispenso::for_each(ts, c.begin(), last, f, fo);
  }
  if (!wait) ts.wait();
  MC_CHECK(log.inflight.get() == 0, "C15: %d application(s) still running when %s returned", log.inflight.get(), wait ? "for_each" : "wait()");
  log.cur.set(-1);
  int i = 0;
  for (auto& x : c) {
    int want = i < cnt ? 1 : 0;
    if (x.hits.get() != want) {
      char buf[200];
      snprintf(buf, sizeof buf, "element %d (of n=%d) was visited %d time(s), expected %d", i, cnt, x.hits.get(), want);
      return buf;
    }
    i++;
  }
  return "";
}

template <class TS>
std::string fe_dispatch(char cont, TS& ts, FeLog& log, long id, int cnt, uint32_t mt, bool wait, bool api_n, bool with_point) {
  switch (cont) {
    case 'v':
      return fe_call<std::vector<Elem>, TS>(ts, log, id, cnt, mt, wait, api_n, with_point);
    case 'l':
      return fe_call<std::list<Elem>, TS>(ts, log, id, cnt, mt, wait, api_n, with_point);
    case 'f':
      return fe_call<std::forward_list<Elem>, TS>(ts, log, id, cnt, mt, wait, api_n, with_point);
    default:
      mc::fail("harness: unknown container '%c'", cont);
  }
  return "";
}
const char* cont_name(char c) { return c == 'v' ? "vector(random access)" : c == 'l' ? "list(bidirectional)" : "forward_list(forward)"; }

} // namespace

// params: type i8..u64; set full8|sz<k>|edge|huge|gran[<m>]; mode/mt/mi/g/wait dotted lists (all combinations are run);
// n pool threads; nest 0|1|2; per = calls per execution (the batch is split by mc::choose); check 12|13; yield; cts=1 ConcurrentTaskSet (i32)
MC_HARNESS(pf_batch) {
  std::string t = P.s("type", "i32");
  typedef dispenso::TaskSet TS;
  if (P("cts", 0)) {
    MC_CHECK(t == "i32", "harness: cts=1 is built for type=i32 only");
    pf_batch_T<int32_t, dispenso::ConcurrentTaskSet>(P);
  } else if (t == "i8")
    pf_batch_T<int8_t, TS>(P);
  else if (t == "u8")
    pf_batch_T<uint8_t, TS>(P);
  else if (t == "i16")
    pf_batch_T<int16_t, TS>(P);
  else if (t == "u16")
    pf_batch_T<uint16_t, TS>(P);
  else if (t == "i32")
    pf_batch_T<int32_t, TS>(P);
  else if (t == "u32")
    pf_batch_T<uint32_t, TS>(P);
  else if (t == "i64")
    pf_batch_T<int64_t, TS>(P);
  else if (t == "u64")
    pf_batch_T<uint64_t, TS>(P);
  else
    mc::fail("harness: unknown type '%s'", t.c_str());
}

// params (dotted lists allowed, every combination is explored): n, at 0|min|max, off, size, mode, mt, mi, g, wait;
// single-valued: type i8|u8|i32|i64|u64, check 12|13|48, yield, settle, cts (i32 only)
MC_HARNESS(pf_one) {
  std::string t = P.s("type", "i32");
  bool cts = P("cts", 0) != 0;
  if (cts && t != "i32") mc::fail("harness: cts=1 is built for type=i32 only");
  if (t == "i8")
    pf_one_T<int8_t, dispenso::TaskSet>(P);
  else if (t == "u8")
    pf_one_T<uint8_t, dispenso::TaskSet>(P);
  else if (t == "i32")
    cts ? pf_one_T<int32_t, dispenso::ConcurrentTaskSet>(P) : pf_one_T<int32_t, dispenso::TaskSet>(P);
  else if (t == "i64")
    pf_one_T<int64_t, dispenso::TaskSet>(P);
  else if (t == "u64")
    pf_one_T<uint64_t, dispenso::TaskSet>(P);
  else
    mc::fail("harness: pf_one supports type i8|u8|i32|i64|u64, not '%s'", t.c_str());
}

// params (dotted lists allowed): n, size, off, pre (elements already in the container), mode, mt, mi, g, wait, reuse;
// single-valued: cont v|l|d, check 14|48, yield, settle, cts (vector only)
MC_HARNESS(pf_state) {
  std::string c = P.s("cont", "v");
  bool cts = P("cts", 0) != 0;
  if (c == "v")
    cts ? pf_state_C<std::vector<State>, dispenso::ConcurrentTaskSet>(P) : pf_state_C<std::vector<State>, dispenso::TaskSet>(P);
  else if (c == "l")
    pf_state_C<std::list<State>, dispenso::TaskSet>(P);
  else if (c == "d")
    pf_state_C<std::deque<State>, dispenso::TaskSet>(P);
  else
    mc::fail("harness: unknown container '%s'", c.c_str());
}

// One execution = every combination of the dotted lists cont (v|l|f), cnt, mt, with both APIs, on one pool.
// params: n pool threads, wait, cont, cnt, mt
MC_HARNESS(fe_batch) {
  const int N = (int)P("n", 1);
  const bool wait = P("wait", 1) != 0;
  std::vector<std::string> conts = split(P.s("cont", "v.l.f"));
  std::vector<unsigned long> cnts = nums(P.s("cnt", "0.1.2.3.4.5.6")), mts = nums(P.s("mt", "0.1.2.3"));
  FeLog log;
  log.caller_tid = mc_self_id();
  log.yield_in_body = P("yield", 0) != 0;
  long calls = 0, fails = 0;
  std::string first;
  // nest=1: the calls are made from inside a task of the same pool (the caller is a pool worker with a ring index,
  // which the chunk assignment of the random-access path may look at)
  const bool nest = P("nest", 0) != 0;
  mc::Shared<int> batch_done{0};
  {
    dispenso::ThreadPool pool((size_t)N);
    auto run_all = [&] {
    log.caller_tid = mc_self_id();
    dispenso::TaskSet ts(pool);
    for (auto& c : conts)
      for (unsigned long cnt : cnts)
        for (unsigned long mt : mts)
          for (int api_n = 0; api_n <= 1; api_n++) {
            std::string why = fe_dispatch(c[0], ts, log, calls, (int)cnt, (uint32_t)mt, wait, api_n != 0, false);
            calls++;
            if (!why.empty() && !fails++) {
              char buf[300];
              snprintf(buf, sizeof buf, "%s: %s n=%lu maxThreads=%lu wait=%d poolThreads=%d %s", why.c_str(), cont_name(c[0]), cnt, mt, (int)wait, N,
                       api_n ? "for_each_n" : "for_each");
              first = buf;
            }
            if (cnt == 0) mc::cover("n_zero");
            if (log.peak.get() >= 1) mc::cover("applied");
            if (log.peak.get() >= 2) mc::cover("concurrent_applications");
          }
    batch_done.set(1);
    };
    if (nest && N > 0) {
      pool.schedule(run_all, dispenso::ForceQueuingTag());
      mc::block_until([&] { return batch_done.get() == 1; });
      mc::cover("called_from_pool_thread");
    } else {
      run_all();
    }
  }
  MC_CHECK(fails == 0, "C15: %ld of %ld for_each calls violated the property; first: %s", fails, calls, first.c_str());
  if (log.on_worker.get()) mc::cover("applied_on_worker");
  mc::observe("calls", calls);
}

// params (dotted lists allowed): n, cont v|l|f, cnt, mt, wait, api (n = for_each_n, e = for_each);
// single-valued: check 15|48, yield, settle, cts
MC_HARNESS(fe_one) {
  const int check = (int)P("check", 15);
  const int N = (int)selnum(P, "n", "1");
  const char cont = sel(P, "cont", "v")[0];
  const int cnt = (int)selnum(P, "cnt", "3");
  const uint32_t mt = (uint32_t)selnum(P, "mt", "2147483647");
  const bool wait = selnum(P, "wait", "1") != 0;
  const bool api_n = sel(P, "api", "n") == "n";
  FeLog log;
  log.caller_tid = mc_self_id();
  log.yield_in_body = P("yield", 0) != 0;
  if (check == 48) log.allowed = std::max<uint32_t>(1, mt);
  std::string why;
  {
    dispenso::ThreadPool pool((size_t)N);
    settle(pool, N, P("settle", 1) != 0);
    if (P("cts", 0)) {
      dispenso::ConcurrentTaskSet ts(pool);
      why = fe_dispatch(cont, ts, log, 0, cnt, mt, wait, api_n, true);
    } else {
      dispenso::TaskSet ts(pool);
      why = fe_dispatch(cont, ts, log, 0, cnt, mt, wait, api_n, true);
    }
  }
  if (check == 15)
    MC_CHECK(why.empty(), "C15: %s: %s n=%d maxThreads=%u wait=%d poolThreads=%d %s", why.c_str(), cont_name(cont), cnt, mt, (int)wait, N, api_n ? "for_each_n" : "for_each");
  if (log.peak.get() >= 2) mc::cover("concurrent_applications");
  if (log.allowed >= 2 && (unsigned)log.peak.get() == log.allowed) mc::cover("peak_equals_maxThreads");
  if (log.on_worker.get()) mc::cover("applied_on_worker");
  if (!wait) mc::cover("returned_before_wait");
  mc::observe("peak", log.peak.get());
}
