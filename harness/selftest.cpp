// Engine self-tests: toy programs with known answers. bin/selftest asserts verdicts and counts.
#include "mc_harness.h"
#include <linux/futex.h>
#include <sys/syscall.h>
#include <unistd.h>

static long fut(int* a, int op, int v, const struct timespec* ts = nullptr) { return syscall(SYS_futex, a, op, v, ts, nullptr, 0); }

// lost update: load; store from two threads. Violation needs one preemption.
MC_HARNESS(lost_update) {
  std::atomic<int> x{0};
  auto inc = [&] {
    int v = x.load(std::memory_order_relaxed);
    x.store(v + 1, std::memory_order_relaxed);
  };
  mc::spawn(inc);
  mc::spawn(inc);
  mc::join_all();
  mc::observe("x", x.load());
  MC_CHECK(x.load() == 2, "lost update: x=%d", x.load());
}

MC_HARNESS(atomic_inc) {
  std::atomic<int> x{0};
  auto inc = [&] { x.fetch_add(1); };
  mc::spawn(inc);
  mc::spawn(inc);
  mc::join_all();
  MC_CHECK(x.load() == 2, "x=%d", x.load());
}

MC_HARNESS(abba) {
  std::mutex a, b;
  mc::spawn([&] {
    std::lock_guard<std::mutex> l1(a);
    std::lock_guard<std::mutex> l2(b);
  });
  mc::spawn([&] {
    std::lock_guard<std::mutex> l1(b);
    std::lock_guard<std::mutex> l2(a);
  });
  mc::join_all();
}

// check-then-wait without re-check in the kernel compare: classic lost wakeup
MC_HARNESS(lost_wakeup) {
  std::atomic<int> flag{0};
  int ftx = 0;
  mc::spawn([&] {
    if (flag.load() == 0) fut(&ftx, FUTEX_WAIT_PRIVATE, 0); // waits on a word nobody changes
  });
  flag.store(1);
  fut(&ftx, FUTEX_WAKE_PRIVATE, 1);
  mc::join_all();
}
// correct twin: the futex word itself is the flag
MC_HARNESS(wakeup_ok) {
  union {
    int ftx;
    std::atomic<int> flag;
  } u;
  u.ftx = 0;
  mc::spawn([&] {
    while (u.flag.load() == 0) fut(&u.ftx, FUTEX_WAIT_PRIVATE, 0);
  });
  u.flag.store(1);
  fut(&u.ftx, FUTEX_WAKE_PRIVATE, 1);
  mc::join_all();
}

// two waiters, wake one: which one continues first depends on the kernel's pick
MC_HARNESS(wakepick) {
  union {
    int ftx;
    std::atomic<int> gen;
  } u;
  u.ftx = 0;
  mc::Shared<int> order{0}, first{-1};
  std::atomic<int> parked{0};
  for (int i = 0; i < 2; i++)
    mc::spawn([&, i] {
      parked.fetch_add(1);
      while (u.gen.load() == 0) fut(&u.ftx, FUTEX_WAIT_PRIVATE, 0);
      if (order.add(1) == 0) first.set(i);
    });
  // wait (model-level) until both are really blocked in the futex: 2 live children, both parked, and
  // nothing else can run
  mc::block_until([&] { return parked.a_.load() == 2; });
  for (int k = 0; k < 6; k++) mc::point();
  u.gen.store(1);
  fut(&u.ftx, FUTEX_WAKE_PRIVATE, 1);
  mc::block_until([&] { return order.get() >= 1; });
  mc::observe("first", first.get());
  fut(&u.ftx, FUTEX_WAKE_PRIVATE, 1);
  mc::join_all();
}

// Peterson with seq_cst: mutual exclusion holds under SC
MC_HARNESS(peterson) {
  std::atomic<int> flag[2];
  flag[0].store(0);
  flag[1].store(0);
  std::atomic<int> turn{0};
  mc::Shared<int> in_cs{0};
  for (int i = 0; i < 2; i++)
    mc::spawn([&, i] {
      flag[i].store(1);
      turn.store(1 - i);
      while (flag[1 - i].load() == 1 && turn.load() == 1 - i) {
      }
      MC_CHECK(in_cs.add(1) == 0, "mutual exclusion violated");
      mc::point();
      in_cs.add(-1);
      flag[i].store(0);
    });
  mc::join_all();
}

// message passing with a relaxed/release flag: silent under asan, TSan reports the relaxed one
static void mp(bool release) {
  int data = 0;
  std::atomic<int> flag{0};
  mc::spawn([&] {
    data = 42;
    flag.store(1, release ? std::memory_order_release : std::memory_order_relaxed);
  });
  mc::spawn([&] {
    if (flag.load(release ? std::memory_order_acquire : std::memory_order_relaxed) == 1) {
      MC_CHECK(data == 42, "stale data");
      mc::cover("saw_flag");
    }
  });
  mc::join_all();
}
MC_HARNESS(mp_relaxed) { mp(false); }
MC_HARNESS(mp_release) { mp(true); }

// bounded spins must not be called livelocks; an unbounded one must
MC_HARNESS(spin_bounded) {
  std::atomic<int> flag{0};
  long iters = P("iters", 16);
  mc::spawn([&] {
    for (long i = 0; i < iters; i++)
      if (flag.load(std::memory_order_acquire)) break;
  });
  mc::join_all();
}
MC_HARNESS(spin_forever) {
  std::atomic<int> flag{0};
  mc::spawn([&] {
    while (!flag.load(std::memory_order_acquire)) {
    }
  });
  mc::join_all();
}
MC_HARNESS(spin_then_set) {
  std::atomic<int> flag{0};
  mc::spawn([&] {
    while (!flag.load(std::memory_order_acquire)) {
    }
  });
  mc::spawn([&] { flag.store(1, std::memory_order_release); });
  mc::join_all();
}

// a timed wait nobody notifies must see exactly its timeout on the virtual clock
MC_HARNESS(timed_wait) {
  int ftx = 0;
  struct timespec ts;
  ts.tv_sec = 0;
  ts.tv_nsec = 100000000;
  uint64_t t0 = mc::now_ns();
  long r = fut(&ftx, FUTEX_WAIT_PRIVATE, 0, &ts);
  uint64_t t1 = mc::now_ns();
  MC_CHECK(r == -1 && errno == ETIMEDOUT, "expected timeout");
  MC_CHECK(t1 - t0 >= 100000000ULL && t1 - t0 < 100100000ULL, "virtual clock advanced %llu ns", (unsigned long long)(t1 - t0));
}

MC_HARNESS(leak) {
  int* p = new int[10];
  p[0] = 1;
  mc::observe("p", p[0]);
  p = nullptr;
}
MC_HARNESS(tracked_leak) {
  void* mem = malloc(sizeof(mc::Tracked<int>));
  new (mem) mc::Tracked<int>(5);
  free(mem);
}
MC_HARNESS(heap_overflow) {
  int* p = new int[4];
  volatile int idx = 4;
  p[idx] = 1;
  delete[] p;
}

MC_HARNESS(choose3) {
  int c = mc::choose(3);
  mc::observe("c", c);
  MC_CHECK(c != 2 || P("fail", 0) == 0, "chose 2");
}

MC_HARNESS(perf_incs) {
  std::atomic<int> x{0};
  long n = P("n", 4), t = P("t", 3);
  for (long i = 0; i < t; i++)
    mc::spawn([&] {
      for (long k = 0; k < n; k++) x.fetch_add(1, std::memory_order_relaxed);
    });
  mc::join_all();
  MC_CHECK(x.load() == n * t, "x=%d", x.load());
}

// ---- weak-memory layer (opt.wm=1)
// store buffering: both threads may read 0 unless the accesses are seq_cst
static void sb(std::memory_order st, std::memory_order ld, bool fence) {
  std::atomic<int> x{0}, y{0};
  mc::Shared<int> r1{-1}, r2{-1};
  mc::spawn([&] {
    x.store(1, st);
    if (fence) std::atomic_thread_fence(std::memory_order_seq_cst);
    r1.set(y.load(ld));
  });
  mc::spawn([&] {
    y.store(1, st);
    if (fence) std::atomic_thread_fence(std::memory_order_seq_cst);
    r2.set(x.load(ld));
  });
  mc::join_all();
  mc::observe("r", r1.get() * 2 + r2.get());
  MC_CHECK(!(r1.get() == 0 && r2.get() == 0), "store buffering: both loads read 0");
}
MC_HARNESS(sb_relaxed) { sb(std::memory_order_relaxed, std::memory_order_relaxed, false); }
MC_HARNESS(sb_relacq) { sb(std::memory_order_release, std::memory_order_acquire, false); }
MC_HARNESS(sb_seqcst) { sb(std::memory_order_seq_cst, std::memory_order_seq_cst, false); }
MC_HARNESS(sb_fenced) { sb(std::memory_order_relaxed, std::memory_order_relaxed, true); }
// message passing through two atomics: with release/acquire the reader of flag==1 must see data==42
static void mp_atomic(std::memory_order st, std::memory_order ld) {
  std::atomic<int> data{0}, flag{0};
  mc::spawn([&] {
    data.store(42, std::memory_order_relaxed);
    flag.store(1, st);
  });
  mc::spawn([&] {
    if (flag.load(ld) == 1) {
      int d = data.load(std::memory_order_relaxed);
      mc::cover("saw_flag");
      MC_CHECK(d == 42, "message passing: flag seen but data is %d", d);
    }
  });
  mc::join_all();
}
MC_HARNESS(mpa_relaxed) { mp_atomic(std::memory_order_relaxed, std::memory_order_relaxed); }
MC_HARNESS(mpa_relacq) { mp_atomic(std::memory_order_release, std::memory_order_acquire); }
// Peterson with release/acquire only is broken under weak memory
MC_HARNESS(peterson_weak) {
  std::atomic<int> flag[2];
  flag[0].store(0);
  flag[1].store(0);
  std::atomic<int> turn{0};
  mc::Shared<int> in_cs{0};
  for (int i = 0; i < 2; i++)
    mc::spawn([&, i] {
      flag[i].store(1, std::memory_order_release);
      turn.store(1 - i, std::memory_order_release);
      while (flag[1 - i].load(std::memory_order_acquire) == 1 && turn.load(std::memory_order_acquire) == 1 - i) {
      }
      MC_CHECK(in_cs.add(1) == 0, "mutual exclusion violated");
      mc::point();
      in_cs.add(-1);
      flag[i].store(0, std::memory_order_release);
    });
  mc::join_all();
}
