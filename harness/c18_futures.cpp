// C18 (fget): a Future's functor runs exactly once and every getter sees its result.
// C19 (fthen, fwhen): then() continuations and when_all / when_any respect readiness.
// C20 (cev_timed, fut_timed): timed waits - ready means done, timeout means time elapsed, a timed wait
//      runs a not-yet-started functor only for a deferred future.
// See c18_futures.notes.md for the parameter tables.
#include "mc_harness.h"
#include <dispenso/completion_event.h>
#include <dispenso/future.h>
#include <dispenso/schedulable.h>
#include <dispenso/task_set.h>
#include <dispenso/thread_pool.h>
#include <cstring>
#include <unistd.h>

namespace {

// ------------------------------------------------------------------------------------------------
// process-wide state of NewThreadInvoker: the tracker singleton and the drain registrar are created
// once in the parent (their guards would otherwise be scheduling points of the first execution only);
// every harness that used the invoker drains the tracker (joins its threads, in the model) before
// its body returns, so the tracker is empty again at the start of the next execution.
void prewarm() {
  dispenso::detail::ensureNewThreadDrainRegistered();
  (void)dispenso::NewThreadInvoker::getTracker();
}
mc::HookSetter hooks(prewarm, nullptr);

void drain_new_threads() { dispenso::detail::drainNewThreadInvokerThreads(); }

// A user-defined Schedulable ("or similar type that has function schedule", future.h): keeps the
// function until somebody calls run(). Gives the harness a completer thread that is exactly one
// OnceFunction invocation, so the races with waiters / then() are a few operations long.
struct ManualInvoker {
  dispenso::OnceFunction fn;
  mc::Shared<int> has{0};
  void schedule(dispenso::OnceFunction f) {
    fn = std::move(f);
    has.set(1);
  }
  void schedule(dispenso::OnceFunction f, dispenso::ForceQueuingTag) {
    fn = std::move(f);
    has.set(2);
  }
  void run() {
    MC_CHECK(has.get() != 0, "harness bug: ManualInvoker::run without a function");
    has.set(0);
    fn();
  }
};

struct Tagged {
  int tag;
};

// mc::cover() from several threads: the engine compares/copies the name with strncmp/strncpy, which TSan
// intercepts even though the engine itself is uninstrumented, and reports as a race on the engine's own
// table. The accesses are harness mechanics, so they are excluded like block_until predicates are.
inline void cover(const char* name) {
  mc::TsanIgnore ig;
  mc::cover(name);
}

// A parameter value "x|y|z" is a data choice explored exhaustively inside the run (mc::choose, cost 0): it folds
// several cheap configurations into one process. The pick is part of the outcome digest and of the verbose log.
inline std::string alt(const mc::Params& P, const char* key, const char* def) {
  std::string v = P.s(key, def);
  if (v.find('|') == std::string::npos) return v;
  std::vector<std::string> parts;
  size_t from = 0;
  for (;;) {
    size_t bar = v.find('|', from);
    parts.push_back(v.substr(from, bar == std::string::npos ? bar : bar - from));
    if (bar == std::string::npos) break;
    from = bar + 1;
  }
  int i = mc::choose((int)parts.size());
  mc::observe(key, i);
  mc_log("   [config %s=%s]\n", key, parts[(size_t)i].c_str());
  return parts[(size_t)i];
}
inline long alt_num(const mc::Params& P, const char* key, long def) {
  if (!P.has(key)) return def;
  return atol(alt(P, key, "0").c_str());
}

// Every thread's first use of a small-buffer size class fills its thread-local cache (several hundred
// stores). Doing that up front, while no other thread is schedulable, keeps those steps out of the part of
// the execution where they would each be a preemption point.
inline void warm_small_buffers() {
  dispenso::deallocSmallBuffer<32>(dispenso::allocSmallBuffer<32>());
  dispenso::deallocSmallBuffer<64>(dispenso::allocSmallBuffer<64>());
  dispenso::deallocSmallBuffer<128>(dispenso::allocSmallBuffer<128>());
}

// Start / exit gate for helper threads.
//  * start: helpers are started one at a time; each warms its caches and parks at model level (a parked
//    thread is not schedulable, so the set-up that follows is explored with a single runnable harness thread);
//    T0 builds the objects, then opens the gate.
//  * exit: a thread that used the small-buffer allocator returns its cache to the central store from a
//    thread-local destructor (~1000 atomic operations). Helpers therefore stay parked after their work and
//    are let go one at a time by finish(), when nothing else is running, instead of interleaving that
//    bookkeeping with the operations under test.
//  * publication: open() is a release and the helper's wake-up an acquire on a real (unscheduled) atomic, as
//    any program handing a Future to another thread would have; likewise work-done -> wait_done(). Without
//    them TSan would (rightly) report the harness, since mc::Shared is relaxed.
struct Gate {
  mc::Shared<int> parked{0}, open_{0}, done{0}, exit_turn{0};
  mc::real_atomic<int> pub_{0}, done_pub_{0};
  int started = 0;
  template <class F>
  void spawn(F f) {
    int want = ++started;
    mc::spawn([this, f, want]() mutable {
      warm_small_buffers();
      parked.add(1);
      mc::block_until([&] { return open_.get() != 0; });
      (void)pub_.load(std::memory_order_acquire);
      f();
      done_pub_.fetch_add(1, std::memory_order_release);
      done.add(1);
      mc::block_until([&] { return exit_turn.get() >= want; });
    });
    mc::block_until([&] { return parked.get() >= want; });
  }
  void open() {
    pub_.store(1, std::memory_order_release);
    open_.set(1);
  }
  // wait until every helper has finished its work (a helper that cannot is reported as a deadlock)
  void wait_done() {
    mc::block_until([&] { return done.get() >= started; });
    (void)done_pub_.load(std::memory_order_acquire);
  }
  // let the helpers exit one after the other (mc::join_all() afterwards)
  void finish() {
    wait_done();
    for (int i = 1; i <= started; i++) {
      int live = mc_live_threads();
      exit_turn.set(i);
      mc::block_until([&] { return mc_live_threads() < live; });
    }
  }
};

// set around every timed wait of the calling thread; the functors look at it
thread_local int t_in_timed_wait = 0;
// set around every then() call: 1 = the antecedent was not ready just before the call, 2 = it was
thread_local int t_in_then = 0;

inline std::launch apol_of(long pol) { return (pol & 1) ? std::launch::async : dispenso::kNotAsync; }
inline std::launch dpol_of(long pol) { return (pol & 2) ? std::launch::deferred : dispenso::kNotDeferred; }

template <class R>
inline dispenso::detail::FutureImplBase<R>* impl_of(const dispenso::Future<R>& f) {
  return f.impl_;
}
template <class R>
inline int refs_of(const dispenso::Future<R>& f) {
  return (int)f.impl_->refCount_.a_.load(std::memory_order_relaxed);
}
template <class R>
inline int status_of(const dispenso::Future<R>& f) {
  return f.impl_->status_.status_.a_.load(std::memory_order_relaxed);
}

// =================================================================================================
// C18
// =================================================================================================
struct GetCtx {
  mc::Shared<int> calls{0};
  mc::Shared<int> finished{0};
  mc::Shared<int> runner{-1};
  mc::Shared<uintptr_t> addr{0};
  mc::Shared<int> gets{0};
  mc::Shared<int> ran_in_timed{0};
  int ref_target = 5;
  int creator = 0;

  void in_functor() {
    int prev = calls.add(1);
    MC_CHECK(prev == 0, "the functor was invoked a second time");
    runner.set(mc_self_id());
    if (t_in_timed_wait) ran_in_timed.set(1);
    mc::point(); // other threads may observe the running state
    finished.set(1);
  }
  void same_addr(const void* p) {
    uintptr_t e = 0;
    if (!addr.cas(e, (uintptr_t)p)) MC_CHECK(e == (uintptr_t)p, "two get() calls returned different result objects");
  }
};

struct ValKind {
  typedef mc::Tracked<int> R;
  static R produce(GetCtx& c) {
    c.in_functor();
    return R(41);
  }
  static void check_get(GetCtx& c, const dispenso::Future<R>& f) {
    const R& r = f.get();
    MC_CHECK(c.finished.get() == 1, "get() returned before the functor finished");
    mc_track_use(&r); // the result object is alive
    MC_CHECK(r.v == 41, "get() returned value %d, the functor produced 41", r.v);
    c.same_addr(&r);
  }
};
struct RefKind {
  typedef int& R;
  static int& produce(GetCtx& c) {
    c.in_functor();
    return c.ref_target;
  }
  static void check_get(GetCtx& c, const dispenso::Future<int&>& f) {
    int& r = f.get();
    MC_CHECK(c.finished.get() == 1, "get() returned before the functor finished");
    MC_CHECK(&r == &c.ref_target, "get() returned a reference to a different object");
    c.same_addr(&r);
  }
};
struct VoidKind {
  typedef void R;
  static void produce(GetCtx& c) { c.in_functor(); }
  static void check_get(GetCtx& c, const dispenso::Future<void>& f) {
    f.get();
    MC_CHECK(c.finished.get() == 1, "get() returned before the functor finished");
  }
};
struct ThrowKind {
  typedef mc::Tracked<int> R;
  static R produce(GetCtx& c) {
    c.in_functor();
    throw Tagged{7};
  }
  static void check_get(GetCtx& c, const dispenso::Future<R>& f) {
    int tag = -1;
    try {
      (void)f.get();
    } catch (const Tagged& t) {
      tag = t.tag;
    }
    MC_CHECK(c.finished.get() == 1, "get() returned before the functor finished");
    MC_CHECK(tag == 7, "get() did not rethrow the functor's exception (tag %d)", tag);
  }
};

// one thread's program over its own handle h. `orig` is T0's handle (only read here).
//   g get   w wait   z wait_for(0)   u wait_until(now)   r is_ready
//   c copy-construct another handle from h and keep it to the end of the program
//   x h = orig (copy-assign)   d h = Future() (drop)   m h = <another, ready future> (move-assign)
//   e move h into a fresh handle and destroy that one
template <class K>
void get_program(GetCtx& c, dispenso::Future<typename K::R>& h, const dispenso::Future<typename K::R>& orig, const std::string& prog, bool deferred) {
  typedef dispenso::Future<typename K::R> Fut;
  std::vector<Fut> extra;
  extra.reserve(8);
  for (char op : prog) {
    if (!h.valid() && op != 'x' && op != 'c') continue;
    switch (op) {
      case 'g':
        K::check_get(c, h);
        c.gets.add(1);
        break;
      case 'w':
        h.wait();
        MC_CHECK(c.finished.get() == 1, "wait() returned before the functor finished");
        MC_CHECK(h.is_ready(), "is_ready() false after wait() returned");
        break;
      case 'z': {
        t_in_timed_wait = 1;
        std::future_status st = h.wait_for(std::chrono::seconds(0));
        t_in_timed_wait = 0;
        if (st == std::future_status::ready) {
          MC_CHECK(c.finished.get() == 1, "wait_for(0) reported ready before the functor finished");
          MC_CHECK(h.is_ready(), "is_ready() false after wait_for() reported ready");
        }
        if (c.ran_in_timed.get()) {
          MC_CHECK(deferred, "wait_for ran the functor of a future created without std::launch::deferred");
          cover("timed_wait_ran_functor");
        }
        break;
      }
      case 'u': {
        auto now = std::chrono::steady_clock::now();
        t_in_timed_wait = 1;
        std::future_status st = h.wait_until(now);
        t_in_timed_wait = 0;
        if (c.ran_in_timed.get()) {
          MC_CHECK(deferred, "wait_until ran the functor of a future created without std::launch::deferred");
          cover("timed_wait_ran_functor");
        }
        if (st == std::future_status::ready) {
          MC_CHECK(c.finished.get() == 1, "wait_until(now) reported ready before the functor finished");
          MC_CHECK(h.is_ready(), "is_ready() false after wait_until() reported ready");
        }
        break;
      }
      case 'r':
        if (h.is_ready()) MC_CHECK(c.finished.get() == 1, "is_ready() true before the functor finished");
        break;
      case 'c':
        if (h.valid()) extra.push_back(h);
        break;
      case 'x':
        if (orig.valid()) h = orig; // (never used together with drop=1)
        break;
      case 'd':
        h = Fut();
        break;
      case 'm': {
        Fut other(orig); // a second reference taken from the original ...
        h = std::move(other); // ... move-assigned over this one (same state: no-op branch) ...
        Fut fresh;
        fresh = std::move(h); // ... and moved out again
        break;
      }
      case 'e': {
        Fut sink(std::move(h));
        break;
      }
      default:
        break;
    }
  }
}

template <class K>
void fget_impl(const mc::Params& P) {
  typedef typename K::R R;
  typedef dispenso::Future<R> Fut;
  std::string sched = alt(P, "sched", "pool");
  long n = P("n", 1), pol = alt_num(P, "pol", 2);
  std::string pa = P.s("a", "g"), pb = P.s("b", "cw"), pc = P.s("c", "d");
  if (P.has("abc")) { // the three programs as one parameter "a.b.c", so that alternatives are picked jointly
    std::string abc = alt(P, "abc", "g.cw.d");
    size_t d1 = abc.find('.'), d2 = abc.find('.', d1 + 1);
    MC_CHECK(d1 != std::string::npos && d2 != std::string::npos, "harness: abc must be a.b.c");
    pa = abc.substr(0, d1);
    pb = abc.substr(d1 + 1, d2 - d1 - 1);
    pc = abc.substr(d2 + 1);
  }
  bool deferred = (pol & 2) != 0;
  GetCtx c;
  c.creator = mc_self_id();
  warm_small_buffers();
  auto mk = [&c] { return [&c]() -> R { return K::produce(c); }; }; // Future takes the functor by rvalue only
  {
    std::unique_ptr<dispenso::ThreadPool> pool;
    std::unique_ptr<dispenso::TaskSet> ts;
    std::unique_ptr<dispenso::ConcurrentTaskSet> cts;
    ManualInvoker manual;
    Fut orig, forb, forc;
    Gate gate;
    // drop=1: T0 gives B and C their own handles, runs its program and then drops the original while B, C and
    // whoever runs the functor may still be at work: the last reference can be released by any of them.
    bool drop = P("drop", 0) != 0;
    // B, C and the manual completer exist before the pool does, parked at model level: the pool's
    // start-up is then explored with one runnable harness thread instead of three.
    if (pb != "-") gate.spawn([&] {
      Fut mine = drop ? Fut(std::move(forb)) : Fut(orig); // B copies the handle A is using (drop=0)
      get_program<K>(c, mine, orig, pb, deferred);
    });
    if (pc != "-") gate.spawn([&] {
      Fut mine(std::move(forc)); // C owns a copy that T0 made before releasing it
      get_program<K>(c, mine, orig, pc, deferred);
    });
    if (sched == "man") gate.spawn([&] {
      manual.run(); // the completer: exactly one OnceFunction call
    });
    if (sched == "pool" || sched == "ts" || sched == "cts") pool.reset(new dispenso::ThreadPool((size_t)n));
    // park=1: a quiet period first. A timed sleep expires only when nothing else can run, i.e. when every
    // worker is parked in its futex wait; the future is then handed to a sleeping pool (placed path: claim a
    // sleeper, push to its steal ring, wake it). park=0: the workers are still starting up (central queue).
    if (pool && n > 0 && P("park", 1)) {
      usleep(50000);
      cover("pool_parked");
    }
    if (sched == "pool")
      orig = Fut(mk(), *pool, apol_of(pol), dpol_of(pol));
    else if (sched == "ts") {
      ts.reset(new dispenso::TaskSet(*pool));
      orig = Fut(mk(), *ts, apol_of(pol), dpol_of(pol));
    } else if (sched == "cts") {
      cts.reset(new dispenso::ConcurrentTaskSet(*pool));
      orig = Fut(mk(), *cts, apol_of(pol), dpol_of(pol));
    } else if (sched == "imm")
      orig = Fut(mk(), dispenso::kImmediateInvoker, apol_of(pol), dpol_of(pol));
    else if (sched == "nt")
      orig = Fut(mk(), dispenso::kNewThreadInvoker, apol_of(pol), dpol_of(pol));
    else if (sched == "man")
      orig = Fut(mk(), manual, apol_of(pol), dpol_of(pol));
    else
      mc::fail("harness: unknown sched");
    MC_CHECK(orig.valid(), "a constructed Future is not valid()");
    if (pc != "-") forc = orig;
    if (pb != "-" && drop) forb = orig;

    gate.open(); // B, C and the completer were parked (not schedulable) while the pool started
    {
      Fut& mine = orig;
      std::string prog;
      for (char op : pa)
        if (strchr("gwzur", op)) prog.push_back(op); // A never mutates the handle B copies from
      get_program<K>(c, mine, orig, prog, deferred);
    }
    if (drop) {
      orig = Fut();
      gate.wait_done();
      if (ts) ts->wait();
      if (cts) cts->wait();
      ts.reset();
      cts.reset();
      pool.reset();
      if (sched == "nt") drain_new_threads();
      if (sched == "man") mc::block_until([&] { return manual.has.get() == 0; });
      MC_CHECK(c.calls.get() == 1, "the functor ran %d times although every handle was dropped only after scheduling", c.calls.get());
      cover("all_handles_dropped");
      mc::observe("runner", c.runner.get());
      gate.finish();
      mc::join_all();
      return; // a result that was never destroyed is reported by the lifetime registry when the body returns
    }
    gate.wait_done();
    if (ts) {
      ts->wait();
      MC_CHECK(orig.is_ready(), "TaskSet::wait() returned but the future scheduled on it is not ready");
    }
    if (cts) {
      cts->wait();
      MC_CHECK(orig.is_ready(), "ConcurrentTaskSet::wait() returned but the future scheduled on it is not ready");
    }
    // make sure somebody ran it (an async, non-deferred future nobody called get()/wait() on)
    orig.wait();
    ts.reset();
    cts.reset();
    pool.reset(); // every queued OnceFunction has been invoked now
    if (sched == "nt") drain_new_threads();
    MC_CHECK(c.calls.get() == 1, "the functor ran %d times", c.calls.get());
    MC_CHECK(c.finished.get() == 1, "functor did not finish");
    MC_CHECK(refs_of(orig) == 1, "reference count is %d at quiescence with exactly one live handle", refs_of(orig));
    K::check_get(c, orig);
    int rn = c.runner.get();
    cover(rn == c.creator ? "ran_on_T0" : "ran_elsewhere");
    mc::observe("runner", rn);
    mc::observe("gets", c.gets.get());
    gate.finish();
    mc::join_all();
  }
}


// =================================================================================================
// C19: then()
// =================================================================================================
// params
//   comp   how the antecedent completes: man (a completer thread invokes its OnceFunction), pool (a parked
//          ThreadPool(n) worker), pre (ready before then() is called), self (nobody: only get()/wait() on a
//          continuation's future can pull it through, deferred)
//   ts     schedulable given to then(): imm | pool | ts | cts | nt
//   pol    policies given to then(): bit0 async, bit1 deferred
//   b, c   number of continuations registered by T0 ("B") and by a second thread ("C"), 0..2
//   use    what the registering thread does with the returned future:
//            b  nothing - it blocks (model level) until the continuation has run: a lost link is a deadlock
//            g  get(): may pull the continuation (and the antecedent) through inline
//            z  wait_for(0) then b
//   chain  1: T0's first continuation gets a continuation of its own
//   akind  val | thr : the antecedent returns 41 / throws Tagged{7}
struct ThenCtx {
  mc::Shared<int> ante_calls{0}, ante_finished{0};
  mc::Shared<int> ran[8];
  mc::Shared<int> done[8];
  mc::Shared<int> runner[8];
  bool ante_throws = false;
  int ante() {
    int prev = ante_calls.add(1);
    MC_CHECK(prev == 0, "the antecedent's functor was invoked a second time");
    mc::point();
    ante_finished.set(1);
    if (ante_throws) throw Tagged{7};
    return 41;
  }
  // body of continuation `id`
  int cont(int id, dispenso::Future<int>&& a) {
    int prev = ran[id].add(1);
    MC_CHECK(prev == 0, "continuation %d was invoked a second time", id);
    runner[id].set(mc_self_id());
    // where it runs: inside the registering then() call (found ready at once, or pushed its link and then
    // drained the chain itself after the re-check), or on whoever completed the antecedent / a pool thread
    if (t_in_then == 1) cover("then_inline_late_ready");
    if (t_in_then == 2) cover("then_inline_ready_before");
    if (t_in_then == 0) cover("cont_not_in_then");
    MC_CHECK(a.valid(), "continuation %d received an invalid future", id);
    MC_CHECK(a.is_ready(), "continuation %d started while its antecedent is not ready", id);
    MC_CHECK(ante_finished.get() == 1, "continuation %d started before the antecedent's functor finished", id);
    int v = -1, tag = -1;
    try {
      v = a.get();
    } catch (const Tagged& t) {
      tag = t.tag;
    }
    if (ante_throws)
      MC_CHECK(tag == 7, "continuation %d: antecedent.get() did not rethrow", id);
    else
      MC_CHECK(v == 41, "continuation %d saw antecedent value %d instead of 41", id, v);
    mc::point();
    done[id].set(1);
    return 100 + id;
  }
  // continuation of a continuation
  int cont2(int id, int parent, dispenso::Future<int>&& a) {
    int prev = ran[id].add(1);
    MC_CHECK(prev == 0, "continuation %d was invoked a second time", id);
    MC_CHECK(a.is_ready(), "continuation %d started while its antecedent (continuation %d) is not ready", id, parent);
    MC_CHECK(done[parent].get() == 1, "continuation %d started before continuation %d finished", id, parent);
    MC_CHECK(a.get() == 100 + parent, "continuation %d saw the wrong antecedent value", id);
    done[id].set(1);
    return 100 + id;
  }
};

struct ThenEnv {
  std::unique_ptr<dispenso::ThreadPool> pool;
  std::unique_ptr<dispenso::TaskSet> ts;
  std::unique_ptr<dispenso::ConcurrentTaskSet> cts;
  std::string tsched;
  long pol = 2;
  template <class F>
  dispenso::Future<int> then(dispenso::Future<int>& f, F&& fn) {
    struct Mark {
      Mark(int v) { t_in_then = v; }
      ~Mark() { t_in_then = 0; }
    } mark(status_of(f) == 2 ? 2 : 1);
    std::launch a = apol_of(pol), d = dpol_of(pol);
    if (tsched == "imm") return f.then(std::forward<F>(fn), dispenso::kImmediateInvoker, a, d);
    if (tsched == "pool") return f.then(std::forward<F>(fn), *pool, a, d);
    if (tsched == "ts") return f.then(std::forward<F>(fn), *ts, a, d);
    if (tsched == "cts") return f.then(std::forward<F>(fn), *cts, a, d);
    if (tsched == "nt") return f.then(std::forward<F>(fn), dispenso::kNewThreadInvoker, a, d);
    mc::fail("harness: unknown then-schedulable");
    return dispenso::Future<int>();
  }
};

void use_then_future(ThenCtx& c, dispenso::Future<int>& r, int id, char use, bool deferred) {
  MC_CHECK(r.valid(), "then() returned an invalid future");
  if (use == 'z') {
    t_in_timed_wait = id + 1;
    std::future_status st = r.wait_for(std::chrono::seconds(0));
    t_in_timed_wait = 0;
    if (st == std::future_status::ready) MC_CHECK(c.done[id].get() == 1, "wait_for: then-future %d ready before its continuation finished", id);
    (void)deferred;
  }
  if (use == 'g') {
    int v = r.get();
    MC_CHECK(c.done[id].get() == 1, "get() on then-future %d returned before its continuation finished", id);
    MC_CHECK(v == 100 + id, "then-future %d holds %d", id, v);
    cover("then_get");
  } else {
    mc::block_until([&] { return c.done[id].get() == 1; }); // nobody pulls: the chain itself must deliver
    mc::block_until([&] { return status_of(r) == 2; });
    MC_CHECK(r.is_ready(), "then-future %d not ready after its continuation finished", id);
  }
}

void fthen_impl(const mc::Params& P) {
  std::string comp = P.s("comp", "man");
  long n = P("n", 1), nb = P("b", 1), nc = P("c", 0);
  std::string use = alt(P, "use", "b");
  bool chain = P("chain", 0) != 0;
  warm_small_buffers();
  ThenCtx c;
  c.ante_throws = alt(P, "akind", "val") == "thr";
  ThenEnv env;
  env.tsched = alt(P, "ts", "imm");
  env.pol = alt_num(P, "pol", 2);
  bool deferred = (env.pol & 2) != 0;
  bool used_nt = env.tsched == "nt";
  {
    ManualInvoker manual;
    Gate gate;
    dispenso::Future<int> ante;
    std::vector<dispenso::Future<int>> held; // then-futures, destroyed before the schedulables
    held.reserve(8);
    mc::Shared<int> regs_done{0};
    if (nc > 0) gate.spawn([&] {
      dispenso::Future<int> mine(ante);
      std::vector<dispenso::Future<int>> my;
      my.reserve(2);
      for (int k = 0; k < nc; k++) {
        int id = 4 + k;
        my.push_back(env.then(mine, [&c, id](dispenso::Future<int>&& a) { return c.cont(id, std::move(a)); }));
      }
      for (int k = 0; k < nc; k++) use_then_future(c, my[k], 4 + k, use[0], deferred);
      regs_done.add(1);
    });
    if (comp == "man") gate.spawn([&] {
      manual.run();
    });
    bool need_pool = comp == "pool" || env.tsched == "pool" || env.tsched == "ts" || env.tsched == "cts";
    if (need_pool) {
      env.pool.reset(new dispenso::ThreadPool((size_t)n));
      if (n > 0 && P("park", 1)) usleep(50000);
    }
    if (env.tsched == "ts") env.ts.reset(new dispenso::TaskSet(*env.pool));
    if (env.tsched == "cts") env.cts.reset(new dispenso::ConcurrentTaskSet(*env.pool));
    auto mk = [&c] { return [&c]() -> int { return c.ante(); }; };
    if (comp == "man" || comp == "self")
      ante = dispenso::Future<int>(mk(), manual, dispenso::kNotAsync, std::launch::deferred);
    else if (comp == "pool")
      ante = dispenso::Future<int>(mk(), *env.pool, std::launch::async, std::launch::deferred);
    else if (comp == "pre")
      ante = dispenso::Future<int>(mk(), dispenso::kImmediateInvoker);
    else
      mc::fail("harness: unknown comp");
    gate.open();
    for (int k = 0; k < nb; k++)
      held.push_back(env.then(ante, [&c, k](dispenso::Future<int>&& a) { return c.cont(k, std::move(a)); }));
    if (chain && nb > 0)
      held.push_back(env.then(held[0], [&c](dispenso::Future<int>&& a) { return c.cont2(2, 0, std::move(a)); }));
    if (comp == "self") {
      // nobody completes the antecedent: only a get() can pull the whole chain through
      MC_CHECK(nb > 0, "harness: comp=self needs b>0");
      int last = chain ? 2 : 0;
      int v = held[chain ? (size_t)nb : 0].get();
      MC_CHECK(v == 100 + last, "get() through an unstarted chain returned %d", v);
      cover("pulled_through");
    }
    if (env.ts) {
      env.ts->wait();
      cover("taskset_wait");
      for (size_t k = 0; k < held.size(); k++) MC_CHECK(held[k].is_ready(), "TaskSet::wait() returned but then-future %zu (registered with the set) is not ready", k);
    }
    for (int k = 0; k < nb; k++) use_then_future(c, held[(size_t)k], k, use[0], deferred);
    if (chain && nb > 0) use_then_future(c, held[(size_t)nb], 2, use[0], deferred);
    gate.wait_done();
    if (env.cts) {
      env.cts->wait();
      cover("taskset_wait");
      for (size_t k = 0; k < held.size(); k++) MC_CHECK(held[k].is_ready(), "ConcurrentTaskSet::wait() returned but then-future %zu is not ready", k);
    }
    ante.wait();
    if (comp == "self") manual.run(); // the stored OnceFunction still holds a reference: invoke it (no-op run)
    env.ts.reset();
    env.cts.reset();
    env.pool.reset();
    if (used_nt) drain_new_threads();
    MC_CHECK(c.ante_calls.get() == 1, "the antecedent's functor ran %d times", c.ante_calls.get());
    int total = 0;
    for (int k = 0; k < nb; k++) {
      MC_CHECK(c.ran[k].get() == 1, "continuation %d ran %d times", k, c.ran[k].get());
      total++;
    }
    for (int k = 0; k < nc; k++) {
      MC_CHECK(c.ran[4 + k].get() == 1, "continuation %d ran %d times", 4 + k, c.ran[4 + k].get());
      total++;
    }
    if (chain && nb > 0) MC_CHECK(c.ran[2].get() == 1, "chained continuation ran %d times", c.ran[2].get());
    for (size_t k = 0; k < held.size(); k++) {
      MC_CHECK(held[k].is_ready(), "then-future %zu not ready at the end", k);
      MC_CHECK(refs_of(held[k]) == 1, "then-future %zu: reference count %d at quiescence with one live handle", k, refs_of(held[k]));
    }
    MC_CHECK(ante.impl_->thenChain_.a_.load(std::memory_order_relaxed) == nullptr, "then-chain not empty at quiescence");
    mc::observe("conts", total);
    for (int k = 0; k < 8; k++)
      if (c.ran[k].get()) mc::observe("cont_runner", k * 16 + c.runner[k].get());
    gate.finish();
    mc::join_all();
  }
}

// =================================================================================================
// C19: when_all / when_any
// =================================================================================================
// params
//   op    all | any        form  it | tup        set   none | ts | cts  (task-set variant, pool of n threads)
//   in    one letter per input (k = length, 0..3; "-" = none): r make_ready_future, i ImmediateInvoker (ready),
//         m manual (completed by a completer thread), p pool future (async on the set's/own pool)
//   ord   order in which the manual inputs are completed, e.g. 021;  split=1: one completer thread per input
//   use   g  T0 calls get() on the result (may run the combinator inline and pull inputs through)
//         w  T0 calls set.wait() first (task-set variants), then checks is_ready()
//         b  T0 blocks (model level) until the result is ready: only the then-callbacks can deliver it
//   obs   1: an observer thread with its own copy polls is_ready() once and, if true, checks the oracle
//   strict 1: also require the result state's reference count to be exact at quiescence (see notes: fails
//         for when_any when the inline path claims the winner)
struct WhenCtx {
  int k = 0;
  mc::Shared<int> calls[4], finished[4];
  int input(int i) {
    int prev = calls[i].add(1);
    MC_CHECK(prev == 0, "input %d: functor invoked a second time", i);
    mc::point();
    finished[i].set(1);
    return 10 + i;
  }
};
typedef dispenso::Future<int> FI;
typedef std::vector<FI> VecFI;

void check_all_it(WhenCtx& c, const dispenso::Future<VecFI>& res, const char* who) {
  const VecFI& v = res.get();
  MC_CHECK((int)v.size() == c.k, "%s: when_all result holds %zu futures for %d inputs", who, v.size(), c.k);
  for (int i = 0; i < c.k; i++) {
    MC_CHECK(v[(size_t)i].valid(), "%s: when_all result element %d is invalid", who, i);
    MC_CHECK(v[(size_t)i].is_ready(), "%s: when_all result is ready but input %d is not", who, i);
    MC_CHECK(c.finished[i].get() == 1, "%s: when_all result is ready but input %d's functor has not finished", who, i);
    MC_CHECK(v[(size_t)i].get() == 10 + i, "%s: when_all result element %d is not input %d", who, i, i);
  }
}
template <class Tuple, size_t I>
struct TupCheck {
  static void go(WhenCtx& c, const Tuple& t, const char* who) {
    TupCheck<Tuple, I - 1>::go(c, t, who);
    const FI& f = std::get<I - 1>(t);
    int i = (int)I - 1;
    MC_CHECK(f.valid(), "%s: when_all tuple element %d is invalid", who, i);
    MC_CHECK(f.is_ready(), "%s: when_all result is ready but input %d is not", who, i);
    MC_CHECK(c.finished[i].get() == 1, "%s: when_all result is ready but input %d's functor has not finished", who, i);
    MC_CHECK(f.get() == 10 + i, "%s: when_all tuple element %d is not input %d", who, i, i);
  }
};
template <class Tuple>
struct TupCheck<Tuple, 0> {
  static void go(WhenCtx&, const Tuple&, const char*) {}
};
template <class Tuple>
void check_all_tup(WhenCtx& c, const dispenso::Future<Tuple>& res, const char* who) {
  const Tuple& t = res.get();
  TupCheck<Tuple, std::tuple_size<Tuple>::value>::go(c, t, who);
}
void check_any(WhenCtx& c, const VecFI& inputs, const dispenso::Future<size_t>& res, const char* who) {
  size_t idx = res.get();
  if (c.k == 0) {
    MC_CHECK(idx == SIZE_MAX, "%s: when_any over no inputs returned %zu, documented SIZE_MAX", who, idx);
    return;
  }
  MC_CHECK(idx != SIZE_MAX, "%s: when_any over %d inputs returned SIZE_MAX", who, c.k);
  MC_CHECK(idx < (size_t)c.k, "%s: when_any returned index %zu with %d inputs", who, idx, c.k);
  MC_CHECK(inputs[idx].is_ready(), "%s: when_any returned index %zu but that input is not ready", who, idx);
  MC_CHECK(c.finished[idx].get() == 1, "%s: when_any returned index %zu whose functor has not finished", who, idx);
  mc::observe("winner", (long)idx);
}

struct WhenEnv {
  std::unique_ptr<dispenso::ThreadPool> pool;
  std::unique_ptr<dispenso::TaskSet> ts;
  std::unique_ptr<dispenso::ConcurrentTaskSet> cts;
};

// Res = result future type; make(env, inputs) builds it; check(res, who) is the oracle
template <class Res, class Make, class Check>
void fwhen_run(const mc::Params& P, WhenCtx& c, Make make, Check check) {
  std::string in = P.s("in", "mm");
  if (in == "-") in = "";
  std::string ord = alt(P, "ord", "");
  std::string set = alt(P, "set", "none"), use = alt(P, "use", "g");
  long n = P("n", 1);
  bool split = P("split", 0) != 0, obs = P("obs", 0) != 0, strict = P("strict", 0) != 0;
  c.k = (int)in.size();
  warm_small_buffers();
  std::vector<int> order;
  for (char ch : ord) order.push_back(ch - '0');
  if (order.empty())
    for (int i = 0; i < c.k; i++)
      if (in[(size_t)i] == 'm') order.push_back(i);
  {
    WhenEnv env;
    ManualInvoker manual[4];
    Gate gate;
    VecFI inputs;
    inputs.reserve(4);
    Res res, res_obs;
    if (split) {
      for (int i : order) {
        gate.spawn([&, i] {
          manual[i].run();
        });
      }
    } else if (!order.empty()) {
      gate.spawn([&] {
        for (int i : order) manual[i].run();
      });
    }
    Gate ogate;
    if (obs) ogate.spawn([&] {
      if (res_obs.is_ready()) {
        check(res_obs, "observer");
        cover("observer_saw_ready");
      }
      res_obs = Res();
    });
    bool need_pool = set != "none" || in.find('p') != std::string::npos;
    if (need_pool) {
      env.pool.reset(new dispenso::ThreadPool((size_t)n));
      if (n > 0 && P("park", 1)) usleep(50000);
    }
    if (set == "ts") env.ts.reset(new dispenso::TaskSet(*env.pool));
    if (set == "cts") env.cts.reset(new dispenso::ConcurrentTaskSet(*env.pool));
    int readyv[4] = {10, 11, 12, 13};
    for (int i = 0; i < c.k; i++) {
      auto fn = [&c, i]() -> int { return c.input(i); };
      switch (in[(size_t)i]) {
        case 'r':
          c.calls[i].set(1);
          c.finished[i].set(1);
          inputs.push_back(dispenso::make_ready_future(readyv[i]));
          break;
        case 'i':
          inputs.push_back(FI(std::move(fn), dispenso::kImmediateInvoker));
          break;
        case 'm':
          inputs.push_back(FI(std::move(fn), manual[i], dispenso::kNotAsync, std::launch::deferred));
          break;
        case 'p':
          inputs.push_back(FI(std::move(fn), *env.pool, std::launch::async, std::launch::deferred));
          break;
        default:
          mc::fail("harness: unknown input kind");
      }
    }
    bool early = P("early", 0) != 0; // completers start before the combinator is built
    if (early) gate.open();
    res = make(env, inputs);
    MC_CHECK(res.valid(), "the combinator returned an invalid future");
    if (obs) {
      res_obs = res;
      ogate.open();
    }
    if (!early) gate.open();
    if (use == "w" && env.ts) {
      env.ts->wait();
      MC_CHECK(res.is_ready(), "TaskSet::wait() returned but the combinator's result is not ready");
      cover("taskset_wait_first");
    } else if (use == "w" && env.cts) {
      env.cts->wait();
      MC_CHECK(res.is_ready(), "ConcurrentTaskSet::wait() returned but the combinator's result is not ready");
      cover("taskset_wait_first");
    } else if (use == "b") {
      mc::block_until([&] { return status_of(res) == 2; });
      cover("delivered_by_callbacks");
    }
    check(res, "T0");
    gate.wait_done();
    ogate.wait_done();
    for (int i = 0; i < c.k; i++) inputs[(size_t)i].wait(); // losers of when_any complete too
    if (env.ts) env.ts->wait();
    if (env.cts) env.cts->wait();
    MC_CHECK(res.is_ready(), "result not ready at the end");
    env.ts.reset();
    env.cts.reset();
    env.pool.reset();
    for (int i = 0; i < c.k; i++) {
      MC_CHECK(c.calls[i].get() == 1, "input %d ran %d times", i, c.calls[i].get());
      if (in[(size_t)i] == 'm' && manual[i].has.get() != 0) manual[i].run();
    }
    check(res, "T0 at quiescence");
    int rc = refs_of(res);
    if (rc != 1) {
      cover("result_refcount_off");
      mc::observe("refcount", rc);
      if (strict) MC_CHECK(false, "combinator result: reference count %d at quiescence with exactly one live handle (its state is never freed)", rc);
    }
    gate.finish();
    ogate.finish();
    mc::join_all();
  }
}

template <size_t K>
struct TupOf;
template <>
struct TupOf<1> {
  typedef std::tuple<FI> type;
};
template <>
struct TupOf<2> {
  typedef std::tuple<FI, FI> type;
};
template <>
struct TupOf<3> {
  typedef std::tuple<FI, FI, FI> type;
};

template <class... A>
dispenso::Future<std::tuple<typename std::decay<A>::type...>> call_all(WhenEnv& e, A&&... a) {
  if (e.ts) return dispenso::when_all(*e.ts, std::forward<A>(a)...);
  if (e.cts) return dispenso::when_all(*e.cts, std::forward<A>(a)...);
  return dispenso::when_all(std::forward<A>(a)...);
}
template <class... A>
dispenso::Future<size_t> call_any(WhenEnv& e, A&&... a) {
  if (e.ts) return dispenso::when_any(*e.ts, std::forward<A>(a)...);
  if (e.cts) return dispenso::when_any(*e.cts, std::forward<A>(a)...);
  return dispenso::when_any(std::forward<A>(a)...);
}

template <size_t K>
void fwhen_all_tup(const mc::Params& P, WhenCtx& c);
template <>
void fwhen_all_tup<1>(const mc::Params& P, WhenCtx& c) {
  typedef dispenso::Future<TupOf<1>::type> Res;
  fwhen_run<Res>(P, c, [](WhenEnv& e, VecFI& in) { return call_all(e, in[0]); }, [&c](const Res& r, const char* who) { check_all_tup(c, r, who); });
}
template <>
void fwhen_all_tup<2>(const mc::Params& P, WhenCtx& c) {
  typedef dispenso::Future<TupOf<2>::type> Res;
  fwhen_run<Res>(P, c, [](WhenEnv& e, VecFI& in) { return call_all(e, in[0], in[1]); }, [&c](const Res& r, const char* who) { check_all_tup(c, r, who); });
}
template <>
void fwhen_all_tup<3>(const mc::Params& P, WhenCtx& c) {
  typedef dispenso::Future<TupOf<3>::type> Res;
  fwhen_run<Res>(P, c, [](WhenEnv& e, VecFI& in) { return call_all(e, in[0], in[1], in[2]); }, [&c](const Res& r, const char* who) { check_all_tup(c, r, who); });
}

void fwhen_impl(const mc::Params& P) {
  std::string op = alt(P, "op", "all"), form = alt(P, "form", "it"), in = P.s("in", "mm");
  if (in == "-") in = "";
  size_t k = in.size();
  WhenCtx c;
  if (op == "all" && form == "it") {
    typedef dispenso::Future<VecFI> Res;
    fwhen_run<Res>(
        P, c,
        [](WhenEnv& e, VecFI& inp) -> Res {
          if (e.ts) return dispenso::when_all(*e.ts, inp.begin(), inp.end());
          if (e.cts) return dispenso::when_all(*e.cts, inp.begin(), inp.end());
          return dispenso::when_all(inp.begin(), inp.end());
        },
        [&c](const Res& r, const char* who) { check_all_it(c, r, who); });
  } else if (op == "all") {
    if (k == 0) {
      typedef dispenso::Future<std::tuple<>> Res;
      fwhen_run<Res>(
          P, c,
          [](WhenEnv& e, VecFI&) -> Res {
            if (e.ts) return dispenso::when_all(*e.ts);
            if (e.cts) return dispenso::when_all(*e.cts);
            return dispenso::when_all();
          },
          [](const Res& r, const char*) { (void)r.get(); });
    } else if (k == 1)
      fwhen_all_tup<1>(P, c);
    else if (k == 2)
      fwhen_all_tup<2>(P, c);
    else
      fwhen_all_tup<3>(P, c);
  } else if (op == "any") {
    typedef dispenso::Future<size_t> Res;
    VecFI* seen = nullptr;
    auto chk = [&c, &seen](const Res& r, const char* who) { check_any(c, *seen, r, who); };
    if (form == "it")
      fwhen_run<Res>(
          P, c,
          [&seen](WhenEnv& e, VecFI& inp) -> Res {
            seen = &inp;
            if (e.ts) return dispenso::when_any(*e.ts, inp.begin(), inp.end());
            if (e.cts) return dispenso::when_any(*e.cts, inp.begin(), inp.end());
            return dispenso::when_any(inp.begin(), inp.end());
          },
          chk);
    else
      fwhen_run<Res>(
          P, c,
          [&seen, k](WhenEnv& e, VecFI& inp) -> Res {
            seen = &inp;
            if (k == 0) {
              if (e.ts) return dispenso::when_any(*e.ts);
              if (e.cts) return dispenso::when_any(*e.cts);
              return dispenso::when_any();
            }
            if (k == 1) return call_any(e, inp[0]);
            if (k == 2) return call_any(e, inp[0], inp[1]);
            return call_any(e, inp[0], inp[1], inp[2]);
          },
          chk);
  } else
    mc::fail("harness: unknown op");
}

// =================================================================================================
// C20
// =================================================================================================
// Virtual time: mc::now_ns() reads the clock without advancing it; steady_clock::now()/system_clock::now()
// advance it by 10 us and return now_ns()+1 s. A timed futex wait expires by jumping the clock to its deadline.
constexpr int64_t kEpochNs = 1000000000LL;

// d=all / api=all: the value is a data choice explored exhaustively inside one run (mc::choose, cost 0)
const int64_t kDurations[] = {-5, 0, 300, 999999, 1000000, 2000000000LL}; // 999999 ns: a value whose conversion to
                                                                          // timespec in waitFor() drops a nanosecond
int64_t pick_duration(const mc::Params& P, const char* key, int64_t def) {
  if (P.s(key, "") == "all") {
    int64_t d = kDurations[mc::choose(6)];
    mc::observe(key, (long)(d % 1000003));
    return d;
  }
  if (!P.has(key)) return def;
  return (int64_t)atoll(alt(P, key, "0").c_str());
}
std::string pick_api(const mc::Params& P, const char* const* names, int n) {
  std::string a = P.s("api", names[0]);
  if (a == "all") {
    int k = mc::choose(n);
    mc::observe("api", k);
    return names[k];
  }
  return a;
}

template <class Rep, class Per>
int64_t as_ns(std::chrono::duration<Rep, Per> d) {
  return std::chrono::duration_cast<std::chrono::nanoseconds>(d).count();
}

// one timed wait on `ev`; returns what the API returned, after checking the C20 oracle
// api: for | fors (duration in seconds as double) | until (steady_clock) | untilsys (system_clock)
bool timed_wait_event(const dispenso::CompletionEvent& ev, const std::string& api, int64_t d, mc::Shared<int>& notified) {
  bool r;
  int64_t t0 = (int64_t)mc::now_ns(), abs_ns = 0;
  if (api == "for")
    r = ev.waitFor(std::chrono::nanoseconds(d));
  else if (api == "fors")
    r = ev.waitFor(std::chrono::duration<double>((double)d * 1e-9));
  else if (api == "until") {
    auto abs = std::chrono::steady_clock::now() + std::chrono::nanoseconds(d);
    abs_ns = as_ns(abs.time_since_epoch());
    r = ev.waitUntil(abs);
  } else {
    auto abs = std::chrono::system_clock::now() + std::chrono::nanoseconds(d);
    abs_ns = as_ns(abs.time_since_epoch());
    r = ev.waitUntil(abs);
  }
  int64_t t1 = (int64_t)mc::now_ns();
  bool complete = ev.impl_.status_.a_.load(std::memory_order_relaxed) == 1;
  if (r) {
    MC_CHECK(complete && notified.get() == 1, "timed wait returned true but the event is not completed");
    MC_CHECK(ev.completed(), "completed() false after a timed wait returned true");
    cover("ev_true");
  } else {
    if (api == "for" || api == "fors")
      MC_CHECK(t1 - t0 >= d, "waitFor(%lld ns) returned false after only %lld ns", (long long)d, (long long)(t1 - t0));
    else
      MC_CHECK(t1 + kEpochNs >= abs_ns, "waitUntil returned false %lld ns before the requested time point", (long long)(abs_ns - t1 - kEpochNs));
    cover(complete ? "ev_false_but_completed_now" : "ev_false");
  }
  mc::observe("ret", r ? 1 : 0);
  return r;
}

// params: api (for|fors|until|untilsys), d (ns, may be negative), d1 (second waiter's duration; absent = one
// waiter), notif: before | during | never
void cev_timed_impl(const mc::Params& P) {
  static const char* const apis[] = {"for", "fors", "until", "untilsys"};
  std::string api = pick_api(P, apis, 4), notif = alt(P, "notif", "during");
  int64_t d = pick_duration(P, "d", 1000000);
  dispenso::CompletionEvent ev;
  mc::Shared<int> notified{0};
  if (notif == "before") {
    notified.set(1);
    ev.notify();
  }
  if (P.has("d1")) {
    int64_t d1 = pick_duration(P, "d1", 0);
    mc::spawn([&, d1] { timed_wait_event(ev, api, d1, notified); });
  }
  if (notif == "during") mc::spawn([&] {
    notified.set(1);
    ev.notify();
  });
  // by=k: a bystander that only takes k scheduling points. The engine offers "spurious futex return" and "timer
  // fires early" only at steps where some thread is runnable; with notif=never nobody else would be.
  long by = P("by", 0);
  if (by > 0) mc::spawn([by] {
    for (long i = 0; i < by; i++) mc::point();
  });
  (void)timed_wait_event(ev, api, d, notified);
  mc::join_all();
}

// Future timed waits.
// params
//   sched  man | pool | nt | imm      ctor  ctor (Future constructor, two policy arguments) | fn (dispenso::async)
//   pol    bit0 async, bit1 deferred  api   for | until
//   d      ns                         when  ready | during | blocked | never  (state of the functor, man only)
//   w2     1: a second waiter thread with the same call
struct TimedCtx {
  mc::Shared<int> calls{0}, started{0}, finished{0}, ran_in_timed{0}, waiters_done{0};
  int nwaiters = 1;
  bool hold = false;
  int body() {
    int prev = calls.add(1);
    MC_CHECK(prev == 0, "the functor was invoked a second time");
    if (t_in_timed_wait) ran_in_timed.set(1);
    started.set(1);
    if (hold) mc::block_until([&] { return waiters_done.get() >= nwaiters; }); // "running" for the whole wait
    mc::point();
    finished.set(1);
    return 41;
  }
};

void timed_wait_future(TimedCtx& c, const dispenso::Future<int>& f, const std::string& api, int64_t d, bool deferred) {
  std::future_status st;
  int64_t t0 = (int64_t)mc::now_ns(), abs_ns = 0;
  bool started_before = c.calls.get() != 0;
  t_in_timed_wait = 1;
  if (api == "for")
    st = f.wait_for(std::chrono::nanoseconds(d));
  else {
    auto abs = std::chrono::steady_clock::now() + std::chrono::nanoseconds(d);
    abs_ns = as_ns(abs.time_since_epoch());
    st = f.wait_until(abs);
  }
  t_in_timed_wait = 0;
  int64_t t1 = (int64_t)mc::now_ns();
  bool ready_now = status_of(f) == 2;
  MC_CHECK(st == std::future_status::ready || st == std::future_status::timeout, "unexpected future_status %d", (int)st);
  if (st == std::future_status::ready) {
    MC_CHECK(ready_now && c.finished.get() == 1, "timed wait reported ready but the functor has not finished");
    MC_CHECK(f.is_ready(), "is_ready() false after a timed wait reported ready");
    MC_CHECK(f.get() == 41, "wrong value after a timed wait reported ready");
    cover("fut_ready");
  } else {
    if (api == "for")
      MC_CHECK(t1 - t0 >= d, "wait_for(%lld ns) reported timeout after only %lld ns", (long long)d, (long long)(t1 - t0));
    else
      MC_CHECK(t1 + kEpochNs >= abs_ns, "wait_until reported timeout %lld ns before the requested time point", (long long)(abs_ns - t1 - kEpochNs));
    cover(ready_now ? "fut_timeout_but_ready_now" : "fut_timeout");
  }
  if (!started_before && c.ran_in_timed.get() != 0) {
    // some timed wait ran the functor on its own thread
    MC_CHECK(deferred, "a timed wait ran the not-yet-started functor although the future was created without std::launch::deferred");
    cover("timed_wait_ran_functor");
  }
  mc::observe("status", (long)st);
}

void fut_timed_impl(const mc::Params& P) {
  static const char* const apis[] = {"for", "until"};
  std::string sched = P.s("sched", "man"), ctor = P.s("ctor", "ctor"), api = pick_api(P, apis, 2), when = alt(P, "when", "during");
  long pol = alt_num(P, "pol", 2), n = P("n", 1);
  int64_t d = pick_duration(P, "d", 1000000);
  bool w2 = P("w2", 0) != 0;
  bool deferred = (pol & 2) != 0;
  TimedCtx c;
  warm_small_buffers();
  c.nwaiters = w2 ? 2 : 1;
  c.hold = when == "blocked";
  {
    std::unique_ptr<dispenso::ThreadPool> pool;
    ManualInvoker manual;
    Gate gate;
    dispenso::Future<int> f;
    if (sched == "man") {
      gate.spawn([&] {
        if (when == "never") mc::block_until([&] { return c.waiters_done.get() >= c.nwaiters; });
        manual.run();
      });
    }
    long by = P("by", 0);
    if (by > 0) gate.spawn([&c, by] { // bystander: see cev_timed
      if (c.hold) mc::block_until([&] { return c.started.get() == 1; });
      for (long i = 0; i < by; i++) mc::point();
    });
    if (w2) {
      gate.spawn([&] {
        dispenso::Future<int> mine(f);
        if (when == "ready") mc::block_until([&] { return status_of(mine) == 2; });
        if (when == "blocked") mc::block_until([&] { return c.started.get() == 1; });
        timed_wait_future(c, mine, api, d, deferred);
        c.waiters_done.add(1);
      });
    }
    if (sched == "pool") {
      pool.reset(new dispenso::ThreadPool((size_t)n));
      if (n > 0 && P("park", 1)) usleep(50000);
    }
    auto mk = [&c] { return [&c]() -> int { return c.body(); }; };
    std::launch both = (std::launch)((int)apol_of(pol) | (int)dpol_of(pol));
    if (ctor == "fn") {
      // dispenso::async(schedulable, policy, f): one policy bitmask, documented like std::async's
      if (sched == "pool")
        f = dispenso::async(*pool, both, mk());
      else if (sched == "nt")
        f = dispenso::async(dispenso::kNewThreadInvoker, both, mk());
      else
        mc::fail("harness: ctor=fn needs sched=pool|nt");
      cover("made_by_async_fn");
    } else if (sched == "man")
      f = dispenso::Future<int>(mk(), manual, apol_of(pol), dpol_of(pol));
    else if (sched == "pool")
      f = dispenso::Future<int>(mk(), *pool, apol_of(pol), dpol_of(pol));
    else if (sched == "nt")
      f = dispenso::Future<int>(mk(), dispenso::kNewThreadInvoker, apol_of(pol), dpol_of(pol));
    else if (sched == "imm")
      f = dispenso::Future<int>(mk(), dispenso::kImmediateInvoker, apol_of(pol), dpol_of(pol));
    else
      mc::fail("harness: unknown sched");
    gate.open();
    if (when == "ready") mc::block_until([&] { return status_of(f) == 2; });
    if (when == "blocked") mc::block_until([&] { return c.started.get() == 1; });
    timed_wait_future(c, f, api, d, deferred);
    c.waiters_done.add(1);
    gate.wait_done();
    f.wait();
    pool.reset();
    if (sched == "nt") drain_new_threads();
    MC_CHECK(c.calls.get() == 1, "the functor ran %d times", c.calls.get());
    MC_CHECK(refs_of(f) == 1, "reference count %d at quiescence with one live handle", refs_of(f));
    gate.finish();
    mc::join_all();
  }
}
} // namespace

MC_HARNESS(fget) {
  std::string kind = alt(P, "kind", "val");
  if (kind == "val")
    fget_impl<ValKind>(P);
  else if (kind == "ref")
    fget_impl<RefKind>(P);
  else if (kind == "void")
    fget_impl<VoidKind>(P);
  else if (kind == "thr")
    fget_impl<ThrowKind>(P);
  else
    mc::fail("harness: unknown kind");
}

MC_HARNESS(fthen) { fthen_impl(P); }
MC_HARNESS(fwhen) { fwhen_impl(P); }
MC_HARNESS(cev_timed) { cev_timed_impl(P); }
MC_HARNESS(fut_timed) { fut_timed_impl(P); }
