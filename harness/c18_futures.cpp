// C18 (fget): a Future's functor runs exactly once and every getter sees its result.
// C19 (fthen, fwhen): then() continuations and when_all / when_any respect readiness.
// C20 (cev_timed, fut_timed): timed waits - ready means done, timeout means time elapsed, a timed wait
//      runs a not-yet-started functor only for a deferred future.
// See c18_futures.notes.md for the parameter tables.
#include "mc_harness.h"
#include <dispenso/completion_event.h>
#include <dispenso/future.h>
#include <dispenso/schedulable.h>
#include <dispenso/task_set.h>
#include <dispenso/thread_pool.h>
#include <cstring>

namespace {

// ------------------------------------------------------------------------------------------------
// process-wide state of NewThreadInvoker: the tracker singleton and the drain registrar are created
// once in the parent (their guards would otherwise be scheduling points of the first execution only);
// every harness that used the invoker drains the tracker (joins its threads, in the model) before
// its body returns, so the tracker is empty again at the start of the next execution.
void prewarm() {
  dispenso::detail::ensureNewThreadDrainRegistered();
  (void)dispenso::NewThreadInvoker::getTracker();
}
mc::HookSetter hooks(prewarm, nullptr);

void drain_new_threads() { dispenso::detail::drainNewThreadInvokerThreads(); }

// A user-defined Schedulable ("or similar type that has function schedule", future.h): keeps the
// function until somebody calls run(). Gives the harness a completer thread that is exactly one
// OnceFunction invocation, so the races with waiters / then() are a few operations long.
struct ManualInvoker {
  dispenso::OnceFunction fn;
  mc::Shared<int> has{0};
  void schedule(dispenso::OnceFunction f) {
    fn = std::move(f);
    has.set(1);
  }
  void schedule(dispenso::OnceFunction f, dispenso::ForceQueuingTag) {
    fn = std::move(f);
    has.set(2);
  }
  void run() {
    MC_CHECK(has.get() != 0, "harness bug: ManualInvoker::run without a function");
    has.set(0);
    fn();
  }
};

struct Tagged {
  int tag;
};

// set around every timed wait of the calling thread; the functors look at it
thread_local int t_in_timed_wait = 0;

inline std::launch apol_of(long pol) { return (pol & 1) ? std::launch::async : dispenso::kNotAsync; }
inline std::launch dpol_of(long pol) { return (pol & 2) ? std::launch::deferred : dispenso::kNotDeferred; }

template <class R>
inline dispenso::detail::FutureImplBase<R>* impl_of(const dispenso::Future<R>& f) {
  return f.impl_;
}
template <class R>
inline int refs_of(const dispenso::Future<R>& f) {
  return (int)f.impl_->refCount_.a_.load(std::memory_order_relaxed);
}
template <class R>
inline int status_of(const dispenso::Future<R>& f) {
  return f.impl_->status_.status_.a_.load(std::memory_order_relaxed);
}

// =================================================================================================
// C18
// =================================================================================================
struct GetCtx {
  mc::Shared<int> calls{0};
  mc::Shared<int> finished{0};
  mc::Shared<int> runner{-1};
  mc::Shared<uintptr_t> addr{0};
  mc::Shared<int> gets{0};
  mc::Shared<int> ran_in_timed{0};
  int ref_target = 5;
  int creator = 0;

  void in_functor() {
    int prev = calls.add(1);
    MC_CHECK(prev == 0, "the functor was invoked a second time");
    runner.set(mc_self_id());
    if (t_in_timed_wait) ran_in_timed.set(1);
    mc::point(); // other threads may observe the running state
    finished.set(1);
  }
  void same_addr(const void* p) {
    uintptr_t e = 0;
    if (!addr.cas(e, (uintptr_t)p)) MC_CHECK(e == (uintptr_t)p, "two get() calls returned different result objects");
  }
};

struct ValKind {
  typedef mc::Tracked<int> R;
  static R produce(GetCtx& c) {
    c.in_functor();
    return R(41);
  }
  static void check_get(GetCtx& c, const dispenso::Future<R>& f) {
    const R& r = f.get();
    MC_CHECK(c.finished.get() == 1, "get() returned before the functor finished");
    mc_track_use(&r); // the result object is alive
    MC_CHECK(r.v == 41, "get() returned value %d, the functor produced 41", r.v);
    c.same_addr(&r);
  }
};
struct RefKind {
  typedef int& R;
  static int& produce(GetCtx& c) {
    c.in_functor();
    return c.ref_target;
  }
  static void check_get(GetCtx& c, const dispenso::Future<int&>& f) {
    int& r = f.get();
    MC_CHECK(c.finished.get() == 1, "get() returned before the functor finished");
    MC_CHECK(&r == &c.ref_target, "get() returned a reference to a different object");
    c.same_addr(&r);
  }
};
struct VoidKind {
  typedef void R;
  static void produce(GetCtx& c) { c.in_functor(); }
  static void check_get(GetCtx& c, const dispenso::Future<void>& f) {
    f.get();
    MC_CHECK(c.finished.get() == 1, "get() returned before the functor finished");
  }
};
struct ThrowKind {
  typedef mc::Tracked<int> R;
  static R produce(GetCtx& c) {
    c.in_functor();
    throw Tagged{7};
  }
  static void check_get(GetCtx& c, const dispenso::Future<R>& f) {
    int tag = -1;
    try {
      (void)f.get();
    } catch (const Tagged& t) {
      tag = t.tag;
    }
    MC_CHECK(c.finished.get() == 1, "get() returned before the functor finished");
    MC_CHECK(tag == 7, "get() did not rethrow the functor's exception (tag %d)", tag);
  }
};

// one thread's program over its own handle h. `orig` is T0's handle (only read here).
//   g get   w wait   z wait_for(0)   u wait_until(now)   r is_ready
//   c copy-construct another handle from h and keep it to the end of the program
//   x h = orig (copy-assign)   d h = Future() (drop)   m h = <another, ready future> (move-assign)
//   e move h into a fresh handle and destroy that one
template <class K>
void get_program(GetCtx& c, dispenso::Future<typename K::R>& h, const dispenso::Future<typename K::R>& orig, const std::string& prog, bool deferred) {
  typedef dispenso::Future<typename K::R> Fut;
  std::vector<Fut> extra;
  extra.reserve(8);
  for (char op : prog) {
    if (!h.valid() && op != 'x' && op != 'c') continue;
    switch (op) {
      case 'g':
        K::check_get(c, h);
        c.gets.add(1);
        break;
      case 'w':
        h.wait();
        MC_CHECK(c.finished.get() == 1, "wait() returned before the functor finished");
        MC_CHECK(h.is_ready(), "is_ready() false after wait() returned");
        break;
      case 'z': {
        t_in_timed_wait = 1;
        std::future_status st = h.wait_for(std::chrono::seconds(0));
        t_in_timed_wait = 0;
        if (st == std::future_status::ready) {
          MC_CHECK(c.finished.get() == 1, "wait_for(0) reported ready before the functor finished");
          MC_CHECK(h.is_ready(), "is_ready() false after wait_for() reported ready");
        }
        if (c.ran_in_timed.get()) {
          MC_CHECK(deferred, "wait_for ran the functor of a future created without std::launch::deferred");
          mc::cover("timed_wait_ran_functor");
        }
        break;
      }
      case 'u': {
        auto now = std::chrono::steady_clock::now();
        t_in_timed_wait = 1;
        std::future_status st = h.wait_until(now);
        t_in_timed_wait = 0;
        if (c.ran_in_timed.get()) {
          MC_CHECK(deferred, "wait_until ran the functor of a future created without std::launch::deferred");
          mc::cover("timed_wait_ran_functor");
        }
        if (st == std::future_status::ready) {
          MC_CHECK(c.finished.get() == 1, "wait_until(now) reported ready before the functor finished");
          MC_CHECK(h.is_ready(), "is_ready() false after wait_until() reported ready");
        }
        break;
      }
      case 'r':
        if (h.is_ready()) MC_CHECK(c.finished.get() == 1, "is_ready() true before the functor finished");
        break;
      case 'c':
        if (h.valid()) extra.push_back(h);
        break;
      case 'x':
        h = orig;
        break;
      case 'd':
        h = Fut();
        break;
      case 'm': {
        Fut other(orig); // a second reference taken from the original ...
        h = std::move(other); // ... move-assigned over this one (same state: no-op branch) ...
        Fut fresh;
        fresh = std::move(h); // ... and moved out again
        break;
      }
      case 'e': {
        Fut sink(std::move(h));
        break;
      }
      default:
        break;
    }
  }
}

template <class K>
void fget_body(const mc::Params& P) {
  typedef typename K::R R;
  typedef dispenso::Future<R> Fut;
  std::string sched = P.s("sched", "pool");
  long n = P("n", 1), pol = P("pol", 2);
  std::string pa = P.s("a", "g"), pb = P.s("b", "cw"), pc = P.s("c", "d");
  bool deferred = (pol & 2) != 0;
  GetCtx c;
  c.creator = mc_self_id();
  auto mk = [&c] { return [&c]() -> R { return K::produce(c); }; }; // Future takes the functor by rvalue only
  {
    std::unique_ptr<dispenso::ThreadPool> pool;
    std::unique_ptr<dispenso::TaskSet> ts;
    std::unique_ptr<dispenso::ConcurrentTaskSet> cts;
    ManualInvoker manual;
    Fut orig, forc;
    mc::Shared<int> go{0};
    // B, C and the manual completer exist before the pool does, parked at model level: the pool's
    // start-up is then explored with one runnable harness thread instead of three.
    if (pb != "-") mc::spawn([&] {
      mc::block_until([&] { return go.get() != 0; });
      Fut mine(orig); // B copies the handle A is using
      get_program<K>(c, mine, orig, pb, deferred);
    });
    if (pc != "-") mc::spawn([&] {
      mc::block_until([&] { return go.get() != 0; });
      Fut mine(std::move(forc)); // C owns a copy that T0 made before releasing it
      get_program<K>(c, mine, orig, pc, deferred);
    });
    if (sched == "man") mc::spawn([&] {
      mc::block_until([&] { return go.get() != 0; });
      manual.run(); // the completer: exactly one OnceFunction call
    });
    if (sched == "pool" || sched == "ts" || sched == "cts") pool.reset(new dispenso::ThreadPool((size_t)n));
    if (sched == "pool")
      orig = Fut(mk(), *pool, apol_of(pol), dpol_of(pol));
    else if (sched == "ts") {
      ts.reset(new dispenso::TaskSet(*pool));
      orig = Fut(mk(), *ts, apol_of(pol), dpol_of(pol));
    } else if (sched == "cts") {
      cts.reset(new dispenso::ConcurrentTaskSet(*pool));
      orig = Fut(mk(), *cts, apol_of(pol), dpol_of(pol));
    } else if (sched == "imm")
      orig = Fut(mk(), dispenso::kImmediateInvoker, apol_of(pol), dpol_of(pol));
    else if (sched == "nt")
      orig = Fut(mk(), dispenso::kNewThreadInvoker, apol_of(pol), dpol_of(pol));
    else if (sched == "man")
      orig = Fut(mk(), manual, apol_of(pol), dpol_of(pol));
    else
      mc::fail("harness: unknown sched");
    MC_CHECK(orig.valid(), "a constructed Future is not valid()");
    if (pc != "-") forc = orig;

    go.set(1); // B, C and the completer were parked (not schedulable) while the pool started
    {
      Fut& mine = orig;
      std::string prog;
      for (char op : pa)
        if (strchr("gwzur", op)) prog.push_back(op); // A never mutates the handle B copies from
      get_program<K>(c, mine, orig, prog, deferred);
    }
    mc::join_all();
    if (ts) {
      ts->wait();
      MC_CHECK(orig.is_ready(), "TaskSet::wait() returned but the future scheduled on it is not ready");
    }
    if (cts) {
      cts->wait();
      MC_CHECK(orig.is_ready(), "ConcurrentTaskSet::wait() returned but the future scheduled on it is not ready");
    }
    // make sure somebody ran it (an async, non-deferred future nobody called get()/wait() on)
    orig.wait();
    ts.reset();
    cts.reset();
    pool.reset(); // every queued OnceFunction has been invoked now
    if (sched == "nt") drain_new_threads();
    MC_CHECK(c.calls.get() == 1, "the functor ran %d times", c.calls.get());
    MC_CHECK(c.finished.get() == 1, "functor did not finish");
    MC_CHECK(refs_of(orig) == 1, "reference count is %d at quiescence with exactly one live handle", refs_of(orig));
    K::check_get(c, orig);
    int rn = c.runner.get();
    mc::cover(rn == c.creator ? "ran_on_T0" : "ran_elsewhere");
    mc::observe("runner", rn);
    mc::observe("gets", c.gets.get());
  }
}

} // namespace

MC_HARNESS(fget) {
  std::string kind = P.s("kind", "val");
  if (kind == "val")
    fget_body<ValKind>(P);
  else if (kind == "ref")
    fget_body<RefKind>(P);
  else if (kind == "void")
    fget_body<VoidKind>(P);
  else if (kind == "thr")
    fget_body<ThrowKind>(P);
  else
    mc::fail("harness: unknown kind");
}
