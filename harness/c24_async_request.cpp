// C24: AsyncRequest delivers each update at most once.
// Thread programs: r requestUpdate, g getUpdate, u updateRequested, e tryEmplaceUpdate(unique tag)
#include "mc_harness.h"
#include <dispenso/async_request.h>

MC_HARNESS(async_request) {
  typedef mc::Tracked<int> Val;
  mc::Shared<int> emplaced[64], returned[64];
  mc::Shared<int> req_started{0}, get_started{0}, emplace_ok{0}, got{0};
  {
    dispenso::AsyncRequest<Val> ar;
    std::string progs[4] = {P.s("t0", ""), P.s("t1", ""), P.s("t2", ""), P.s("t3", "")};
    auto body = [&](int self, const std::string& prog) {
      int k = 0;
      for (char op : prog) {
        if (op == 'r') {
          req_started.add(1);
          ar.requestUpdate();
        } else if (op == 'u') {
          (void)ar.updateRequested();
        } else if (op == 'e') {
          int tag = self * 8 + k++;
          emplaced[tag].set(1);
          int r0 = req_started.get(), g0 = get_started.get();
          (void)r0;
          (void)g0;
          if (ar.tryEmplaceUpdate(tag)) {
            int n = emplace_ok.add(1) + 1;
            MC_CHECK(n <= req_started.get(), "tryEmplaceUpdate succeeded %d times but only %d requestUpdate calls were ever started", n, req_started.get());
            MC_CHECK(n <= get_started.get() + 1, "tryEmplaceUpdate succeeded %d times although only %d getUpdate calls had started (request already fulfilled)", n, get_started.get());
          } else {
            emplaced[tag].set(0);
          }
        } else if (op == 'g') {
          get_started.add(1);
          auto r = ar.getUpdate();
          if (r) {
            int tag = r.value().v;
            MC_CHECK(tag >= 0 && tag < 64 && emplaced[tag].get() == 1, "getUpdate returned %d which no successful tryEmplaceUpdate produced", tag);
            MC_CHECK(returned[tag].add(1) == 0, "update %d was returned by two getUpdate calls", tag);
            got.add(1);
          }
        }
      }
    };
    for (int i = 1; i < 4; i++)
      if (!progs[i].empty() && progs[i] != "-") mc::spawn([&, i] { body(i, progs[i]); });
    body(0, progs[0]);
    mc::join_all();
    mc::observe("got", got.get());
    mc::observe("emplaced", emplace_ok.get());
  }
}
