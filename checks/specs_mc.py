"""dmc checks: exhaustive schedule exploration of the real code (model_checking level)."""
from specs import reg, McRun, SeqRun, product, MC_ASSUME, need_cover, need_outcomes  # noqa: F401


def compositions(c, maxparts=3):
    """all ordered compositions of c into 1..maxparts positive parts"""
    out = []

    def rec(rest, parts):
        if rest == 0:
            out.append(list(parts))
            return
        if len(parts) == maxparts:
            return
        for k in range(1, rest + 1):
            rec(rest - k, parts + [k])
    rec(c, [])
    return out


def dotted(xs):
    return '.'.join(str(x) for x in xs) if xs else '-'


# ---------------------------------------------------------------------------------------------- C21
def c21_runs(tier):
    runs = []
    maxc = 3 if tier == 'quick' else 4
    bound = 2 if tier == 'quick' else 3
    opts = {'wakepick_cost': 0}
    for c in range(1, maxc + 1):
        for aw in range(0, min(c, 2) + 1):
            rest = c - aw
            for comp in (compositions(rest, 3) if rest else [[]]):
                # split the composition between thread A (T0) and thread B at every point
                for cut in range(0, len(comp) + 1):
                    A, B = comp[:cut], comp[cut:]
                    if not A and B:
                        continue  # same as A=comp,B=[] up to thread naming
                    for w in (1, 2):
                        if w + aw + (1 if B else 0) > 3 and tier == 'quick':
                            continue
                        if w + aw == 0:
                            continue
                        runs.append(McRun('c21_latch', 'latch', dict(c=c, A=dotted(A), B=dotted(B), aw=aw, w=w), bound=bound, opts=opts, budget=40))
    for w in (1, 2):
        for pre in (0, 1):
            runs.append(McRun('c21_latch', 'cevent', dict(w=w, pre=pre), bound=bound + 1, opts=dict(opts, spurious=2), budget=40))
    # sanitizer legs on the smallest shapes
    runs.append(McRun('c21_latch', 'latch', dict(c=2, A='2', B='-', aw=0, w=2), bound=2, mode='tsan', opts=opts, budget=40))
    runs.append(McRun('c21_latch', 'cevent', dict(w=2, pre=0), bound=2, mode='asan', opts=dict(opts, spurious=1), budget=40))
    return runs


reg('C21', level='model_checking', runs=c21_runs, quick_budget_s=150, thorough_budget_s=900,
    technique='stateless model checking of the real Latch/CompletionEvent code: all interleavings up to a deviation bound, all futex waiter picks, spurious futex returns',
    level_text='Every interleaving with at most 2 (quick) / 3 (thorough) deviations of 1-2 waiters, up to two counting threads and arrive_and_wait participants over every composition of the latch count (<=3 quick, <=4 thorough) into count_down(n) calls; futex waiter picks free, spurious futex returns explored for CompletionEvent. Oracle: no waiter returns while the raw count/status is not final, every waiter returns (a parked waiter is a deadlock verdict).',
    level_note='SC interleavings of the compiled headers; kernel futex modelled per futex(2); a TSan and an ASan leg re-run the smallest shapes.',
    design_ref='DESIGN.md section 4, C21', assumptions=MC_ASSUME,
    rule='one evaluation = one complete execution of a harness configuration under one schedule; distinct_nontrivial = distinct scheduler states (reads-from history hashes) at which more than one continuation existed',
    guards=[need_outcomes(1)])
