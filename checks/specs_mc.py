"""dmc checks: exhaustive schedule exploration of the real code (model_checking level)."""
from specs import reg, McRun, SeqRun, product, MC_ASSUME, need_cover, need_outcomes  # noqa: F401


def compositions(c, maxparts=3):
    """all ordered compositions of c into 1..maxparts positive parts"""
    out = []

    def rec(rest, parts):
        if rest == 0:
            out.append(list(parts))
            return
        if len(parts) == maxparts:
            return
        for k in range(1, rest + 1):
            rec(rest - k, parts + [k])
    rec(c, [])
    return out


def dotted(xs):
    return '.'.join(str(x) for x in xs) if xs else '-'


# ---------------------------------------------------------------------------------------------- C21
def c21_runs(tier):
    runs = []
    maxc = 3 if tier == 'quick' else 4
    bound = 2 if tier == 'quick' else 3
    # spin_dev: a waiter that polls before parking may be scheduled through its bounded spin as one deviation
    opts = {'wakepick_cost': 0, 'spin_dev': 1}
    for c in range(1, maxc + 1):
        for aw in range(0, min(c, 2) + 1):
            rest = c - aw
            for comp in (compositions(rest, 3) if rest else [[]]):
                # split the composition between thread A (T0) and thread B at every point
                for cut in range(0, len(comp) + 1):
                    A, B = comp[:cut], comp[cut:]
                    if not A and B:
                        continue  # same as A=comp,B=[] up to thread naming
                    for w in (1, 2):
                        if w + aw + (1 if B else 0) > 3 and tier == 'quick':
                            continue
                        if w + aw == 0:
                            continue
                        runs.append(McRun('c21_latch', 'latch', dict(c=c, A=dotted(A), B=dotted(B), aw=aw, w=w), bound=bound, opts=opts, budget=40))
    for w in (1, 2):
        for pre in (0, 1):
            runs.append(McRun('c21_latch', 'cevent', dict(w=w, pre=pre), bound=bound + 1, opts=dict(opts, spurious=2), budget=40))
    # sanitizer legs on the smallest shapes
    runs.append(McRun('c21_latch', 'latch', dict(c=2, A='2', B='-', aw=0, w=2), bound=2, mode='tsan', opts=opts, budget=40))
    # message passing through the latch / event under ThreadSanitizer: two counting threads with plain payloads, a waiter
    # (the arrival that is not the last one is the one whose ordering a weakened count_down would lose)
    runs.append(McRun('c21_latch', 'latch', dict(c=2, A='1', B='1', aw=0, w=1), bound=2, mode='tsan', opts=opts, budget=60))
    runs.append(McRun('c21_latch', 'latch', dict(c=3, A='1.1', B='1', aw=0, w=1), bound=1, mode='tsan', opts=opts, budget=60))
    runs.append(McRun('c21_latch', 'latch', dict(c=3, A='1', B='1', aw=1, w=1), bound=1, mode='tsan', opts=opts, budget=60))
    runs.append(McRun('c21_latch', 'cevent', dict(w=2, pre=0), bound=1, mode='tsan', opts=dict(opts, spurious=1), budget=60))
    runs.append(McRun('c21_latch', 'cevent', dict(w=2, pre=0), bound=2, mode='asan', opts=dict(opts, spurious=1), budget=40))
    return runs


reg('C21', level='model_checking', runs=c21_runs, quick_budget_s=150, thorough_budget_s=900,
    technique='stateless model checking of the real Latch/CompletionEvent code: all interleavings up to a deviation bound, all futex waiter picks, spurious futex returns',
    level_text='Every interleaving with at most 2 (quick) / 3 (thorough) deviations of 1-2 waiters, up to two counting threads and arrive_and_wait participants over every composition of the latch count (<=3 quick, <=4 thorough) into count_down(n) calls; futex waiter picks free, spurious futex returns explored for CompletionEvent. Oracle: no waiter returns while the raw count/status is not final, every waiter returns (a parked waiter is a deadlock verdict).',
    level_note='SC interleavings of the compiled headers; kernel futex modelled per futex(2); a TSan and an ASan leg re-run the smallest shapes.',
    design_ref='DESIGN.md section 4, C21', assumptions=MC_ASSUME,
    rule='one evaluation = one complete execution of a harness configuration under one schedule; distinct_nontrivial = distinct scheduler states (reads-from history hashes) at which more than one continuation existed',
    guards=[need_outcomes(1)])


# ---------------------------------------------------------------------------------------------- C22 / C23
def _progs(alphabet, maxlen):
    out = []
    for n in range(1, maxlen + 1):
        out += [''.join(t) for t in __import__('itertools').product(alphabet, repeat=n)]
    return out


def _rw_ok(progs):
    """documented contract: with an upgrader (U) no other thread may lock for write"""
    ups = sum(p.count('U') > 0 for p in progs)
    if ups == 0:
        return True
    if ups > 1:
        return False
    for p in progs:
        if 'U' in p:
            if any(c in p for c in 'WwD'):
                return False
        elif any(c in p for c in 'WwD'):
            return False
    return True


def c22_runs(tier):
    runs = []
    alpha = 'WwRrUD'
    seen = set()

    def add(progs, bound, mode='plain', budget=30):
        key = (tuple(sorted(progs)), bound, mode)
        if key in seen or not _rw_ok(progs):
            return
        seen.add(key)
        params = {'t%d' % i: p for i, p in enumerate(progs)}
        runs.append(McRun('c22_rwlock', 'rwlock', params, bound=bound, mode=mode, budget=budget))
    one = _progs(alpha, 1)
    two = _progs(alpha, 2)
    if tier == 'quick':
        # 2 threads: every pair of programs of length <= 2 vs length 1, bound 2; 3 threads single sections, bound 2
        for a in one + two:
            for b in one:
                add([a, b], 2)
        for a in one:
            for b in one:
                for c in one:
                    add([a, b, c], 2)
    else:
        for a in one + two:
            for b in one + two:
                add([a, b], 3)
        for a in one + two:
            for b in one:
                for c in one:
                    add([a, b, c], 2)
        for a in 'WRrw':
            for b in 'WRw':
                for c in 'WR':
                    for d in 'Rr':
                        add([a, b, c, d], 1)
    add(['W', 'R', 'w'], 2, mode='tsan')
    add(['U', 'R', 'r'], 2, mode='tsan')
    add(['D', 'W', 'r'], 2, mode='asan')
    return runs


reg('C22', level='model_checking', runs=c22_runs, quick_budget_s=200, thorough_budget_s=1200,
    technique='stateless model checking of the real RWLock: all interleavings up to a deviation bound of 2-4 threads running bounded sequences of critical sections, occupancy oracle',
    level_text='2 threads x every pair of section programs (<=2 sections vs 1 section quick; <=2 vs <=2 at bound 3 thorough), 3 threads x single sections, 4 threads at bound 1 (thorough), over {lock, try_lock, lock_shared, try_lock_shared, lock_shared->lock_upgrade (single upgrader, no other writer, as documented), lock->lock_downgrade}; every interleaving with <=2 deviations (3 thorough). Oracle: occupancy counters inside the sections (writer alone, no reader with a writer, a successful try never conflicts), every blocking acquire returns (no deadlock/livelock verdict), lock word 0 at the end.',
    level_note='SC interleavings; the lock never blocks in the kernel except the writer waiting for reader drain (futex modelled). TSan/ASan legs on three shapes.',
    design_ref='DESIGN.md section 4, C22', assumptions=MC_ASSUME,
    rule='one evaluation = one complete execution of one program tuple under one schedule; distinct_nontrivial = distinct scheduler states with more than one continuation',
    guards=[need_outcomes(2)])


def c23_runs(tier):
    runs = []
    seen = set()

    def add(n, progs, idx, bound, mode='plain'):
        key = (n, tuple(progs), tuple(idx), bound, mode)
        if key in seen:
            return
        seen.add(key)
        params = {'t%d' % i: p for i, p in enumerate(progs)}
        params['n'] = n
        params['idx'] = '.'.join(str(i) for i in idx)
        runs.append(McRun('c22_rwlock', 'drwlock', params, bound=bound, mode=mode, budget=30))
    writers = ['W', 'w', 'Ww', 'wW', 'ww'] if tier != 'quick' else ['W', 'w', 'wW']
    readers = ['R', 'r', 'Rr'] if tier != 'quick' else ['R', 'r']
    for n in (1, 2):
        slotsets = [(0, 0, 0)] if n == 1 else [(0, 0, 1), (0, 1, 0), (0, 1, 1), (0, 0, 0)]
        for w1 in writers:
            for w2 in (['W', 'w'] if tier == 'quick' else writers):
                for r in readers:
                    for idx in slotsets:
                        add(n, [w1, w2, r], idx, 2 if tier == 'quick' else 3)
            for r1 in readers:
                for r2 in readers:
                    for idx in slotsets:
                        add(n, [w1, r1, r2], idx, 2)
    # N=4: writers against readers on distinct slots, bound 1 (2 in thorough); N=16 bound 1 thorough only
    for w1 in ('W', 'w'):
        for w2 in ('W', 'w'):
            add(4, [w1, w2, 'R', 'r'], (0, 0, 1, 3), 1 if tier == 'quick' else 2)
    if tier != 'quick':
        for w1 in ('W', 'w'):
            add(16, [w1, 'w', 'R', 'r'], (0, 0, 5, 15), 1)
    add(2, ['W', 'w', 'R'], (0, 0, 1), 2, mode='tsan')
    add(2, ['w', 'W', 'r'], (0, 1, 1), 2, mode='asan')
    return runs


reg('C23', level='model_checking', runs=c23_runs, quick_budget_s=200, thorough_budget_s=1200,
    technique='stateless model checking of the real DistributedRWLockImpl<N> with explicit slot indices: all interleavings up to a deviation bound, occupancy oracle, slot words inspected afterwards',
    level_text='N in {1,2} with every reader-to-slot assignment (up to symmetry) of 3 threads mixing blocking and try writers with readers at bound 2 (3 thorough for two writers + reader), N=4 with 4 threads at bound 1 (2 thorough), N=16 at bound 1 (thorough). Oracle as C22 plus: after all sections ended every slot word is 0, so a failed try_lock left no trace.',
    level_note='the harness drives the Impl class with explicit slot indices (the public class derives the index from threadId(), which is covered by C45); SC interleavings; TSan/ASan legs.',
    design_ref='DESIGN.md section 4, C23', assumptions=MC_ASSUME,
    rule='one evaluation = one complete execution of one program tuple x slot assignment under one schedule; distinct_nontrivial = distinct scheduler states with more than one continuation',
    guards=[need_outcomes(2)])


# ---------------------------------------------------------------------------------------------- C34 / C35 / C36
import itertools as _it


def _seqs(alpha, maxlen, minlen=1):
    out = []
    for n in range(minlen, maxlen + 1):
        out += [''.join(t) for t in _it.product(alpha, repeat=n)]
    return out


def _has(p, chars):
    return any(c in p for c in chars)


def c34_runs(tier):
    runs, seen = [], set()

    def add(cap, rnd, progs, bound, mode='plain'):
        progs = list(progs)
        key = (cap, rnd, tuple(sorted(progs)), bound, mode)
        if key in seen:
            return
        seen.add(key)
        if not any(_has(p, 'pceb') for p in progs) or not any(_has(p, 'oOi') for p in progs):
            return  # nothing can collide
        params = {'t%d' % i: p for i, p in enumerate(progs)}
        params.update(cap=cap, round=rnd)
        runs.append(McRun('c34_rings', 'mpmc', params, bound=bound, mode=mode, budget=40))
    small = _seqs(['p', 'b2', 'o', 'O'], 2)
    full1 = ['p', 'c', 'e', 'b2', 'b3', 'o', 'O', 'i']
    if tier == 'quick':
        for a, b in _it.combinations_with_replacement(small, 2):
            add(2, 1, [a, b], 2)
        for a, b, c in _it.combinations_with_replacement(full1, 3):
            add(3, 0, [a, b, c], 2)
    else:
        mid = _seqs(['p', 'e', 'b2', 'o', 'O', 'i'], 2)
        for a, b in _it.combinations_with_replacement(mid, 2):
            add(2, 1, [a, b], 3)
        for cap, rnd in ((3, 0), (3, 1), (4, 1)):
            for a, b in _it.combinations_with_replacement(small, 2):
                add(cap, rnd, [a, b], 3)
        for a, b, c in _it.combinations_with_replacement(full1, 3):
            add(2, 1, [a, b, c], 2)
            add(3, 0, [a, b, c], 2)
        for a, b, c, d in _it.combinations_with_replacement(['p', 'b2', 'o', 'O'], 4):
            add(2, 1, [a, b, c, d], 1)
    add(2, 1, ['pb2', 'oO', 'ip'], 1, mode='tsan')
    add(3, 0, ['b3e', 'oi', 'cO'], 1, mode='asan')
    return runs


reg('C34', level='model_checking', runs=c34_runs, quick_budget_s=240, thorough_budget_s=1500,
    technique='stateless model checking of the real MpmcRingBuffer with lifetime-tracked tagged elements: all interleavings up to a deviation bound, exactly-once / per-producer FIFO / quiescent-state oracle',
    level_text='2 threads x every pair of programs of <=2 operations over {try_push, try_push_batch(2), try_pop(T&), try_pop()} on capacity 2, and 3 threads x every triple of single operations over the full API (push rvalue/const&, emplace, batch 2/3, the three pops) on exact capacity 3, all interleavings with <=2 deviations (thorough: longer alphabets at bound 3, capacities 2/3/3-rounded/4, 4 threads at bound 1). Oracle: every returned tag was pushed successfully and is returned once; each consumer sees each producer in order; at quiescence size/empty/full agree with the bookkeeping, a drain pops exactly the remaining elements in per-producer order, then pop fails; refill succeeds exactly capacity() times; constructions and destructions of elements balance (nothing constructed over a live element).',
    level_note='SC interleavings; occupancy above capacity is observed through the lifetime registry (construction over a live slot) and the quiescent refill count rather than by a mid-flight counter.',
    design_ref='DESIGN.md section 4, C34', assumptions=MC_ASSUME,
    rule='one evaluation = one complete execution of one program tuple under one schedule; distinct_nontrivial = distinct scheduler states with more than one continuation',
    guards=[need_outcomes(3)])


def c35_runs(tier):
    runs, seen = [], set()

    def add(cap, rnd, prod, cons, bound, mode='plain'):
        key = (cap, rnd, prod, cons, bound, mode)
        if key in seen:
            return
        seen.add(key)
        runs.append(McRun('c34_rings', 'spsc', dict(cap=cap, round=rnd, t0=prod, t1=cons), bound=bound, mode=mode, budget=30))
    if tier == 'quick':
        prods = _seqs(['p', 'e', 'b2'], 2, 2) + ['ppp', 'pb2p', 'cb3', 'b3c']
        conss = _seqs(['o', 'O', 'B2'], 2, 2) + ['ooo', 'oB2o', 'iB3', 'B3i']
        for cap, rnd in ((1, 1), (2, 1)):
            for p in prods:
                for c in conss:
                    add(cap, rnd, p, c, 3)
        for p in ('b3pc', 'pb2e', 'ppp'):
            for c in ('OoB3', 'oB2i', 'ooo'):
                add(3, 0, p, c, 3)
        # exact capacities whose buffer size (capacity+1) is not a power of two: index arithmetic goes
        # through the modulo path; programs long enough for the tail index to wrap below the head index
        for p in ('pppb2', 'ppeb2', 'b2pb2', 'ppb2p'):
            for c in ('oo', 'oO', 'B2o'):
                add(2, 0, p, c, 2)
        for p in ('b3b2pb2', 'b2b2pb3'):
            for c in ('B3o', 'ooo'):
                add(4, 0, p, c, 2)
    else:
        prods = _seqs(['p', 'c', 'e', 'b2', 'b3'], 2, 1) + ['ppp', 'pb2p', 'b2pp', 'eb3c', 'b3pc', 'pb2e']
        conss = _seqs(['o', 'O', 'i', 'B2', 'B3'], 2, 1) + ['ooo', 'oB2o', 'B2oo', 'OiB3', 'OoB3', 'oB2i']
        for cap, rnd in ((1, 1), (2, 1), (3, 0)):
            for p in prods:
                for c in conss:
                    add(cap, rnd, p, c, 4)
        for cap, rnd in ((3, 1), (4, 1)):
            for p in prods[-8:]:
                for c in conss[-8:]:
                    add(cap, rnd, p, c, 4)
        for cap in (2, 4, 5):
            for p in ('pppb2', 'ppeb2', 'b2pb2', 'ppb2p', 'b3b2pb2', 'b2b2pb3', 'pb3pb3'):
                for c in ('oo', 'oO', 'B2o', 'B3o', 'ooo', 'oB3'):
                    add(cap, 0, p, c, 3)
    add(2, 1, 'pb2e', 'oB2i', 2, mode='tsan')
    add(3, 0, 'b3pc', 'OoB3', 2, mode='asan')
    return runs


reg('C35', level='model_checking', runs=c35_runs, quick_budget_s=240, thorough_budget_s=1500,
    technique='stateless model checking of the real SPSCRingBuffer with lifetime-tracked tagged elements: all interleavings of one producer and one consumer up to a deviation bound, strict-FIFO and acceptance oracle',
    level_text='producer programs x consumer programs of 2-3 operations (single and batch forms, every pop form) on capacities 1, 2 and exact 3, every interleaving with <=3 deviations (thorough: all programs of <=3 operations, capacities 1,2,3,3-rounded,4, bound 4). Oracle: pops return tags 0,1,2,... exactly; a push may be refused only if the buffer could have been full during the call and accepted only if it was not full throughout (bounds from completed/started operations of the other side), same for pops; quiescent size/empty/full, drain and refill; element lifetimes balance.',
    level_note='SC interleavings; "as observed by that thread" is evaluated with conservative bounds (operations of the peer that completed before the call started / started before it ended).',
    design_ref='DESIGN.md section 4, C35', assumptions=MC_ASSUME,
    rule='one evaluation = one complete execution of one producer/consumer program pair under one schedule; distinct_nontrivial = distinct scheduler states with more than one continuation',
    guards=[need_outcomes(3)])


def c36_runs(tier):
    runs, seen = [], set()

    def add(cap, owner, stealers, bound, mode='plain'):
        key = (cap, owner, tuple(sorted(stealers)), bound, mode)
        if key in seen:
            return
        seen.add(key)
        params = dict(cap=cap, t0=owner)
        for i, s in enumerate(stealers):
            params['t%d' % (i + 1)] = s
        runs.append(McRun('c34_rings', 'deque', params, bound=bound, mode=mode, budget=60))
        if mode == 'plain':
            # the deque's correctness rests on its seq_cst fences: every configuration is explored a second
            # time under the weak-memory option (stale reads as deviations), right after its SC run
            runs.append(McRun('c34_rings', 'deque', params, bound=min(bound, 2 if tier == 'quick' else 3), opts={'wm': 1}, budget=60, tag='.wm'))
    owners_q = ['po', 'ppo', 'ppoo', 'popo', 'pppo', 'pio', 'ppio']
    if tier == 'quick':
        for cap in (1, 2):
            for o in owners_q:
                for st in (['s'], ['ss'], ['s', 'S']):
                    add(cap, o, st, 3 if len(st) == 1 else 2)
        for o in ('pppo', 'ppop'):
            add(4, o, ['ss'], 2)
    else:
        owners = [o for o in _seqs(['p', 'o', 'i'], 4, 2) if 'p' in o and _has(o, 'oi')]
        for cap in (1, 2, 4):
            for o in owners:
                for st in (['s'], ['ss'], ['s', 'S']):
                    add(cap, o, st, 4 if len(st) == 1 else 3)
        for o in owners_q:
            add(2, o, ['s', 's', 'S'], 2)
            add(4, o, ['ss', 's', 'S'], 1)
    add(2, 'ppoo', ['ss', 'S'], 1, mode='tsan')
    add(2, 'ppio', ['s', 'S'], 2, mode='asan')
    return runs


reg('C36', level='model_checking', runs=c36_runs, quick_budget_s=240, thorough_budget_s=1500,
    technique='stateless model checking of the real ChaseLevDeque: all interleavings of an owner history with 1-3 stealers up to a deviation bound, exactly-once and order oracle',
    level_text='owner histories of 2-4 push/pop/pop_into operations against 1-2 stealers with 1-2 steals each on capacities 1, 2 (and 4), every interleaving with <=3 deviations including the last-element race (thorough: all owner histories of length <=4 over {push,pop,pop_into}, bound 4 against one stealer, 3 stealers at bound 1-2). Oracle: every returned value was pushed and is returned once; an owner pop returns the newest element of the owner-side model; each stealer receives increasing (oldest-first) values; quiescent size/empty, a quiescent steal returns the oldest remaining, pops the rest newest-first, then both fail; nothing is lost.',
    level_note='SC interleavings: the seq_cst fences the algorithm needs under weaker memory models are not exercised by this check (TSan leg covers data races only).',
    design_ref='DESIGN.md section 4, C36', assumptions=MC_ASSUME,
    rule='one evaluation = one complete execution of one owner history x stealer set under one schedule; distinct_nontrivial = distinct scheduler states with more than one continuation',
    guards=[need_outcomes(2)])


# ---------------------------------------------------------------------------------------------- C24
def c24_runs(tier):
    runs, seen = [], set()

    def add(progs, bound, mode='plain'):
        key = (tuple(progs), bound, mode)
        if key in seen:
            return
        seen.add(key)
        runs.append(McRun('c24_async_request', 'async_request', {'t%d' % i: p for i, p in enumerate(progs)}, bound=bound, mode=mode, budget=40))
    cons = ['rg', 'rgg', 'rgrg', 'grg', 'rrg']
    prods = ['e', 'ee', 'ue', 'eue']
    b = 2 if tier == 'quick' else 3
    for c in cons:
        for p in prods:
            add([c, p], b + 1)
            for c2 in (['g', 'rg', 'gg'] if tier == 'quick' else ['g', 'rg', 'gg', 'grg', 'r']):
                add([c, p, c2], b)
                if c in ('rg', 'rgrg') and p in ('e', 'ee'):
                    add([c, p, c2], 2, mode='tsan')
            for p2 in (['e'] if tier == 'quick' else ['e', 'ee', 'ue']):
                add([c, p, p2], b)
    if tier != 'quick':
        for c in ('rg', 'rgg'):
            for p in ('e', 'ee'):
                add([c, p, 'gg', 'e'], 2)
                add([c, p, 'rg', 'ue'], 2)
                add([c, p, 'g', 'e'], 2, mode='tsan')
    add(['rgrg', 'ee', 'gg'], 2, mode='asan')
    return runs


reg('C24', level='model_checking', runs=c24_runs, quick_budget_s=240, thorough_budget_s=1200,
    technique='stateless model checking of the real AsyncRequest with 1-2 consumers and 1-2 producers, plus the same schedules under ThreadSanitizer (the multi-consumer failure is a race on the payload)',
    level_text='consumer programs over {requestUpdate, getUpdate} x producer programs over {updateRequested, tryEmplaceUpdate(unique tag)}, with a second consumer or a second producer, every interleaving with <=2 deviations (3 for two threads; thorough one more and 4 threads), and the three-thread shapes again under TSan. Oracle: a returned tag was emplaced successfully and is returned once; the number of successful emplaces never exceeds the requests started nor getUpdate calls started + 1; payload lifetimes balance; no TSan report.',
    level_note='SC interleavings at atomic operations: the duplicate-delivery failure of a multi-consumer getUpdate shows up at this granularity only as a data race on the payload, which is why the TSan leg is part of this check.',
    design_ref='DESIGN.md section 4, C24', assumptions=MC_ASSUME,
    rule='one evaluation = one complete execution of one program tuple under one schedule; distinct_nontrivial = distinct scheduler states with more than one continuation',
    guards=[need_outcomes(3)])


# ---------------------------------------------------------------------------------------------- C45
def c45_runs(tier):
    b = 2 if tier == 'quick' else 3
    runs = [McRun('c45_thread_id', 'thread_id', dict(t=2), bound=b + 1),
            McRun('c45_thread_id', 'thread_id', dict(t=3), bound=b),
            McRun('c45_thread_id', 'thread_id', dict(t=4), bound=b - 1),
            McRun('c45_thread_id', 'thread_id', dict(t=4), bound=b, opts={'free_switch_cost': 1}),
            McRun('c45_thread_id', 'thread_id', dict(t=64), bound=1, opts={'free_switch_cost': 1}, budget=90),
            McRun('c45_thread_id', 'thread_id', dict(t=3), bound=2, mode='tsan'),
            McRun('c45_thread_id', 'thread_id', dict(t=3), bound=2, mode='asan')]
    if tier != 'quick':
        runs.append(McRun('c45_thread_id', 'thread_id', dict(t=8), bound=2, opts={'free_switch_cost': 1}, budget=120))
    return runs


reg('C45', level='model_checking', runs=c45_runs, quick_budget_s=150, thorough_budget_s=600,
    technique='stateless model checking of threadId() first calls from 2-64 concurrently started threads',
    level_text='T in {2,3,4} threads (plus T=64 with every non-default switch counted as a deviation, bound 1) each calling threadId() twice around a scheduling point, every interleaving up to the bound; oracle: equal within a thread, pairwise distinct across threads.',
    level_note='the process-wide id counter is reset before each execution (numbering restarts), which does not affect distinctness or stability',
    design_ref='DESIGN.md section 4, C45', assumptions=MC_ASSUME,
    rule='one evaluation = one complete execution under one schedule; distinct_nontrivial = distinct scheduler states with more than one continuation',
    guards=[need_outcomes(2)])


# ---------------------------------------------------------------------------------------------- C25
def c25_runs(tier):
    runs, seen = [], set()

    def add(size, progs, bound, mode='plain'):
        key = (size, tuple(sorted(progs[1:])), progs[0], bound, mode)
        if key in seen:
            return
        seen.add(key)
        params = {'t%d' % i: p for i, p in enumerate(progs)}
        params['size'] = size
        runs.append(McRun('c25_resource_pool', 'resource_pool', params, bound=bound, mode=mode, budget=60))
    b = 1 if tier == 'quick' else 2
    for size in (1, 2):
        for progs in (['a', 'a'], ['aa', 'a'], ['aa', 'aa'], ['a', 'a', 'a'], ['aa', 'a', 'a']):
            add(size, progs, b if len(progs) == 3 or size == 2 else b + 1)
    for progs in (['m', 'a'], ['m', 'aa'], ['m', 'a', 'a'], ['ma', 'a', 'a']):
        add(2, progs, b)
    if tier != 'quick':
        for size in (3, 4):
            add(size, ['aa', 'aa', 'a', 'a'], 1)
            add(size, ['m', 'a', 'a', 'a'], 1)
        add(3, ['m', 'aa', 'a'], 2)
    add(1, ['a', 'a', 'a'], 1, mode='tsan')
    add(2, ['m', 'a', 'a'], 1, mode='asan')
    return runs


reg('C25', level='model_checking', runs=c25_runs, quick_budget_s=240, thorough_budget_s=1200,
    technique='stateless model checking of the real ResourcePool (moodycamel blocking queue + modelled POSIX semaphore): all interleavings of acquirers/releasers up to a deviation bound',
    level_text='pools of size 1-2 (3-4 thorough) with 2-3 (4) threads each running {acquire; use; release} once or twice, plus one thread move-assigning a second handle onto a live one; every interleaving with <=1 deviation (2 for two threads; thorough one more). Oracle: per-resource holder count <=1, held <= size, init ran size times, a blocked acquire proceeds after a release (a thread left blocked is a deadlock verdict), at quiescence exactly size distinct resources can be acquired, every resource destroyed once (lifetime registry).',
    level_note='sem_wait/sem_post/sem_timedwait are modelled; moodycamel is explored through its atomics as part of the code under test',
    design_ref='DESIGN.md section 4, C25', assumptions=MC_ASSUME,
    rule='one evaluation = one complete execution of one program tuple under one schedule; distinct_nontrivial = distinct scheduler states with more than one continuation',
    guards=[need_outcomes(1)])


# ---------------------------------------------------------------------------------------------- weak-memory legs
# The lock-free cores are additionally explored with opt.wm=1: non-RMW loads may read any store that
# coherence and happens-before still allow (an older store is a deviation), so orderings that a
# sequentially consistent scheduler cannot distinguish (a weakened release/acquire, a missing seq_cst
# fence) become visible. Configurations are drawn evenly from the plain-mode matrix of the same check.
from specs import CHECKS as _CHECKS  # noqa: E402


def _add_wm(pid, n_quick, n_thorough, b_quick, b_thorough):
    base = _CHECKS[pid]['runs']

    def runs(tier):
        rs = base(tier)
        plain = [r for r in rs if r.mode == 'plain']
        k = n_quick if tier == 'quick' else n_thorough
        b = b_quick if tier == 'quick' else b_thorough
        step = max(1, len(plain) // max(1, k))
        extra = [McRun(r.bin, r.harness, r.params, bound=min(r.bound, b), opts=dict(r.opts, wm=1), budget=r.budget, tag='.wm')
                 for r in plain[::step][:k]]
        return rs + extra
    _CHECKS[pid]['runs'] = runs
    _CHECKS[pid]['level_note'] += ' A weak-memory leg (opt.wm=1: view-based release/acquire model, stale reads as deviations; stronger than C++11 for seq_cst, no load buffering) re-explores a sample of the matrix.'


_add_wm('C21', 8, 30, 2, 3)
_add_wm('C22', 20, 120, 2, 2)
_add_wm('C23', 12, 60, 2, 2)
_add_wm('C24', 15, 60, 2, 3)
_add_wm('C34', 25, 150, 2, 2)
_add_wm('C35', 30, 200, 2, 3)
