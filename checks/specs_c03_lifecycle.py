"""C03 / C07 / C09: ThreadPool lifecycle (resize racing submissions, wake-ups into a parked pool, shutdown)."""
from specs import reg, McRun, product, MC_ASSUME, need_cover, need_outcomes  # noqa: F401

BIN = 'c03_lifecycle'
RULE = ('one evaluation = one complete execution of one harness configuration under one schedule; distinct_nontrivial = '
        'distinct scheduler states (reads-from history hashes) at which more than one continuation existed')


# ---------------------------------------------------------------------------------------------- C07
C07_PATHS = ['s', 'q', 'b', 'ts', 'tb', 'cs', 'pfs', 'pfa']


def c07_runs(tier):
    """Sized for ~170 executions/s and 1-2 s start-up per run (this VM with a dozen other checks running)."""
    runs = []
    opts = {'wakepick_cost': 0}  # every kernel choice of which futex waiters to wake is free
    quick = tier == 'quick'

    def add(n, path, k, hold, bound, mode='plain4', budget=40):  # plain4: see Makefile and level_note
        if hold and (k < 2 or path == 'pfa'):
            return  # hold only differs from hold=0 when two bodies have to overlap; pfa has no 1:1 task/body map
        runs.append(McRun(BIN, 'idle_submit', dict(n=n, path=path, k=k, hold=hold), bound=bound, mode=mode, opts=opts, budget=budget))

    if quick:
        # from the fully parked state, no preemption, all waiter picks: the quantifier of the statement.
        # Ordered so that the partial-group ring submissions and one run per path come first.
        for path in ('tb', 'pfs', 'pfa'):
            add(2, path, 1, 0, 0)
        for path in C07_PATHS:
            add(2, path, 2, 0, 0)
        for path in ('q', 'cs', 'tb'):
            add(2, path, 2, 1, 0)
        for path in ('s', 'q', 'b', 'ts', 'cs'):
            add(2, path, 1, 0, 0)
        for k in (1, 3):
            add(3, 'tb', k, 0, 0)
        for path in ('q', 'tb', 'cs', 'pfa'):
            add(1, path, 1, 0, 0)
        # one preemption on top (the producer racing the workers it has just woken)
        add(2, 'q', 2, 1, 1)
        add(2, 'cs', 2, 0, 1)
        add(2, 'q', 2, 0, 1)
    else:
        for n in (1, 2, 3):
            for path in C07_PATHS:
                for k in range(1, n + 1):  # the statement quantifies over 1..N tasks (see level_note)
                    for hold in (0, 1):
                        add(n, path, k, hold, 1 if n == 1 else 0)
        for path in C07_PATHS:
            for hold in (0, 1):
                add(2, path, 2, hold, 1, budget=90)
            add(2, path, 1, 0, 1, budget=90)
        for path in ('q', 'tb'):
            add(3, path, 1, 0, 1, budget=120)
        for path, hold in (('q', 0), ('q', 1), ('s', 0), ('cs', 1), ('tb', 0), ('ts', 0)):
            add(2, path, 2, hold, 2, budget=240)
    # sanitizer legs (2-500 executions/s depending on machine load): smallest shapes
    add(2, 'tb', 2, 0, 0, mode='tsan', budget=90)
    add(1, 'cs', 1, 0, 0, mode='tsan', budget=90)
    add(2, 'q', 2, 1, 0, mode='asan', budget=90)
    add(1, 'pfa', 2, 0, 0, mode='asan', budget=90)
    return runs


reg('C07', level='model_checking', runs=c07_runs, quick_budget_s=240, thorough_budget_s=1200,
    technique='stateless model checking of the real ThreadPool/TaskSet/parallel_for code: the pool is brought to the state "every worker blocked in its futex wait", timed waits are then forbidden to expire, one producer submits without waiting, and every kernel choice of which futex waiters a FUTEX_WAKE reaches is explored at no cost',
    level_text='pools of 1-3 threads x {pool.schedule, schedule(ForceQueuingTag), pool.scheduleBulk, TaskSet::schedule, TaskSet::scheduleBulk (ring fast path), ConcurrentTaskSet(kHeavy)::schedule (steal ring), parallel_for(wait=false) static and adaptive} x k=1..N tasks x {short bodies, bodies that stay busy until min(k,N) of them run}; all futex waiter picks. quick: 0 preemptions on N=2 (every path with k=2, the ring paths and the central-queue paths with k=1, busy bodies on {q,cs,tb}), N=3 tb k in {1,3}, N=1 k=1 on four paths, plus 1 preemption on N=2 k=2 {q busy bodies, q, cs}. thorough: the whole matrix with 0 preemptions (N=1: 1), 1 preemption on every N=2 path for k in {1,2}, N=3 k=1 {q,tb}, 2 preemptions on N=2 k=2 {q, q busy, s, cs busy, tb, ts}. Oracle: every task body starts (task sets drain) while no timed wait may expire; a state with an unstarted task and every thread parked is a deadlock verdict = "depends on the backstop".',
    level_note='k is limited to 1..N as in the statement: with k=N+1 the extra task is submitted when a worker is between its last queue check and its futex wait, i.e. not to a fully parked pool - the race thread_pool.h documents the backstop for (an earlier version of this matrix had k=N+1 and reported it; corrected as a check that demanded more than the property). The plain runs use the plain4 build (worker spin limit DISPENSO_TUNE_FIXED_SPIN_ITERS=4, two full passes over the work sources before parking, instead of 2 = one pass): with one pass a worker parked after a single lost fail-fast MpmcRingBuffer::try_pop race, which the shipped configuration (200/400 passes) retries a hundred times; the one alarm that produced (cs, busy bodies, N=2, 2 deviations) was a false alarm of the tuning, corrected this way. the all-parked precondition is established exactly (T0 sleeps in virtual time, which can only expire when every worker is blocked in futex_wait); wake group size is the default 8, so pools of <=3 threads are a single wake group (a -DDISPENSO_TUNE_WAKE_GROUP_SIZE=2 build was run by hand, see harness/c03_lifecycle.notes.md)',
    design_ref='DESIGN.md section 4, C07', assumptions=MC_ASSUME, rule=RULE,
    guards=[need_cover('ring_fast_path'), need_outcomes(4)])


# ---------------------------------------------------------------------------------------------- C09
def c09_configs(n, full):
    out = []
    for poll in (0, 1):
        ops = ['d', 'r0', 'r%d' % (n + 1), 'w0', 'w1'] + (['r%d' % (n - 1)] if n > 1 else [])
        for op in ops:
            for task in (0, 1, 2):
                for when in ((0, 1, 2) if not poll else (0,)):
                    if not full and task == 1 and when != 0:
                        continue
                    out.append(dict(n=n, poll=poll, op=op, task=task, when=when))
    return out


def c09_runs(tier):
    runs = []
    quick = tier == 'quick'

    def add(cfg, bound, mode='plain', budget=60):
        runs.append(McRun(BIN, 'lifecycle', cfg, bound=bound, mode=mode, budget=budget))

    if quick:
        for op in ('d', 'r1', 'r3', 'w1'):
            add(dict(n=2, poll=0, op=op, task=2, when=2), 1)
        for op in ('d', 'r0', 'r2', 'w0', 'w1'):
            add(dict(n=1, poll=0, op=op, task=0, when=0), 2)
            add(dict(n=1, poll=0, op=op, task=0, when=2), 2)
            add(dict(n=1, poll=1, op=op, task=0, when=0), 2)
        for op in ('d', 'r2', 'w1'):
            add(dict(n=1, poll=0, op=op, task=2, when=1), 2)
            add(dict(n=1, poll=1, op=op, task=2, when=0), 1)
        add(dict(n=1, poll=0, op='d', task=1, when=0), 2)
        for op in ('d', 'r1', 'r3', 'w1'):
            add(dict(n=2, poll=0, op=op, task=0, when=1), 1)
            add(dict(n=2, poll=1, op=op, task=0, when=0), 1)
        add(dict(n=3, poll=0, op='d', task=2, when=2), 0)
    else:
        for cfg in c09_configs(1, False):
            add(cfg, 2, budget=90)
        for cfg in c09_configs(2, False):
            if cfg['poll'] and cfg['task'] == 2 and cfg['op'] in ('r3', 'w0', 'w1'):
                continue  # 5-20 k executions each
            add(cfg, 1, budget=60)
        for cfg in c09_configs(3, False):
            if cfg['poll'] or cfg['op'] not in ('d', 'r2', 'w1') or cfg['task'] == 1:
                continue
            add(cfg, 0, budget=60)
        for op in ('d', 'r0', 'w1'):
            add(dict(n=1, poll=0, op=op, task=0, when=1), 3, budget=90)
    add(dict(n=2, poll=0, op='r1', task=1, when=1), 0, mode='tsan', budget=90)
    add(dict(n=1, poll=1, op='w1', task=2, when=0), 0, mode='tsan', budget=90)
    add(dict(n=1, poll=0, op='r2', task=1, when=2), 0, mode='asan', budget=90)
    add(dict(n=1, poll=0, op='d', task=0, when=0), 1, mode='asan', budget=90)
    return runs


reg('C09', level='model_checking', runs=c09_runs, quick_budget_s=300, thorough_budget_s=1500,
    technique='stateless model checking of the real ThreadPool: ~ThreadPool / resize(n) / setSignalingWake(b) issued at every point of the worker loop reachable within the preemption bound, with timed futex waits forbidden to expire in wake mode (in poll mode the 200 us poll period is the mechanism and the oracle is termination)',
    level_text='N in {1,2,3} x {wake mode, poll mode} x {no task, one task submitted and not awaited, one task whose body is running} x {call issued at once, at the last worker\'s enterSleep, with every worker blocked in futex_wait} x {destroy, resize(0), resize(N-1), resize(N+1), setSignalingWake(false,200us), setSignalingWake(true)}; all interleavings with <=2 deviations for N=1 (3 on three shapes in thorough), <=1 for N=2, the default schedules plus all free switches for N=3; quick runs a 39-configuration subset of the 132-configuration thorough matrix; every execution ends with a second shutdown of the freshly started workers. Oracle: the call returns (a worker left parked shows as T0 blocked in join = deadlock verdict), afterwards live modelled threads == 1 + new size, numThreads() == new size, a queued task has run when ~ThreadPool returns.',
    level_note='timeouts are switched off only when the call under test begins: a submission racing a worker that is just parking may legitimately need the backstop (documented in thread_pool.h) and is not the subject of C09',
    design_ref='DESIGN.md section 4, C09', assumptions=MC_ASSUME, rule=RULE,
    guards=[need_cover('destroy', 'grow', 'to_zero', 'to_poll', 'to_wake', 'worker_busy', 'at_enter_sleep', 'all_parked'), need_outcomes(4)])


# ---------------------------------------------------------------------------------------------- C03
C03_PATHS = ['s', 'ts', 'tb', 'cs', 'pf', 'as']


def c03_scripts(n):
    s = [str(n + 1), str(n - 1), '0', '0.%d' % n, '%d.%d' % (n - 1, n + 1)]
    return list(dict.fromkeys(s))


def c03_runs(tier):
    runs = []
    quick = tier == 'quick'
    # every switch between enabled threads is a deviation here (6-7 threads; with free switches at blocking points
    # bound 0 alone is >10^5 executions per configuration)
    opts = {'free_switch_cost': 1}

    def add(n, path, r, gate, bound, mode='plain', budget=40, watch=0, k=None):
        params = dict(n=n, path=path, r=r, gate=gate)
        if watch:
            params['watch'] = watch  # the whole script right before the submitter's watch-th access to numRings_
        if k is not None:
            params['k'] = k
        runs.append(McRun(BIN, 'resize_work', params, bound=bound, mode=mode, opts=opts, budget=budget))

    # directed, in the windows of the ring dispatch that contain no user code (numRings_ is read by the task set's
    # gate and again by scheduleBulkToRings): shrinking, emptying and shrink-then-grow scripts
    for n, scripts in ((2, ('1', '0', '1.3')), (3, ('1', '2', '2.4'))):
        if quick and n == 3:
            scripts = ('1',)
        for path in ('tb', 'pf'):
            for r in scripts:
                for w in (1, 2):
                    add(n, path, r, 0, 0, watch=w)

    if quick:
        # directed first (one execution each): the whole resize script at the g-th user-code hook inside the
        # submission call
        for path in ('tb', 'pf'):
            for r in ('1', '0', '1.3'):
                for g in (1, 3):
                    add(2, path, r, g, 0)
        for path in ('s', 'ts', 'cs', 'as'):
            for r in ('1', '0'):
                add(2, path, r, 2, 0)
        # free-running race
        for path in C03_PATHS:
            for r in ('1', '0', '3'):
                add(2, path, r, 0, 1)
        for path in C03_PATHS:
            for r in ('0', '2'):
                add(1, path, r, 0, 1)
    else:
        for n in (1, 2):
            for path in C03_PATHS:
                for r in c03_scripts(n):
                    add(n, path, r, 0, 1, budget=60)
                    if n == 1 and path not in ('tb', 'pf'):
                        continue
                    for g in (1, 2, 3, 4, 5, 6):
                        if path not in ('tb', 'pf') and g > 4:
                            continue
                        add(n, path, r, g, 0, budget=30)
        for path in ('tb', 'cs'):
            add(2, path, '1.3', 0, 2, budget=240)
            add(2, path, '1.3', 2, 1, budget=90)
    add(2, 'tb', '3', 1, 0, mode='tsan', budget=90)
    add(2, 'cs', '0.2', 0, 0, mode='tsan', budget=90)
    add(2, 'pf', '1.3', 2, 0, mode='asan', budget=90)
    add(1, 'as', '0.1', 0, 0, mode='asan', budget=90)
    return runs


reg('C03', level='model_checking', runs=c03_runs, quick_budget_s=330, thorough_budget_s=1500,
    technique='stateless model checking of the real ThreadPool with a submitting thread, a resizing thread and a virtual-time watchdog; besides the free-running race, directed variants that run the complete resize script inside a named window of the submission call: right before a given access of the submitter to numRings_ (engine watch hook), and "slow user code" variants (a bulk generator / functor copy that returns only after the whole resize script ran) place a complete resize at every user-code hook inside the submission call without spending deviations',
    level_text='N in {1,2} x {pool.schedule, TaskSet::schedule, TaskSet::scheduleBulk (ring fast path), ConcurrentTaskSet(kHeavy)::schedule (steal ring), static parallel_for with wait, dispenso::async + Future::wait} x resize scripts {[N+1],[N-1],[0],[0,N],[N-1,N+1]}: free-running race with <=1 deviation where every switch between enabled threads counts as a deviation (2 on two shapes in thorough); directed variants with the whole resize script right before the submitter\'s 1st / 2nd read of numRings_ inside the ring dispatch (windows without user code; N in {2,3}), and at user-code hook g of the submission call (quick g in {1,3} for the ring paths and g=2 for the others on N=2; thorough g=1..6 / 1..4 for every script), default schedule. Oracle: every body runs exactly once, all of the submitter\'s tasks have finished when wait() returns, wait() and resize() return within 3 s of virtual time with the 100 ms backstop allowed to fire (so only a task that nobody will ever run is reported), numThreads() and the live worker count equal the last size, every body has run when ~ThreadPool returns and none runs afterwards.',
    level_note='concurrent schedule()/resize() is supported usage (thread_pool_test ResizeConcurrent, ResizeMoreConcurrent, ResizeGrowConcurrentBulk; comments in resizeLocked). The engine\'s spin heuristic parks the resizer\'s ring-drain loop until another thread writes, so "resize completes while the submitter is preempted inside the ring fast path" is not reachable in the free-running programs; the directed variants exist to cover exactly that window (see notes).',
    design_ref='DESIGN.md section 4, C03', assumptions=MC_ASSUME, rule=RULE,
    guards=[need_cover('ring_fast_path', 'steal_ring', 'gate_fired', 'watch_fired', 'left_for_destructor'), need_outcomes(4)])
