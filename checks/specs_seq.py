"""Sequential bounded-exhaustive enumerators (exploration level)."""
from specs import reg, SeqRun  # noqa: F401
