"""Sequential bounded-exhaustive enumerators (exploration level)."""
from specs import reg, SeqRun  # noqa: F401

SEQ_ASSUME = ['single-threaded use of the unmodified headers; the enumerator is compiled with ASan+UBSan, so any memory error or UB on an enumerated case aborts it and is reported as a violation',
              'the reference model (std::vector / optional semantics / counters) is trusted']


def seq_check(pid, binary, technique, text, note, quick_budget=150, thorough_budget=900, extra_bins=()):
    def runs(tier):
        return [SeqRun(b, tier, budget=quick_budget if tier == 'quick' else thorough_budget) for b in (binary,) + tuple(extra_bins)]
    reg(pid, level='exploration', runs=runs, quick_budget_s=quick_budget, thorough_budget_s=thorough_budget, technique=technique,
        level_text=text, level_note=note, design_ref='DESIGN.md section 4, ' + pid, assumptions=SEQ_ASSUME)


seq_check('C40', 'c40_opresult',
          'bounded-exhaustive enumeration of all OpResult operation sequences against optional semantics with lifetime tracking',
          'Every applicable operation sequence of length <=4 (quick) / <=5 (thorough) over up to 3 OpResult<Tracked<int>> objects and {construct empty / from rvalue / from lvalue, emplace, destroy, copy- and move-construct from j, copy- and move-assign i=j including self}; after every step engagement, value, operator bool and return values are compared with hand-tracked optional semantics (moved-from objects unspecified), and at the end of every history constructions and destructions of contained objects must balance with nothing constructed over a live object.',
          'single-threaded; moved-from state treated as unspecified so the oracle does not demand more than optional semantics')
seq_check('C39', 'c39_oncefunction',
          'bounded-exhaustive enumeration of callable size x alignment x move/call histories for OnceFunction with per-instance lifetime counters',
          '13 callable sizes x 7 alignments (51 distinct types across the inline/spill boundary and every small-buffer class) x 7 histories (call; cleanupNotRun; move,call; move,move,cleanupNotRun; move-assign then call/cleanup; construct from lvalue) x 4 block-recycling schedules x 300 repetitions (x10 rounds thorough). Oracle: invoked exactly when called and at most once, destroyed exactly once, `this` aligned at construction/invocation/destruction, obligations follow the move.',
          'single-threaded; UBSan alignment check is disabled around the callable type so that misalignment is reported by the oracle with a replay instead of an abort')

seq_check('C38', 'c38_smallvector',
          'bounded-exhaustive enumeration of SmallVector operation histories on two vectors against std::vector, with lifetime tracking, address-alignment checks and a minimum-alignment operator new',
          'All histories of <=4 (quick) / <=5 (thorough) operations on two SmallVector<T,N> a,b, merged by canonical state (contents, inline/heap, capacity), over pushes, emplace_back, pop_back, clear, resize(n), resize(n,v), reserve, erase, copy/move/self assignment, all constructors, and self-aliasing arguments (x.push_back(x.front()), x.resize(n, x.front())), for N in {1,2,4} x T in {int, Tracked<int>, alignas(64) tracked}; plus a heap-address probe over every reserve size up to 64 with 0..7 other live vectors under an operator new that returns blocks aligned to exactly 16. Oracle: accessors and return values equal std::vector, every element address is a multiple of alignof(T), live registry equals the elements, balanced after destruction, every heap block released once.',
          'single-threaded; operator new is replaced inside SmallVector operations so that the alignment verdict does not depend on what the allocator happens to return')
seq_check('C43', 'c43_cpuset',
          'bounded-exhaustive enumeration of CpuSet operation sequences against std::set, of all short strings through the CPU-list parser against a reference grammar, and of all small cache topologies through the grouping function',
          'Set algebra: BFS over all sequences (depth 4 quick, closed state space at depth 6 thorough) of add/remove over 9 ids and addRange/removeRange over all 81 id pairs incl. negative and huge ids, contains/count compared with std::set restricted to the representable range after every step. Parser: every string of length <=6 (7 thorough) over {0,1,9,comma,dash,space,newline,x} plus all lists of <=3 items with bounds from the id set; well-formed lists must yield exactly the in-range ids they denote, everything else must stay in range and UB-free. Grouping: every topology of <=6 (7) CPUs (all set partitions into L2 groups x all assignments to <=3 L3 groups or unknown, dense and sparse ids) x maxGroupSize 1..7 (8); the four clauses of the statement checked on the output.',
          'single-threaded; functions reached through the exported entry points with injected inputs (no sysfs reads in the enumerated part)')
