"""Sequential bounded-exhaustive enumerators (exploration level)."""
from specs import reg, SeqRun  # noqa: F401

SEQ_ASSUME = ['single-threaded use of the unmodified headers; the enumerator is compiled with ASan+UBSan, so any memory error or UB on an enumerated case aborts it and is reported as a violation',
              'the reference model (std::vector / optional semantics / counters) is trusted']


def seq_check(pid, binary, technique, text, note, quick_budget=150, thorough_budget=900, extra_bins=()):
    def runs(tier):
        return [SeqRun(b, tier, budget=quick_budget if tier == 'quick' else thorough_budget) for b in (binary,) + tuple(extra_bins)]
    reg(pid, level='exploration', runs=runs, quick_budget_s=quick_budget, thorough_budget_s=thorough_budget, technique=technique,
        level_text=text, level_note=note, design_ref='DESIGN.md section 4, ' + pid, assumptions=SEQ_ASSUME)


seq_check('C40', 'c40_opresult',
          'bounded-exhaustive enumeration of all OpResult operation sequences against optional semantics with lifetime tracking',
          'Every applicable operation sequence of length <=4 (quick) / <=5 (thorough) over up to 3 OpResult<Tracked<int>> objects and {construct empty / from rvalue / from lvalue, emplace, destroy, copy- and move-construct from j, copy- and move-assign i=j including self}; after every step engagement, value, operator bool and return values are compared with hand-tracked optional semantics (moved-from objects unspecified), and at the end of every history constructions and destructions of contained objects must balance with nothing constructed over a live object.',
          'single-threaded; moved-from state treated as unspecified so the oracle does not demand more than optional semantics')
seq_check('C39', 'c39_oncefunction',
          'bounded-exhaustive enumeration of callable size x alignment x move/call histories for OnceFunction with per-instance lifetime counters',
          '13 callable sizes x 7 alignments (51 distinct types across the inline/spill boundary and every small-buffer class) x 7 histories (call; cleanupNotRun; move,call; move,move,cleanupNotRun; move-assign then call/cleanup; construct from lvalue) x 4 block-recycling schedules x 300 repetitions (x10 rounds thorough). Oracle: invoked exactly when called and at most once, destroyed exactly once, `this` aligned at construction/invocation/destruction, obligations follow the move.',
          'single-threaded; UBSan alignment check is disabled around the callable type so that misalignment is reported by the oracle with a replay instead of an abort')

seq_check('C38', 'c38_smallvector',
          'bounded-exhaustive enumeration of SmallVector operation histories on two vectors against std::vector, with lifetime tracking, address-alignment checks and a minimum-alignment operator new',
          'All histories of <=4 (quick) / <=5 (thorough) operations on two SmallVector<T,N> a,b, merged by canonical state (contents, inline/heap, capacity), over pushes, emplace_back, pop_back, clear, resize(n), resize(n,v), reserve, erase, copy/move/self assignment, all constructors, and self-aliasing arguments (x.push_back(x.front()), x.resize(n, x.front())), for N in {1,2,4} x T in {int, Tracked<int>, alignas(64) tracked}; plus a heap-address probe over every reserve size up to 64 with 0..7 other live vectors under an operator new that returns blocks aligned to exactly 16. Oracle: accessors and return values equal std::vector, every element address is a multiple of alignof(T), live registry equals the elements, balanced after destruction, every heap block released once.',
          'single-threaded; operator new is replaced inside SmallVector operations so that the alignment verdict does not depend on what the allocator happens to return')
seq_check('C43', 'c43_cpuset',
          'bounded-exhaustive enumeration of CpuSet operation sequences against std::set, of all short strings through the CPU-list parser against a reference grammar, and of all small cache topologies through the grouping function',
          'Set algebra: BFS over all sequences (depth 4 quick, closed state space at depth 6 thorough) of add/remove over 9 ids and addRange/removeRange over all 81 id pairs incl. negative and huge ids, contains/count compared with std::set restricted to the representable range after every step. Parser: every string of length <=6 (7 thorough) over {0,1,9,comma,dash,space,newline,x} plus all lists of <=3 items with bounds from the id set; well-formed lists must yield exactly the in-range ids they denote, everything else must stay in range and UB-free. Grouping: every topology of <=6 (7) CPUs (all set partitions into L2 groups x all assignments to <=3 L3 groups or unknown, dense and sparse ids) x maxGroupSize 1..7 (8); the four clauses of the statement checked on the output.',
          'single-threaded; functions reached through the exported entry points with injected inputs (no sysfs reads in the enumerated part)')

seq_check('C17', 'c17_chunking',
          'exhaustive enumeration of item/chunk/granularity domains through staticChunkSize, its granular variant and the real boundary-mapping code of static parallel_for and for_each, against a reference partition',
          'staticChunkSize for all items 0..4096 x chunks 1..130; the granular variant for g 1..17, items=g*u, u 0..600, chunks 1..70; the overflow frontier items+chunks-1 <= SSIZE_MAX; parallel_for_staticImpl / StaticChunkMapper for every 8-bit range x every thread count x wait x every dividing granularity; public parallel_for on every 8-bit range; 16/32/64-bit ranges at their extremes (including ranges wider than the positive half of the type); for_each_n on vector and list for n 0..300 x threads 1..40 (thorough: ranges x4). Oracle: every chunk executed once, chunks contiguous and covering exactly, sizes multiples of g, larger chunks first, sizes equal to the reference partition; UBSan reports on any enumerated input are violations.',
          'the real headers are instantiated with an inline task-set stand-in that runs scheduled closures on the caller, so the arithmetic under test is the library\'s own; scheduling is covered by C12/C15',
          quick_budget=150, thorough_budget=1200)
seq_check('C44', 'c44_bitmath',
          'exhaustive enumeration of all 2^32 inputs of the 32-bit bit-math overloads (structured 64-bit set for the 64-bit ones) against loop-based reference definitions',
          'Every v in [0,2^32) through log2 (32/64-bit), countTrailingZeros, countSetBits, nextPow2, alignToCacheLine; log2const on every v < 2^26 plus the structured set (all 2^32 in thorough); a structured 64-bit set (every value with <=3 set bits, every 2^k+d with |d|<=3, structured 32-bit values at every shift; thorough adds all v<<s for v in [2^31,2^32)); alignedMalloc/alignedFree for every power-of-two alignment 1..2^16 x sizes {0,1,63,64,65,4097} x heap phases. Documented domains respected (nextPow2 up to 2^63, log2/ctz on non-zero values).',
          'the 64-bit domain is covered by a structured subset, not exhaustively (exhaustive:false is reported for that part)',
          quick_budget=200, thorough_budget=1500)

seq_check('C32', 'c32_concurrent_vector',
          'bounded-exhaustive enumeration of ConcurrentVector operation histories (pairs of vectors) against std::vector on all 24 trait/capacity combinations, with lifetime tracking',
          'BFS over histories of <=3 operations (thorough: a second pass to depth 4 on a reduced argument set) on two vectors v,w over the whole sequential API (all constructors, assign variants, push/emplace, the grow_by family, grow_to_at_least, insert variants incl. an aliasing value, erase(pos), erase(first,last), resize, reserve, pop_back, clear, shrink_to_fit, copy/move assignment, swap, comparisons, forward/reverse/const iteration, indexing/at/front/back) with arguments around the bucket boundaries, on 24 configurations (kDefaultCapacity 2 and 4 x buffers inline x iterator kind x 3 realloc strategies), element type Tracked<int>. Oracle: contents, size and returned positions equal std::vector after every step; nothing constructed over a live object, nothing destroyed twice, live objects == elements after every step, nothing live after destruction.',
          'single-threaded; capacity() equality is not required; sanitizer aborts and hangs are turned into violations with a replay',
          quick_budget=240, thorough_budget=1500)
