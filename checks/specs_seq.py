"""Sequential bounded-exhaustive enumerators (exploration level)."""
from specs import reg, SeqRun  # noqa: F401

SEQ_ASSUME = ['single-threaded use of the unmodified headers; the enumerator is compiled with ASan+UBSan, so any memory error or UB on an enumerated case aborts it and is reported as a violation',
              'the reference model (std::vector / optional semantics / counters) is trusted']


def seq_check(pid, binary, technique, text, note, quick_budget=150, thorough_budget=900, extra_bins=()):
    def runs(tier):
        return [SeqRun(b, tier, budget=quick_budget if tier == 'quick' else thorough_budget) for b in (binary,) + tuple(extra_bins)]
    reg(pid, level='exploration', runs=runs, quick_budget_s=quick_budget, thorough_budget_s=thorough_budget, technique=technique,
        level_text=text, level_note=note, design_ref='DESIGN.md section 4, ' + pid, assumptions=SEQ_ASSUME)


seq_check('C40', 'c40_opresult',
          'bounded-exhaustive enumeration of all OpResult operation sequences against optional semantics with lifetime tracking',
          'Every applicable operation sequence of length <=4 (quick) / <=5 (thorough) over up to 3 OpResult<Tracked<int>> objects and {construct empty / from rvalue / from lvalue, emplace, destroy, copy- and move-construct from j, copy- and move-assign i=j including self}; after every step engagement, value, operator bool and return values are compared with hand-tracked optional semantics (moved-from objects unspecified), and at the end of every history constructions and destructions of contained objects must balance with nothing constructed over a live object.',
          'single-threaded; moved-from state treated as unspecified so the oracle does not demand more than optional semantics')
seq_check('C39', 'c39_oncefunction',
          'bounded-exhaustive enumeration of callable size x alignment x move/call histories for OnceFunction with per-instance lifetime counters',
          '13 callable sizes x 7 alignments (51 distinct types across the inline/spill boundary and every small-buffer class) x 7 histories (call; cleanupNotRun; move,call; move,move,cleanupNotRun; move-assign then call/cleanup; construct from lvalue) x 4 block-recycling schedules x 300 repetitions (x10 rounds thorough). Oracle: invoked exactly when called and at most once, destroyed exactly once, `this` aligned at construction/invocation/destruction, obligations follow the move.',
          'single-threaded; UBSan alignment check is disabled around the callable type so that misalignment is reported by the oracle with a replay instead of an abort')
