"""C10 (no data races) and C11 (memory safe, leak free): the concurrent harnesses of the other checks
re-explored in ThreadSanitizer / AddressSanitizer+UBSan+LeakSanitizer builds, plus the sequential
enumerators (which are ASan+UBSan programs). Loaded last (file name sorts last) so that every other check is
registered already."""
from specs import reg, McRun, SeqRun, CHECKS, MC_ASSUME

CONCURRENT = ['C01', 'C02', 'C03', 'C04', 'C05', 'C06', 'C07', 'C08', 'C09', 'C12', 'C13', 'C14', 'C15', 'C16', 'C18', 'C19', 'C20',
              'C21', 'C22', 'C23', 'C24', 'C25', 'C26', 'C27', 'C28', 'C29', 'C30', 'C33', 'C34', 'C35', 'C36', 'C37', 'C41', 'C42',
              'C45', 'C46', 'C47', 'C48']
ERROR_PATHS = ['C04', 'C05', 'C29', 'C18', 'C09', 'C26', 'C03', 'C27', 'C33', 'C37', 'C41', 'C34', 'C25', 'C24']
SEQUENTIAL = ['C32', 'C37', 'C38', 'C39', 'C40', 'C43']


def _known():
    import json, os
    p = os.path.join(os.path.dirname(os.path.dirname(os.path.abspath(__file__))), 'known_findings.jsonl')
    out = []
    if os.path.exists(p):
        for line in open(p):
            line = line.strip()
            if line and not line.startswith('#'):
                out.append(json.loads(line))
    return out


def _pick(pid, per_harness):
    """evenly spaced plain-mode configurations of another check's quick matrix, per harness"""
    chk = CHECKS.get(pid)
    if not chk:
        return []
    try:
        rs = [r for r in chk['runs']('quick') if isinstance(r, McRun) and r.mode.startswith('plain')]
    except Exception:
        return []
    # configurations on which the source property has a recorded known finding are that property's business (it
    # reports them as KNOWN-FINDING); the sanitizer re-runs leave them out
    kn = [k for k in _known() if k.get('property') == pid and k.get('status') == 'known' and k.get('params')]
    rs = [r for r in rs if not any(k.get('harness') in (None, r.harness) and all(str(r.params.get(a)) == str(b) for a, b in k['params'].items()) for k in kn)]
    by = {}
    for r in rs:
        by.setdefault((r.bin, r.harness), []).append(r)
    out = []
    for key, lst in sorted(by.items()):
        if len(lst) <= per_harness:
            out += lst
        else:
            step = len(lst) / float(per_harness)
            out += [lst[int(i * step)] for i in range(per_harness)]
    return out


def c10_runs(tier):
    runs = []
    # a TSan execution of a pool program costs ~30 ms here (thread creation under TSan), and a process needs a few
    # seconds before its first counted execution: fewer configurations with room to finish beat many that are cut
    per = 1 if tier == 'quick' else 4
    for pid in CONCURRENT:
        for r in _pick(pid, per):
            runs.append(McRun(r.bin, r.harness, r.params, bound=min(r.bound, 1 if tier == 'quick' else 2), mode='tsan', opts=r.opts,
                              budget=30 if tier == 'quick' else 90, tag='.' + pid))
            runs[-1].source_pid = pid
    # message passing with plain payloads through the synchronisation primitives (a weakened memory order is invisible
    # to every functional oracle; only these accesses give ThreadSanitizer something to order)
    runs.append(McRun('c21_latch', 'latch', dict(c=2, A='1', B='1', aw=0, w=1), bound=1 if tier == 'quick' else 2, mode='tsan', opts={'wakepick_cost': 0}, budget=40, tag='.mp'))
    runs.append(McRun('c21_latch', 'cevent', dict(w=1, pre=0), bound=1, mode='tsan', budget=40, tag='.mp'))
    return runs


def c11_runs(tier):
    runs = []
    per = 1 if tier == 'quick' else 4
    for pid in ERROR_PATHS:
        for r in _pick(pid, per):
            runs.append(McRun(r.bin, r.harness, r.params, bound=min(r.bound, 1 if tier == 'quick' else 2), mode='asan', opts=r.opts,
                              budget=30 if tier == 'quick' else 90, tag='.' + pid))
            runs[-1].source_pid = pid
    # error paths that need two deviations to reach (the caller of pipeline() holding a dequeued item while another stage
    # throws; an item enqueued after a stage's wait() gave up): decided by the lifetime registry of the payloads (works in the plain build)
    runs.append(McRun('c27_pipeline', 'pipeline', dict(prop=29, n=1, st='ppp', items=3, thr=2, at=0, again=0), bound=2, mode='plain', budget=120, tag='.C29'))  # plain build: ASan reaches ~35 executions/s here, the lifetime registry decides in every mode
    runs[-1].source_pid = 'C29'
    for pid in SEQUENTIAL:
        chk = CHECKS.get(pid)
        if not chk:
            continue
        for r in chk['runs']('quick'):
            if isinstance(r, SeqRun):
                runs.append(SeqRun(r.bin, 'quick', r.args, budget=120))
    return runs


reg('C10', level='model_checking', runs=c10_runs, quick_budget_s=420, thorough_budget_s=2400,
    technique='the explored schedules of the concurrent harnesses re-run under ThreadSanitizer, with a scheduler whose hand-offs are invisible to TSan',
    level_text='Configurations drawn evenly from the quick matrices of every concurrent check (pool submission, task sets, resize/shutdown, loops, futures, pipelines, graphs, latch/event, RW locks, AsyncRequest, ResourcePool, ring buffers, deque, arena, vector growth, allocators, threadId), explored again at bound 1 (thorough: four configurations per harness, bound 2), each within a per-configuration time budget (the evidence lists the bound each one completed) in a -fsanitize=thread build. The scheduler translation unit is uninstrumented and hands the token over with raw futexes, so the serialisation adds no happens-before edges: TSan reports every pair of conflicting accesses on an explored schedule that dispenso\'s own atomics/locks (with their declared memory orders) do not order. Oracle: zero TSan reports; a report is a violation attributed to a replayable schedule.',
    level_note='"all API usage programs" is bounded to the programs these harnesses generate (listed in the evidence); TSan lock-order-inversion reports are disabled (deadlocks are the explorer\'s job); non-SC reorderings that are not data races are outside this check.',
    design_ref='DESIGN.md section 4, C10', assumptions=MC_ASSUME,
    rule='one evaluation = one complete execution under TSan of a configuration of another check under one schedule; distinct_nontrivial = distinct scheduler states with more than one continuation')

reg('C11', level='model_checking', runs=c11_runs, quick_budget_s=420, thorough_budget_s=2400,
    technique='the explored schedules of the error-path harnesses re-run under ASan+UBSan with a per-execution leak check, plus the ASan+UBSan sequential enumerators',
    level_text='Configurations drawn evenly from the quick matrices of the checks that exercise cancellation, exceptions, shutdown, teardown and lifetime (C03, C04, C05, C09, C18, C24-C27, C29, C33, C34, C37, C41), explored at bound 1 (thorough: four per harness, bound 2; per-configuration time budgets, completed bounds in the evidence) in an ASan+UBSan build; after every execution the allocator\'s live-byte count is compared with the count before it and any growth is handed to LeakSanitizer; lifetime-tracked payloads must balance. The sequential enumerators of C32/C37/C38/C39/C40/C43 (bounded-exhaustive operation histories) run as ASan+UBSan programs as part of this check. Oracle: no sanitizer report, no leak, balanced lifetimes.',
    level_note='"all programs and inputs" is bounded to what the harnesses and enumerators generate; bad_alloc is not injected.',
    design_ref='DESIGN.md section 4, C11', assumptions=MC_ASSUME,
    rule='one evaluation = one complete execution (or one enumerated history) under ASan+UBSan; distinct_nontrivial = distinct scheduler states / distinct canonical histories')
