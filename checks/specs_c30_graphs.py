"""C30 (graph executors respect dependencies, each incomplete node once) and C31 (partial re-evaluation runs exactly
the propagated closure): harness/c30_graphs.cpp.

Two kinds of runs:
 * canonical-schedule batches (`c30_batch` / `c31_batch`, --bound 0 with free_switch_cost=1 => exactly one schedule):
   one execution enumerates a whole slice of DAG x subgraph split x declaration order x build script inside the
   body; node bodies yield, so with N >= 1 the parked workers do take part. Slices are sized so that an execution
   stays below the engine's choice-record limit (49152) and step horizon (2M).
 * schedule exploration (`c30` / `c31`, one configuration per run, bound 1-2) of the concurrent executors on small
   DAGs (diamond, chain, fork, join, two components).
"""
import math
from specs import reg, McRun, product, MC_ASSUME, need_cover, need_outcomes  # noqa: F401

BIN = 'c30_graphs'
CANON = {'free_switch_cost': 1}


def _pc(x):
    return bin(x).count('1')


def count_cases(n, gt, script, c31, bmax=3, o=None, s=None, e=None):
    """mirror of enumerate() in the harness for one node count and one executor: (configurations, evaluations)"""
    P = n * (n - 1) // 2
    allm = (1 << n) - 1
    cases = evals = 0
    for e_ in range(1 << P):
        if e is not None and e_ != e:
            continue
        nb = (1 << _pc(e_)) if (gt == 1 and n <= bmax) else 1
        for s_ in range(allm + 1):
            if s is not None and s_ != s:
                continue
            for o_ in range(4):
                if o is not None and o_ != o:
                    continue
                if (o_ & 2) and _pc(e_) < 2:
                    continue
                if script == 0:
                    inner, ev = (1, 1) if c31 else (2, 2)
                elif script == 1:
                    ks = 2  # graph.clear(), graph.clearSubgraphs()
                    if (~s_) & allm:
                        ks += 1
                    if s_ != 0:
                        ks += 1
                    inner = ks * (1 if c31 else 4)
                    ev = inner * (2 if c31 else 2.5)
                else:
                    inner = (allm - 1) * (1 if c31 else 2)
                    ev = inner * 2
                if c31:
                    ev += inner * ((1 << n) + 2)
                cases += nb * inner
                evals += nb * ev
    return cases, int(evals)


_CC = {}


def batch(harness, n, gt, exs, N, script, mode='plain', bmax=3, nlo=None, max_parts=None, budget=120, **sel):
    """All slices of one canonical-schedule batch over node counts nlo..n and the executors in `exs` (a string of
    digits). max_parts: run only the first k slices (slices interleave the enumeration, so that is an even sample)."""
    c31 = harness.startswith('c31')
    exs = str(exs)
    nlo = n if nlo is None else nlo
    cases = evals = 0
    for nn in range(nlo, n + 1):
        key = (nn, gt, script, c31, bmax, sel.get('o'), sel.get('s'), sel.get('e'))
        if key not in _CC:
            _CC[key] = count_cases(*key)
        cases += _CC[key][0] * len(exs)
        evals += _CC[key][1] * len(exs)
    if cases == 0:
        return []
    if N == 0:
        steps = cases * 40 + evals * ((15 + 10 * n) if c31 else 22)
        cps = 0
    else:
        heavy = any(c in exs for c in '345')
        steps = cases * 100 + evals * 80
        cps = cases * (80 if heavy else 25) + evals * ((75 if heavy else 30) if c31 else (30 if heavy else 8))
    parts = max(1, int(math.ceil(steps / 1200000.0)), int(math.ceil(cps / 28000.0)))
    if mode != 'plain':
        parts = max(parts, int(math.ceil(steps / 200000.0)))
    params = dict(n=n, gt=gt, N=N, script=script)
    if len(exs) == 1:
        params['ex'] = int(exs)
    else:
        params['exs'] = exs
    if nlo != n:
        params['nlo'] = nlo
    if bmax != 3:
        params['bmax'] = bmax
    params.update(sel)
    todo = range(parts) if not max_parts else range(min(parts, max_parts))
    return [McRun(BIN, harness, dict(params, parts=parts, part=p), bound=0, mode=mode, opts=CANON, jobs=1, budget=budget) for p in todo]


# the small DAGs explored schedule by schedule: name -> (n, edge mask)
SHAPES = {'chain': (3, 5), 'fork': (3, 3), 'join': (3, 6), 'diamond': (4, 51), 'two_components': (4, 33)}


def explore(harness, shape, ex, N, bound, gt=0, mode='plain', budget=60, **kw):
    n, e = SHAPES[shape]
    params = dict(n=n, e=e, gt=gt, ex=ex, N=N)
    params.update(kw)
    return McRun(BIN, harness, params, bound=bound, mode=mode, budget=budget)


# ---------------------------------------------------------------------------------------------- C30
def c30_runs(tier):
    runs = []
    quick = tier == 'quick'
    ALL = '012345'
    # --- canonical schedule, zero-thread pool (no hand-offs: cheap, so this is where the input space is exhaustive)
    for script in (0, 1, 2):
        runs += batch('c30_batch', 3, 0, ALL, 0, script, nlo=1)
        if quick:
            runs += batch('c30_batch', 3, 1, ALL if script == 0 else '03', 0, script, nlo=1)
        else:
            runs += batch('c30_batch', 3, 1, ALL, 0, script, nlo=1)
    runs += batch('c30_batch', 4, 0, '03' if quick else ALL, 0, 0)
    if not quick:
        for script in (1, 2):
            for o in (0, 3):
                runs += batch('c30_batch', 4, 0, '03', 0, script, o=o)
        for o in (0, 3):
            runs += batch('c30_batch', 4, 1, '03', 0, 0, bmax=4, o=o)  # every set of biprop pairs on 4 nodes
        for s in (0, 10, 7, 21):
            for o in (0, 3):
                runs += batch('c30_batch', 5, 0, '013', 0, 0, o=o, s=s)
        for gt in (0, 1):  # the same graphs after GraphT(GraphT&&): subgraphs must follow the new owner
            for script in (0, 1, 2):
                runs += batch('c30_batch', 3, gt, '03', 0, script, nlo=2, mv=1)
    # --- canonical schedule, real workers
    if quick:
        runs += batch('c30_batch', 3, 0, '1', 2, 0)
        runs += batch('c30_batch', 3, 0, '3', 2, 0)
        runs += batch('c30_batch', 3, 0, '3', 1, 0, o=3, max_parts=1)
        runs += batch('c30_batch', 3, 1, '3', 2, 0, o=0, max_parts=1)
        runs += batch('c30_batch', 3, 0, '3', 2, 1, o=0, max_parts=1)
        runs += batch('c30_batch', 3, 0, '1', 2, 2, o=0, max_parts=1)
    else:
        for N in (1, 2):
            runs += batch('c30_batch', 3, 0, '12', N, 0)
            runs += batch('c30_batch', 3, 0, '345', N, 0, max_parts=None if N == 2 else 2)
        runs += batch('c30_batch', 2, 1, '12345', 2, 0)
        runs += batch('c30_batch', 2, 1, '12345', 2, 1, max_parts=3)
        runs += batch('c30_batch', 2, 1, '12345', 2, 2, max_parts=2)
        for exs, N, mp in (('3', 2, None), ('1', 2, None), ('3', 1, 2), ('2', 2, 1)):
            for script in (1, 2):
                runs += batch('c30_batch', 3, 0, exs, N, script, o=0, max_parts=mp)
            runs += batch('c30_batch', 3, 1, exs, N, 0, o=0, max_parts=mp)
            runs += batch('c30_batch', 3, 1, exs, N, 0, o=3, max_parts=1)
        for script in (1, 2):
            runs += batch('c30_batch', 3, 0, '3', 2, script, o=3, max_parts=1)
            runs += batch('c30_batch', 3, 1, '3', 2, script, o=0, s=5, max_parts=2)
        runs += batch('c30_batch', 4, 0, '3', 2, 0, o=0, max_parts=3)
        runs += batch('c30_batch', 4, 0, '1', 2, 0, o=1, max_parts=2)
    # --- schedule exploration of the concurrent executors on the small DAGs
    if quick:
        runs.append(explore('c30', 'diamond', 3, 2, 1, budget=40))
        runs.append(explore('c30', 'chain', 3, 2, 1, budget=40))
        runs.append(explore('c30', 'join', 1, 2, 1, budget=40))
        runs.append(explore('c30', 'fork', 2, 2, 1, budget=40))
        runs.append(explore('c30', 'two_components', 3, 1, 1, park=0, budget=40))
        runs.append(explore('c30', 'chain', 3, 2, 1, gt=1, b=4, budget=40))
    else:
        for shape in ('diamond', 'chain', 'fork', 'join', 'two_components'):
            for ex in (1, 3):
                runs.append(explore('c30', shape, ex, 2, 1, park=1, budget=90))
                if shape in ('diamond', 'join', 'chain'):
                    runs.append(explore('c30', shape, ex, 1, 1, park=1, budget=60))
                if ex == 3 or shape == 'diamond':
                    runs.append(explore('c30', shape, ex, 1, 1, park=0, budget=60))
        for shape, ex in (('diamond', 2), ('join', 2), ('fork', 4), ('diamond', 4), ('chain', 5), ('join', 5)):
            runs.append(explore('c30', shape, ex, 2, 1, budget=60))
        for shape, b, ex in (('join', 6, 3), ('chain', 4, 1), ('fork', 3, 3)):
            runs.append(explore('c30', shape, ex, 2, 1, gt=1, b=b, budget=60))
        # subgraph clear + rebuild, grow, then a concurrent evaluation
        runs.append(explore('c30', 'diamond', 3, 1, 1, s=6, script=1, k=1, pre=1, re=1, budget=120))
        runs.append(explore('c30', 'join', 3, 1, 1, s=4, script=2, late=4, re=1, budget=120))
        for shape in ('chain', 'fork', 'join'):
            for ex in (1, 2, 3, 4):
                runs.append(explore('c30', shape, ex, 1, 2, budget=150))
    # --- sanitizer legs (node bodies read plain data written by their predecessors: a missing happens-before edge
    #     between "predecessor finished" and "dependent started" is a TSan report)
    runs.append(explore('c30', 'join', 3, 1, 1, mode='tsan', budget=60))
    if not quick:
        runs.append(explore('c30', 'fork', 1, 2, 1, mode='tsan', budget=90))
        runs.append(explore('c30', 'diamond', 3, 2, 1, mode='tsan', budget=120))
        runs.append(explore('c30', 'chain', 3, 1, 1, mode='asan', s=2, script=1, k=1, pre=1, re=1, budget=60))
    runs += batch('c30_batch', 3, 0, '0', 0, 1, mode='asan', max_parts=1 if quick else None)
    runs += batch('c30_batch', 2, 1, '3', 2, 1, mode='asan', max_parts=1 if quick else None)
    return runs


reg('C30', level='model_checking', runs=c30_runs, quick_budget_s=420, thorough_budget_s=2400,
    technique='real Graph/BiPropGraph objects built through the public API for every small DAG and build script, evaluated by the real executors under the dmc scheduler; run log (start/finish stamps, run counts) checked against the DAG; bounded-exhaustive schedule exploration of the concurrent executors on small DAGs',
    level_text='Inputs: every DAG on n<=3 nodes (quick; also n=4, and n=5 on 4 subgraph splits, thorough) in a fixed topological labelling x every split of the nodes over <=2 subgraphs x node insertion order asc/desc x dependency declaration order asc/desc x build scripts {build; build[->evaluate]->clear (subgraph k | graph.clear | clearSubgraphs)->rebuild->evaluate after setAllNodesIncomplete or ForwardPropagator; build part->evaluate->add nodes->evaluate} x Graph and BiPropGraph (every set of biprop pairs, n<=3; n=4 thorough) x {SingleThreadExecutor, ParallelForExecutor on TaskSet and on ConcurrentTaskSet, ConcurrentTaskSetExecutor (wait, wait=false, load factor 0)}: complete on a 0-thread pool, large samples on pools of 1-2 workers, one canonical schedule each (node bodies yield so that workers take part). Schedules: every interleaving with <=1 deviation (<=2 for the 3-node shapes on one worker, thorough) of the concurrent executors on diamond/chain/fork/join/two components, pools of 1-2 workers, parked or still starting. Oracle: each incomplete node runs exactly once and starts only after each of its incomplete predecessors has finished (and sees its plain write), complete nodes are not run, every node complete afterwards, node count and numPredecessors() exact after clear.',
    level_note='First evaluation is prepared with setAllNodesIncomplete (as every test, example and docs page does; the graph.h header comment omits it) or with ForwardPropagator. SC interleavings; TSan and ASan legs on small shapes.',
    design_ref='DESIGN.md section 4, C30', assumptions=MC_ASSUME,
    rule='one evaluation = one execution of a harness body under one schedule; a batch execution evaluates a whole slice of configurations (the per-run params and the harness enumeration define the slice); distinct_nontrivial = distinct scheduler states with more than one continuation',
    guards=[need_cover('ex_single', 'ex_pf_taskset', 'ex_pf_cts', 'ex_cts', 'ex_cts_nowait', 'node_on_worker', 'nodes_overlap', 'subgraph_clear', 'graph_clear',
                       'clear_removes_edge_from_outside', 'clear_removes_edge_to_outside', 'cross_subgraph_edge', 'nodes_added_after_evaluation',
                       'complete_predecessor_of_rerun_node', 'partial_evaluation'), need_outcomes(20)])


# ---------------------------------------------------------------------------------------------- C31
def c31_runs(tier):
    runs = []
    quick = tier == 'quick'
    ALL = '012345'
    for script in (0, 1, 2):
        for gt in (0, 1):
            if quick:
                exs = ALL if script == 0 else ('03' if gt == 0 else '0')
            else:
                exs = ALL
            runs += batch('c31_batch', 3, gt, exs, 0, script, nlo=1)
    # 4 nodes: two disjoint bidirectional sets and their merging only exist from here on
    for o in ((0, 2, 3) if quick else (0, 1, 2, 3)):  # o=3 (dependents declared before their predecessors) is where pass-order defects of the propagator show
        runs += batch('c31_batch', 4, 1, '0' if quick else '013', 0, 0, bmax=4, s=0, o=o)
    runs += batch('c31_batch', 4, 0, '0', 0, 0, o=0)
    if not quick:
        runs += batch('c31_batch', 4, 1, '0', 0, 0, bmax=4, s=6, o=0)
        runs += batch('c31_batch', 4, 1, '3', 0, 0, bmax=4, s=9, o=3)
        runs += batch('c31_batch', 4, 0, '13', 0, 0)
        for script in (1, 2):
            runs += batch('c31_batch', 4, 0, '0', 0, script, o=0)
        runs += batch('c31_batch', 3, 0, '03', 0, 1, mv=1)
    # real workers (canonical schedule)
    if quick:
        runs += batch('c31_batch', 3, 0, '3', 2, 0, o=0)
        runs += batch('c31_batch', 3, 1, '1', 2, 0, o=0, s=0)
    else:
        for exs, N in (('3', 2), ('1', 2), ('2', 1), ('4', 1)):
            runs += batch('c31_batch', 3, 0, exs, N, 0)
            runs += batch('c31_batch', 3, 1, exs, N, 0, o=0, s=0)
            runs += batch('c31_batch', 3, 1, exs, N, 0, o=3, s=5)
        runs += batch('c31_batch', 3, 0, '3', 2, 1, o=0, s=2)
        runs += batch('c31_batch', 3, 0, '3', 2, 2, o=0, s=2)
    # a few explored schedules: partial evaluation where a re-run node has complete dependents (BiProp) / predecessors
    runs.append(explore('c31', 'join', 3, 1, 1, gt=1, b=4, mark=4, fin=0, budget=60))
    if not quick:
        runs.append(explore('c31', 'diamond', 3, 2, 1, mark=2, fin=0, budget=120))
        runs.append(explore('c31', 'fork', 1, 2, 1, gt=1, b=1, mark=2, fin=0, budget=120))
    runs.append(explore('c31', 'join', 3, 1, 1, gt=1, b=4, mark=4, fin=0, mode='tsan', budget=90))
    runs += batch('c31_batch', 3, 1, '0', 0, 0, mode='asan', max_parts=1 if quick else None)
    return runs


reg('C31', level='exploration', runs=c31_runs, quick_budget_s=420, thorough_budget_s=1800,
    technique='bounded-exhaustive enumeration of graphs x marked subsets: real graphs, setIncomplete + ForwardPropagator + real executors under the dmc scheduler (canonical schedule), compared with an independently written reference closure (reachability + union-find over the declared biprop pairs)',
    level_text='Every DAG on n<=3 nodes x every subgraph split x insertion/declaration orders x Graph and BiPropGraph (every set of biprop pairs) x build scripts {build; clear+rebuild; grow} x every marked subset (all 2^n, applied in turn to the same graph) x all six executor variants on a 0-thread pool, samples on pools of 1-2 workers; BiPropGraph on 4 nodes (every assignment none/normal/biprop of the 6 pairs, both declaration orders). Oracle: after setIncomplete on the subset and ForwardPropagator, the incomplete nodes are exactly the forward closure plus every bidirectional set it touches; the executor runs exactly those, each once, in dependency order, leaves everything complete; isSameSet agrees with the components of the declared pairs; setAllNodesIncomplete (after marks, with or without propagation) gives a full evaluation.',
    level_note='one canonical schedule per input (the schedule dimension belongs to C30); a few bound-1 explorations and a TSan/ASan leg on partial evaluations',
    design_ref='DESIGN.md section 4, C31', assumptions=MC_ASSUME,
    rule='one evaluation = one execution of a harness body; a batch execution evaluates a whole slice of (graph, script) configurations with all their marked subsets; distinct_nontrivial = distinct scheduler states with more than one continuation',
    guards=[need_cover('biprop_set_pulled_in', 'complete_dependent_of_rerun_node', 'complete_predecessor_of_rerun_node', 'partial_evaluation', 'empty_evaluation',
                       'setAllNodesIncomplete_full', 'subgraph_clear', 'nodes_added_after_evaluation', 'node_on_worker'), need_outcomes(10)])
