"""dmc checks for nesting: C06 (nested waits never starve), C16 (parallel_invoke exactly once), C46 (inline depth bounded).
Harnesses: harness/c06_nesting.cpp (nest, pinvoke, depth); notes: harness/c06_nesting.notes.md."""
import itertools as _it
from specs import reg, McRun, product, MC_ASSUME, need_cover, need_outcomes  # noqa: F401

BIN = 'c06_nesting'
RULE = 'one evaluation = one complete execution of one program configuration under one schedule; distinct_nontrivial = distinct scheduler states (reads-from history hashes) with more than one continuation'


# ---------------------------------------------------------------------------------------------- C06
# inner kinds: T TaskSet, C ConcurrentTaskSet heavy, L ConcurrentTaskSet lightweight, F async futures,
#              P parallel_for (waiting), B scheduleBulk + wait
KINDS = 'TCLFPB'
WP0 = {'wakepick_cost': 0}


def _multisets(alpha, size):
    return [''.join(t) for t in _it.combinations_with_replacement(alpha, size)]


def c06_runs(tier):
    runs, seen = [], set()

    def add(n, prog, o, fq, bound, k=1, mode='plain', budget=40):
        key = (n, prog, o, fq, bound, k, mode)
        if key in seen:
            return
        seen.add(key)
        runs.append(McRun(BIN, 'nest', dict(n=n, prog=prog, o=o, fq=fq, k=k), bound=bound, mode=mode, opts=WP0, budget=budget))

    if tier == 'quick':
        # N=1: every single inner kind under every outer set kind (outer size N), and every pair with a steal-ring
        # user (C or F) under the heavy outer set (outer size N+1); outer tasks forced to the queue so that the
        # worker, not T0, ends up inside the inner wait
        for kind in KINDS:
            for o in 'TCL':
                add(1, kind, o, 1, 1)
        for prog in _multisets(KINDS, 2):
            if 'C' in prog or 'F' in prog:
                add(1, prog, 'C', 1, 1)
        for prog in ('CC', 'CF', 'TL'):
            add(1, prog, 'C', 3, 1)
            add(1, prog, 'T', 0, 1)
        # N=2, outer size N: the cheap kinds; outer size N+1: three heavy sets
        for prog in ('TT', 'CC', 'LL', 'CT', 'CL'):
            add(2, prog, 'C', 1, 1, budget=30)
        add(2, 'CCC', 'C', 1, 1, budget=30)
        add(0, 'TCLFPB', 'C', 0, 0)
    else:
        for size in (1, 2):
            for prog in _multisets(KINDS, size):
                for o in 'TCL':
                    for fq in (0, 1, 3):
                        add(1, prog, o, fq, 1, budget=30)
        # bound 2 on the smallest: one worker, one or two outer tasks, the set kinds
        for prog in ('T', 'C', 'L', 'F', 'CC', 'CT', 'CL', 'TT'):
            for o in 'TC':
                add(1, prog, o, 1, 2, budget=60)
        for prog in _multisets('TCLF', 2):
            for o in 'TCL':
                add(2, prog, o, 1, 1, budget=40)
            add(2, prog, 'C', 3, 1, budget=40)
        for prog in _multisets('TCL', 3):
            add(2, prog, 'C', 1, 1, budget=40)
        for prog in ('PP', 'BB', 'CP', 'CB', 'FP', 'CCF', 'CFF'):
            add(2, prog, 'C', 1, 1, budget=60)
        for prog in ('CC', 'TC'):
            add(2, prog, 'C', 1, 1, k=2, budget=60)
        add(0, 'TCLFPB', 'C', 0, 0)
        add(0, 'TCLFPB', 'T', 3, 0)
    add(1, 'CF', 'C', 1, 1, mode='tsan', budget=60)
    add(1, 'TL', 'T', 1, 1, mode='asan', budget=60)
    return runs


reg('C06', level='model_checking', runs=c06_runs, quick_budget_s=200, thorough_budget_s=1300,
    technique='stateless model checking of real pools running acyclic two-level nesting programs: every worker (and T0) ends up inside a wait; all interleavings up to a deviation bound with free futex-waiter picks; progress oracle',
    level_text='Programs from the grammar outer set in {TaskSet, ConcurrentTaskSet heavy, ConcurrentTaskSet lightweight} x outer tasks each creating one inner construct from {TaskSet, ConcurrentTaskSet heavy/lightweight, async futures, waiting parallel_for, scheduleBulk+wait} with 1-2 leaves and waiting on it, outer and/or inner submissions optionally forced to the queue; pools of 1 and 2 workers with N and N+1 outer tasks (plus a zero-thread pool once); every interleaving with <=1 deviation, futex waiter picks free, backstop timeouts allowed (thorough: the whole grammar for N=1 with 1-2 outer tasks, bound 2 on the smallest N=1 shapes, all pairs over {T,C,L,F} and all triples over {T,C,L} for N=2). Oracle: the outer wait returns and the pool can be destroyed - a deadlock, livelock or step-horizon verdict is the violation; coverage guard: the state "every worker is inside an inner wait" is reached, also with a non-empty steal ring.',
    level_note='SC interleavings; nesting depth 2 only; timeouts are allowed to fire (the statement is about termination, not latency), none is needed on the explored schedules if timeouts_fired is 0; a TSan and an ASan leg re-run two small shapes.',
    design_ref='DESIGN.md section 4, C06', assumptions=MC_ASSUME, rule=RULE,
    guards=[need_cover('all_workers_in_wait', 'steal_ring_nonempty_at_wait', 't0_in_inner_wait', 'inner_T', 'inner_C', 'inner_L', 'inner_F', 'inner_P', 'inner_B'),
            need_outcomes(20)])


# ---------------------------------------------------------------------------------------------- C16
def c16_runs(tier):
    runs, seen = [], set()

    def add(n, shape, a, d, mult, cost, bound, mode='plain', budget=40):
        key = (n, shape, a, d, mult, cost, bound, mode)
        if key in seen:
            return
        seen.add(key)
        runs.append(McRun(BIN, 'pinvoke', dict(n=n, shape=shape, a=a, d=d, mult=mult, cost=cost), bound=bound, mode=mode, budget=budget))

    shapes = [('flat', 1, 1), ('flat', 2, 1), ('flat', 3, 1), ('flat', 4, 1), ('bin', 2, 1), ('bin', 2, 2), ('bin', 2, 3), ('chain', 2, 4), ('rchain', 2, 4)]
    if tier == 'quick':
        for shape, a, d in shapes:
            for mult in (1, 4):
                add(0, shape, a, d, mult, 'h', 0)
                add(1, shape, a, d, mult, 'h', 1)
            add(1, shape, a, d, 4, 'l', 1)
        for shape, a, d in (('flat', 2, 1), ('flat', 3, 1), ('bin', 2, 2), ('chain', 2, 4)):
            add(2, shape, a, d, 1, 'h', 1, budget=30)
        add(2, 'flat', 4, 1, 4, 'h', 1, budget=30)
        add(2, 'flat', 2, 1, 4, 'l', 1, budget=30)
    else:
        for shape, a, d in shapes:
            for mult in (1, 4):
                for cost in 'hl':
                    add(0, shape, a, d, mult, cost, 0)
                    add(1, shape, a, d, mult, cost, 2, budget=60)
                    add(2, shape, a, d, mult, cost, 1, budget=45)
        add(2, 'flat', 2, 1, 1, 'h', 2, budget=150)
        add(2, 'flat', 3, 1, 4, 'h', 2, budget=150)
        add(1, 'bin', 3, 2, 1, 'h', 1)
        add(1, 'bin', 4, 2, 4, 'h', 1)
    add(1, 'bin', 2, 2, 1, 'h', 1, mode='tsan', budget=60)
    add(1, 'flat', 3, 1, 4, 'l', 1, mode='asan', budget=60)
    return runs


reg('C16', level='model_checking', runs=c16_runs, quick_budget_s=200, thorough_budget_s=1300,
    technique='stateless model checking of parallel_invoke on real pools: flat calls of arity 1-4 and recursive divide-and-conquer shapes, all interleavings up to a deviation bound, per-functor invocation/thread/completion bookkeeping',
    level_text='parallel_invoke(ConcurrentTaskSet&, f1..fk) for k=1..4 flat; binary recursion with 1-3 levels (2, 6, 14 functors); left-deep chain (the scheduled functor recurses) and right-deep chain (the inline functor recurses) of 4 levels; pools of 0, 1, 2 workers; stealingLoadMultiplier 1 and 4; TaskCost heavy and lightweight; every interleaving with <=1 deviation (thorough: <=2 deviations for every shape on one worker and for the flat arity-2/3 calls on two workers, <=1 for everything on two workers). Oracle: a functor never starts twice nor after wait() returned; when a parallel_invoke call returns, its last functor has finished and ran on the calling thread; after ConcurrentTaskSet::wait() every functor has run exactly once and finished; coverage guard: siblings were seen running inline on the caller, pending at return, and on another thread.',
    level_note='the only overloads in parallel_invoke.h take a ConcurrentTaskSet; the documented contract is "does not call wait(), the caller drives synchronisation, the last functor runs inline on the calling thread" - exactly what the oracle demands. SC interleavings; TSan and ASan legs on two shapes.',
    design_ref='DESIGN.md section 4, C16', assumptions=MC_ASSUME, rule=RULE,
    guards=[need_cover('sibling_ran_inline_on_caller', 'sibling_pending_at_return', 'sibling_on_other_thread'), need_outcomes(12)])


# ---------------------------------------------------------------------------------------------- C46
def c46_configs():
    """(params) for every program family x pool size; the inline paths are forced with load multipliers of 1"""
    cfgs = []
    for N in (0, 1, 2):
        for mult in (1, 32):
            cfgs.append(dict(prog='sched_pool', N=N, mult=mult))
        for smult in (1, 4):
            if N < 2:  # a TaskSet may be used by one thread at a time: with two workers the chain itself would break that rule
                cfgs.append(dict(prog='sched_ts', N=N, smult=smult))
            cfgs.append(dict(prog='sched_cts', N=N, smult=smult))
            cfgs.append(dict(prog='sched_ctsl', N=N, smult=smult))
        for sched in 'ptc':
            cfgs.append(dict(prog='then_unready', N=N, sched=sched, rel=0))
            if N > 0:
                cfgs.append(dict(prog='then_unready', N=N, sched=sched, rel=1))
        cfgs.append(dict(prog='then_ready', N=N, sched='p'))
        cfgs.append(dict(prog='pipe', N=N))
        cfgs.append(dict(prog='graph_pf', N=N))
        cfgs.append(dict(prog='graph_cts', N=N))
        cfgs.append(dict(prog='comb_pf', N=N))
        cfgs.append(dict(prog='comb_cts', N=N, lf=30))
        cfgs.append(dict(prog='comb_cts', N=N, lf=0))
    cfgs.append(dict(prog='graph_st', N=1))
    cfgs.append(dict(prog='comb_st', N=1))
    return cfgs


def c46_runs(tier):
    runs = []
    big = (128, 256) if tier == 'quick' else (128, 256, 512, 1024, 2048)
    for cfg in c46_configs():
        for n in big:
            if tier == 'quick' and n == 128 and (cfg.get('mult') == 32 or cfg.get('smult') == 4 or cfg.get('sched') in ('t', 'c') or cfg.get('lf') == 0):
                continue
            runs.append(McRun(BIN, 'depth', dict(cfg, n=n, n0=64), bound=0, budget=40))
    # all single-deviation schedules of the small programs (ceiling only: nothing can be compared below saturation)
    small_n = (4,) if tier == 'quick' else (1, 2, 4, 8)
    small_N = (1,) if tier == 'quick' else (1, 2)
    for N in small_N:
        for n in small_n:
            for cfg in (dict(prog='sched_pool'), dict(prog='sched_cts'), dict(prog='sched_ctsl'), dict(prog='then_unready', sched='p', rel=1),
                        dict(prog='pipe'), dict(prog='comb_cts', lf=0)):
                runs.append(McRun(BIN, 'depth', dict(cfg, N=N, n=n), bound=1, budget=25 if tier == 'quick' else 40))
    runs.append(McRun(BIN, 'depth', dict(prog='pipe', N=1, n=8), bound=1, mode='tsan', budget=60))
    runs.append(McRun(BIN, 'depth', dict(prog='then_unready', sched='c', rel=1, N=1, n=4), bound=1, mode='asan', budget=60))
    runs.append(McRun(BIN, 'depth', dict(prog='sched_cts', N=1, n=96, n0=64), bound=0, mode='asan', budget=60))
    return runs


reg('C46', level='model_checking', runs=c46_runs, quick_budget_s=240, thorough_budget_s=1300,
    technique='real pools running programs of growing size n under the controlled scheduler; per-thread nesting of task bodies measured from the stack pointer (live task frames) and by an open-body counter; the program is run for n=64 and for n in the same execution and the maxima are compared',
    level_text='Program families: a task that schedules its successor through ThreadPool::schedule, TaskSet::schedule (0-1 workers), ConcurrentTaskSet::schedule heavy and lightweight; then-chains on a held (unready) root released on T0 or on a worker, and on a ready root, with ThreadPool / TaskSet / ConcurrentTaskSet as the schedulable; a serial 3-stage pipeline fed n items; a chain and a comb graph of n forks under SingleThread, ParallelFor and ConcurrentTaskSet executors (poolRecursiveLoadFactor 3.0 and 0); pool sizes 0, 1, 2; load multipliers 1 (forcing the inline paths) and the defaults. n in {128, 256} (thorough: up to 2048) against the n=64 baseline on the default schedule, plus every schedule with <=1 deviation for n=4 (thorough: n in {1,2,4,8}, 1-2 workers). Oracle: the number of live task frames on any one thread (and the number of open task bodies) at size n equals the value at size 64 and never exceeds 4*kMaxInlineDepth = 128. Tasks wait on nothing; T0 waits with a harness-level block so that no work is run from inside a user wait (pipeline() and the graph executors block by contract).',
    level_note='independence from n is checked, not a particular constant; the comparison is only meaningful on the default schedule (large n), the bound-1 runs of small n check the ceiling and exercise the other paths; nesting is counted from stack addresses within one thread only (entries are dropped when a later body starts at the same or a shallower position), so bodies reached through call paths of different depth may add a small constant.',
    design_ref='DESIGN.md section 4, C46', assumptions=MC_ASSUME, rule=RULE,
    guards=[need_cover('body_inside_body', 'body_inside_completion_path', 'depth_guard_saturated', 'depth_equal_to_baseline'), need_outcomes(6)])
