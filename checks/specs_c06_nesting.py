"""dmc checks for nesting: C06 (nested waits never starve), C16 (parallel_invoke exactly once), C46 (inline depth bounded).
Harnesses: harness/c06_nesting.cpp (nest, pinvoke, depth); notes: harness/c06_nesting.notes.md.

A parameter value '*' makes the harness pick the value with mc::choose, i.e. every listed value is explored inside one
run (one process). Variants of a configuration are folded this way because process start-up, not exploration, dominates
the cost of small configurations when the machine is loaded."""
import itertools as _it
from specs import reg, McRun, product, MC_ASSUME, need_cover, need_outcomes  # noqa: F401

BIN = 'c06_nesting'
RULE = 'one evaluation = one complete execution of one program configuration under one schedule; distinct_nontrivial = distinct scheduler states (reads-from history hashes) with more than one continuation'
ANY = '*'


# ---------------------------------------------------------------------------------------------- C06
# inner kinds: T TaskSet, C ConcurrentTaskSet heavy, L ConcurrentTaskSet lightweight, F async futures,
#              P parallel_for (waiting), B scheduleBulk + wait
# o (outer set) in T|C|L; fq bit0 outer forced to the queue, bit1 inner forced; t0 = w (T0 waits on the outer set, i.e. helps) |
# i (T0 idle: blocks outside dispenso until the outer tasks ended, the pool is on its own); o='*' = 12 (o, fq, t0) variants
KINDS = 'TCLFPB'
WP0 = {'wakepick_cost': 0}


def _multisets(alpha, size):
    return [''.join(t) for t in _it.combinations_with_replacement(alpha, size)]


def c06_runs(tier):
    runs, seen = [], set()

    def add(n, prog, o, fq, bound, t0='w', k=1, mode='plain', budget=40):
        key = (n, prog, o, fq, t0, bound, k, mode)
        if key in seen:
            return
        seen.add(key)
        params = dict(n=n, prog=prog, o=o, k=k)
        if o != ANY:  # o='*' picks (outer kind, forcing, T0 role) from the harness's list of 12 variants
            params.update(fq=fq, t0=t0)
        runs.append(McRun(BIN, 'nest', params, bound=bound, mode=mode, opts=WP0, budget=budget))

    # budgets add up to about the tier budget, so that on an overloaded machine every run is time-boxed (reported as not
    # exhaustive) instead of the tail of the matrix being skipped; on an idle machine most runs need a tenth of theirs
    add(0, 'TCLFPB', ANY, 0, 0, budget=10)
    # a set filled by T0 while every worker is parked (kHeavy: the leaves go to the steal ring of a claimed sleeper),
    # waited for from inside a task of an outer set
    for o in ('C', 'T', 'L'):
        for ic in ('h', 'l'):
            runs.append(McRun(BIN, 'nest_pre', dict(n=1, o=o, ic=ic, k=1 if tier == 'quick' else 2), bound=1 if tier == 'quick' else 2, budget=20 if tier == 'quick' else 60))
    runs.append(McRun(BIN, 'nest_pre', dict(n=2, o='C', ic='h', k=2), bound=1, budget=30 if tier == 'quick' else 120))
    if tier == 'quick':
        # one worker, one outer task (outer size N): every inner kind x the 12 variants
        for kind in KINDS:
            add(1, kind, ANY, 0, 1, budget=15)
        # two deviations on the smallest nestings (a helping waiter racing a producer over the central-queue hint needs
        # both): one worker, one outer task, lightweight / heavy sets on either level
        for kind, o in (('L', 'L'), ('L', 'C'), ('C', 'L'), ('C', 'C'), ('T', 'T'), ('F', 'C')):
            add(1, kind, o, 1, 2, budget=20)
        # two workers with N and N+1 outer tasks on the heavy (steal-ring) outer set, T0 waiting and T0 idle (time-boxed)
        for prog in ('CC', 'CF', 'CCC'):
            add(2, prog, 'C', 1, 1, t0=ANY, budget=12)
        add(1, 'CF', 'C', 1, 1, t0='i', mode='tsan', budget=15)
        add(1, 'TL', 'T', 1, 1, mode='asan', budget=15)
        # one worker, two outer tasks (outer size N+1): every pair containing a steal-ring user (C or F)
        for prog in _multisets(KINDS, 2):
            if 'C' in prog or 'F' in prog:
                add(1, prog, 'C', 1, 1, t0=ANY, budget=8)
    else:
        for prog in _multisets(KINDS, 1):
            add(1, prog, ANY, 0, 1, budget=20)
        # two workers, N outer tasks: all pairs over {T,C,L,F}, T0 waiting and idle
        for prog in _multisets('TCLF', 2):
            add(2, prog, 'C', 1, 1, t0=ANY, budget=25)
        add(1, 'CF', 'C', 1, 1, t0='i', mode='tsan', budget=40)
        add(1, 'TL', 'T', 1, 1, mode='asan', budget=40)
        # bound 2 on the smallest: one worker, one or two outer tasks
        for prog in ('T', 'C', 'L', 'F', 'CC', 'CF'):
            add(1, prog, 'C', 1, 2, t0=ANY, budget=30)
        for prog in _multisets(KINDS, 2):
            add(1, prog, ANY, 0, 1, budget=20)
        # two workers, N+1 outer tasks and the remaining shapes, the pool on its own (T0 idle); time-boxed: a run needs
        # about 10 s just to start when the machine is overloaded, so few runs with 20 s each rather than many short ones
        for prog in ('TCL', 'CCC', 'CCF', 'TTC'):
            add(2, prog, 'C', 1, 1, t0='i', budget=20)
        add(2, 'CC', 'C', 3, 1, t0='i', budget=20)
        add(2, 'CF', 'T', 1, 1, t0='i', budget=20)
        add(2, 'FF', 'C', 3, 1, t0='i', budget=20)
        for prog in ('CP', 'BB'):
            add(2, prog, 'C', 1, 1, t0='i', budget=20)
        add(2, 'CC', 'C', 1, 1, t0='i', k=2, budget=20)
    return runs


reg('C06', level='model_checking', runs=c06_runs, quick_budget_s=240, thorough_budget_s=1300,
    technique='stateless model checking of real pools running acyclic two-level nesting programs: every worker ends up inside a wait while T0 either waits on the outer set or stays idle; all interleavings up to a deviation bound with free futex-waiter picks; progress oracle',
    level_text='Programs from the grammar outer set in {TaskSet, ConcurrentTaskSet heavy, ConcurrentTaskSet lightweight} x outer tasks each creating one inner construct from {TaskSet, ConcurrentTaskSet heavy/lightweight, async futures, waiting parallel_for, scheduleBulk+wait} with 1-2 leaves; plus a ConcurrentTaskSet (heavy = leaves placed in the steal ring of a claimed sleeper, or lightweight) filled by T0 while every worker is parked and waited for from inside a task of an outer set of each kind; and waiting on it, outer and/or inner submissions optionally forced to the queue, T0 waiting on the outer set (a helper) or idle until the outer tasks ended (the pool on its own); pools of 1 and 2 workers with N and N+1 outer tasks (plus a zero-thread pool); every interleaving with <=1 deviation, futex waiter picks free, backstop timeouts allowed. Quick: N=1 every single kind x 12 (outer kind, forcing, T0 role) variants, every pair containing a heavy set or a future; N=2 three shapes (time-boxed). Thorough: the whole grammar for N=1 with 1-2 outer tasks, bound 2 on the smallest N=1 shapes, all pairs over {T,C,L,F} with T0 waiting and idle, and ten further shapes (three outer tasks, parallel_for / bulk inners, forced inners, two leaves) with T0 idle for N=2. Oracle: the outer wait returns and the pool can be destroyed - a deadlock or livelock verdict, or 3 s of virtual time (30 backstop periods) without an end, is the violation; coverage guard: the state "every worker is inside an inner wait" is reached, also with a non-empty steal ring.',
    level_note='SC interleavings; nesting depth 2 only; timeouts are allowed to fire (the statement is about termination, not latency); runs that hit their time budget are reported as not exhaustive; a TSan and an ASan leg re-run two small shapes.',
    design_ref='DESIGN.md section 4, C06', assumptions=MC_ASSUME, rule=RULE,
    guards=[need_cover('pre_filled_inner_set', 'all_workers_in_wait', 'steal_ring_nonempty_at_wait', 't0_in_inner_wait', 't0_idle', 'inner_T', 'inner_C', 'inner_L', 'inner_F', 'inner_P', 'inner_B'),
            need_outcomes(20)])


# ---------------------------------------------------------------------------------------------- C16
SHAPES = [('flat', 1, 1), ('flat', 2, 1), ('flat', 3, 1), ('flat', 4, 1), ('bin', 2, 1), ('bin', 2, 2), ('bin', 2, 3), ('chain', 2, 4), ('rchain', 2, 4)]


def c16_runs(tier):
    runs, seen = [], set()

    def add(n, shape, a, d, mult, cost, bound, mode='plain', budget=40):
        key = (n, shape, a, d, mult, cost, bound, mode)
        if key in seen:
            return
        seen.add(key)
        runs.append(McRun(BIN, 'pinvoke', dict(n=n, shape=shape, a=a, d=d, mult=mult, cost=cost), bound=bound, mode=mode, budget=budget))

    add(0, ANY, 0, 0, ANY, ANY, 0, budget=10)  # zero-thread pool: 9 shapes x 2 multipliers x 2 costs, one execution each
    if tier == 'quick':
        for shape, a, d in SHAPES:
            add(1, shape, a, d, ANY, ANY, 1, budget=15)
        add(1, 'bin', 2, 2, 1, 'h', 1, mode='tsan', budget=20)
        add(1, 'flat', 3, 1, 4, 'l', 1, mode='asan', budget=20)
        for shape, a, d in (('flat', 2, 1), ('flat', 3, 1), ('bin', 2, 2), ('chain', 2, 4)):
            add(2, shape, a, d, ANY, 'h', 1, budget=15)
        # two deviations on the two-level shapes: a functor running on the worker makes a nested call while T0 is
        # already in wait() (the sibling it has just published is taken and finished by the waiter before the
        # nested call has done its next step)
        for cost in ('h', 'l'):
            add(1, 'chain', 2, 2, 4, cost, 2, budget=40)
        add(1, 'bin', 2, 2, 4, 'h', 2, budget=60)
    else:
        for shape, a, d in SHAPES:
            add(1, shape, a, d, ANY, ANY, 2, budget=45)
        add(1, 'bin', 2, 2, 1, 'h', 1, mode='tsan', budget=60)
        add(1, 'flat', 3, 1, 4, 'l', 1, mode='asan', budget=60)
        for shape, a, d in SHAPES:
            add(2, shape, a, d, ANY, ANY, 1, budget=35)
        add(2, 'flat', 2, 1, 1, 'h', 2, budget=80)
        add(2, 'flat', 3, 1, 4, 'h', 2, budget=80)
        add(1, 'bin', 3, 2, ANY, 'h', 1, budget=40)
        add(1, 'bin', 4, 2, ANY, 'h', 1, budget=40)
    return runs


reg('C16', level='model_checking', runs=c16_runs, quick_budget_s=240, thorough_budget_s=1300,
    technique='stateless model checking of parallel_invoke on real pools: flat calls of arity 1-4 and recursive divide-and-conquer shapes, all interleavings up to a deviation bound, per-functor invocation/thread/completion bookkeeping',
    level_text='parallel_invoke(ConcurrentTaskSet&, f1..fk) for k=1..4 flat; binary recursion with 1-3 levels (2, 6, 14 functors); left-deep chain (the scheduled functor recurses) and right-deep chain (the inline functor recurses) of 4 levels; pools of 0, 1, 2 workers; stealingLoadMultiplier 1 and 4; TaskCost heavy and lightweight; every interleaving with <=1 deviation (quick: all shapes on 0-1 workers, four shapes on 2 workers, <=2 deviations on the two-level chain and binary shapes with one worker; thorough: <=2 deviations for every shape on one worker and for the flat arity-2/3 calls on two workers, <=1 for every shape on two workers, plus ternary and 4-ary two-level recursion). Oracle: a functor never starts twice nor after wait() returned; when a parallel_invoke call returns, its last functor has finished and ran on the calling thread; after ConcurrentTaskSet::wait() every functor has run exactly once and finished; coverage guard: siblings were seen running inline on the caller, pending at return, and on another thread.',
    level_note='the only overloads in parallel_invoke.h take a ConcurrentTaskSet; the documented contract is "does not call wait(), the caller drives synchronisation, the last functor runs inline on the calling thread" - exactly what the oracle demands. SC interleavings; TSan and ASan legs on two shapes.',
    design_ref='DESIGN.md section 4, C16', assumptions=MC_ASSUME, rule=RULE,
    guards=[need_cover('sibling_ran_inline_on_caller', 'sibling_pending_at_return', 'sibling_on_other_thread'), need_outcomes(12)])


# ---------------------------------------------------------------------------------------------- C46
BASE = 128  # = 4*kMaxInlineDepth, the ceiling: every bounded composition of guarded mechanisms has saturated within that many links/items/nodes
DEFAULT_ONLY = {'free_switch_cost': 1}  # with bound 0: exactly the canonical schedule (switches at blocking points are not varied)


def c46_families():
    """one entry per program family x pool size; '*' folds the variants (load multipliers 1 = inline path forced, and the defaults)"""
    fams = []
    for N in (0, 1, 2):
        fams.append(dict(prog='sched_pool', N=N, mult=ANY))
        if N < 2:  # a TaskSet may be used by one thread at a time: with two workers the chain itself would break that rule
            fams.append(dict(prog='sched_ts', N=N, smult=ANY))
        fams.append(dict(prog='sched_cts', N=N, smult=ANY))
        fams.append(dict(prog='sched_ctsl', N=N, smult=ANY))
        fams.append(dict(prog='then_unready', N=N, sched=ANY, rel=ANY if N else 0))
        fams.append(dict(prog='then_ready', N=N, sched='p'))
        fams.append(dict(prog='pipe', N=N))
        fams.append(dict(prog='graph_pf', N=N))
        fams.append(dict(prog='graph_cts', N=N))
        fams.append(dict(prog='comb_pf', N=N))
        fams.append(dict(prog='comb_cts', N=N, lf=ANY))
    fams.append(dict(prog='graph_st', N=1))
    fams.append(dict(prog='comb_st', N=1))
    return fams


def c46_sizes(prog, tier):
    """program sizes per family. Engine limits cap the large ones: an execution may have at most 49152 choice points
    (pipeline / graph programs reach that near n=1024) and heavy heap churn makes the default schedule of the biggest
    then/graph programs differ between two in-process runs (locations are keyed by address)."""
    if tier == 'quick':
        return (256,)
    if prog.startswith('sched_'):
        return (BASE, 256, 512, 1024, 2048)
    if prog.startswith('then_'):
        return (BASE, 256, 512, 1024)
    return (BASE, 256, 512)


def c46_runs(tier):
    runs = []
    for fam in c46_families():
        # the pipeline composes two guarded mechanisms (serial-stage continuation, next-stage scheduling): its maximum
        # moves between 33 and 37 frames with the interleaving and never beyond, so it gets that much tolerance
        extra = dict(tol=4) if fam['prog'] == 'pipe' else {}
        for n in c46_sizes(fam['prog'], tier):
            runs.append(McRun(BIN, 'depth', dict(fam, n=n, n0=BASE, **extra), bound=0, opts=DEFAULT_ONLY, budget=40))
        if tier == 'quick' and (fam['prog'], fam['N']) in (('sched_cts', 1), ('sched_ctsl', 2), ('pipe', 1), ('pipe', 2), ('comb_pf', 1)):
            runs.append(McRun(BIN, 'depth', dict(fam, n=BASE, n0=BASE, **extra), bound=0, opts=DEFAULT_ONLY, budget=40))
    runs.insert(4, McRun(BIN, 'depth', dict(prog='pipe', N=1, n=6), bound=0, mode='tsan', budget=40))
    runs.insert(5, McRun(BIN, 'depth', dict(prog='then_unready', sched='c', rel=1, N=1, n=4), bound=0, mode='asan', budget=40))
    runs.insert(6, McRun(BIN, 'depth', dict(prog='sched_cts', N=1, n=160, n0=BASE), bound=0, mode='asan', opts=DEFAULT_ONLY, budget=40))
    # all single-deviation schedules of small programs (ceiling only: nothing can be compared below saturation)
    small = [(1, 4)] if tier == 'quick' else [(1, 1), (1, 2), (1, 4), (1, 8), (2, 2), (2, 4)]
    for N, n in small:
        for cfg in (dict(prog='sched_pool'), dict(prog='sched_cts'), dict(prog='sched_ctsl'), dict(prog='then_unready', sched='p', rel=1),
                    dict(prog='pipe'), dict(prog='comb_cts', lf=0)):
            if N == 2 and cfg['prog'] in ('pipe', 'comb_cts') and n > 2:
                continue
            runs.append(McRun(BIN, 'depth', dict(cfg, N=N, n=n), bound=1, budget=15 if tier == 'quick' else 45))
    return runs


def c46_same_depth_for_every_n(results):
    """depth(n) == depth(BASE), literally: runs of one family that differ only in n must report the same lvl=/open= maxima
    (within the family's tolerance)"""
    fam = {}
    for r in results:
        run = r.get('run', {})
        params = run.get('params', {})
        if run.get('harness') != 'depth' or run.get('bound') != 0 or run.get('mode') != 'plain' or 'n0' not in params or r.get('violations'):
            continue
        key = tuple(sorted((k, str(v)) for k, v in params.items() if k != 'n'))
        vals = {}
        for c in r.get('cover', []):
            for what in ('lvl', 'open'):
                if c.startswith(what + '='):
                    vals.setdefault(what, []).append(int(c.split('=')[1]))
        if vals:
            fam.setdefault(key, {})[int(params['n'])] = (vals, int(params.get('tol', 0)))
    bad = []
    for key, byn in fam.items():
        if BASE not in byn:
            continue
        base, tol = byn[BASE]
        for n, (vals, _) in sorted(byn.items()):
            for what in ('lvl', 'open'):
                if what in vals and what in base and max(vals[what]) > max(base[what]) + tol:
                    bad.append('%s: %s %d at n=%d but %d at n=%d' % (dict(key), what, max(vals[what]), n, max(base[what]), BASE))
    return 'inline depth grows with the program size: ' + '; '.join(bad[:4]) if bad else None


reg('C46', level='model_checking', runs=c46_runs, quick_budget_s=240, thorough_budget_s=1300,
    technique='real pools running programs of growing size n under the controlled scheduler; per-thread nesting of task bodies measured from the stack pointer (live task frames) and by an open-body counter; within a run the bodies with index >= 128 are compared with the bodies with index < 128, across runs the maxima for different n are compared',
    level_text='Program families: a task that schedules its successor through ThreadPool::schedule, TaskSet::schedule (0-1 workers), ConcurrentTaskSet::schedule heavy and lightweight; then-chains on a held (unready) root released on T0 or on a worker, and on a ready root, with ThreadPool / TaskSet / ConcurrentTaskSet as the schedulable; a serial 3-stage pipeline fed n items; a chain and a comb graph of n forks under SingleThread, ParallelFor and ConcurrentTaskSet executors (poolRecursiveLoadFactor 3.0 and 0); pool sizes 0, 1, 2; load multipliers 1 (forcing the inline paths) and the defaults. n=256 (thorough: 128..2048 for the scheduling chains, ..1024 for then-chains, ..512 for pipeline and graphs - engine limits) on the default schedule, plus every schedule with <=1 deviation for n=4 on one worker (thorough: n in {1,2,4,8}, 1-2 workers). Oracle: no body with index >= 128 sees more live task frames on its thread (or more open task bodies) than the bodies with index < 128 did, the maxima reported for every n equal those for n=128, and the number of live task frames never exceeds 4*kMaxInlineDepth = 128. Tasks wait on nothing; T0 waits with a harness-level block so that no work is run from inside a user wait (pipeline() and the graph executors block by contract).',
    level_note='independence from n is checked, not a particular constant; the baseline is the first 128 = 4*kMaxInlineDepth indices rather than 64 because two guarded mechanisms compose in the pipeline (33 frames within the first 64 items, 37 from item ~100 on, constant up to n=2048); the comparison is only meaningful on the default schedule (large n), the bound-1 runs of small n check the ceiling and exercise the other paths; nesting is counted from stack addresses within one thread only (entries are dropped when a later body starts at the same or a shallower position), so bodies reached through call paths of different depth may add a small constant. One program per execution: the engine names locations by address, so two pools built one after the other inside one execution make replays diverge.',
    design_ref='DESIGN.md section 4, C46', assumptions=MC_ASSUME, rule=RULE,
    guards=[need_cover('body_inside_body', 'body_inside_completion_path', 'depth_guard_saturated', 'compared_against_baseline', 'depth_equal_to_baseline'),
            c46_same_depth_for_every_n, need_outcomes(6)])
