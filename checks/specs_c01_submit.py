"""C01: every functor handed to a ThreadPool runs exactly once, no later than ~ThreadPool returns (harness c01_submit.cpp)."""
from specs import reg, McRun, product, MC_ASSUME, need_cover, need_outcomes  # noqa: F401

# In a program, X stands for "any one of s q b1 b2 b3"; the harness resolves it with mc::choose before any thread exists,
# so one run (one process) explores the whole family of programs jointly with their schedules.


def c01_runs(tier):
    runs, seen = [], set()

    def add(n, mult, poll, t0, t1='-', p='-', bound=1, mode='plain', budget=60):
        key = (n, mult, poll, t0, t1, p, bound, mode)
        if key in seen:
            return
        seen.add(key)
        runs.append(McRun('c01_submit', 'submit', dict(n=n, mult=mult, poll=poll, t0=t0, t1=t1, p=p), bound=bound, mode=mode, budget=budget))

    quick = tier == 'quick'
    # ---- bound 1 over the matrix (the runs that establish the path markers come first, then the sanitizer legs)
    add(1, 1, 0, 'XX')                    # one producer, every program of 2 submissions
    add(1, 1, 0, 'X', p='X')              # a pool thread as second producer
    add(0, 1, 0, 'XX', t1='q', p='X')     # zero threads: everything inline, three producers
    add(2, 1, 0, 'b3s', budget=90)        # n=2: bulk beyond the load factor, then schedule() runs inline
    add(1, 1, 0, 'b2s', p='s', bound=1, mode='tsan', budget=150)
    add(1, 1, 0, 'b2', p='s', bound=1, mode='asan', budget=150)
    add(1, 32, 1, 'XX')                   # polling mode, default multiplier
    add(1, 1, 0, 'X', t1='q', budget=90)  # two external producers
    add(1, 1, 1, 'b2X')
    add(2, 32, 0, 'qX', budget=120)
    add(1, 32, 0, 'b2', p='X')
    add(0, 1, 1, 'XX', bound=3)
    add(2, 1, 0, 'b3', p='s', budget=90)
    add(2, 1, 0, 'b3X', budget=120)
    if not quick:
        # ---- bound 2 on the smallest shapes, bound 3 for n=1 with one producer (first: they are what thorough adds)
        add(1, 1, 0, 'X', bound=2, budget=300)
        add(1, 32, 0, 'X', bound=2, budget=300)
        add(1, 1, 0, 'b2s', bound=2, budget=200)
        add(1, 1, 1, 'b2s', bound=2, budget=200)
        add(1, 1, 0, 'b2', bound=3, budget=400)
        add(1, 32, 0, 'q', bound=3, budget=400)
        add(1, 1, 0, 'q', p='s', bound=2, budget=300)
        add(2, 1, 0, 's', bound=2, budget=300)
        add(1, 1, 0, 's', t1='q', bound=2, budget=400)
        # two workers, an external submission and a task that submits from a pool thread while ~ThreadPool is already
        # draining, three deviations: a submission that lands after the destructor's first drain and is skipped by
        # both exiting workers (the central-queue hint race) must still be run by the destructor
        add(2, 32, 0, 'q', p='q', bound=3, budget=900)
        # ---- wider program families at bound 1
        for mult, poll in ((32, 0), (1, 1)):
            add(1, mult, poll, 'XX')
        add(1, 1, 0, 'X', t1='X', budget=300)      # every pair of single submissions from two external producers
        add(1, 1, 1, 'X', t1='q', budget=150)
        add(1, 1, 0, 'b2s', t1='X', budget=200)
        add(1, 32, 0, 'X', p='X')
        add(1, 1, 0, 'q', p='XX', budget=200)
        add(1, 1, 0, 's', t1='q', p='X', budget=200)
        add(1, 1, 1, 'b2', p='X')
        add(2, 1, 0, 'sX', budget=300)
        add(2, 1, 0, 'b3X', budget=300)
        add(2, 1, 1, 'b3s', budget=200)
        add(2, 32, 0, 's', t1='q', budget=300)
        add(2, 1, 0, 'b3', t1='s', budget=300)
        add(2, 1, 0, 'b3', p='s', budget=300)
        add(0, 1, 0, 'XX', t1='X', p='X', bound=2, budget=200)
        # ---- further sanitizer legs
        add(1, 1, 0, 'b2s', t1='q', bound=1, mode='tsan', budget=200)
        add(1, 32, 1, 'sq', t1='b2', bound=1, mode='asan', budget=200)
        # ---- the largest ones last (cut first when the machine is loaded)
        add(1, 32, 0, 'X', t1='X', budget=400)
        add(2, 1, 0, 'b3s', bound=2, budget=400)
        add(1, 1, 0, 'b2s', bound=3, budget=400)
        add(2, 32, 0, 'XX', budget=400)
        add(2, 1, 0, 'X', t1='q', budget=400)
    return runs


reg('C01', level='model_checking', runs=c01_runs, quick_budget_s=400, thorough_budget_s=2000,
    technique='stateless model checking of the real ThreadPool: every interleaving (up to a deviation bound) of 1-2 external producer threads, an optional pool-thread producer, the workers and the destructor drain; per-functor invocation counters',
    level_text='Pools of 0, 1 and 2 threads, poolLoadMultiplier 1 and 32, signalling-wake and polling mode; producers run programs of <= 2 submissions over {schedule(f), schedule(f, ForceQueuingTag), scheduleBulk(k, gen) k=1..3}: every such program for one producer (programs are chosen inside the run by exhaustive data nondeterminism), single submissions and selected programs for two external producers, and a task running on a pool thread as a further producer; then T0 destroys the pool. Quick: every interleaving with <= 1 deviation; thorough: the wider program sets at bound 1, bound 2 on the smallest shapes (n=1 one producer, n=1 two producers, n=2 one producer) and bound 3 for n=1 with one producer. Oracle: each functor ran exactly once when ~ThreadPool returns and none starts afterwards; a functor that never runs leaves its counter at 0, a parked destructor is a deadlock verdict. Path markers (which thread ran the functor) must show inline execution by schedule and by scheduleBulk, execution by a worker from the central queue (single and bulk enqueue), inline execution on a pool thread, and the destructor\'s own drain.',
    level_note='SC interleavings; the locality and steal rings are not reachable through the three public ThreadPool entry points of the statement (only through task sets, see C02/C03/C08), so they stay empty here; TSan and ASan legs on two (thorough: four) small shapes.',
    design_ref='DESIGN.md section 4, C01', assumptions=MC_ASSUME,
    rule='one evaluation = one complete execution (construct pool, producers, destroy pool) of one configuration under one schedule; distinct_nontrivial = distinct scheduler states (reads-from history hashes) at which more than one continuation existed',
    guards=[need_cover('inline_schedule', 'inline_bulk', 'inline_fq_zero_threads', 'inline_on_pool_thread', 'worker_single', 'worker_bulk', 'dtor_drain'), need_outcomes(40)])
