"""C01: every functor handed to a ThreadPool runs exactly once, no later than ~ThreadPool returns (harness c01_submit.cpp)."""
from specs import reg, McRun, product, MC_ASSUME, need_cover, need_outcomes  # noqa: F401

OPS = ['s', 'q', 'b1', 'b2', 'b3']
P1 = list(OPS)
P2 = [a + b for a in OPS for b in OPS]
# length-2 programs that force the interesting paths with poolLoadMultiplier 1: bulk fills the pool beyond its load
# factor so the following schedule()/bulk element runs inline; FQ keeps queuing regardless
KEY2 = ['b2s', 'b3s', 'b3b1', 'qs', 'sq', 'qq', 'b2q', 'sb3', 'qb2', 'b3b3']


def c01_runs(tier):
    runs, seen = [], set()

    def add(n, mult, poll, t0, t1='-', p='-', bound=1, mode='plain', budget=40):
        key = (n, mult, poll, t0, t1, p, bound, mode)
        if key in seen:
            return
        seen.add(key)
        runs.append(McRun('c01_submit', 'submit', dict(n=n, mult=mult, poll=poll, t0=t0, t1=t1, p=p), bound=bound, mode=mode, budget=budget))

    quick = tier == 'quick'
    # ---- bound 1 over the matrix
    # n=0: everything runs inline on the submitting thread (including FQ and the "pool thread" producer)
    for t0 in (['sq', 'b2s', 'qb3'] if quick else P2):
        for poll in (0, 1):
            add(0, 1, poll, t0, t1='q', p='sb2', bound=3)
    # n=1, one external producer: every program of <= 2 submissions in wake mode with mult 1; key programs elsewhere
    for t0 in P1 + P2:
        add(1, 1, 0, t0)
    for mult, poll in ((32, 0), (1, 1), (32, 1)):
        for t0 in (KEY2 if quick else P1 + P2):
            add(1, mult, poll, t0)
    # n=1, two external producers
    pairs1 = [('s', 'q'), ('s', 's'), ('q', 'b2'), ('b2', 'b2'), ('s', 'b3'), ('b3', 'q')]
    pairs2 = [('b2s', 'q'), ('sq', 'b2'), ('qq', 'ss'), ('b3', 'b2s')]
    if not quick:
        pairs1 = [(a, b) for i, a in enumerate(P1) for b in P1[i:]]
        pairs2 += [('b2s', 'b2s'), ('sq', 'qs'), ('b3b1', 's'), ('qb2', 'sb3'), ('sb2', 'qs')]
    for a, b in pairs1 + (pairs2[:2] if quick else pairs2):
        for mult in (1, 32):
            add(1, mult, 0, a, t1=b)
    for a, b in pairs1[:3]:
        add(1, 1, 1, a, t1=b)
    # n=1, a pool thread as producer (with and without an external one beside it)
    for p in (['s', 'b2', 'sq'] if quick else P1 + ['sq', 'b2s', 'qb2', 'ss']):
        for t0 in (['q', 'b2'] if quick else ['s', 'q', 'b2', 'b3', 'sq']):
            for mult in (1, 32):
                add(1, mult, 0, t0, p=p)
    add(1, 1, 1, 'b2', p='s')
    add(1, 1, 0, 's', t1='q', p='s')
    # n=2
    for t0 in (['b3s', 'b3b1', 'sq', 'qq', 'b2s'] if quick else P1 + KEY2):
        for mult in (1, 32):
            add(2, mult, 0, t0)
    for t0 in (['b3s'] if quick else ['b3s', 'sq', 'b2q']):
        add(2, 1, 1, t0)
    for a, b in ([('s', 'q'), ('b3', 's')] if quick else [('s', 'q'), ('b3', 's'), ('s', 's'), ('q', 'b2'), ('b2', 'b2'), ('b3s', 'q'), ('sq', 'b2')]):
        for mult in ((1,) if quick else (1, 32)):
            add(2, mult, 0, a, t1=b, budget=60)
    for t0, p in ([('b3', 's')] if quick else [('b3', 's'), ('q', 'b2'), ('s', 'sq'), ('b3', 'b1')]):
        add(2, 1, 0, t0, p=p, budget=60)
    if not quick:
        add(2, 1, 0, 's', t1='q', p='s', budget=90)
        add(2, 32, 1, 's', t1='q', budget=90)
        # ---- bound 2 on the smallest shapes, bound 3 for n=1 with one producer
        for t0 in P1 + ['b2s', 'sq', 'qs', 'b3b1']:
            for mult in (1, 32):
                add(1, mult, 0, t0, bound=2, budget=60)
        for t0 in ('b2s', 'sq'):
            add(1, 1, 1, t0, bound=2, budget=60)
        for t0, mult in (('s', 1), ('q', 32), ('b2', 1), ('b2s', 1), ('sq', 32)):
            add(1, mult, 0, t0, bound=3, budget=150)
        for a, b in (('s', 'q'), ('b2', 's')):
            add(1, 1, 0, a, t1=b, bound=2, budget=200)
        add(1, 1, 0, 'q', p='s', bound=2, budget=120)
        add(1, 1, 0, 'b2', p='b1', bound=2, budget=120)
        for t0 in ('s', 'b3s'):
            add(2, 1, 0, t0, bound=2, budget=200)
    # ---- sanitizer legs on small shapes
    add(1, 1, 0, 'b2s', t1='q', bound=1, mode='tsan', budget=90)
    add(2, 1, 0, 'b3s', bound=1, mode='tsan', budget=90)
    add(1, 1, 0, 'b2', p='s', bound=1, mode='asan', budget=90)
    add(1, 32, 1, 'sq', t1='b2', bound=1, mode='asan', budget=90)
    return runs


reg('C01', level='model_checking', runs=c01_runs, quick_budget_s=300, thorough_budget_s=2100,
    technique='stateless model checking of the real ThreadPool: every interleaving (up to a deviation bound) of 1-2 external producer threads, an optional pool-thread producer, the workers and the destructor drain; per-functor invocation counters',
    level_text='Pools of 0, 1 and 2 threads, poolLoadMultiplier 1 and 32, signalling-wake and polling mode; producers run programs of <= 2 submissions over {schedule(f), schedule(f, ForceQueuingTag), scheduleBulk(k, gen) k=1..3}: every such program for one producer on one thread, selected pairs for two external producers, and a task running on a pool thread as a further producer; then T0 destroys the pool. Quick: every interleaving with <= 1 deviation; thorough: the wider program sets at bound 1, bound 2 on the smallest shapes (n=1 one producer, n=1 two producers, n=2 one producer) and bound 3 for n=1 with one producer. Oracle: each functor ran exactly once when ~ThreadPool returns and none starts afterwards; a functor that never runs leaves its counter at 0, a parked destructor is a deadlock verdict. Path markers (which thread ran the functor) must show inline execution by schedule and by scheduleBulk, execution by a worker from the central queue (single and bulk enqueue), inline execution on a pool thread, and the destructor\'s own drain.',
    level_note='SC interleavings; the locality and steal rings are not reachable through the three public ThreadPool entry points of the statement (only through task sets, see C02/C03/C08), so they stay empty here; TSan and ASan legs on four small shapes.',
    design_ref='DESIGN.md section 4, C01', assumptions=MC_ASSUME,
    rule='one evaluation = one complete execution (construct pool, producers, destroy pool) of one configuration under one schedule; distinct_nontrivial = distinct scheduler states (reads-from history hashes) at which more than one continuation existed',
    guards=[need_cover('inline_schedule', 'inline_bulk', 'inline_fq_zero_threads', 'inline_on_pool_thread', 'worker_single', 'worker_bulk', 'dtor_drain'), need_outcomes(40)])
