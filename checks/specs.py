"""Check registry: which runs decide which property, per tier. Used by bin/check and bin/gen_manifest."""
import json, os, subprocess, time, itertools

CHECKS = {}

BAD_AS_ENGINE = ('truncated', 'wall_timeout', 'diverged', 'engine_error')


def product(**axes):
    keys = list(axes)
    for vals in itertools.product(*[axes[k] for k in keys]):
        yield dict(zip(keys, vals))


def load_all_known():
    p = os.path.join(os.path.dirname(os.path.dirname(os.path.abspath(__file__))), 'known_findings.jsonl')
    out = []
    if os.path.exists(p):
        for line in open(p):
            line = line.strip()
            if line and not line.startswith('#'):
                out.append(json.loads(line))
    return out


class McRun:
    """One dmc exploration: build/<mode>/<bin> --harness h key=val ... --bound b"""

    def __init__(self, bin, harness, params=None, bound=1, mode='plain', opts=None, jobs=None, budget=60, max_execs=0, extra=None, tag=''):
        self.bin, self.harness, self.params, self.bound, self.mode = bin, harness, dict(params or {}), bound, mode
        self.opts, self.budget, self.max_execs, self.extra, self.tag = dict(opts or {}), budget, max_execs, list(extra or []), tag
        self.jobs = jobs if jobs is not None else (4 if mode.startswith('plain') else 1)
        # cores charged by bin/check: sanitizer builds map large shadow regions per thread, and page-table work is
        # serialised VM-wide here, so at most eight of them run side by side
        self.weight = self.jobs if mode.startswith('plain') else 2

    def target(self, bdir):
        return '%s/%s/%s' % (bdir, self.mode, self.bin)

    def describe(self):
        return {'engine': 'dmc', 'bin': self.bin, 'mode': self.mode, 'harness': self.harness, 'params': self.params, 'bound': self.bound, 'opts': self.opts}

    def execute(self, bdir, pid, known, remaining):
        cmd = [self.target(bdir), '--harness', self.harness, '--bound', str(self.bound), '--jobs', str(self.jobs),
               '--deadline', '%.1f' % max(2.0, min(self.budget * float(os.environ.get('VERIF_BUDGET_SCALE', '1') or 1), remaining)), '--replay-dir', os.environ.get('VERIF_REPLAY_DIR', 'replays') + '/' + pid]
        if self.tag:
            cmd += ['--tag', self.tag]
        if self.max_execs:
            cmd += ['--max-execs', str(self.max_execs)]
        cmd += ['%s=%s' % kv for kv in sorted(self.params.items())]
        cmd += ['opt.%s=%s' % kv for kv in sorted(self.opts.items())]
        cmd += self.extra
        kn = []
        # aggregate checks (C10/C11) re-run configurations of other properties: a recorded known finding of the source
        # property that shows up there is that property's finding (it reports it itself), not a verdict of this check
        src = getattr(self, 'source_pid', None)
        if src:
            known = list(known) + [dict(k, _source=True) for k in load_all_known() if k.get('property') == src and k.get('status') == 'known']
        for k in known:
            if k.get('harness') not in (None, self.harness):
                continue
            if any(str(self.params.get(a)) != str(b) for a, b in (k.get('params') or {}).items()):
                continue
            kn.append(k)
            cmd += ['--known', k['assertion']]
        p = subprocess.run(cmd, stdout=subprocess.PIPE, stderr=subprocess.PIPE, text=True)
        res = None
        for line in p.stdout.splitlines():
            if line.startswith('MCRESULT '):
                res = json.loads(line[9:])
        if res is None:
            return {'engine_error': 'no result from %s (exit %d): %s' % (' '.join(cmd), p.returncode, p.stderr[-400:]), 'violations': []}
        res['cmd'] = ' '.join(cmd)
        viols = []
        for v in res.get('violations', []):
            if v['status'] in BAD_AS_ENGINE:
                res['engine_error'] = (res.get('engine_error') or '') + ' %s: %s (replay %s)' % (v['status'], v['msg'], v['replay'])
                continue
            if v.get('known'):
                from_source, own = False, False
                for k in kn:
                    if k['assertion'] in v['msg']:
                        if k.get('_source'):
                            from_source = True
                        else:
                            own = True
                            v['known_what'] = k.get('what', k['assertion'])
                if from_source and not own:
                    res['source_known_seen'] = res.get('source_known_seen', 0) + 1
                    continue
            viols.append(v)
        res['violations'] = viols
        if not res.get('engine_error'):
            res['engine_error'] = ''
        return res


class SeqRun:
    """One sequential enumerator: build/seq/<bin> --tier t"""

    def __init__(self, bin, tier, args=None, budget=120):
        self.bin, self.tier, self.args, self.budget = bin, tier, list(args or []), budget
        self.jobs = 16  # the enumerators fan out over all cores themselves

    def target(self, bdir):
        return '%s/seq/%s' % (bdir, self.bin)

    def describe(self):
        return {'engine': 'seq', 'bin': self.bin, 'tier': self.tier, 'args': self.args}

    def execute(self, bdir, pid, known, remaining):
        cmd = [self.target(bdir), '--tier', self.tier] + self.args
        env = dict(os.environ)
        env['ASAN_OPTIONS'] = 'detect_leaks=1:abort_on_error=0:exitcode=77:allocator_may_return_null=1'
        env['UBSAN_OPTIONS'] = 'print_stacktrace=1:halt_on_error=1'
        t0 = time.time()
        try:
            p = subprocess.run(cmd, stdout=subprocess.PIPE, stderr=subprocess.PIPE, text=True, env=env, timeout=max(10, remaining + 60))
        except subprocess.TimeoutExpired:
            return {'engine_error': 'enumerator timed out: ' + ' '.join(cmd), 'violations': []}
        res = None
        for line in p.stdout.splitlines():
            if line.startswith('SEQRESULT '):
                res = json.loads(line[10:])
        if res is None:
            # crashed or sanitizer abort: that is a violation of memory safety / UB on some enumerated case
            rd = os.environ.get('VERIF_REPLAY_DIR', 'replays'); os.makedirs(rd + '/' + pid, exist_ok=True)
            path = '%s/%s/%s.crash.txt' % (rd, pid, self.bin)
            with open(path, 'w') as f:
                f.write('command: %s\nexit: %d\n--- stderr ---\n%s\n--- stdout tail ---\n%s\n' % (' '.join(cmd), p.returncode, p.stderr[-8000:], p.stdout[-2000:]))
            first = ''
            for line in p.stderr.splitlines():
                if 'ERROR:' in line or 'runtime error' in line or 'SUMMARY' in line:
                    first = line.strip()
                    break
            return {'engine_error': '', 'evaluations': 0, 'distinct_nontrivial': 0, 'exhaustive': False, 'samples': [],
                    'violations': [{'status': 'crash', 'msg': 'enumerator aborted (exit %d): %s' % (p.returncode, first), 'replay': path, 'known': False}]}
        res['cmd'] = ' '.join(cmd)
        res['engine_error'] = ''
        for v in res.get('violations', []):
            v['status'] = 'violation'
            v['known'] = False
            for k in known:
                if k['assertion'] in v['msg']:
                    v['known'] = True
                    v['known_what'] = k.get('what', k['assertion'])
        if p.returncode not in (0, 1):
            res['engine_error'] = 'enumerator exit code %d: %s' % (p.returncode, p.stderr[-300:])
        return res


def aggregate(level, results):
    cov = {}
    mc = [r for r in results if r.get('run', {}).get('engine') == 'dmc' and 'executions' in r]
    sq = [r for r in results if r.get('run', {}).get('engine') == 'seq' and 'evaluations' in r]
    evaluations = sum(r['executions'] for r in mc) + sum(r['evaluations'] for r in sq)
    distinct = sum(r['states'] for r in mc) + sum(r['distinct_nontrivial'] for r in sq)
    samples = []
    for r in mc:
        for s in r.get('samples', [])[:1]:
            samples.append({'harness': r['harness'], 'params': r['params'], 'schedule': s})
    for r in sq:
        for s in r.get('samples', [])[:2]:
            samples.append({'checker': r.get('checker'), 'case': s})
    cov['evaluations'] = evaluations
    cov['distinct_nontrivial'] = distinct
    cov['samples'] = samples[:8]
    if mc:
        cov['states'] = sum(r['states'] for r in mc)
        cov['transitions'] = sum(r['transitions'] for r in mc)
        cov['traces_validated_against_impl'] = sum(r['executions'] for r in mc)
        cov['distinct_outcomes'] = sum(r['distinct_outcomes'] for r in mc)
        cov['determinism_double_runs'] = sum(r['determinism_double_runs'] for r in mc)
        cov['replayed_prefix_hash_checks'] = 'every replayed choice point of every execution'
        cov['completed_bound_min'] = min(r['completed_bound'] for r in mc)
        cov['completed_bound_max'] = max(r['completed_bound'] for r in mc)
        cov['max_choice_points'] = max(r['max_choice_points'] for r in mc)
        cov['timeouts_fired'] = sum(r['timeouts_fired'] for r in mc)
        cover = set()
        for r in mc:
            cover.update(r.get('cover', []))
        cov['cover'] = sorted(cover)
        outcomes = {}
        for r in mc:
            for k, v in r.get('outcomes', {}).items():
                outcomes[k] = outcomes.get(k, 0) + v
        cov['outcomes'] = outcomes
        cov['explanation'] = ('every execution is a run of the compiled dispenso sources under the dmc scheduler; there is no '
                              'separate model, so traces_validated_against_impl equals the number of executions')
    ex = all(r.get('exhaustive', False) for r in mc + sq) and len(mc) + len(sq) > 0
    cov['exhaustive'] = bool(ex)
    if sq:
        cov['domains'] = [r.get('domain', '') for r in sq]
        if not mc:
            cov['rule'] = '; '.join(r.get('rule', '') for r in sq)
    return cov


def slim(r):
    keep = ('run', 'skipped', 'source_known_seen', 'completed_bound', 'bound_requested', 'exhaustive', 'executions', 'states', 'transitions', 'pruned',
            'distinct_outcomes', 'outcomes', 'cover', 'evaluations', 'distinct_nontrivial', 'domain', 'wall_s', 'engine_error', 'cut', 'max_threads')
    out = {k: r[k] for k in keep if k in r}
    if r.get('violations'):
        out['violations'] = [{'status': v.get('status'), 'msg': v.get('msg', '')[:300], 'replay': v.get('replay'), 'known': v.get('known')} for v in r['violations']]
    return out


# ---------------------------------------------------------------------------------------------
# guards
def need_cover(*names):
    def g(results):
        cover = set()
        for r in results:
            cover.update(r.get('cover', []))
        missing = [n for n in names if n not in cover]
        return 'paths never reached: ' + ', '.join(missing) if missing else None
    return g


def need_outcomes(n):
    def g(results):
        tot = sum(r.get('distinct_outcomes', 0) for r in results)
        return 'only %d distinct outcomes over all configurations (need >= %d)' % (tot, n) if tot < n else None
    return g


def reg(pid, **kw):
    CHECKS[pid] = kw


MC_ASSUME = [
    'sequentially consistent interleavings at synchronisation operations (atomics, fences, mutexes, futex, semaphores, thread start/join); non-SC behaviours are only covered where a TSan leg or the wm option is listed',
    'libc/kernel services are modelled per their manual pages (futex compare-and-block, wake <= n waiters in any subset, timeouts, optional spurious returns; virtual monotone clock)',
    'state-hash pruning merges schedules with equal reads-from history; executions run in-process with dispenso global state rebuilt before each, checked by hash comparison on every replayed prefix',
]

# every checks/specs_*.py registers its checks on import
import glob as _glob, importlib as _importlib  # noqa: E402
for _f in sorted(_glob.glob(os.path.join(os.path.dirname(os.path.abspath(__file__)), 'specs_*.py'))):
    _importlib.import_module(os.path.basename(_f)[:-3])
