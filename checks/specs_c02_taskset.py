"""C02 / C04 / C05: TaskSet and ConcurrentTaskSet (harness/c02_taskset.cpp)."""
from specs import reg, McRun, product, MC_ASSUME, need_cover, need_outcomes  # noqa: F401

BIN = 'c02_taskset'
SETS = ('ts', 'ch', 'cl')
RULE = ('one evaluation = one complete execution of one (set kind, pool size, multipliers, submission program, wait/cancel/'
        'throw configuration) under one schedule; distinct_nontrivial = distinct scheduler states with more than one continuation')


def bulk_hit(n):
    """a scheduleBulk count that takes the per-thread ring fast path (count*4 >= n && count <= n); none for n = 0"""
    return 'b%d' % n if n >= 1 else 'b1'


def bulk_miss(n):
    return 'b%d' % (n + 1)


# ---------------------------------------------------------------------------------------------- C02
def c02_alpha(n, full):
    a = ['s', 'q', bulk_hit(n), bulk_miss(n), 'B2', 'n', 'a', 't', 'T']
    if full:
        a += ['m']
    seen, out = set(), []
    for x in a:
        if x not in seen:
            seen.add(x)
            out.append(x)
    return ','.join(out)


def c02_rank(r):
    """order of the runs inside a tier: cheapest and most discriminating first, so that a loaded machine cuts the
    tail (largest shapes), not the head, and the vacuity guards see every path early"""
    prog = str(r.params.get('prog', ''))
    wild = prog.startswith('?')
    n = int(r.params.get('n', 0))
    if r.mode != 'plain':
        return 0
    if r.bound == 0 and n <= 1 and prog != '?3':
        return 1
    if r.bound == 1 and n <= 1 and not wild:
        return 2
    if r.bound == 1 and n <= 1:
        return 3
    if r.bound == 0:
        return 4 + (1 if prog == '?3' else 0)
    if r.bound == 1:
        return 6
    return 7


def c02_runs(tier):
    runs = []
    quick = tier == 'quick'
    waits = ('w', '0', '1', '8', 'd')

    def add(set_, n, slm, prog, w, bound, mode='plain', budget=40, alpha=None, t1=None):
        params = dict(set=set_, n=n, slm=slm, prog=prog, w=w)
        if alpha:
            params['alpha'] = alpha
        if t1:
            params['t1'] = t1
        runs.append(McRun(BIN, 'barrier', params, bound=bound, mode=mode, budget=budget))

    # (a) bound 0 (default schedule plus every free switch), everything else by data nondeterminism: every program of
    #     <= L steps over the whole alphabet x stealingLoadMultiplier {1,4} (slm=0) x every way of waiting (w=?)
    k = 0
    for set_ in SETS:
        for n in (0, 1):
            add(set_, n, 0, '?2', '?', 0, alpha=c02_alpha(n, not quick), budget=60 if quick else 240)
            if not quick:
                add(set_, n, (1, 4)[(k + n) % 2], '?3', waits[(k + 2 * n) % 5], 0, alpha=c02_alpha(n, False), budget=240)
        if quick:
            add(set_, 2, 0, '?1', '?', 0, alpha=c02_alpha(2, True), budget=60)
        else:
            add(set_, 2, 0, '?2', '?', 0, alpha=c02_alpha(2, True), budget=240)
            add(set_, 2, (1, 4)[k % 2], '?3', waits[(2 * k) % 5], 0, alpha=c02_alpha(2, False), budget=240)
        k += 1
    # (b) bound 1
    progs1 = ['sq', 'b1s', 'b2q', 'nq', 'ta', 'Ts', 'B2s', 'aqs']
    progs2 = ['b2s', 'sb3', 'qa', 'nb2']
    if quick:
        k = 0
        for set_ in SETS:
            for p in (progs1[k:k + 3] + progs1[:max(0, k - 5)]):
                add(set_, 1, (1, 4)[k % 2], p, waits[k % 5], 1)
                k += 1
            k += 0
        add('ts', 2, 4, 'b2s', 'w', 1, budget=60)
        add('cl', 1, 4, 'sq', 'd', 1, t1='q')
    else:
        for set_ in SETS:
            for slm in (1, 4):  # every step x every wait
                add(set_, 1, slm, '?1', '?', 1, alpha=c02_alpha(1, True), budget=300)
            k = 0
            for p in progs1:
                add(set_, 1, (1, 4)[k % 2], p, '?', 1, budget=90)
                k += 1
            for p in progs2[:2]:
                add(set_, 2, (1, 4)[k % 2], p, waits[k % 5], 1, budget=120)
                k += 1
        # two submitting threads on a ConcurrentTaskSet (joined before the wait, as documented)
        for set_ in ('ch', 'cl'):
            add(set_, 1, 4, 'sq', '?', 1, t1='qs', budget=150)
        # bound 2 on the smallest shapes
        for set_, p, w in (('ts', 's', 'w'), ('ts', 'b1', 'd'), ('ch', 'q', '1'), ('ch', 'a', 'w'), ('cl', 's', 'd'), ('cl', 'b1', 'w')):
            add(set_, 1, 4, p, w, 2, budget=100)
    # self-recursive bulk scheduling: a task of a ConcurrentTaskSet bulk-schedules children into its own set while
    # the owner waits (plain and force-queued bulk; kHeavy takes the placed path, kLightweight the standard one)
    for set_ in ('ch', 'cl'):
        # (two deviations: the parent is preempted between handing the batch to the pool and the next thing it does,
        #  and the waiter must get past the child it runs before the parent resumes)
        for p in ('r2', 'R1'):
            add(set_, 1, 4, p, 'w' if quick else '?', 2, budget=60 if quick else 200)
        if not quick:
            add(set_, 2, 4, 'r2', 'w', 1, budget=200)
            add(set_, 1, 1, 'r3s', '8', 2, budget=200)
            add(set_, 1, 4, 'R1', 'w', 3, budget=300)
    # sanitizer legs
    add('ts', 1, 4, 'b1q', 'w', 1, mode='tsan', budget=50)
    add('ch', 1, 4, 'sa', 'd', 0, mode='tsan', budget=40)
    add('cl', 1, 1, 'tn', '1', 0, mode='asan', budget=40)
    add('ts', 1, 4, 'b1T', 'd', 0, mode='asan', budget=40)
    # cheapest and most discriminating first, so that a loaded machine cuts the tail, not the head
    runs.sort(key=c02_rank)
    return runs


reg('C02', level='model_checking', runs=c02_runs, quick_budget_s=260, thorough_budget_s=1500,
    technique='stateless model checking of the real TaskSet / ConcurrentTaskSet / ThreadPool / Future code: submission programs enumerated by data nondeterminism, all interleavings up to a deviation bound, finish-mark oracle at the instant the wait returns',
    level_text='TaskSet, ConcurrentTaskSet(kHeavy), ConcurrentTaskSet(kLightweight) x pools of 0,1,2 threads x stealingLoadMultiplier 1 and 4 x every program of <=2 (quick) / <=3 (thorough; <=2 for 2 threads) steps over {schedule, schedule(ForceQueuingTag), scheduleBulk(k) with k on and off the per-thread ring fast path, scheduleBulk(k, ForceQueuingTag), a task that creates and waits a nested TaskSet / ConcurrentTaskSet, async(set,f), async(set,f).then(g,set), async(pool,f).then(g,set)} followed by wait(), tryWait(0|1|8) or the destructor, under the default schedule and every free switch (bound 0); selected multi-step programs and (thorough) every single step x every wait with <=1 deviation, smallest shapes with <=2; a second submitting thread on ConcurrentTaskSet; a task that bulk-schedules (plain and force-queued) into its own ConcurrentTaskSet while the owner waits. Oracle: when wait()/the destructor returns, and whenever tryWait returns true, every task of the set submitted before the call has its finish mark and started exactly once; nested waits likewise; continuations run after their antecedent; at the end every body ran exactly once.',
    level_note='SC interleavings; backstop timeouts allowed (progress without them is C07). Which path a submission took is recorded from the private counters just before the call (cover markers).',
    design_ref='DESIGN.md section 4, C02', assumptions=MC_ASSUME, rule=RULE,
    guards=[need_cover('bulk_ring_fast_path', 'bulk_standard_enqueue', 'bulk_standard_inline', 'bulk_placed', 'bulk_force_queue', 'nested_wait', 'async_on_set',
                       'then_on_set', 'then_on_set_pool_antecedent', 'recursive_bulk', 'recursive_bulk_fq', 'ran_inline_in_schedule', 'ran_in_wait', 'ran_on_other_thread', 'trywait_true', 'trywait_false',
                       'ts_schedule_inline_set_load', 'cts_schedule_queued'),
            need_outcomes(20)])


# ---------------------------------------------------------------------------------------------- C04
C04_ALPHA = 's,q,b1,b2,b3,B2'


def c04_gates(set_, n, slm=1):
    """gate tasks that put the set over its inline threshold (same formula as gates_for_set_load in the harness)"""
    return (max(n + 1, slm * n // 2) if set_ == 'ch' else slm * n) + 1


def c04_runs(tier):
    runs = []
    quick = tier == 'quick'

    def add(set_, n, src, prog, bound, g=0, pg=0, load=None, mask=None, pos=None, mode='plain', budget=40, slm=1, plm=1, alpha=C04_ALPHA):
        params = dict(set=set_, n=n, src=src, prog=prog, slm=slm, plm=plm, alpha=alpha)
        if load:
            params['load'] = load  # '?': no load / set over its load factor / pool over its load factor (mc::choose)
        else:
            params.update(g=g, pg=pg)
        if mask is not None:
            params['mask'] = mask
        if pos is not None:
            params['pos'] = pos
        runs.append(McRun(BIN, 'cancel', params, bound=bound, mode=mode, budget=budget))

    # (a) bound 0, nothing races: cancel() by the thread that owns the set, directly or on the top of a kOn cascade
    #     of depth 1 / 2, at every position of every program under every load (all by data nondeterminism)
    for set_ in SETS:
        for n in (0, 1, 2):
            L = (2 if quick else 3) - (1 if n == 2 else 0)  # 2 workers: bound 0 already branches at every blocking point
            add(set_, n, 't0', '?%d' % L, 0, load='?', budget=60 if quick else 300)
            if quick and n == 2:
                continue
            # (no pool gates under a cascade: the top's wait() on T0 could pick one up and never reach the runner)
            for g in ([0] if n == 0 else [0, c04_gates(set_, n)]):
                if n == 2 and g:
                    continue
                add(set_, n, 'p1', '?2' if (quick or n == 2) else '?3', 0, g=g, budget=60 if quick else 200)
                if not (quick and (n == 0 or g)) and n < 2:
                    add(set_, n, 'p2', '?1' if quick else '?2', 0, g=g, budget=60 if quick else 200)
    # (b) bound 1: the cancel races the submissions
    for set_ in ('ch', 'cl'):
        # cancel() on a second thread (ConcurrentTaskSet), released after `pos` steps of the submitter
        if quick:
            add(set_, 1, 't1', 'sq', 1, g=c04_gates(set_, 1), budget=60)
            add(set_, 1, 't1', 'b3s', 1, pg=2, budget=60)
        else:
            add(set_, 1, 't1', '?1', 1, load='?', budget=300, alpha='sq,b2s,b3s,sss')
            add(set_, 2, 't1', 'sq' if set_ == 'cl' else 'sb2', 1, g=c04_gates(set_, 2), budget=200)
            if set_ == 'cl':
                add(set_, 1, 't1', 'sq', 2, g=c04_gates(set_, 1), budget=150)
    for set_ in SETS:
        gl = c04_gates(set_, 1)
        # T0 cancels the top of a cascade while a pool thread runs the child set
        if quick:
            add(set_, 1, 'P1', 'sb2', 1, g=gl, budget=60)
        else:
            for g in (0, gl):
                add(set_, 1, 'P1', '?1', 1, g=g, budget=200, alpha='sb2,sq,b3s')
            add(set_, 1, 'P2', '?1', 1, g=gl, budget=200, alpha='sb2,sq')
            if set_ == 'cl':
                add(set_, 2, 'P1', 'sq', 1, g=0, budget=200)
            add(set_, 1, 't0', '?1', 1, g=gl, budget=200)
            add(set_, 1, 'p1', '?1', 1, g=gl, budget=200)
        # a throwing task cancels the set: thrower queued first / first of a bulk call that continues inline /
        # queued with a bulk behind it / inline (propagates to the caller, no cancel)
        for n in (0, 1, 2):
            g = c04_gates(set_, n) if n else 0
            if quick:
                if n < 2:
                    add(set_, n, 'ex', 'qsb2', 1, g=0, mask=1, pos=0, budget=60)
                add(set_, n, 'ex', 'b3', 1 if n < 2 else 0, g=g, mask=1, pos=0, budget=60)
            else:
                if n < 2:
                    add(set_, n, 'ex', '?1', 1, g=0, mask=1, pos=0, budget=200, alpha='qsb2,qb2s,qqs')
                    add(set_, n, 'ex', 'B2sq', 1, g=0, mask=2, pos=0, budget=150)
                add(set_, n, 'ex', '?1', 1, g=g, mask=1, pos=0, budget=200, alpha='b3,qb2s,sqs' if n < 2 else 'b3,qb2s')
    # the top of a cascade is already cancelled (by an exception of another of its tasks, which does not walk the
    # children) when the runner calls top.cancel(); and top.cancel() called by the runner and by T0 at once:
    # in both cases the cascade must have reached the child when the runner's call returns
    for set_ in SETS:
        add(set_, 1, 'x1', 'sq' if quick else '?2', 1, g=0, budget=60 if quick else 200, alpha='s,q,b2')
        add(set_, 1, 'cc', 'sq' if quick else '?2', 1, g=0, budget=60 if quick else 200, alpha='s,q,b2')
        if not quick:
            add(set_, 2, 'x1', 'sq', 1, g=0, budget=200)
            add(set_, 2, 'cc', 'sq', 1, g=0, budget=200)
            add(set_, 1, 'cc', 'sq', 2, g=0, budget=300)
    # default multipliers: a pool thread (cascade runner) cancels and goes on submitting
    for set_ in SETS:
        add(set_, 1, 'p1', 'qs', 1, slm=4, plm=32, budget=60)
        if not quick:
            if set_ == 'cl':
                add(set_, 2, 'p1', 'qqs', 1, slm=4, plm=32, budget=200)
            add(set_, 1, 'P1', 'qsb2', 1, slm=4, plm=32, budget=100)
    # sanitizer legs
    add('cl', 1, 't1', 's', 1, g=0, pos=0, mode='tsan', budget=40)
    add('ts', 1, 'P1', 's', 1, g=0, pos=0, mode='tsan', budget=40)
    add('ch', 1, 'ex', 'qsb2', 1, mask=1, pos=0, mode='asan', budget=40)
    add('ts', 1, 'p2', 'sq', 0, mode='asan', budget=40)
    runs.sort(key=lambda r: (0 if r.mode != 'plain' else 1) if quick else c02_rank(r))
    return runs


reg('C04', level='model_checking', runs=c04_runs, quick_budget_s=300, thorough_budget_s=1800,
    technique='stateless model checking of the real TaskSet / ConcurrentTaskSet cancellation paths under forced load (gate tasks holding the workers, stealingLoadMultiplier=1, poolLoadMultiplier=1): cancel position and programs by data nondeterminism, racing cancels by schedule exploration',
    level_text='3 set kinds x pools of 0,1,2 threads x {no load, set over its load factor, pool over its load factor} x every program of <=2 (quick) / <=3 (thorough) steps over {schedule, schedule(FQ), scheduleBulk(1|2|3), scheduleBulk(2,FQ)} x every position of a cancel() issued by the submitting thread, directly or on the top of a ParentCascadeCancel::kOn chain of depth 1 and 2 (bound 0: nothing races); with <=1 deviation: cancel() from a second thread racing the submissions (ConcurrentTaskSet), T0 cancelling the top of a cascade while a pool thread runs the child set, and a throwing task (queued, inside a bulk call that continues inline, inline) as the cancel source; an explicit cancel() on a cascade top that an exception had already cancelled, and two racing cancel() calls on the top (a submission the runner makes after its own cancel() returned must find the child cancelled). Oracle at the first instruction of every body: the raw canceled_ flag is read; a body run from a queue or ring with the flag set is a violation (the packaged check and the body start are one step), a body run inline by a schedule call is a violation if canceled() was already true when the call began or if an earlier body of the same call threw; wait() returns true iff cancelled (after rethrowing once for the exception source), tryWait false; nothing is running when wait returns; no task is skipped on a set that is not cancelled.',
    level_note='a body run inline by a schedule call that overlapped a concurrent cancel() (check-then-run window of the inline path) is counted (cover inline_overlapping_cancel) but not reported: no observer can order that cancel() before the call; strict=1 turns it into a violation for inspection.',
    design_ref='DESIGN.md section 4, C04', assumptions=MC_ASSUME, rule=RULE,
    guards=[need_cover('cancel_by_runner', 'cancel_by_second_thread', 'cancel_by_t0_racing', 'cancel_twice_racing', 'cancel_after_exception_cancel', 'cascade_depth1', 'cascade_depth2', 'wait_threw', 'task_skipped',
                       'task_ran_before_cancel', 'ts_schedule_inline_set_load', 'cts_schedule_inline_set_load', 'cts_schedule_inline_pool_load', 'bulk_standard_inline',
                       'bulk_ring_fast_path', 'bulk_placed', 'ran_inline_in_schedule'),
            need_outcomes(20)])


# ---------------------------------------------------------------------------------------------- C05
C05_PROGS = ['s', 'q', 'b1', 'B1',
             'ss', 'sq', 'qs', 'qq', 'b2', 'B2',
             'sss', 'sqs', 'qqs', 'qqq', 'b3', 'B3', 'sb2', 'qb2', 'b2s', 'b2q', 'sB2']


def c05_runs(tier):
    runs = []
    quick = tier == 'quick'

    def add(set_, n, prog, mask, bound, g=0, ws='ww8', r='n', slm=1, mode='plain', budget=40, alpha=None):
        params = dict(set=set_, n=n, prog=prog, mask=mask, g=g, ws=ws, r=r, slm=slm)
        if alpha:
            params['alpha'] = alpha
        runs.append(McRun(BIN, 'exc', params, bound=bound, mode=mode, budget=budget))

    allp = ','.join(C05_PROGS)
    # (a) bound 0: every program of 1..3 tasks x every subset of throwers x {no load, set over its load factor} (g=-1),
    #     all by data nondeterminism. With 2 workers bound 0 already branches at every blocking point, so the quick
    #     tier takes a sub-alphabet there.
    k = 0
    small = 'qq,b2,sq'
    for set_ in SETS:
        for n in (0, 1, 2):
            seqs = [('ww8', 'n'), ('8w0', 'x')]
            if quick:
                seqs = [seqs[k % 2]]
            k += 1
            for ws, r in seqs:
                if n == 2:
                    add(set_, n, '?1', -1, 0, g=0, ws=ws, r=r, alpha=small if quick else allp, budget=40 if quick else 300)
                    if not quick:
                        add(set_, n, '?1', -1, 0, g=c04_gates(set_, 2), ws=ws, r=r, alpha='qq,b2,sq,b3,qb2', budget=200)
                else:
                    add(set_, n, '?1', -1, 0, g=-1, ws=ws, r=r, alpha=allp, budget=60 if quick else 200)
        # zero-thread pool: a force-queued bulk first keeps tasks outstanding, so schedule() runs the functor inline
        add(set_, 0, '?1', -1, 0, alpha='B1s,B1ss,B2s,B1sq,B1b2', ws='ww8', r='x')
    # (b) bound 1: throwers racing each other / the waiter; inline throwers with queued ones behind them
    for set_ in SETS:
        gl = c04_gates(set_, 1)
        if quick:
            add(set_, 1, 'qq', 3, 1, g=0, ws='ww8', r='n', budget=60)
            add(set_, 1, 'b3', 5, 1, g=0, ws='ww8', r='n', slm=4, budget=60)
            add(set_, 1, 'sq', 3, 1, g=gl, ws='w8w', r='x', budget=60)
            add(set_, 1, '?1', -1, 1, g=-1, alpha='q,sq,b2', ws='8w0', r='x', budget=60)
            add(set_, 2, 'qq', 3, 1, g=0, ws='w', r='n', budget=60)
        else:
            # every program of <= 3 tasks below x every subset of throwers x {no load, set over its load factor}
            add(set_, 1, '?1', -1, 1, g=-1, alpha='s,q,b1,ss,sq,qq,b2,B2,qqq,b3,sb2,b2q', ws='ww8', r='n', budget=500)
            add(set_, 1, '?1', -1, 1, g=-1, alpha='sq,qq,b2,b3', ws='8w0', r='x', budget=300)
            for p, m in (('qq', 3), ('b2', 3), ('B2', 3), ('qqq', 5)):
                add(set_, 2, p, m, 1, g=0, ws='w', r='n', slm=(4 if p[0] in 'bB' else 1), budget=200)
            add(set_, 1, 'qq', 3, 2, ws='ww8', r='n', budget=150)
            add(set_, 1, 'q', 1, 2, ws='8w', r='x', budget=100)
    # sanitizer legs
    add('ts', 1, 'qq', 3, 1, mode='tsan', budget=50)
    add('cl', 2, 'b2', 3, 0, slm=4, mode='tsan', budget=40)
    add('ch', 1, 'sq', 3, 1, g=3, r='x', mode='asan', budget=50)
    add('ts', 0, 'B1s', 2, 0, r='x', mode='asan', budget=40)
    runs.sort(key=lambda r: (0 if r.mode != 'plain' else 1) if quick else c02_rank(r))
    return runs


reg('C05', level='model_checking', runs=c05_runs, quick_budget_s=260, thorough_budget_s=1500,
    technique='stateless model checking of the real exception capture / rethrow state machine of TaskSetBase with tagged exceptions: programs and thrower subsets by data nondeterminism, racing throwers and waiters by schedule exploration',
    level_text='3 set kinds x pools of 0,1,2 threads x {no load, set over its load factor (inline schedule paths)} x 21 programs submitting 1-3 tasks through schedule / schedule(FQ) / scheduleBulk / scheduleBulk(FQ) x every subset of tasks throwing a distinct tagged exception, followed by wait(); wait(); tryWait(8) (or tryWait(8); wait(); tryWait(0)), a resubmission (plain or throwing) and wait(); wait() - bound 0 over all of it; with <=1 deviation 2-3 concurrent throwers on 1-2 workers against the waiter, inline throwers with queued tasks behind them (thorough: every program of <=2 tasks x every subset at bound 1, two throwers at bound 2). Oracle: per round, the waits deliver exactly one exception iff some thrown exception stayed with the set, its tag is one of those, the first wait() delivers it, nothing is delivered twice; an exception that propagated out of schedule() (documented inline case) is never delivered again; every wait returns with outstandingTaskCount_ == 0 and no body running; after the sequence the set accepts work again (the resubmitted task runs iff the set is not cancelled, a throwing resubmission is delivered once).',
    level_note='a captured exception leaves the set cancelled (canceled_ is never cleared in this version), so the resubmitted task is skipped after a delivery; the check demands only what the statement says: accounting intact, no further delivery.',
    design_ref='DESIGN.md section 4, C05', assumptions=MC_ASSUME, rule=RULE,
    guards=[need_cover('wait_delivered', 'trywait_delivered', 'exception_to_schedule_caller', 'several_throwers_captured', 'reused_cancelled', 'reused_uncancelled',
                       'bulk_standard_inline', 'ran_inline_in_schedule', 'ran_in_wait', 'ran_on_other_thread'),
            need_outcomes(20)])
