"""C47: ForceQueuingTag entry points never run the functor on the calling thread (harness c47_fq.cpp)."""
from specs import reg, McRun, product, MC_ASSUME, need_cover, need_outcomes  # noqa: F401

def c47_runs(tier):
    """api=any / api=sets / caller=any are resolved inside the harness by mc::choose: one run explores the whole family."""
    runs, seen = [], set()

    def add(n, api, t0, caller='any', t1='-', gate=1, mult=1, smult=1, bound=1, mode='plain', budget=60):
        key = (n, api, t0, caller, t1, gate, mult, smult, bound, mode)
        if key in seen:
            return
        seen.add(key)
        runs.append(McRun('c47_fq', 'fq', dict(n=n, api=api, t0=t0, caller=caller, t1=t1, gate=gate, mult=mult, smult=smult), bound=bound, mode=mode, budget=budget))

    quick = tier == 'quick'
    # gated, growing load: every entry point x both callers, load from empty to far beyond every factor
    add(1, 'pool', 'qqqqq', budget=60)
    add(1, 'sets', 'qB2qB1q', budget=90)
    # sanitizer legs (early, so that a tier cut short by machine load still has them)
    add(1, 'ts', 'qB2', caller='ext', bound=1, mode='tsan', budget=90)
    add(1, 'ctsl', 'B2q', caller='pool', bound=1, mode='asan', budget=90)
    if not quick:
        add(1, 'sets', 'qB2q', caller='ext', bound=1, mode='tsan', budget=200)
    # n=2: beyond the factors
    add(2, 'pool', 'qqqq', caller='ext', budget=120)
    add(2, 'ts', 'B3q', caller='ext', budget=120)
    add(2, 'ctsh', 'B3q', caller='pool', budget=120)
    # without the gate the earlier functors may start, finish and be accounted while later calls are made
    add(1, 'any', 'qB2q', gate=0, budget=90)
    # two callers at once (TaskSet is single-threaded by contract, so not for api=ts)
    add(1, 'pool', 'qq', t1='qq', caller='ext')
    add(1, 'ctsl', 'qB2', t1='qq', caller='ext')
    # default multipliers (32 / 4): the load stays below the factors, the calls still must not run inline
    add(1, 'any', 'qB2q', mult=32, smult=4)
    # n=2, far beyond every factor
    add(2, 'pool', 'qqqqqqq', caller='ext', budget=120)
    add(2, 'pool', 'qqqqqqq', caller='pool', budget=120)
    add(2, 'ctsh' if quick else 'sets', 'qB3qB2q', caller='pool', budget=150)
    add(2, 'ts', 'qB3qB2q', caller='ext', budget=150)
    if not quick:
        # bound 2 on the shortest programs (first: they are what thorough adds)
        add(1, 'any', 'qq', bound=2, budget=300)
        add(1, 'sets', 'B2q', bound=2, budget=300)
        add(1, 'any', 'qB1', bound=2, gate=0, caller='ext', budget=300)
        add(2, 'pool', 'q', bound=2, caller='ext', budget=300)
        add(2, 'ctsh', 'B2', bound=2, caller='ext', budget=300)
        # more programs at bound 1
        for p in ('q', 'B2', 'B1q', 'B3B3', 'qqB1'):
            add(1, 'any', p)
            add(1, 'any', p, gate=0)
        add(1, 'ctsh', 'B2q', t1='qB1', caller='ext')
        for p in ('q', 'B2'):
            add(2, 'any', p, budget=200)
        add(2, 'any', 'qB2q', gate=0, caller='pool', budget=200)
        add(2, 'ctsl', 'B3q', budget=200)
        add(2, 'ctsh', 'B3q', caller='ext', budget=200)
        add(2, 'pool', 'qq', t1='q', caller='pool', budget=200)
        add(2, 'ctsl', 'B2', t1='q', gate=0, caller='ext', budget=200)
        add(2, 'ctsh', 'qB2', caller='ext', bound=1, mode='tsan', budget=200)
        add(1, 'pool', 'qq', t1='qq', caller='ext', bound=1, mode='asan', budget=200)
        # the largest ones last (cut first when the machine is loaded)
        add(2, 'ctsh', 'q', t1='B2', caller='ext', budget=300)
        add(2, 'any', 'qB3', mult=32, smult=4, budget=300)
        add(2, 'any', 'qB2q', gate=0, caller='ext', budget=300)
        add(2, 'ctsl', 'qB3qB2q', caller='ext', budget=400)
        add(2, 'ctsh', 'qB3qB2q', caller='ext', budget=400)
    return runs


reg('C47', level='model_checking', runs=c47_runs, quick_budget_s=400, thorough_budget_s=1200,
    technique='stateless model checking of every ForceQueuingTag entry point of the real ThreadPool / TaskSet / ConcurrentTaskSet under growing load, caller on an external thread or on a pool thread; thread identity and call-in-progress flag recorded by each functor',
    level_text='Pools of 1 and 2 threads; entry points ThreadPool::schedule(f,FQ), TaskSet::schedule(f,FQ), TaskSet::scheduleBulk(n,gen,FQ), ConcurrentTaskSet::schedule(f,FQ) and ::scheduleBulk(n,gen,FQ) with TaskCost::kLightweight (central queue) and TaskCost::kHeavy (steal-ring placement) - ThreadPool has no bulk FQ overload; poolLoadMultiplier = stealingLoadMultiplier = 1 with every functor held at a gate until the caller has made all its calls, so that successive calls see the pool empty, below, beyond and far beyond (more than 2x+1) the pool load factor, the pool-recursive factor (1.5 n) and the task-set factor - the conditions under which the non-FQ overloads run inline (each recorded as a cover marker before the call); also ungated, with two concurrent callers, and with the default multipliers. Caller = T0 or a task running on a pool thread. Every interleaving with <= 1 deviation (thorough: more programs, and bound 2 on the shortest programs). Oracle: no functor handed to an FQ call starts on the calling thread while that call is in progress; every functor runs exactly once.',
    level_note='SC interleavings; ConcurrentTaskSet::scheduleBulk from a pool thread enqueues without a producer token, which makes moodycamel index a table by the thread\'s TLS address: the harness normalises glibc\'s thread-stack cache before each execution for those configurations (harness/submit_stacknorm.h). TSan and ASan legs on two (thorough: four) shapes.',
    design_ref='DESIGN.md section 4, C47', assumptions=MC_ASSUME,
    rule='one evaluation = one complete execution of one configuration (entry point x pool size x caller x program) under one schedule; distinct_nontrivial = distinct scheduler states with more than one continuation',
    guards=[need_cover('fq_pool_schedule', 'fq_ts_schedule', 'fq_ts_bulk', 'fq_ctsl_schedule', 'fq_ctsl_bulk', 'fq_ctsh_schedule', 'fq_ctsh_bulk',
                       'caller_is_pool_thread', 'load_empty', 'load_beyond_pool_factor', 'load_far_beyond_pool_factor', 'load_beyond_taskset_factor',
                       'load_far_beyond_taskset_factor', 'load_beyond_pool_recursive_factor', 'started_during_call_elsewhere', 'started_after_call'),
            need_outcomes(15)])
