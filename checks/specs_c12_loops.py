"""C12, C13, C14, C15, C48: parallel_for / for_each (harness/c12_loops.cpp).

Two kinds of runs:
  (A) input enumeration (pf_batch / fe_batch): --bound 0 with free_switch_cost=1 = exactly one (default) schedule per
      execution; the batch is cut into executions by mc::choose inside the harness (`per` calls per execution).
  (B) schedule exploration (pf_one / pf_state / fe_one): dotted parameter lists are folded into one explorer run by
      mc::choose. Two flavours:
        preempt: --bound 1/2, the body brackets an mc::point()
        yield:   --bound 0, the body also calls std::this_thread::yield(): switches at yields/blocks are free, so bound 0
                 already explores every order of the body invocations (pools of 3 threads: free_switch_cost=1, bound 1)
"""
from specs import reg, McRun, product, MC_ASSUME, need_cover, need_outcomes  # noqa: F401

BIN = 'c12_loops'
HUGE = 2147483647
ONE = {'free_switch_cost': 1}


def dot(xs):
    return '.'.join(str(x) for x in xs)


def batch(type, set, n, modes, waits=(1, 0), mts=(HUGE,), mis=(1,), gs=(1,), per=150, check=12, mode='plain', budget=120, **kw):
    params = dict(type=type, set=set, n=n, mode=dot(modes), wait=dot(waits), mt=dot(mts), mi=dot(mis), g=dot(gs), per=per, check=check, **{'yield': 1})
    params.update(kw)
    return McRun(BIN, 'pf_batch', params, bound=0, mode=mode, opts=ONE, budget=budget)


def one(harness, bound, build='plain', budget=120, opts=None, **params):
    params = {k: (dot(v) if isinstance(v, (list, tuple)) else v) for k, v in params.items()}
    if 'yield_' in params:
        params['yield'] = params.pop('yield_')
    return McRun(BIN, harness, params, bound=bound, mode=build, opts=opts, budget=budget)


SPIN = {'spin_own': 1}


def ex(q, harness, bound, modes, n, waits=(1, 0), budget=300, **params):
    """Preemptive exploration of one call, split by code path:
      * static / explicit chunk (any wait) and adaptive+nowait (dynamic path): plain preemption bound;
      * adaptive+wait (stripe path): opt.spin_own=1, so that a stealer retrying a stripe whose retirement was preempted
        (own fetch_add + failing CAS per round) is recognised as spinning; on pools of >= 2 threads additionally
        free_switch_cost=1 and bound 1 (two stealers wake each other; with free switches at the spin-yields the schedule
        space is unbounded because every round advances the cursor).
    quick, pools of >= 2 threads: free_switch_cost=1 everywhere, i.e. at most `bound` non-default scheduling decisions of any
    kind (with free switches such a pool costs 5000-15000 executions per configuration at bound 1)."""
    out = []
    big = n >= 2
    base = dict(ONE) if (big and q) else None
    rest = [m for m in modes if m != 'a']
    if rest:
        out.append(one(harness, bound, mode=rest, wait=list(waits), n=n, opts=base, budget=budget, **params))
    if 'a' in modes and 0 in waits:
        out.append(one(harness, bound, mode='a', wait=0, n=n, opts=base, budget=budget, **params))
    if 'a' in modes and 1 in waits:
        o = dict(SPIN)
        if big:
            o.update(ONE)
        out.append(one(harness, 1 if big else bound, mode='a', wait=1, n=n, opts=o, budget=budget, **params))
    return out


CORE = ['s', 'a', 'c1', 'c3', 'c100']


# ---------------------------------------------------------------------------------------------- C12
def c12_runs(tier):
    q = tier == 'quick'
    runs = []
    # sanitizer legs are kept to a handful of executions: a hand-off between real threads costs ~1 s in these builds when the machine is loaded
    runs.append(batch('i16', 'edge', 1, ['s', 'a'], waits=(1,), mode='asan', budget=150))
    runs.append(McRun(BIN, 'pf_one', {'type': 'i8', 'n': 1, 'at': 'min', 'size': 5, 'mode': 's.a', 'wait': '1.0', 'g': 2, 'yield': 1}, bound=0, mode='tsan', budget=100))
    runs.append(McRun(BIN, 'pf_one', {'type': 'i32', 'n': 2, 'size': 5, 'mode': 'a', 'wait': 1, 'yield': 1}, bound=0, mode='tsan', budget=100))
    # ---- (A) 8-bit types
    if q:
        runs.append(batch('i8', 'sz6', 2, ['s', 'a', 'c3']))
        runs.append(batch('u8', 'sz0', 1, ['s', 'a', 'c3'], mts=(2, HUGE), mis=(1, 4), gs=(1, 3)))
        runs.append(batch('i8', 'sz6', 0, ['s', 'a', 'c3'], per=4000))
        runs.append(batch('u8', 'sz6', 1, ['s', 'a', 'c3'], mts=(0, 1), per=2000))
    else:
        runs.append(batch('i8', 'full8', 1, CORE, per=400, budget=500))
        runs.append(batch('u8', 'full8', 1, ['s', 'a'], per=400, budget=300))
        runs.append(batch('i8', 'sz8', 2, CORE, budget=200))
        runs.append(batch('u8', 'sz8', 2, CORE, budget=200))
        runs.append(batch('i8', 'sz2', 1, CORE, mts=(2, HUGE), mis=(1, 4), gs=(1, 3), budget=200))
        runs.append(batch('u8', 'sz2', 2, ['s', 'a', 'c3'], mts=(2, HUGE, 4294967295), mis=(1, 4), gs=(1, 3), budget=300))
        for t in ('i8', 'u8'):
            runs.append(batch(t, 'full8', 0, ['s', 'a', 'c3'], per=4000, budget=120))
            runs.append(batch(t, 'sz40', 2, ['s', 'a', 'c3'], mts=(0, 1), gs=(1, 3), per=2000, budget=120))
        runs.append(batch('i8', 'sz6', 2, ['s', 'a', 'c3'], nest=1, budget=60))
        runs.append(batch('u8', 'sz6', 2, ['s', 'a', 'c3'], nest=2, budget=120))
    # ---- (A) wider types: edge anchors
    wide = ('i16', 'u32', 'i64', 'u64') if q else ('i16', 'u16', 'i32', 'u32', 'i64', 'u64')
    for t in wide:
        if q:
            runs.append(batch(t, 'edge', 2, ['s', 'a', 'c3'], gs=(1, 3)))
        else:
            full = t in ('i16', 'i64', 'u64')
            runs.append(batch(t, 'edge', 2, CORE, mts=(2, HUGE), mis=(1, 4) if full else (1,), gs=(1, 3), budget=200))
            runs.append(batch(t, 'edge', 1, CORE if full else ['s', 'a', 'c3'], mis=(1, 4), gs=(1, 3), budget=120))
            runs.append(batch(t, 'edge', 0, ['s', 'a', 'c3'], per=4000, budget=60))
    if not q:
        runs.append(batch('i32', 'edge', 2, ['s', 'a', 'c3'], cts=1, budget=60))
    # sizes at the limit of the size type: separate runs, so that their verdict does not hide the others
    for t in ('i64', 'u64'):
        runs.append(batch(t, 'huge', 1, ['s', 'a'], waits=(0,), per=40, budget=40))
        runs.append(batch(t, 'huge', 1, ['a'], waits=(1,), per=40, budget=40))
        if not q:
            runs.append(batch(t, 'huge', 1, ['s'], waits=(1,), per=40, budget=40))
    # ---- (B) schedules
    M4 = ['s', 'a', 'c1', 'c3']
    runs += ex(q, 'pf_one', 1, M4, 1, type='i32', size=[3, 5, 8], budget=200)
    if not q:
        runs += ex(q, 'pf_one', 2, ['s', 'a', 'c3'], 1, type='i32', size=[5, 8], budget=900)
    runs += ex(q, 'pf_one', 1, ['s', 'a', 'c3'], 2, type='i32', size=[5] if q else [5, 8])
    if not q:
        runs += ex(q, 'pf_one', 1, ['s', 'a', 'c3'], 1, type='i8', at='max', size=[5, 8], g=[1, 3], budget=200)
    runs.append(one('pf_one', 0, type='i32', n=[1, 2], size=[3, 5] if q else [3, 5, 8], mode=['s', 'a', 'c3'] if q else M4, wait=[1, 0], yield_=1, budget=150 if q else 400))
    runs.append(one('pf_one', 0, type='i32', n=2, size=[5] if q else [5, 8], mode=['s', 'a'], wait=[1, 0], yield_=1, settle=0, cts=1, budget=150))
    # the 64-bit ranges ending at the type's maximum (the stripe cursor has the index type's own width there)
    for t in ('i64', 'u64'):
        runs += ex(q, 'pf_one', 1, ['a', 's', 'c3'], 1, waits=(1,) if q else (1, 0), type=t, at='max', off=[0, 1], size=[3, 4, 5, 8], budget=200)
        if not q:
            runs += ex(q, 'pf_one', 2, ['a', 's'], 1, type=t, at='max', size=[4, 5], budget=400)
        runs += ex(q, 'pf_one', 1, ['a'], 2, waits=(1,), type=t, at='max', size=[4, 5], budget=200)
    return runs


reg('C12', level='model_checking', runs=c12_runs, quick_budget_s=300, thorough_budget_s=1800,
    technique='the real parallel_for under the dmc scheduler: (A) exhaustive input enumeration on the default schedule with a chunk-recording body, '
              '(B) exhaustive schedule exploration of single calls up to a deviation bound',
    level_text='(A) int8_t/uint8_t: every (start,end) pair including empty and reversed ranges (thorough; quick: every start x sizes 0..6 plus every range '
               'touching MIN or MAX) x {static, adaptive, explicit chunk 1/3/100} x wait x pools of 0/1/2 threads, and reduced range sets x maxThreads in '
               '{0,1,2,INT32_MAX,UINT32_MAX} x minItemsPerChunk {1,4} x granularity {1,3}, also nested in a parallel_for body / in a pool task; '
               '16/32/64-bit signed and unsigned: ranges starting or ending at {MIN..MIN+2,-2..2,MAX-2..MAX} with sizes {0..9,63..65,2^62 or half the type, '
               'whole type} and, separately, the sizes at the limit of the size type; one execution per batch of <=150 pooled calls on the default '
               'schedule (the body yields, so workers take part). (B) sizes {3,5,8} on pools of 1-2 threads: every schedule with <=1 (quick) / <=2 (thorough) '
               'preemptions, every order of the body invocations (free switches at yields), and the 64-bit ranges ending at MAX likewise. Oracle: recorded chunks non-empty, pairwise disjoint, inside [start,end), union = range; '
               'no body running or starting after parallel_for (wait=true) / wait() (wait=false) returned; a crash is a violation.',
    level_note='explicit chunk sizes are skipped on ranges that would need more than 2000 body calls; multi-group dynamic path (>16 workers) not reachable with pools of <=2 threads',
    design_ref='DESIGN.md section 4, C12', assumptions=MC_ASSUME,
    rule='(A) one evaluation = one execution = one batch of parallel_for calls (the evidence lists calls per batch in the outcome digests); '
         '(B) one evaluation = one complete execution of one call under one schedule; distinct_nontrivial = distinct scheduler states with more than one continuation',
    guards=[need_cover('multi_chunk', 'single_chunk', 'empty_range', 'reversed_range', 'body_on_worker', 'body_on_caller', 'concurrent_bodies',
                       'returned_before_wait', 'caller_and_worker'), need_outcomes(20)])


# ---------------------------------------------------------------------------------------------- C13
def c13_runs(tier):
    q = tier == 'quick'
    runs = []
    gs_small = (2, 3, 4, 5, 6, 7, 8, 9)
    # pools of 2 threads split statically into 3 chunks: sizes up to 5g+1 are needed to get unequal chunks (gran5)
    if q:
        runs.append(batch('i32', 'gran', 1, ['s', 'a'], gs=gs_small, check=13))
        runs.append(batch('i32', 'gran5', 2, ['s', 'a'], gs=(2, 3, 4, 8), check=13))
        runs.append(batch('i32', 'gran', 1, ['s', 'a'], gs=(16,), check=13))
        runs.append(batch('u8', 'gran', 2, ['s', 'a'], gs=(64,), waits=(1,), check=13))
    else:
        for n in (1, 2):
            st = 'gran' if n == 1 else 'gran5'
            runs.append(batch('i32', st, n, ['s', 'a'], gs=gs_small, check=13, budget=300))
            runs.append(batch('i32', st, n, ['s', 'a'], gs=(16,), check=13, budget=300))
            runs.append(batch('i32', 'gran', n, ['s', 'a'], gs=(64,), check=13, budget=400))
        runs.append(batch('i64', 'gran5', 2, ['s', 'a'], gs=gs_small, mis=(1, 4), check=13, budget=400))
        runs.append(batch('u8', 'gran', 2, ['s', 'a'], gs=(2, 3, 5, 16, 64), mts=(2, HUGE), check=13, budget=300))
        runs.append(batch('i8', 'sz12', 2, ['s', 'a'], gs=(2, 3, 7), check=13, budget=300))
    # schedules: bound 1 on g in {2,3} (2 in thorough for g=2), free-switch exploration of the body orders
    b = 1 if q else 2
    runs += ex(q, 'pf_one', b, ['s', 'a'], 1, type='i32', check=13, g=2, off=[0, 1], size=[5, 7], budget=200 if q else 900)
    runs += ex(q, 'pf_one', 1, ['s', 'a'], 1, type='i32', check=13, g=3, off=[0, 1, 2], size=[7, 10], budget=300)
    runs += ex(q, 'pf_one', 1, ['s', 'a'], 2, type='i32', check=13, g=2, off=[1] if q else [0, 1], size=[9])
    runs.append(one('pf_one', 0, type='i32', check=13, n=[1, 2], g=[2, 3], off=[0, 1, 2], size=[7, 10, 13], mode=['s', 'a'], wait=[1, 0], yield_=1, budget=200))
    runs.append(McRun(BIN, 'pf_one', {'type': 'i32', 'check': 13, 'n': 1, 'g': 2, 'off': '0.1', 'size': 9, 'mode': 's.a', 'wait': '1.0', 'yield': 1}, bound=0, mode='tsan', budget=100))
    runs.append(batch('i32', 'gran', 2, ['s', 'a'], gs=(2, 3), check=13, mode='asan', budget=100))
    return runs


reg('C13', level='model_checking', runs=c13_runs, quick_budget_s=240, thorough_budget_s=1200,
    technique='the real parallel_for under the dmc scheduler with a chunk-recording body: exhaustive (start offset, size) enumeration per granularity on the '
              'default schedule, plus schedule exploration of single calls',
    level_text='g in {2..9,16,64}: every start in [-g,g) (g=64: [0,g)) x every size 0..3g+1 (0..5g+1 on pools of 2 threads, g<=16) x {static, adaptive} x wait x pools of 1-2 threads on the default '
               'schedule (quick: g=16/64 on one pool size each), plus int64_t, uint8_t and minItemsPerChunk/maxThreads variations (thorough); g in {2,3}: every '
               'schedule with <=1 preemption (2 thorough for g=2) on the static and adaptive-nowait paths and every order of bodies on all paths. Oracle on the '
               'recorded chunks: at most one has a size that is not a multiple of g, and that one ends at the range end.',
    level_note='explicit chunk sizes are outside the statement',
    design_ref='DESIGN.md section 4, C13', assumptions=MC_ASSUME,
    rule='batch runs: one evaluation = one execution = one batch of calls; exploration runs: one evaluation = one execution of one call under one schedule',
    guards=[need_cover('granularity_tail', 'granular_chunks', 'multi_chunk', 'body_on_worker'), need_outcomes(10)])


# ---------------------------------------------------------------------------------------------- C14
def c14_runs(tier):
    q = tier == 'quick'
    runs = []
    S, G = [4, 5, 7], [1, 2, 4]
    M = ['s', 'a', 'c2']
    # preemptive exploration
    runs += ex(q, 'pf_state', 1, M, 1, cont='v', size=S, g=G, budget=300)
    runs += ex(q, 'pf_state', 1, ['s', 'a'] if q else M, 2, cont='v', size=5, g=2, budget=400)
    if not q:
        for c in ('l', 'd'):
            runs += ex(q, 'pf_state', 1, M, 1, cont=c, size=S, g=G, reuse=1, pre=2, budget=300)
        runs += ex(q, 'pf_state', 2, ['s', 'a'], 1, cont='v', size=5, g=2, budget=900)
        runs += ex(q, 'pf_state', 1, ['s', 'a'], 2, cont='v', size=7, g=[1, 4], budget=400)
    # free-switch exploration (every order of the bodies), all option combinations
    runs.append(one('pf_state', 0, cont='v', n=2, size=[5, 7] if q else S, g=G, mode=M, wait=[1, 0], yield_=1, budget=300))
    for c in ('v', 'l', 'd'):
        runs.append(one('pf_state', 0, cont=c, n=1, size=S, g=G, mode=M, wait=[1, 0], reuse=[0, 1], pre=[0, 3], yield_=1, budget=200))
    if not q:
        for c in ('l', 'd'):
            runs.append(one('pf_state', 0, cont=c, n=2, size=S, g=G, mode=M, wait=[1, 0], reuse=1, pre=1, yield_=1, budget=300))
        runs.append(one('pf_state', 0, cont='v', n=2, size=[5, 7], g=[1, 2], mode=M, wait=[1, 0], yield_=1, settle=0, cts=1, budget=300))
    runs.append(McRun(BIN, 'pf_state', {'cont': 'v', 'n': 1, 'size': 5, 'g': '1.2', 'mode': 's.a', 'wait': '1.0', 'yield': 1}, bound=0, mode='tsan', budget=100))
    runs.append(McRun(BIN, 'pf_state', {'cont': 'd', 'n': 2, 'size': 7, 'g': 2, 'mode': 'a', 'wait': 0, 'reuse': 1, 'pre': 3, 'yield': 1}, bound=0, mode='asan', budget=100))
    return runs


reg('C14', level='model_checking', runs=c14_runs, quick_budget_s=240, thorough_budget_s=1500,
    technique='stateless model checking of the stateful parallel_for overloads: the body brackets a scheduling point with an in-use counter on its state object',
    level_text='std::vector / std::list / std::deque states, range sizes {4,5,7}, granularity {1,2,4}, static / adaptive / explicit chunk 2, wait true/false, '
               'reuseExistingState true/false with 0-3 pre-existing states, pools of 1-2 threads: every schedule with <=1 preemption (2 in thorough for the '
               'static and adaptive shapes of size 5, g 2), and every order of the bodies (free switches at yields and blocking points) for all combinations. Oracle: the in-use counter of a state object never exceeds 1 before parallel_for (wait=true) / '
               'wait() (wait=false) returned; the container is non-empty afterwards; bodies cover the range.',
    level_note='pools of 2 threads at bound 1 on the shapes with a granularity tail; full option product under the free-switch exploration',
    design_ref='DESIGN.md section 4, C14', assumptions=MC_ASSUME,
    rule='one evaluation = one complete execution of one configuration (picked by mc::choose) under one schedule; distinct_nontrivial = distinct scheduler states with more than one continuation',
    guards=[need_cover('granularity_tail', 'concurrent_bodies', 'several_states_used', 'returned_before_wait', 'reused_existing_state'), need_outcomes(5)])


# ---------------------------------------------------------------------------------------------- C15
def c15_runs(tier):
    q = tier == 'quick'
    runs = []
    for n in (0, 1, 2):
        for w in (1, 0):
            runs.append(McRun(BIN, 'fe_batch', dict(n=n, wait=w, **{'yield': 1}), bound=0, opts=ONE, budget=40))
            if n:  # the same calls made from inside a task of the pool (the caller is a worker with a ring index)
                runs.append(McRun(BIN, 'fe_batch', dict(n=n, wait=w, nest=1, **{'yield': 1}), bound=0, opts=ONE, budget=40))
    A = dict(cont=['v', 'l', 'f'], cnt=[3, 4], wait=[1, 0], api=['n', 'e'])
    runs.append(one('fe_one', 1, n=1, mt=[2, 3] if q else [0, 1, 2, 3], budget=300, **A))
    runs.append(one('fe_one', 1, n=2, cont=['v', 'l', 'f'], cnt=3, mt=[2, 3], wait=[1, 0], api='n', opts=ONE if q else None, budget=400))
    runs.append(one('fe_one', 0, n=[1, 2], mt=[0, 1, 2, 3], yield_=1, budget=200, **A))
    if not q:
        runs.append(one('fe_one', 2, n=1, cont=['v', 'f'], cnt=3, mt=2, wait=[1, 0], api='n', budget=600))
        runs.append(one('fe_one', 0, n=[0, 3], cont=['v', 'l', 'f'], cnt=[3, 4], mt=[2, 3], wait=1, api='n', yield_=1, budget=300))
        runs.append(one('fe_one', 0, n=2, mt=[2, 3], yield_=1, settle=0, cts=1, budget=200, **A))
    runs.append(McRun(BIN, 'fe_one', {'n': 1, 'cont': 'v.l.f', 'cnt': 3, 'mt': 2, 'wait': '1.0', 'api': 'n', 'yield': 1}, bound=0, mode='tsan', budget=100))
    runs.append(McRun(BIN, 'fe_batch', {'n': 2, 'wait': 0, 'yield': 1}, bound=0, opts=ONE, mode='asan', budget=100))
    return runs


reg('C15', level='model_checking', runs=c15_runs, quick_budget_s=200, thorough_budget_s=1200,
    technique='the real for_each / for_each_n under the dmc scheduler with per-element counters: all small inputs on the default schedule, schedule exploration for n in {3,4}',
    level_text='std::vector (random access), std::list (bidirectional), std::forward_list (forward) x n in 0..6 (of n+2 elements) x maxThreads in {0,1,2,3} x wait x '
               'pools of 0/1/2 threads x {for_each, for_each_n} x {called from an external thread, called from inside a task of the pool}: every combination on the default schedule; n in {3,4}: every schedule with <=1 preemption '
               '(2 thorough on two shapes) and every order of the applications (free switches). Oracle: each of the first n elements visited exactly once, the '
               'others never; no application running or starting after for_each (wait=true) / wait() (wait=false) returned; a crash (SIGFPE) is a violation.',
    level_note='',
    design_ref='DESIGN.md section 4, C15', assumptions=MC_ASSUME,
    rule='fe_batch: one evaluation = one execution = all 168 calls of one (pool size, wait) pair; fe_one: one evaluation = one execution of one call under one schedule',
    guards=[need_cover('n_zero', 'applied', 'applied_on_worker', 'called_from_pool_thread', 'concurrent_applications', 'returned_before_wait'), need_outcomes(6)])


# ---------------------------------------------------------------------------------------------- C48
def c48_runs(tier):
    q = tier == 'quick'
    runs = []
    M = ['s', 'a', 'c2']
    # every order of the bodies (free switches): parallel_for
    runs.append(one('pf_one', 0, type='i32', check=48, n=1, mt=[0, 1, 2, 3], mode=M, wait=[1, 0], g=[1, 2], size=[4, 7], yield_=1, budget=100))
    runs.append(one('pf_one', 0, type='i32', check=48, n=2, mt=[0, 1, 2, 3], mode=M, wait=[1, 0], g=[1, 2], size=[7] if q else [4, 7], yield_=1, budget=300))
    runs.append(one('pf_one', 1, type='i32', check=48, n=3, mt=[2, 3, 4], mode=['s', 'c2'], wait=[1, 0], g=2 if q else [1, 2], size=7, yield_=1, opts=ONE, budget=300))
    runs.append(one('pf_one', 1, type='i32', check=48, n=3, mt=[2, 3, 4], mode='a', wait=[1, 0], g=2 if q else [1, 2], size=7, yield_=1, opts=dict(ONE, spin_own=1), budget=300))
    runs.append(one('pf_state', 0, check=48, cont='v', n=2, mt=[1, 2, 3], mode=M, wait=[1, 0], g=2, size=7, yield_=1, budget=200))
    # explicit chunk sizes on ranges no longer than the pool (+ the caller): the thread count is re-derived from the item count there
    runs.append(one('pf_state', 0, check=48, cont='v', n=3, mt=[2, 3], mode=['c1', 'c2'], wait=[1, 0], g=1, size=[3, 4], yield_=1, budget=200))
    # every order of the applications: for_each
    runs.append(one('fe_one', 0, check=48, n=[1, 2], cont=['v', 'l', 'f'], cnt=[4, 7], mt=[0, 1, 2, 3], wait=[1, 0], api='n', yield_=1, budget=200))
    runs.append(one('fe_one', 1, check=48, n=3, cont=['v', 'f'], cnt=7, mt=[2, 3, 4], wait=[1, 0], api='n', yield_=1, opts=ONE, budget=300))
    # preemptions
    runs += ex(q, 'pf_one', 1, ['s', 'a'], 2, type='i32', check=48, mt=2, g=[1, 2], size=5)
    runs.append(one('fe_one', 1, check=48, n=2, cont='v', cnt=4, mt=2, wait=[1, 0], api='n', opts=ONE if q else None, budget=300))
    if not q:
        runs.append(one('pf_one', 1, type='i32', check=48, n=2, mt=[2, 3], mode=['c2'], wait=[1, 0], size=5, budget=300))
        runs += ex(q, 'pf_one', 1, ['s', 'a'], 2, type='i32', check=48, mt=3, g=[1, 2], size=7)
        runs.append(one('pf_one', 2, type='i32', check=48, n=2, mt=2, mode='s', wait=0, g=2, size=5, budget=900))
        runs.append(one('fe_one', 1, check=48, n=2, cont=['l', 'f'], cnt=4, mt=2, wait=[1, 0], api='n', budget=300))
        runs.append(one('pf_one', 0, type='i32', check=48, n=2, mt=[2, 3], mode=M, wait=[1, 0], g=[1, 2], size=7, yield_=1, settle=0, cts=1, budget=200))
    runs.append(McRun(BIN, 'pf_one', {'type': 'i32', 'check': 48, 'n': 2, 'mt': 3, 'mode': 'a', 'wait': 1, 'size': 4, 'yield': 1}, bound=0, mode='tsan', budget=100))
    runs.append(McRun(BIN, 'fe_one', {'check': 48, 'n': 2, 'cont': 'l', 'cnt': 4, 'mt': 2, 'wait': 0, 'yield': 1}, bound=0, mode='asan', budget=100))
    return runs


reg('C48', level='model_checking', runs=c48_runs, quick_budget_s=240, thorough_budget_s=1500,
    technique='stateless model checking of parallel_for / for_each with an in-flight counter checked at every body entry',
    level_text='parallel_for (plain and stateful) and for_each with maxThreads in {0,1,2,3,N+1} on pools of N in {1,2,3} threads, static / adaptive / explicit chunk, '
               'wait true/false, granularity {1,2}, sizes {4,7}: every order of the body invocations (the body yields; switches at yields and blocking points are '
               'free; pools of 3 threads: at most one non-default switch) and every schedule with <=1 preemption (2 thorough on the static no-wait shape) on pools of 2 threads. Oracle: the number of body '
               'invocations in flight never exceeds max(1, maxThreads).',
    level_note='N=3 only with the yield exploration at one non-default switch (bound 2 there costs 2*10^5 executions per 6 configurations)',
    design_ref='DESIGN.md section 4, C48', assumptions=MC_ASSUME,
    rule='one evaluation = one complete execution of one configuration (picked by mc::choose) under one schedule; distinct_nontrivial = distinct scheduler states with more than one continuation',
    guards=[need_cover('concurrent_bodies', 'peak_equals_maxThreads', 'concurrent_applications', 'returned_before_wait', 'granularity_tail'), need_outcomes(5)])
