"""Appends the measured-cheap bound->=2 configurations of checks/promoted.json (written by bin/gen_promoted from thorough
runs) to the quick matrix of their property. Loaded last."""
import json, os
from specs import CHECKS, McRun

_P = os.path.join(os.path.dirname(os.path.abspath(__file__)), 'promoted.json')
_promoted = json.load(open(_P)) if (os.path.exists(_P) and not os.environ.get('VERIF_NO_PROMOTE')) else {}


def _wrap(pid, orig, extra):
    def runs(tier):
        rs = list(orig(tier))
        if tier == 'quick':
            have = set((r.bin, r.harness, json.dumps(r.params, sort_keys=True), r.bound, r.mode) for r in rs if isinstance(r, McRun))
            for x in extra:
                key = (x['bin'], x['harness'], json.dumps(x['params'], sort_keys=True), x['bound'], x['mode'])
                if key not in have:
                    rs.append(McRun(x['bin'], x['harness'], x['params'], bound=x['bound'], mode=x['mode'], opts=x['opts'],
                                    budget=max(30, int(4 * x.get('measured_wall_s', 10)))))
        return rs
    return runs


for _pid, _extra in _promoted.items():
    if _pid in CHECKS:
        CHECKS[_pid]['runs'] = _wrap(_pid, CHECKS[_pid]['runs'], _extra)
        CHECKS[_pid]['level_note'] = CHECKS[_pid].get('level_note', '') + ' The quick tier also runs %d configuration(s) of the thorough matrix at bound >= 2 that completed in a few seconds when measured (checks/promoted.json).' % len(_extra)
